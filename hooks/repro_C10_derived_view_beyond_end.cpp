// C10 / DESIGN 6 #11: checked build, derived view starting beyond the end of the buffer
#define SBEPP_ENABLE_ASSERTS_WITH_HANDLER
#include <vle/vle.hpp>
#include <sys/mman.h>
#include <cstdio>
#include <cstdlib>
namespace sbepp { [[noreturn]] void assertion_failed(char const* e, char const*, char const*, long l) { std::printf("handler invoked: %s (line %ld)\n", e, l); std::exit(0); } }
int main() {
    std::setvbuf(stdout, nullptr, _IONBF, 0);
    char* area = static_cast<char*>(mmap(nullptr, 8192, PROT_READ | PROT_WRITE, MAP_PRIVATE | MAP_ANONYMOUS, -1, 0));
    mprotect(area + 4096, 4096, PROT_NONE);          // guard page right behind the buffer
    char* p = area + 4096 - 12;                       // a 12-byte buffer: header (8) + 4 bytes
    vle::messages::flat<char> m{p, 12};
    sbepp::fill_message_header(m);                    // blockLength = 2: the group would start at p+10 ...
    sbepp::get_header(m).blockLength(100);            // ... the wire says 100: it starts at p+108 > p+12
    auto g = m.g();                                   // no access, no assertion needed
    std::printf("group view starts %td bytes behind the end of the buffer\n", sbepp::addressof(g) - (p + 12));
    std::printf("size() = %u\n", (unsigned)g.size()); // reads p+110 .. p+112: must be reported
    std::printf("returned normally: the handler was never invoked\n");
}
