// C10 observation (not a violation by the letter: the handler IS invoked, but too late):
// dynamic_array_ref::assign_range / assign(first, last) copy first and check afterwards
#define SBEPP_ENABLE_ASSERTS_WITH_HANDLER
#include <vle/vle.hpp>
#include <cstdio>
#include <cstdlib>
#include <cstring>
#include <vector>
static char area[64];
namespace sbepp { [[noreturn]] void assertion_failed(char const*, char const*, char const*, long l) {
    std::printf("handler invoked (sbepp.hpp:%ld) - bytes 20..23, behind the 20-byte buffer, are now %02x %02x %02x %02x (were aa)\n", l,
                (unsigned char)area[20], (unsigned char)area[21], (unsigned char)area[22], (unsigned char)area[23]);
    std::exit(0); } }
int main() {
    std::memset(area, 0xAA, sizeof area);
    vle::messages::flat<char> m{area, 20};   // header 8, x 2, group header 4, d1: uint32 length at 14..17 + room for 2 elements
    sbepp::fill_message_header(m);
    sbepp::fill_group_header(m.g(), 0);
    m.d1().resize(0);
    std::vector<std::uint8_t> six(6, 0x5a);
    m.d1().assign_range(six);                // 6 elements do not fit
    std::printf("returned normally\n");
}
