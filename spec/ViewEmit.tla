----------------------------- MODULE ViewEmit -----------------------------
(* Vector emission for replay (spec -> code).  Every expected value below  *)
(* is denotational (SbeImage): independent of the operational layer and of *)
(* the code under test.                                                    *)
EXTENDS View

LvPath(li) == LV[li].path

DecodeVector ==
  LET insts == Instances(MI, sh)
      gis == GroupInstances(MI, sh)
  IN [kind |-> "decode", msg |-> Msg(MI).name, v0 |-> V0, buf |-> buf,
      size |-> Len(MsgImage(MI, sh)), vs |-> sh.vs, ext |-> sh.ext,
      insts |-> [i \in 1 .. Len(insts) |->
         LET inst == insts[i]
             leaves == LLeaves[inst.li]
         IN [level |-> LvPath(inst.li), ip |-> inst.ip,
             addr |-> IF inst.li = 1 THEN V0 ELSE V0 + inst.a,
             size |-> IF inst.li = 1 THEN Len(MsgImage(MI, sh))
                      ELSE Len(LevelImage(MI, sh, inst.li, inst.ip)),
             leaves |-> [k \in 1 .. Len(leaves) |->
                [path |-> leaves[k].path,
                 val |-> LeafVal(sh, inst.li, k, inst.ip, leaves[k])]],
             data |-> [d \in 1 .. Len(LDef[inst.li].data) |->
                [name |-> LDef[inst.li].data[d].name,
                 addr |-> V0 + DenDataAddr(MI, sh, inst.li, inst.ip, inst.a, d),
                 val |-> DataVal(sh, inst.li, d, inst.ip),
                 size |-> Len(DataImage(MI, sh, inst.li, d, inst.ip))]]]],
      groups |-> [i \in 1 .. Len(gis) |->
         [level |-> LvPath(gis[i].pli), name |-> LDef[gis[i].gli].name,
          ip |-> gis[i].ip, addr |-> V0 + gis[i].ga, n |-> gis[i].n,
          size |-> Len(GroupImage(MI, sh, gis[i].gli, gis[i].ip)),
          bl |-> WireBL(MI, sh, gis[i].gli)]]]

EmitDecode == mode = "decode" => PrintT(ToJson(DecodeVector))

\* The API forms that leave a group header with blockLength, the counters and
\* numInGroup = n: fill_group_header(g, n), or fill_group_header with another
\* count followed by resize(n) / clear() ("resize/clear change only numInGroup").
GroupForms(n) == <<"fill", "fill_zero_then_resize", "fill_other_then_resize">>
                 \o (IF n = 0 THEN <<"fill_other_then_clear">> ELSE <<>>)

\* numInGroup arguments near the limits of the numInGroup type ("all numInGroup
\* arguments", C17): fill_group_header(g, n) writes the header only, whatever n
\* is - the entries are not touched - so every count the type can hold is a
\* legal argument.  Counts are little-endian digit sequences of the width of
\* the numInGroup member (TLC integers are 32-bit).
BigCounts(w) ==
  LET Z(k) == [i \in 1 .. k |-> 0]
  IN << [i \in 1 .. w |-> 255], <<200>> \o Z(w - 1) >>
     \o (IF w >= 2 THEN << <<0, 1>> \o Z(w - 2), <<44, 1>> \o Z(w - 2), <<255, 127>> \o Z(w - 2) >> ELSE <<>>)
     \o (IF w >= 4 THEN << <<0, 0, 1, 0>> \o Z(w - 4), <<112, 17, 1, 0>> \o Z(w - 4), <<0, 0, 0, 128>> \o Z(w - 4) >> ELSE <<>>)
     \o (IF w = 8 THEN << <<0, 0, 0, 0, 1, 0, 0, 0>>, <<1, 0, 0, 0, 0, 0, 0, 128>> >> ELSE <<>>)
\* the header fill with numInGroup given as digits
GroupHeaderFillB(g, nd) ==
  Put(CompImage(Dim(g), CounterNames, <<BlockLength(g), 0, Len(g.groups), Len(g.data)>>),
      CompMemberOff(Dim(g), "numInGroup"), Wire(nd))
BigFills(b, st) ==
  LET gli == ChildLi(MI, st.li, st.k)
      g == LDef[gli]
      at == OpGroupOf(b, st.li, st.ip, st.k)
      cs == BigCounts(CompMemberW(Dim(g), "numInGroup"))
  IN [i \in 1 .. Len(cs) |-> [n |-> cs[i], post |-> Overlay(b, GroupHeaderFillB(g, cs[i]), at)]]

\* The API forms through which the value `val` can be given to a <data> member.
\* Each is documented (dynamic_array_ref reference) to leave the container with
\* size() = Len(val) and these elements, i.e. the same length prefix and payload:
\* one "data" step of the script stands for any of them.
DataForms(val) ==
  <<"assign_range", "assign_it", "assign_input_it", "resize_then_set", "resize_v_then_set",
    "clear_push_back", "clear_insert_end", "clear_insert_range", "assign_n_then_set">>
  \o (IF Len(val) = 0 THEN <<"clear", "resize_0", "resize_0_default_init", "assign_empty_ilist">> ELSE <<>>)
  \o (IF Len(val) >= 1 /\ Len(val) <= 3 THEN <<"assign_ilist">> ELSE <<>>)
  \o (IF Len(val) >= 1 /\ \A i \in 1 .. Len(val) : val[i] = val[1] THEN <<"assign_n">> ELSE <<>>)
  \o (IF \A i \in 1 .. Len(val) : val[i] # 0 THEN <<"assign_string">> ELSE <<>>)
  \o (IF Len(val) >= 2 THEN <<"assign_tail_then_insert_front">> ELSE <<>>)

\* one vector per encode transition: pre-state, step with its arguments,
\* post-state.  (the post-state is the operational one; StepRefines has
\* checked it equal to the denotational one in the pre-state)
StepInfo(st) ==
  LET L == LDef[st.li]
  IN [op |-> st.op, level |-> LvPath(st.li), ip |-> st.ip,
      name |-> CASE st.op = "ghdr" -> L.groups[st.k].name
                 [] st.op = "data" -> L.data[st.k].name
                 [] OTHER -> "",
      leaf |-> IF st.op = "set" THEN LLeaves[st.li][st.k].path ELSE <<>>,
      val |-> CASE st.op = "set" -> LeafVal(sh, st.li, st.k, st.ip, LLeaves[st.li][st.k])
                [] st.op = "data" -> DataVal(sh, st.li, st.k, st.ip)
                [] OTHER -> <<>>,
      forms |-> CASE st.op = "data" -> DataForms(DataVal(sh, st.li, st.k, st.ip))
                  [] st.op = "ghdr" -> GroupForms(Cnt(sh, ChildLi(MI, st.li, st.k), st.ip))
                  [] OTHER -> <<>>,
      n |-> IF st.op = "ghdr" THEN Cnt(sh, ChildLi(MI, st.li, st.k), st.ip) ELSE 0,
      big |-> IF st.op = "ghdr" THEN BigFills(buf, st) ELSE <<>>,
      ret |-> CASE st.op = "mhdr" -> V0
                [] st.op = "ghdr" -> OpGroupOf(buf, st.li, st.ip, st.k)
                [] OTHER -> -1]

EmitEncode ==
  mode = "encode" =>
    PrintT(ToJson([kind |-> "encode", msg |-> Msg(MI).name, v0 |-> V0,
                   size |-> Len(buf) - 2 * Margin,
                   pre |-> buf, post |-> buf', step |-> StepInfo(last')]))
=============================================================================
