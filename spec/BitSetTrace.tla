---------------------------- MODULE BitSetTrace ----------------------------
(* Trace validation for BitSet: a log of calls made on a real generated    *)
(* set object (harness/c15_sets.cpp, record mode) must be a behaviour of   *)
(* BitSet.  Every event carries its arguments and the observed underlying  *)
(* value, so the search is linear.                                         *)
EXTENDS BitSet, IOUtils

VARIABLE l
Tr == ndJsonDeserialize(IOEnv.TRACE)

tvars == <<bits, ret, last, l>>

TraceInit == /\ l = 2
             /\ Tr[1].e = "Reset"
             /\ bits = FromBytes(Tr[1].val)
             /\ ret = Bytes(bits)
             /\ last = [op |-> "init"]

IsEvent(e) == l <= Len(Tr) /\ Tr[l].e = e /\ l' = l + 1

TrReset == IsEvent("Reset") /\ SetRaw(FromBytes(Tr[l].val))
TrRaw   == IsEvent("Raw") /\ SetRaw(FromBytes(Tr[l].val)) /\ ret' = Tr[l].val
TrSet   == IsEvent("Set") /\ SetChoice(Tr[l].i, Tr[l].b) /\ ret' = Tr[l].val
TrGet   == IsEvent("Get") /\ GetChoice(Tr[l].i) /\ ret' = Tr[l].ret /\ Bytes(bits') = Tr[l].val

TraceNext == TrReset \/ TrRaw \/ TrSet \/ TrGet
TraceSpec == TraceInit /\ [][TraceNext]_tvars

TraceAccepted == TLCGet("stats").diameter = Len(Tr)
\* when rejected, print how far we got (longest matched prefix)
Progress == IF l > Len(Tr) THEN TRUE ELSE TRUE
=============================================================================
