------------------------------- MODULE Files -------------------------------
(* A schema distributed over files (<xi:include href=...>).                *)
(*                                                                         *)
(* Document model.  A *tree* is a sequence of files, file 1 being the      *)
(* document given to sbeppc.  A file is a sequence of items:               *)
(*     a <types> block   - the indices (into S.types) of the types it holds *)
(*     a <message>       - an index into S.messages                        *)
(*     an <xi:include>   - the index of the file it names                  *)
(* XInclude semantics (doc/sbeppc.md, SBE 1.0 section "XML include"): the  *)
(* include element stands for the content of the named file; the schema a  *)
(* tree denotes is the in-order flattening from file 1 (Merged).  Every    *)
(* rule of Rules.tla, every layout of Sbe.tla is a statement about that    *)
(* merged schema - so sbeppc's verdict must not depend on how the schema   *)
(* is cut into files (SchemaGen!SplitKeepsVerdict checks this of the rule  *)
(* set itself: Valid is invariant under the permutations of S.types and    *)
(* S.messages that a distribution induces).                                *)
(*                                                                         *)
(* Plans(nt, nm, ct, cm) is the scope: the distributions of nt types and   *)
(* nm messages that are explored, given a cut ct in the type list (types   *)
(* 1..ct on one side, the rest on the other - chosen by the caller between *)
(* two colliding names where there are any) and a cut cm in the messages.  *)
EXTENDS Integers, Sequences, FiniteSets

TypesItem(ix) == [k |-> "types", ix |-> ix, f |-> 0]
MsgItem(m)    == [k |-> "msg", ix |-> <<m>>, f |-> 0]
IncItem(f)    == [k |-> "inc", ix |-> <<>>, f |-> f]

Rng(lo, hi) == [i \in 1 .. (IF hi >= lo THEN hi - lo + 1 ELSE 0) |-> lo + i - 1]
Msgs(lo, hi) == [i \in 1 .. (IF hi >= lo THEN hi - lo + 1 ELSE 0) |-> MsgItem(lo + i - 1)]

RECURSIVE CatFrom(_, _)
CatFrom(ss, k) == IF k > Len(ss) THEN <<>> ELSE ss[k] \o CatFrom(ss, k + 1)

\* in-order flattening of file f: type indices / message indices as the
\* reader meets them (fuel bounds the include depth: a tree is finite)
RECURSIVE FlatOf(_, _, _, _)
FlatOf(tree, f, what, fuel) ==
  IF fuel = 0 THEN <<>>
  ELSE CatFrom([j \in 1 .. Len(tree[f]) |->
         LET it == tree[f][j]
         IN CASE it.k = "inc" -> FlatOf(tree, it.f, what, fuel - 1)
              [] it.k = what -> it.ix
              [] OTHER -> <<>>], 1)
FlatTypes(tree) == FlatOf(tree, 1, "types", Len(tree))
FlatMsgs(tree) == FlatOf(tree, 1, "msg", Len(tree))

IsPerm(s, n) == Len(s) = n /\ {s[i] : i \in 1 .. Len(s)} = 1 .. n

Includes(tree) == CatFrom([f \in 1 .. Len(tree) |->
                    SelectSeq(tree[f], LAMBDA it : it.k = "inc")], 1)

\* every file but the first is included exactly once, from a file with a
\* smaller index (no cycles), and the flattening loses and duplicates nothing
WellFormed(tree, nt, nm) ==
  /\ Len(tree) >= 1
  /\ \A f \in 2 .. Len(tree) :
       Len(SelectSeq(Includes(tree), LAMBDA it : it.f = f)) = 1
  /\ \A f \in 1 .. Len(tree) : \A j \in 1 .. Len(tree[f]) :
       tree[f][j].k = "inc" => tree[f][j].f \in (f + 1) .. Len(tree)
  /\ IsPerm(FlatTypes(tree), nt)
  /\ IsPerm(FlatMsgs(tree), nm)

\* the schema the tree denotes
Merged(S, tree) ==
  LET ft == FlatTypes(tree)
      fm == FlatMsgs(tree)
  IN [S EXCEPT !.types = [i \in 1 .. Len(ft) |-> S.types[ft[i]]],
               !.messages = [i \in 1 .. Len(fm) |-> S.messages[fm[i]]]]

Plan(name, tree) == [name |-> name, tree |-> tree]

Plans(nt, nm, ct, cm) ==
  LET all == Msgs(1, nm)
      A == Rng(1, ct)
      Bt == Rng(ct + 1, nt)
  IN << Plan("two-types-blocks", << <<TypesItem(A), TypesItem(Bt)>> \o all >>),
        Plan("tail-types-included-after", << <<TypesItem(A), IncItem(2)>> \o all, <<TypesItem(Bt)>> >>),
        Plan("tail-types-included-before", << <<IncItem(2), TypesItem(A)>> \o all, <<TypesItem(Bt)>> >>),
        Plan("head-types-included-after", << <<TypesItem(Bt), IncItem(2)>> \o all, <<TypesItem(A)>> >>),
        Plan("two-includes", << <<IncItem(2), IncItem(3)>> \o all, <<TypesItem(A)>>, <<TypesItem(Bt)>> >>),
        Plan("two-includes-reversed", << <<IncItem(3), IncItem(2)>> \o all, <<TypesItem(A)>>, <<TypesItem(Bt)>> >>),
        Plan("chain", << <<IncItem(2)>> \o all, <<TypesItem(A), IncItem(3)>>, <<TypesItem(Bt)>> >>),
        Plan("chain-include-first", << <<IncItem(2)>> \o all, <<IncItem(3), TypesItem(A)>>, <<TypesItem(Bt)>> >>),
        Plan("messages-included-last",
             << <<TypesItem(Rng(1, nt))>> \o Msgs(1, cm) \o <<IncItem(2)>>, Msgs(cm + 1, nm) >>),
        Plan("messages-included-first",
             << <<TypesItem(Rng(1, nt)), IncItem(2)>> \o Msgs(1, cm), Msgs(cm + 1, nm) >>),
        Plan("types-and-messages-included",
             << <<IncItem(2), IncItem(3)>>, <<TypesItem(Rng(1, nt))>>, all >>) >>
=============================================================================
