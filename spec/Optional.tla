----------------------------- MODULE Optional -----------------------------
(* Optional / required scalar types (C16).                                 *)
(*                                                                         *)
(* TLC integers are 32-bit and the scalars go up to 64 bits and IEEE       *)
(* doubles, so a value is a *symbolic token* of a per-primitive boundary   *)
(* set with an explicit order (Rank); the exact number a token stands for  *)
(* is carried along as text (decimal for integers, C99 hex-float for FP)   *)
(* and never interpreted by TLC.                                           *)
(*                                                                         *)
(* Sources of the reference definitions (none of them is the code):        *)
(*  - doc comments of required_base / optional_base: default ctor of a     *)
(*    required type value-initialises, default / nullopt ctor of an        *)
(*    optional "constructs null object"; has_value / operator bool "checks *)
(*    if has value"; value_or "returns value if not null, default_value    *)
(*    otherwise"; in_range "checks if value is in [min_value, max_value]"; *)
(*    required comparisons "are performed on underlying values"; optional  *)
(*    comparisons: "the contained values are compared only if both lhs and *)
(*    rhs are not null. Otherwise lhs is equal to rhs iff both are null,   *)
(*    lhs is less than rhs iff rhs is not null and lhs is null";           *)
(*  - IEEE 754 for the underlying FP order (NaN unordered, -0 = +0);       *)
(*  - the SBE standard's table of minValue/maxValue/nullValue per          *)
(*    primitive type (SbeDefault below).                                   *)
(*                                                                         *)
(* The machine: two objects a, b of one scalar type; the actions are the   *)
(* public ways to give an object a value (default ctor, nullopt ctor,      *)
(* ctor from value, assignment through dereference).  Every reachable state *)
(* (an ordered pair of objects) is emitted as one vector carrying the      *)
(* expected result of every observer.                                      *)
EXTENDS Naturals, Sequences, FiniteSets, TLC, Json

CONSTANTS Prims,        \* primitive type names explored by this run
          FpMinReadings \* admissible readings of the default minValue of
                        \* float/double, see SbeDefault

VARIABLES prim,     \* primitive type name
          flav,     \* flavour record (which C++ type: built-in / generated, attributes given)
          variant,  \* reading of a default the standard leaves open ("std" if none)
          a, b,     \* the two objects: a token (holds that value), "DEFAULT" or "NULLOPT"
          last      \* ghost: last action

vars == <<prim, flav, variant, a, b, last>>
view == <<prim, flav, variant, a, b>>

\* ------------------------------------------------------------- domains --
Signed == {"int8", "int16", "int32", "int64"}
Unsigned == {"uint8", "uint16", "uint32", "uint64"}
Fp == {"float", "double"}
AllPrims == Signed \cup Unsigned \cup Fp \cup {"char"}

Kind(p) == IF p \in Signed THEN "signed" ELSE IF p \in Unsigned THEN "unsigned"
           ELSE IF p \in Fp THEN "fp" ELSE "char"

\* boundary tokens in ascending numeric order (FP: nzero/zero share a rank,
\* nan has none)
SignedToks == <<"tmin", "min", "m1", "zero", "p1", "max">>          \* max = type maximum
UnsignedToks == <<"zero", "p1", "half", "max", "tmax">>             \* half = 2^(w-1), max = tmax-1
CharToks == <<"tmin", "m1", "zero", "p1", "min", "max", "tmax">>    \* char is a signed 8-bit type here
FpToks == <<"ninf", "lowest", "m1", "nzero", "zero", "minpos", "p1", "max", "pinf", "nan">>

Toks(k) == IF k = "signed" THEN SignedToks ELSE IF k = "unsigned" THEN UnsignedToks
           ELSE IF k = "char" THEN CharToks ELSE FpToks
TokSet(k) == {Toks(k)[i] : i \in 1 .. Len(Toks(k))}

FpRank == [ninf |-> 0, lowest |-> 1, m1 |-> 2, nzero |-> 3, zero |-> 3, minpos |-> 4,
           p1 |-> 5, max |-> 6, pinf |-> 7, nan |-> 99]
Rank(k, t) == IF k = "fp" THEN FpRank[t]
              ELSE CHOOSE i \in 1 .. Len(Toks(k)) : Toks(k)[i] = t

\* exact value of every token (never interpreted here)
Txt ==
  [char   |-> [tmin |-> "-128", m1 |-> "-1", zero |-> "0", p1 |-> "1", min |-> "32", max |-> "126", tmax |-> "127"],
   int8   |-> [tmin |-> "-128", min |-> "-127", m1 |-> "-1", zero |-> "0", p1 |-> "1", max |-> "127"],
   int16  |-> [tmin |-> "-32768", min |-> "-32767", m1 |-> "-1", zero |-> "0", p1 |-> "1", max |-> "32767"],
   int32  |-> [tmin |-> "-2147483648", min |-> "-2147483647", m1 |-> "-1", zero |-> "0", p1 |-> "1", max |-> "2147483647"],
   int64  |-> [tmin |-> "-9223372036854775808", min |-> "-9223372036854775807", m1 |-> "-1", zero |-> "0", p1 |-> "1",
               max |-> "9223372036854775807"],
   uint8  |-> [zero |-> "0", p1 |-> "1", half |-> "128", max |-> "254", tmax |-> "255"],
   uint16 |-> [zero |-> "0", p1 |-> "1", half |-> "32768", max |-> "65534", tmax |-> "65535"],
   uint32 |-> [zero |-> "0", p1 |-> "1", half |-> "2147483648", max |-> "4294967294", tmax |-> "4294967295"],
   uint64 |-> [zero |-> "0", p1 |-> "1", half |-> "9223372036854775808", max |-> "18446744073709551614",
               tmax |-> "18446744073709551615"],
   float  |-> [ninf |-> "-inf", lowest |-> "-0x1.fffffep+127", m1 |-> "-0x1p+0", nzero |-> "-0x0p+0", zero |-> "0x0p+0",
               minpos |-> "0x1p-126", p1 |-> "0x1p+0", max |-> "0x1.fffffep+127", pinf |-> "inf", nan |-> "nan"],
   double |-> [ninf |-> "-inf", lowest |-> "-0x1.fffffffffffffp+1023", m1 |-> "-0x1p+0", nzero |-> "-0x0p+0",
               zero |-> "0x0p+0", minpos |-> "0x1p-1022", p1 |-> "0x1p+0", max |-> "0x1.fffffffffffffp+1023",
               pinf |-> "inf", nan |-> "nan"]]

\* the same numbers as XML Schema lexemes (what a schema author writes in
\* minValue / maxValue / nullValue); integers: the decimal text itself
FpXml ==
  [float  |-> [ninf |-> "-INF", lowest |-> "-3.4028234663852886e+38", m1 |-> "-1", nzero |-> "-0.0", zero |-> "0",
               minpos |-> "1.1754943508222875e-38", p1 |-> "1", max |-> "3.4028234663852886e+38", pinf |-> "INF",
               nan |-> "NaN"],
   double |-> [ninf |-> "-INF", lowest |-> "-1.7976931348623157e+308", m1 |-> "-1", nzero |-> "-0.0", zero |-> "0",
               minpos |-> "2.2250738585072014e-308", p1 |-> "1", max |-> "1.7976931348623157e+308", pinf |-> "INF",
               nan |-> "NaN"]]
\* other XML Schema spellings of the same numbers (a sign on +INF and on finite
\* values, a fraction part, an exponent): the optional flavours are written
\* with these, the required ones with the spellings above
FpXmlAlt == [pinf |-> "+INF", p1 |-> "+1.0", m1 |-> "-1.0e0", zero |-> "0.0E+0"]
Xml(p, t) == IF t = "" THEN "" ELSE IF p \in Fp THEN FpXml[p][t] ELSE Txt[p][t]
XmlF(p, t, opt) == IF opt /\ p \in Fp /\ t \in DOMAIN FpXmlAlt THEN FpXmlAlt[t] ELSE Xml(p, t)

\* ------------------------------------------- SBE defaults (the standard) --
\* char 0x20..0x7e null 0; intN -(2^(N-1)-1)..2^(N-1)-1 null -2^(N-1);
\* uintN 0..2^N-2 null 2^N-1; float/double: null NaN, maxValue the largest
\* finite value.  The numeric minValue of float/double is the one entry for
\* which no normative number could be established offline: the admissible
\* readings are a CONSTANT (FpMinReadings: "lowest" = -max, the reading under
\* which the range contains zero; "minpos" = smallest positive normal, the
\* C/C++ <limits> "min") and the observed reading selects the `variant`.
SbeDefault(k) ==
  IF k = "signed" THEN [min |-> {"min"}, max |-> "max", null |-> "tmin"]
  ELSE IF k = "unsigned" THEN [min |-> {"zero"}, max |-> "max", null |-> "tmax"]
  ELSE IF k = "char" THEN [min |-> {"min"}, max |-> "max", null |-> "zero"]
  ELSE [min |-> FpMinReadings, max |-> "max", null |-> "nan"]

\* ------------------------------------------------------------- flavours --
\* explicit attribute sets per kind ("" = attribute absent from the schema)
\*  A: all three explicit, null strictly inside [min,max] (or above min)
\*  B: the type extremes as explicit literals
\*  C: only nullValue explicit    D: only minValue explicit
Exp(k) ==
  IF k = "signed" THEN
     [A |-> [min |-> "m1", max |-> "p1", null |-> "zero"], B |-> [min |-> "tmin", max |-> "max", null |-> "p1"],
      C |-> [min |-> "", max |-> "", null |-> "max"],      D |-> [min |-> "m1", max |-> "", null |-> ""]]
  ELSE IF k = "unsigned" THEN
     [A |-> [min |-> "p1", max |-> "max", null |-> "half"], B |-> [min |-> "zero", max |-> "tmax", null |-> "p1"],
      C |-> [min |-> "", max |-> "", null |-> "zero"],      D |-> [min |-> "p1", max |-> "", null |-> ""]]
  ELSE IF k = "char" THEN
     [A |-> [min |-> "m1", max |-> "min", null |-> "p1"],  B |-> [min |-> "tmin", max |-> "tmax", null |-> "m1"],
      C |-> [min |-> "", max |-> "", null |-> "max"],       D |-> [min |-> "zero", max |-> "", null |-> ""]]
  ELSE
     [A |-> [min |-> "m1", max |-> "max", null |-> "p1"],  B |-> [min |-> "ninf", max |-> "pinf", null |-> "nan"],
      C |-> [min |-> "", max |-> "", null |-> "ninf"],      D |-> [min |-> "lowest", max |-> "", null |-> ""]]

Flav(name, origin, opt, e) ==
  [name |-> name, origin |-> origin, opt |-> opt, xmin |-> e.min, xmax |-> e.max,
   xnull |-> IF opt THEN e.null ELSE ""]
None == [min |-> "", max |-> "", null |-> ""]

Flavours(k) ==
  {Flav("builtin_req", "builtin", FALSE, None), Flav("builtin_opt", "builtin", TRUE, None),
   Flav("def_req", "schema", FALSE, None),      Flav("def_opt", "schema", TRUE, None),
   Flav("expA_req", "schema", FALSE, Exp(k).A), Flav("expA_opt", "schema", TRUE, Exp(k).A),
   Flav("expB_req", "schema", FALSE, Exp(k).B), Flav("expB_opt", "schema", TRUE, Exp(k).B),
   Flav("expC_opt", "schema", TRUE, Exp(k).C),  Flav("expD_req", "schema", FALSE, Exp(k).D)}

Variants(k, f) == IF f.xmin = "" THEN (IF Cardinality(SbeDefault(k).min) = 1 THEN {"std"} ELSE SbeDefault(k).min)
                  ELSE {"std"}

\* effective attributes of a type: explicit ones exactly, else the defaults
MinTok(k, f, v) == IF f.xmin # "" THEN f.xmin
                   ELSE IF v = "std" THEN CHOOSE t \in SbeDefault(k).min : TRUE ELSE v
MaxTok(k, f) == IF f.xmax # "" THEN f.xmax ELSE SbeDefault(k).max
NullTok(k, f) == IF f.xnull # "" THEN f.xnull ELSE SbeDefault(k).null   \* meaningful iff f.opt

\* ------------------------------------------- order on underlying values --
Ordered(k, x) == ~(k = "fp" /\ x = "nan")
Both(k, x, y) == Ordered(k, x) /\ Ordered(k, y)
NEq(k, x, y) == Both(k, x, y) /\ Rank(k, x) = Rank(k, y)
NNe(k, x, y) == ~NEq(k, x, y)
NLt(k, x, y) == Both(k, x, y) /\ Rank(k, x) < Rank(k, y)
NLe(k, x, y) == Both(k, x, y) /\ Rank(k, x) <= Rank(k, y)
NGt(k, x, y) == Both(k, x, y) /\ Rank(k, x) > Rank(k, y)
NGe(k, x, y) == Both(k, x, y) /\ Rank(k, x) >= Rank(k, y)

\* --------------------------------------------- objects and their values --
Objs(k, f) == TokSet(k) \cup (IF f.opt THEN {"DEFAULT", "NULLOPT"} ELSE {"DEFAULT"})

\* the value an object holds
Val(k, f, o) == IF o = "NULLOPT" THEN NullTok(k, f)
                ELSE IF o = "DEFAULT" THEN (IF f.opt THEN NullTok(k, f) ELSE "zero")
                ELSE o

\* a value is null iff it is the null value; when the null value is NaN, "is
\* the null value" cannot mean IEEE equality (NaN equals nothing): it means
\* "is NaN"
IsNull(k, f, x) == IF NullTok(k, f) = "nan" THEN x = "nan" ELSE NEq(k, x, NullTok(k, f))
HasValue(k, f, x) == ~IsNull(k, f, x)
ValueOr(k, f, x, d) == IF HasValue(k, f, x) THEN x ELSE d
InRange(k, f, v, x) == NLe(k, MinTok(k, f, v), x) /\ NLe(k, x, MaxTok(k, f))

\* comparisons of two values of the type (required: underlying; optional:
\* the null rules first)
AnyNull(k, f, x, y) == f.opt /\ (IsNull(k, f, x) \/ IsNull(k, f, y))
CEq(k, f, x, y) == IF AnyNull(k, f, x, y) THEN IsNull(k, f, x) /\ IsNull(k, f, y) ELSE NEq(k, x, y)
CNe(k, f, x, y) == ~CEq(k, f, x, y)
CLt(k, f, x, y) == IF AnyNull(k, f, x, y) THEN IsNull(k, f, x) /\ ~IsNull(k, f, y) ELSE NLt(k, x, y)
CLe(k, f, x, y) == IF AnyNull(k, f, x, y) THEN IsNull(k, f, x) ELSE NLe(k, x, y)
CGt(k, f, x, y) == IF AnyNull(k, f, x, y) THEN IsNull(k, f, y) /\ ~IsNull(k, f, x) ELSE NGt(k, x, y)
CGe(k, f, x, y) == IF AnyNull(k, f, x, y) THEN IsNull(k, f, y) ELSE NGe(k, x, y)
ThreeWay(k, f, x, y) == IF CEq(k, f, x, y) THEN "equal" ELSE IF CLt(k, f, x, y) THEN "less"
                        ELSE IF CGt(k, f, x, y) THEN "greater" ELSE "unordered"

\* argument class used in failure signatures
Cls(k, f, x) == IF f.opt /\ IsNull(k, f, x) THEN "null" ELSE IF ~Ordered(k, x) THEN "nan" ELSE "val"

\* ------------------------------------------------------------- machine --
K == Kind(prim)

Init == /\ prim \in Prims
        /\ flav \in Flavours(Kind(prim))
        /\ variant \in Variants(Kind(prim), flav)
        /\ a = "DEFAULT" /\ b = "DEFAULT"
        /\ last = [op |-> "init", obj |-> "", arg |-> ""]

Frame == UNCHANGED <<prim, flav, variant>>

\* T x{v};   (and, same abstract effect,  *x = v;)
ConstructA(t) == a' = t /\ UNCHANGED b /\ Frame /\ last' = [op |-> "ctor", obj |-> "a", arg |-> t]
ConstructB(t) == b' = t /\ UNCHANGED a /\ Frame /\ last' = [op |-> "ctor", obj |-> "b", arg |-> t]
\* T x{sbepp::nullopt};
NulloptA == flav.opt /\ a' = "NULLOPT" /\ UNCHANGED b /\ Frame /\ last' = [op |-> "nullopt", obj |-> "a", arg |-> ""]
NulloptB == flav.opt /\ b' = "NULLOPT" /\ UNCHANGED a /\ Frame /\ last' = [op |-> "nullopt", obj |-> "b", arg |-> ""]
\* T x{};
DefaultA == a' = "DEFAULT" /\ UNCHANGED b /\ Frame /\ last' = [op |-> "default", obj |-> "a", arg |-> ""]
DefaultB == b' = "DEFAULT" /\ UNCHANGED a /\ Frame /\ last' = [op |-> "default", obj |-> "b", arg |-> ""]

Next == \/ \E t \in TokSet(K) : ConstructA(t) \/ ConstructB(t)
        \/ NulloptA \/ NulloptB \/ DefaultA \/ DefaultB

Spec == Init /\ [][Next]_vars

\* ---------------------------------------------------------- properties --
va == Val(K, flav, a)
vb == Val(K, flav, b)
B2N(x) == IF x THEN 1 ELSE 0

TypeOK == /\ prim \in AllPrims
          /\ flav \in Flavours(K)
          /\ a \in Objs(K, flav) /\ b \in Objs(K, flav)
          /\ va \in TokSet(K) /\ vb \in TokSet(K)
          /\ MinTok(K, flav, variant) \in TokSet(K) /\ MaxTok(K, flav) \in TokSet(K)
          /\ flav.opt => NullTok(K, flav) \in TokSet(K)

\* default- and nullopt-constructed optionals are null; default-constructed
\* required holds zero
ConstructedNull == /\ flav.opt /\ a \in {"DEFAULT", "NULLOPT"} => ~HasValue(K, flav, va)
                   /\ ~flav.opt /\ a = "DEFAULT" => va = "zero"

\* underlying order: trichotomy away from NaN, NaN unordered, <= and >= split
Trichotomy == Both(K, va, vb) =>
                B2N(NLt(K, va, vb)) + B2N(NEq(K, va, vb)) + B2N(NGt(K, va, vb)) = 1
NaNUnordered == ~Both(K, va, vb) =>
                  /\ ~NLt(K, va, vb) /\ ~NLe(K, va, vb) /\ ~NGt(K, va, vb) /\ ~NGe(K, va, vb)
                  /\ ~NEq(K, va, vb) /\ NNe(K, va, vb)
LeSplit == /\ NLe(K, va, vb) <=> (NLt(K, va, vb) \/ NEq(K, va, vb))
           /\ NGe(K, va, vb) <=> (NGt(K, va, vb) \/ NEq(K, va, vb))
           /\ CLe(K, flav, va, vb) <=> (CLt(K, flav, va, vb) \/ CEq(K, flav, va, vb))
           /\ CGe(K, flav, va, vb) <=> (CGt(K, flav, va, vb) \/ CEq(K, flav, va, vb))

\* the documented null rules
NullIsLeast == (flav.opt /\ IsNull(K, flav, va) /\ ~IsNull(K, flav, vb)) =>
                 /\ CLt(K, flav, va, vb) /\ CLe(K, flav, va, vb) /\ CNe(K, flav, va, vb)
                 /\ ~CGt(K, flav, va, vb) /\ ~CGe(K, flav, va, vb) /\ ~CEq(K, flav, va, vb)
                 /\ CGt(K, flav, vb, va) /\ ~CLe(K, flav, vb, va)
NullEqualsNull == (flav.opt /\ IsNull(K, flav, va) /\ IsNull(K, flav, vb)) =>
                    /\ CEq(K, flav, va, vb) /\ CLe(K, flav, va, vb) /\ CGe(K, flav, va, vb)
                    /\ ~CNe(K, flav, va, vb) /\ ~CLt(K, flav, va, vb) /\ ~CGt(K, flav, va, vb)
NullEqualsOnlyNull == flav.opt => (CEq(K, flav, va, vb) /\ IsNull(K, flav, va) => IsNull(K, flav, vb))
ValuesCompareUnderlying ==
  ~AnyNull(K, flav, va, vb) =>
     /\ CEq(K, flav, va, vb) = NEq(K, va, vb) /\ CNe(K, flav, va, vb) = NNe(K, va, vb)
     /\ CLt(K, flav, va, vb) = NLt(K, va, vb) /\ CLe(K, flav, va, vb) = NLe(K, va, vb)
     /\ CGt(K, flav, va, vb) = NGt(K, va, vb) /\ CGe(K, flav, va, vb) = NGe(K, va, vb)

\* the six operators are mutually consistent
Duality == /\ CGt(K, flav, va, vb) = CLt(K, flav, vb, va)
           /\ CGe(K, flav, va, vb) = CLe(K, flav, vb, va)
           /\ CEq(K, flav, va, vb) = CEq(K, flav, vb, va)
           /\ CNe(K, flav, va, vb) = ~CEq(K, flav, va, vb)
\* a total preorder unless a NaN takes part as a *value*
IsNaNValue(x) == ~Ordered(K, x) /\ ~(flav.opt /\ IsNull(K, flav, x))
TotalAwayFromNaN == (~IsNaNValue(va) /\ ~IsNaNValue(vb)) =>
     B2N(CLt(K, flav, va, vb)) + B2N(CEq(K, flav, va, vb)) + B2N(CGt(K, flav, va, vb)) = 1
Transitive == \A c \in Objs(K, flav) :
     LET vc == Val(K, flav, c) IN
     /\ (CLt(K, flav, va, vb) /\ CLt(K, flav, vb, vc)) => CLt(K, flav, va, vc)
     /\ (CEq(K, flav, va, vb) /\ CEq(K, flav, vb, vc)) => CEq(K, flav, va, vc)
     /\ (CLe(K, flav, va, vb) /\ CLe(K, flav, vb, vc)) => CLe(K, flav, va, vc)

ValueOrLaw == flav.opt =>
     /\ HasValue(K, flav, va) => ValueOr(K, flav, va, vb) = va
     /\ ~HasValue(K, flav, va) => ValueOr(K, flav, va, vb) = vb

\* the standard's defaults are sane: min <= max, both are values and in
\* range, null lies outside the range
DefaultsSane ==
  (flav.xmin = "" /\ flav.xmax = "" /\ flav.xnull = "") =>
     /\ NLe(K, MinTok(K, flav, variant), MaxTok(K, flav))
     /\ InRange(K, flav, variant, MinTok(K, flav, variant)) /\ InRange(K, flav, variant, MaxTok(K, flav))
     /\ flav.opt => /\ ~InRange(K, flav, variant, NullTok(K, flav))
                    /\ HasValue(K, flav, MinTok(K, flav, variant)) /\ HasValue(K, flav, MaxTok(K, flav))

\* giving one object a value never changes the other one, nor the type
FrameProp == [][/\ (last'.obj = "a" => b' = b) /\ (last'.obj = "b" => a' = a)
                /\ prim' = prim /\ flav' = flav /\ variant' = variant]_vars

\* ------------------------------------------------------ vector emission --
PairVector ==
  [kind |-> "pair", prim |-> prim, flavour |-> flav.name, opt |-> flav.opt, variant |-> variant,
   a |-> a, b |-> b, aval |-> Txt[prim][va], bval |-> Txt[prim][vb],
   acls |-> Cls(K, flav, va), bcls |-> Cls(K, flav, vb),
   hv  |-> IF flav.opt THEN HasValue(K, flav, va) ELSE TRUE,            \* meaningful iff opt
   vor |-> IF flav.opt THEN Txt[prim][ValueOr(K, flav, va, vb)] ELSE "", \* a.value_or(value of b)
   inr |-> InRange(K, flav, variant, va),
   eq |-> CEq(K, flav, va, vb), ne |-> CNe(K, flav, va, vb),
   lt |-> CLt(K, flav, va, vb), le |-> CLe(K, flav, va, vb),
   gt |-> CGt(K, flav, va, vb), ge |-> CGe(K, flav, va, vb),
   tw |-> ThreeWay(K, flav, va, vb)]

\* one per (prim, flavour): what the schema says, and what min/max/null the
\* type must therefore expose (per admissible variant)
TypeVector ==
  [kind |-> "type", prim |-> prim, flavour |-> flav.name, opt |-> flav.opt, origin |-> flav.origin,
   variant |-> variant,
   xml_min |-> XmlF(prim, flav.xmin, flav.opt), xml_max |-> XmlF(prim, flav.xmax, flav.opt),
   xml_null |-> XmlF(prim, flav.xnull, flav.opt),
   min |-> Txt[prim][MinTok(K, flav, variant)], max |-> Txt[prim][MaxTok(K, flav)],
   null |-> IF flav.opt THEN Txt[prim][NullTok(K, flav)] ELSE "",
   \* a schema type that gives none of the attributes exposes what the
   \* built-in type of that primitive and presence exposes
   same_as |-> IF flav.origin = "schema" /\ flav.xmin = "" /\ flav.xmax = "" /\ flav.xnull = ""
               THEN (IF flav.opt THEN "builtin_opt" ELSE "builtin_req") ELSE ""]

\* an INVARIANT is evaluated once per distinct state (VIEW hides `last`)
Emit == /\ PrintT(ToJson(PairVector))
        /\ (a = "DEFAULT" /\ b = "DEFAULT") => PrintT(ToJson(TypeVector))
=============================================================================
