-------------------------------- MODULE Sbe --------------------------------
(* The SBE wire format as data: schema record -> layout -> wire image.     *)
(* This module is the *denotational* layer (DESIGN.md 2.1-2.3): it defines *)
(* what the bytes of a message are, by structural recursion on the schema. *)
(* It knows nothing about views, cursors, accessors or sbeppc.             *)
(*                                                                         *)
(* Numbers on the wire are little-endian base-256 digit sequences          *)
(* (TLC integers are 32-bit); byte order is sequence reversal.             *)
EXTENDS Naturals, Integers, Sequences, FiniteSets, TLC, SequencesExt, Functions

CONSTANT S          \* the schema (record, see tools/schema.py normalize)

Hole == -1          \* a byte position no member owns (padding, gaps)

----------------------------------------------------------------------------
(* Bytes *)
RECURSIVE Pow256(_)
Pow256(n) == IF n = 0 THEN 1 ELSE 256 * Pow256(n - 1)

\* little-endian digits of a natural number (value must fit TLC's int)
FromNat(v, w) == [k \in 1 .. w |-> IF k > 4 THEN 0 ELSE (v \div Pow256(k - 1)) % 256]

\* natural number of a little-endian digit sequence; guarded: only used when
\* the value becomes a buffer index, i.e. is small
RECURSIVE ToNatFrom(_, _)
ToNatFrom(d, k) == IF k > Len(d) THEN 0 ELSE d[k] + 256 * ToNatFrom(d, k + 1)
HighZero(d) == \A k \in 1 .. Len(d) : k > 3 => d[k] = 0
ToNat(d) == IF HighZero(d) THEN ToNatFrom(d, 1) ELSE 2000000000   \* "huge": beyond any buffer

BigEndian == S.byteOrder = "bigEndian"
Wire(d) == IF BigEndian THEN Reverse(d) ELSE d      \* value digits -> wire bytes
UnWire(b) == IF BigEndian THEN Reverse(b) ELSE b    \* wire bytes -> value digits

\* (SubSeq and \o are evaluated eagerly by TLC: each argument once, not
\* once per byte as in a function constructor whose body mentions it)
Put(s, at0, bs) ==     \* overwrite s at 0-based offset at0 with bs
  SubSeq(s, 1, at0) \o bs \o SubSeq(s, at0 + Len(bs) + 1, Len(s))

Slice(s, at0, n) == SubSeq(s, at0 + 1, at0 + n)

\* index-based folds: the argument is often a lazily evaluated function
\* constructor; Head/Tail recursion would re-evaluate it at every step
RECURSIVE ConcatFrom(_, _)
ConcatFrom(ss, k) == IF k > Len(ss) THEN <<>> ELSE ss[k] \o ConcatFrom(ss, k + 1)
ConcatAll(ss) == ConcatFrom(ss, 1)

RECURSIVE SumFrom(_, _)
SumFrom(s, k) == IF k > Len(s) THEN 0 ELSE s[k] + SumFrom(s, k + 1)
SumSeq(s) == SumFrom(s, 1)

Holes(n) == [i \in 1 .. n |-> Hole]

----------------------------------------------------------------------------
(* Layout: sizes and offsets, the SBE rules *)
Prims == {"char", "int8", "uint8", "int16", "uint16", "int32", "uint32",
          "int64", "uint64", "float", "double"}
IsPrim(n) == n \in Prims
PrimSize(p) == CASE p \in {"char", "int8", "uint8"} -> 1
                 [] p \in {"int16", "uint16"} -> 2
                 [] p \in {"int32", "uint32", "float"} -> 4
                 [] OTHER -> 8

TypeNamed(n) == S.types[CHOOSE i \in 1 .. Len(S.types) : S.types[i].name = n]

\* a primitive used directly as a field type behaves as an anonymous <type>
PrimAsType(p, presence) ==
  [kind |-> "type", name |-> p, prim |-> p, length |-> 1, presence |-> presence, offset |-> -1]

EncPrim(n) == IF IsPrim(n) THEN n ELSE TypeNamed(n).prim

RECURSIVE IsConstEnc(_)
IsConstEnc(e) == CASE e.kind = "type" -> e.presence = "constant"
                   [] e.kind = "ref" -> IsConstEnc(TypeNamed(e.type))
                   [] OTHER -> FALSE

\* layout of a member list: constants take no space; a member sits at its
\* custom offset if it has one, else right after the previous non-constant
\* member.  Returns <<offsets (-1 for constants), end>>.
\* (accumulator style, every argument bound to a value exactly once: TLC
\* re-evaluates operator arguments and LET definitions at every use)
RECURSIVE LayoutAcc(_, _, _, _, _, _)
LayoutAcc(sizes, consts, customs, k, cur, acc) ==
  IF k > Len(sizes) THEN <<acc, cur>>
  ELSE IF consts[k] THEN LayoutAcc(sizes, consts, customs, k + 1, cur, Append(acc, -1))
  ELSE IF customs[k] >= 0
       THEN LayoutAcc(sizes, consts, customs, k + 1, customs[k] + sizes[k], Append(acc, customs[k]))
       ELSE LayoutAcc(sizes, consts, customs, k + 1, cur + sizes[k], Append(acc, cur))
LayoutFrom(sizes, consts, customs, k0, cur0) ==
  CHOOSE r \in {LayoutAcc(s, c, o, k0, cur0, <<>>) :
                  s \in {sizes \o <<>>}, c \in {consts \o <<>>}, o \in {customs \o <<>>}} : TRUE

RECURSIVE EncSize(_)
CompLayout(c) ==
  LayoutFrom([k \in 1 .. Len(c.elements) |-> EncSize(c.elements[k])],
             [k \in 1 .. Len(c.elements) |-> IsConstEnc(c.elements[k])],
             [k \in 1 .. Len(c.elements) |-> c.elements[k].offset], 1, 0)
EncSize(e) == CASE e.kind = "type" -> PrimSize(e.prim) * e.length
                [] e.kind = "composite" -> CompLayout(e)[2]
                [] e.kind \in {"enum", "set"} -> PrimSize(EncPrim(e.enc))
                [] e.kind = "ref" -> EncSize(TypeNamed(e.type))

\* ---- fields of a level (message root or group entry)
FieldEnc(f) == IF IsPrim(f.type) THEN PrimAsType(f.type, f.presence) ELSE TypeNamed(f.type)
IsConstField(f) ==
  IF IsPrim(f.type) THEN f.presence = "constant"
  ELSE LET t == TypeNamed(f.type)
       IN CASE t.kind = "type" -> t.presence = "constant"
            [] t.kind = "enum" -> f.presence = "constant"
            [] OTHER -> FALSE

LevelLayout(L) ==
  LayoutFrom([k \in 1 .. Len(L.fields) |-> EncSize(FieldEnc(L.fields[k]))],
             [k \in 1 .. Len(L.fields) |-> IsConstField(L.fields[k])],
             [k \in 1 .. Len(L.fields) |-> L.fields[k].offset], 1, 0)
FieldOffset(L, k) == LevelLayout(L)[1][k]
MinBlockLength(L) == LevelLayout(L)[2]
BlockLength(L) == IF L.blockLength >= 0 THEN L.blockLength ELSE MinBlockLength(L)

\* ---- scalar leaves of an encoding: where each value lives
\* leaf == [path, off, w (bytes per element), n (elements), kind, prim]
RECURSIVE EncLeaves(_, _, _)
EncLeaves(e, base, path) ==
  CASE e.kind = "type" ->
         IF e.presence = "constant" THEN <<>>
         ELSE <<[path |-> path, off |-> base, w |-> PrimSize(e.prim), n |-> e.length,
                 kind |-> IF e.length = 1 THEN "scalar" ELSE "array", prim |-> e.prim]>>
    [] e.kind \in {"enum", "set"} ->
         <<[path |-> path, off |-> base, w |-> PrimSize(EncPrim(e.enc)), n |-> 1,
            kind |-> e.kind, prim |-> EncPrim(e.enc)]>>
    [] e.kind = "ref" -> EncLeaves(TypeNamed(e.type), base, path)
    [] e.kind = "composite" ->
         LET lay == CompLayout(e)[1]
         IN ConcatAll([k \in 1 .. Len(e.elements) |->
                IF lay[k] < 0 THEN <<>>
                ELSE EncLeaves(e.elements[k], base + lay[k], Append(path, e.elements[k].name))])

LevelLeaves(L) ==
  LET lay == LevelLayout(L)[1]
  IN ConcatAll([k \in 1 .. Len(L.fields) |->
       IF lay[k] < 0 THEN <<>>
       ELSE EncLeaves(FieldEnc(L.fields[k]), lay[k], <<L.fields[k].name>>)])

\* ---- level headers
Header == TypeNamed(S.headerType)
CompMember(c, name) == CHOOSE k \in 1 .. Len(c.elements) : c.elements[k].name = name
HasMember(c, name) == \E k \in 1 .. Len(c.elements) : c.elements[k].name = name
CompMemberOff(c, name) == CompLayout(c)[1][CompMember(c, name)]
RECURSIVE ElemPrim(_)
ElemPrim(e) == CASE e.kind = "type" -> e.prim
                 [] e.kind = "ref" -> ElemPrim(TypeNamed(e.type))
                 [] OTHER -> EncPrim(e.enc)
CompMemberW(c, name) == PrimSize(ElemPrim(c.elements[CompMember(c, name)]))
HeaderSize == EncSize(Header)
Dim(g) == TypeNamed(g.dim)
DimSize(g) == EncSize(Dim(g))
DataEnc(d) == TypeNamed(d.type)
LenW(d) == CompMemberW(DataEnc(d), "length")
LenOff(d) == CompMemberOff(DataEnc(d), "length")
DataHdrSize(d) == EncSize(DataEnc(d))     \* varData has length 0: contributes nothing

\* image of a composite whose listed members carry the given values (value
\* digits, LE), every other byte a Hole
RECURSIVE CompImageFrom(_, _, _, _)
CompImageFrom(c, names, vals, img) ==
  IF names = <<>> THEN img
  ELSE CompImageFrom(c, Tail(names), Tail(vals),
         IF HasMember(c, Head(names))
         THEN Put(img, CompMemberOff(c, Head(names)),
                  Wire(FromNat(Head(vals), CompMemberW(c, Head(names)))))
         ELSE img)
CompImage(c, names, vals) == CompImageFrom(c, names, vals, Holes(EncSize(c)))

----------------------------------------------------------------------------
(* Levels of a message, flattened in depth-first order *)
RECURSIVE FlatLevels(_, _)
FlatLevels(def, path) ==
  <<[path |-> path, def |-> def]>> \o
  ConcatAll([i \in 1 .. Len(def.groups) |->
               FlatLevels(def.groups[i], Append(path, def.groups[i].name))])

Msg(mi) == S.messages[mi]
Levels(mi) == FlatLevels(Msg(mi), <<>>)
LevelIdx(mi, path) == CHOOSE i \in 1 .. Len(Levels(mi)) : Levels(mi)[i].path = path

=============================================================================
