------------------------------ MODULE BitSet ------------------------------
(* SBE <set> values (C15).  The ideal value of a set is a set of choice    *)
(* indices; its wire/underlying value is the unsigned integer whose bit i  *)
(* is 1 iff i is a member, written here as little-endian base-256 digits   *)
(* because TLC integers are 32-bit and sets go up to 64 bits.              *)
(*                                                                         *)
(* Actions are the public entry points of a generated set class:           *)
(*   SetChoice(i,b)   named setter / set_by_tag                            *)
(*   GetChoice(i)     named getter / get_by_tag                            *)
(*   SetRaw(v)        *s = v                                               *)
(* Observations (ret) are what the call returns.                           *)
EXTENDS Naturals, Sequences, FiniteSets, TLC, Json

CONSTANTS W,        \* encoding width in bits: 8, 16, 32, 64
          Starts    \* set of initial values (each a subset of 0..W-1)

VARIABLES bits,     \* the ideal value
          ret,      \* result of the last call (bool for Get, bytes for others)
          last      \* ghost: last action and its arguments

vars == <<bits, ret, last>>

Idx == 0 .. W - 1
NBytes == W \div 8

Pow2(n) == IF n = 0 THEN 1 ELSE IF n = 1 THEN 2 ELSE IF n = 2 THEN 4 ELSE
           IF n = 3 THEN 8 ELSE IF n = 4 THEN 16 ELSE IF n = 5 THEN 32 ELSE
           IF n = 6 THEN 64 ELSE 128

RECURSIVE SumBits(_, _, _)
SumBits(s, k, j) ==   \* value of byte k (0-based) considering bit j..7
  IF j > 7 THEN 0
  ELSE (IF (8 * k + j) \in s THEN Pow2(j) ELSE 0) + SumBits(s, k, j + 1)

\* underlying value as little-endian digits (index 1 = least significant byte)
Bytes(s) == [k \in 1 .. NBytes |-> SumBits(s, k - 1, 0)]

FromBytes(bs) == {i \in Idx : (bs[(i \div 8) + 1] \div Pow2(i % 8)) % 2 = 1}

\* ---- the operations, as functions of the ideal value (used by the actions
\* ---- and by the vector emitter, so both are the same definition)
GetRes(s, i) == i \in s
SetRes(s, i, b) == IF b THEN s \cup {i} ELSE s \ {i}
\* visiting a set reports every declared choice (all of Idx here) with its bit,
\* in schema order (ascending index in the generated test schema)
VisitRes(s) == [k \in 1 .. W |-> [idx |-> k - 1, bit |-> (k - 1) \in s]]

\* How the test schema spells the index of choice i.  A choice index is an
\* XML Schema unsignedByte: decimal digits, leading zeros allowed and without
\* meaning ("010" is ten).  Two thirds of the indices are written with leading
\* zeros, so that each width has zero-padded indices with and without the
\* digits 8 and 9.
DecDigit(n) == SubSeq("0123456789", n + 1, n + 1)
Dec(n) == IF n < 10 THEN DecDigit(n) ELSE DecDigit(n \div 10) \o DecDigit(n % 10)
IndexLexeme(i) == CASE i % 3 = 1 -> "0" \o Dec(i) [] i % 3 = 2 -> "00" \o Dec(i) [] OTHER -> Dec(i)
EmitLexemes == PrintT(ToJson([kind |-> "lex", w |-> W, lex |-> [k \in 1 .. W |-> IndexLexeme(k - 1)]]))

Init == /\ bits \in Starts
        /\ ret = Bytes(bits)
        /\ last = [op |-> "init"]

SetChoice(i, b) == /\ bits' = SetRes(bits, i, b)
                   /\ ret' = Bytes(bits')
                   /\ last' = [op |-> "set", i |-> i, b |-> b]

GetChoice(i) == /\ UNCHANGED bits
                /\ ret' = GetRes(bits, i)
                /\ last' = [op |-> "get", i |-> i]

SetRaw(v) == /\ bits' = v
             /\ ret' = Bytes(v)
             /\ last' = [op |-> "raw"]

Next == \/ \E i \in Idx, b \in BOOLEAN : SetChoice(i, b)
        \/ \E i \in Idx : GetChoice(i)

Spec == Init /\ [][Next]_vars

\* ------------------------------------------------------------ properties --
TypeOK == bits \subseteq Idx

\* raw value access is consistent with the choices
RawRoundTrip == FromBytes(Bytes(bits)) = bits

\* getter reflects exactly that bit of the underlying value
GetIsBit == \A i \in Idx : GetRes(bits, i) = ((Bytes(bits)[(i \div 8) + 1] \div Pow2(i % 8)) % 2 = 1)

\* the setter changes exactly that bit and no other
SetTouchesOneBit ==
  [][last'.op = "set" =>
       /\ (last'.i \in bits') = last'.b
       /\ \A j \in Idx \ {last'.i} : (j \in bits') = (j \in bits)
       /\ \A k \in 1 .. NBytes : k # (last'.i \div 8) + 1 => Bytes(bits')[k] = Bytes(bits)[k]]_vars

GetIsPure == [][last'.op = "get" => bits' = bits]_vars

\* equality is equality of underlying values
EqIsRawEq == \A s \in Starts : (Bytes(s) = Bytes(bits)) = (s = bits)

\* ------------------------------------------------------- vector emission --
\* One record per explored pre-state with the outcome of every operation on
\* it; the C++ harness executes all of them against the generated set class.
Vector(s) == [w    |-> W,
              val  |-> Bytes(s),
              get  |-> [k \in 1 .. W |-> GetRes(s, k - 1)],
              set0 |-> [k \in 1 .. W |-> Bytes(SetRes(s, k - 1, FALSE))],
              set1 |-> [k \in 1 .. W |-> Bytes(SetRes(s, k - 1, TRUE))],
              visit |-> VisitRes(s)]

EmitState == PrintT(ToJson(Vector(bits)))
=============================================================================
