------------------------------- MODULE View -------------------------------
(* The operational layer: what a message view can do with a byte buffer.   *)
(*                                                                         *)
(* A view knows its own start and whatever it *reads from the buffer*:     *)
(* "level start + wire blockLength", "previous member's start + its size", *)
(* "entries at wire stride".  This is the algebra sbepp implements.  The   *)
(* denotation (SbeImage) says what the bytes must be; TLC checks the two   *)
(* layers against each other (DecodeRefines, StepRefines, EncodeRefines,    *)
(* SizesAgree), and every state/transition explored here is emitted as a   *)
(* vector and replayed against the real generated accessors.               *)
EXTENDS SbeImage, Json

CONSTANTS Shapes,    \* set of shapes explored (see SbeImage)
          Margin     \* bytes of background before and after the message

VARIABLES sh,        \* the abstract message (shape) of this behaviour
          mode,      \* "decode": buffer holds the image; "encode": script runs
          buf,       \* the memory region, 1-based sequence of bytes
          pc,        \* encode: number of script steps performed
          last       \* ghost: the step just performed

vars == <<sh, mode, buf, pc, last, memo>>

V0 == Margin                       \* 0-based offset of the message view

Rd(b, at0, w) == ToNat(UnWire(Slice(b, at0, w)))

----------------------------------------------------------------------------
(* Navigation as the library does it: only from values read in the buffer *)
OpRootBL(b) == Rd(b, V0 + HBlOff, HBlW)

OpGroupBL(b, gli, ga) == Rd(b, ga + LDimOff[gli][1], LDimW[gli][1])
OpGroupN(b, gli, ga) == Rd(b, ga + LDimOff[gli][2], LDimW[gli][2])

IsFlat(g) == g.groups = <<>> /\ g.data = <<>>
OpDataSize(b, li, d, da) == LLenW[li][d] + Rd(b, da, LLenW[li][d])

RECURSIVE OpLevelEnd(_, _, _, _), OpGroupSize(_, _, _), OpGroupAddr(_, _, _, _, _),
          OpDataAddr(_, _, _, _, _), OpEntriesEnd(_, _, _, _, _)
\* start of the g-th group of the level instance (li) at a with wire block length bl
OpGroupAddr(b, li, a, bl, g) ==
  IF g = 1 THEN a + bl
  ELSE LET pa == OpGroupAddr(b, li, a, bl, g - 1)
       IN pa + OpGroupSize(b, ChildLi(MI, li, g - 1), pa)
OpGroupSize(b, gli, ga) ==
  LET g == LDef[gli]
      n == OpGroupN(b, gli, ga)
      gbl == OpGroupBL(b, gli, ga)
  IN IF IsFlat(g) THEN LDimSize[gli] + n * gbl
     ELSE OpEntriesEnd(b, gli, ga + LDimSize[gli], gbl, n) - ga
\* end of n consecutive entries starting at ea
OpEntriesEnd(b, gli, ea, gbl, n) ==
  IF n = 0 THEN ea ELSE OpEntriesEnd(b, gli, OpLevelEnd(b, gli, ea, gbl), gbl, n - 1)
OpDataAddr(b, li, a, bl, d) ==
  LET L == LDef[li]
  IN IF d = 1
     THEN IF Len(L.groups) = 0 THEN a + bl
          ELSE LET ga == OpGroupAddr(b, li, a, bl, Len(L.groups))
               IN ga + OpGroupSize(b, ChildLi(MI, li, Len(L.groups)), ga)
     ELSE LET pa == OpDataAddr(b, li, a, bl, d - 1)
          IN pa + OpDataSize(b, li, d - 1, pa)
OpLevelEnd(b, li, a, bl) ==
  LET L == LDef[li]
  IN IF Len(L.data) > 0
     THEN LET da == OpDataAddr(b, li, a, bl, Len(L.data))
          IN da + OpDataSize(b, li, Len(L.data), da)
     ELSE IF Len(L.groups) > 0
          THEN LET ga == OpGroupAddr(b, li, a, bl, Len(L.groups))
               IN ga + OpGroupSize(b, ChildLi(MI, li, Len(L.groups)), ga)
          ELSE a + bl

\* entry k (1-based) of the group at ga
OpEntryAddr(b, gli, ga, k) ==
  LET g == LDef[gli]
      gbl == OpGroupBL(b, gli, ga)
  IN IF IsFlat(g) THEN ga + LDimSize[gli] + (k - 1) * gbl
     ELSE OpEntriesEnd(b, gli, ga + LDimSize[gli], gbl, k - 1)

ParentLi(li) == LParent[li]
Ordinal(li) == LOrd[li]

\* level instance (li, ip) reached from the root: [a, bl, ga]
RECURSIVE OpInst(_, _, _)
OpInst(b, li, ip) ==
  IF li = 1 THEN [a |-> V0 + HSize, bl |-> OpRootBL(b), ga |-> -1]
  ELSE LET p == OpInst(b, ParentLi(li), Front(ip))
           ga == OpGroupAddr(b, ParentLi(li), p.a, p.bl, Ordinal(li))
       IN [a |-> OpEntryAddr(b, li, ga, Last(ip)),
           bl |-> OpGroupBL(b, li, ga), ga |-> ga]

\* group instance: g-th group of level instance (li, ip)
OpGroupOf(b, li, ip, g) ==
  LET p == OpInst(b, li, ip) IN OpGroupAddr(b, li, p.a, p.bl, g)
OpDataOf(b, li, ip, d) ==
  LET p == OpInst(b, li, ip) IN OpDataAddr(b, li, p.a, p.bl, d)

OpMsgSize(b) == OpLevelEnd(b, 1, V0 + HSize, OpRootBL(b)) - V0

----------------------------------------------------------------------------
(* Encoding script: the in-order sequence of fills and setters (C01).      *)
\* step == [op, li, ip, k]: "mhdr"; "set" leaf k of instance (li,ip);
\* "ghdr" k-th group of instance (li,ip); "data" k-th data of instance
RECURSIVE LevelScript(_, _, _)
LevelScript(s, li, ip) ==
  LET L == LDef[li]
  IN [k \in 1 .. Len(LLeaves[li]) |-> [op |-> "set", li |-> li, ip |-> ip, k |-> k]]
     \o ConcatAll([g \in 1 .. Len(L.groups) |->
          <<[op |-> "ghdr", li |-> li, ip |-> ip, k |-> g]>> \o
          ConcatAll([e \in 1 .. Cnt(s, ChildLi(MI, li, g), ip) |->
                       LevelScript(s, ChildLi(MI, li, g), Append(ip, e))])])
     \o [d \in 1 .. Len(L.data) |-> [op |-> "data", li |-> li, ip |-> ip, k |-> d]]
Script(s) == <<[op |-> "mhdr", li |-> 1, ip |-> <<>>, k |-> 0]>> \o LevelScript(s, 1, <<>>)

\* what fill_message_header / fill_group_header are documented to write:
\* the *compiled* block length and the member counts of that level
MsgHeaderFill == CompImage(Header, HeaderNames,
                   <<BlockLength(Msg(MI)), Msg(MI).id, S.id, S.version,
                     Len(Msg(MI).groups), Len(Msg(MI).data)>>)
GroupHeaderFill(g, n) == CompImage(Dim(g), CounterNames,
                           <<BlockLength(g), n, Len(g.groups), Len(g.data)>>)

\* operational effect of a step: addresses come from the buffer
OpApply(b, s, st) ==
  CASE st.op = "mhdr" -> Overlay(b, MsgHeaderFill, V0)
    [] st.op = "set" ->
         LET leaf == LLeaves[st.li][st.k]
         IN Put(b, OpInst(b, st.li, st.ip).a + leaf.off,
                LeafWire(leaf, LeafVal(s, st.li, st.k, st.ip, leaf)))
    [] st.op = "ghdr" ->
         LET gli == ChildLi(MI, st.li, st.k)
         IN Overlay(b, GroupHeaderFill(LDef[gli], Cnt(s, gli, st.ip)),
                    OpGroupOf(b, st.li, st.ip, st.k))
    [] st.op = "data" ->
         Put(b, OpDataOf(b, st.li, st.ip, st.k), DataImage(MI, s, st.li, st.k, st.ip))

\* denotational effect: addresses come from the image
RECURSIVE DenInstAddr(_, _, _)
DenInstAddr(s, li, ip) ==
  IF li = 1 THEN HSize
  ELSE DenEntryAddr(MI, s, li, Front(ip),
         DenGroupAddr(MI, s, LParent[li], Front(ip),
                      DenInstAddr(s, LParent[li], Front(ip)), LOrd[li]),
         Last(ip))
DenInst(s, li, ip) == [a |-> DenInstAddr(s, li, ip)]
DenApply(b, s, st) ==
  CASE st.op = "mhdr" -> Overlay(b, HeaderImage(MI, s), V0)
    [] st.op = "set" ->
         LET leaf == LLeaves[st.li][st.k]
         IN Put(b, V0 + DenInst(s, st.li, st.ip).a + leaf.off,
                LeafWire(leaf, LeafVal(s, st.li, st.k, st.ip, leaf)))
    [] st.op = "ghdr" ->
         LET gli == ChildLi(MI, st.li, st.k)
             g == LDef[gli]
             ga == DenGroupAddr(MI, s, st.li, st.ip, DenInst(s, st.li, st.ip).a, st.k)
         IN Overlay(b, CompImage(Dim(g), CounterNames,
                       <<WireBL(MI, s, gli), Cnt(s, gli, st.ip), Len(g.groups), Len(g.data)>>),
                    V0 + ga)
    [] st.op = "data" ->
         Put(b, V0 + DenDataAddr(MI, s, st.li, st.ip, DenInst(s, st.li, st.ip).a, st.k),
             DataImage(MI, s, st.li, st.k, st.ip))

----------------------------------------------------------------------------
(* The machine *)
NoExt(s) == \A i \in 1 .. Len(s.ext) : s.ext[i] = 0
Region(s) == Background(Margin + Len(MsgImage(MI, s)) + Margin)

Init == /\ MemoInit
        /\ sh \in Shapes
        /\ \/ /\ mode = "decode"
              /\ buf = Overlay(Region(sh), MsgImage(MI, sh), V0)
           \/ /\ mode = "encode"
              /\ NoExt(sh)         \* the library writes the compiled blockLength
              /\ buf = Region(sh)
        /\ pc = 0
        /\ last = [op |-> "init", li |-> 0, ip |-> <<>>, k |-> 0]

EncodeStep == /\ mode = "encode"
              /\ pc < Len(Script(sh))
              /\ buf' = OpApply(buf, sh, Script(sh)[pc + 1])
              /\ pc' = pc + 1
              /\ last' = Script(sh)[pc + 1]
              /\ UNCHANGED <<sh, mode, memo>>

Next == EncodeStep
Spec == Init /\ [][Next]_vars

----------------------------------------------------------------------------
(* Properties *)
ImageSizes == ImageSizesConsistent(MI, sh)

TypeOK == /\ \A i \in 1 .. Len(buf) : buf[i] \in 0 .. 255
          /\ pc \in 0 .. Len(Script(sh))

\* C02/C03: on an image (any wire block lengths), navigation from the buffer
\* finds every instance where the image put it and every getter sees the value
DecodeRefines ==
  mode = "decode" =>
   LET insts == Instances(MI, sh)
       gis == GroupInstances(MI, sh)
   IN
    /\ \A i \in 1 .. Len(insts) :
         LET inst == insts[i]
             o == OpInst(buf, inst.li, inst.ip)
             leaves == LLeaves[inst.li]
         IN /\ o.a = V0 + inst.a
            /\ o.bl = WireBL(MI, sh, inst.li)
            /\ \A k \in 1 .. Len(leaves) :
                 Slice(buf, o.a + leaves[k].off, leaves[k].w * leaves[k].n)
                   = LeafWire(leaves[k], LeafVal(sh, inst.li, k, inst.ip, leaves[k]))
            /\ \A d \in 1 .. Len(LDef[inst.li].data) :
                 LET da == OpDataOf(buf, inst.li, inst.ip, d)
                     dd == LDef[inst.li].data[d]
                 IN /\ da = V0 + DenDataAddr(MI, sh, inst.li, inst.ip, inst.a, d)
                    /\ Rd(buf, da, LLenW[inst.li][d]) = DLen(sh, inst.li, d, inst.ip)
                    /\ Slice(buf, da + LLenW[inst.li][d], DLen(sh, inst.li, d, inst.ip))
                         = DataVal(sh, inst.li, d, inst.ip)
    /\ \A i \in 1 .. Len(gis) :
         LET gi == gis[i]
             ga == OpGroupOf(buf, gi.pli, gi.ip, gi.g)
         IN /\ ga = V0 + gi.ga
            /\ OpGroupN(buf, gi.gli, ga) = gi.n

\* C05: every size computation agrees with the length of the image
SizesAgree ==
  mode = "decode" =>
   LET insts == Instances(MI, sh)
       gis == GroupInstances(MI, sh)
   IN
    /\ OpMsgSize(buf) = Len(MsgImage(MI, sh))
    /\ \A i \in 1 .. Len(gis) :
         LET gi == gis[i]
         IN OpGroupSize(buf, gi.gli, V0 + gi.ga) = Len(GroupImage(MI, sh, gi.gli, gi.ip))
    /\ \A i \in 1 .. Len(insts) :
         LET inst == insts[i]
         IN inst.li > 1 =>
              OpLevelEnd(buf, inst.li, V0 + inst.a, WireBL(MI, sh, inst.li)) - (V0 + inst.a)
                = Len(LevelImage(MI, sh, inst.li, inst.ip))

\* C01: each in-order step, addressed from the buffer, hits exactly the bytes
\* the image assigns to that member (and nothing else: both sides are Put/Overlay)
StepRefines ==
  (mode = "encode" /\ pc < Len(Script(sh))) =>
     OpApply(buf, sh, Script(sh)[pc + 1]) = DenApply(buf, sh, Script(sh)[pc + 1])

\* C01: after the whole script the buffer is the image over the background
EncodeRefines ==
  (mode = "encode" /\ pc = Len(Script(sh))) =>
     buf = Overlay(Background(Len(buf)), MsgImage(MI, sh), V0)

\* margins are never touched
MarginsIntact ==
  LET bg == Background(Len(buf))
  IN \A i \in 1 .. Len(buf) :
       (i <= Margin \/ i > Len(buf) - Margin) => buf[i] = bg[i]
=============================================================================
