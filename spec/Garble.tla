------------------------------- MODULE Garble -------------------------------
(* C09 generative scope: GARBLING ACTIONS on a base document, depth <= 2.   *)
(*                                                                          *)
(* The base is the XML text of a valid schema, given as the flat table Doc  *)
(* of its elements in document order (tools/garblegen.py:doc_table).  An    *)
(* ACTION is a labelled list of edits on that document (on its element      *)
(* tree, on its serialized text, on the set of files beside it, on the      *)
(* command line).  A CASE is a sequence of at most MaxDepth actions.        *)
(*                                                                          *)
(* The verdict of the spec on EVERY case is the same and is all C09 asks:   *)
(* `graceful` - the run ends by a normal exit with status 0, or with a      *)
(* status # 0 and a diagnostic, having written nothing if it rejected       *)
(* (Sbeppc!ExitAllowed / RejectKeepsDisk, judged on the recorded run by     *)
(* SbeppcTrace).  Whether a garbled input is accepted or rejected is left   *)
(* open on purpose.                                                         *)
(*                                                                          *)
(* TLC enumerates (action, position, lexeme), pairs of them for depth 2     *)
(* (a seeded sample: PairBudget), checks the sanity invariants below and    *)
(* emits every case as JSON; tools/checks/c09.py applies the edits          *)
(* (transliteration) and runs the real sbeppc.                              *)
(*                                                                          *)
(* Strings may contain \uXXXX (code point) and \xHH (raw byte) escapes,     *)
(* resolved when the file / argument is written.                            *)
EXTENDS Integers, Sequences, FiniteSets, TLC, Json

CONSTANTS Doc,         \* <<[tag, lt, parent, attrs: <<[n, v]>>, text]>> in document order; Doc[1] = root
          BaseName,    \* name of the base (label only)
          NTok,        \* number of lexical tokens of the serialized base document
          Groups,      \* action groups enabled in this run
          PerClass,    \* positions tried per position class (0 = every position)
          LexPer,      \* number lexemes tried per (position, attribute) (0 = all), rotating through the pool
          NamePer,     \* names tried per named position (0 = all), rotating
          Seed,        \* rotation / sampling seed
          PairBudget,  \* depth 2: about this many ordered pairs are generated (a seeded sample; 0 = none)
          TruncStep,   \* truncation at every TruncStep-th token boundary (1 = every boundary)
          MaxDepth

VARIABLES picked,   \* the case: indices into tab, in order of application
          tab       \* all depth-1 actions of this base (computed once, in Init; hidden by VIEW)
vars == <<picked, tab>>

----------------------------------------------------------------------------
(* generic helpers *)
\* concatenation of a sequence of sequences (by halves: recursion depth log n)
RECURSIVE ConcatRange(_, _, _)
ConcatRange(ss, lo, hi) == IF lo > hi THEN <<>> ELSE IF lo = hi THEN ss[lo]
                           ELSE LET mid == (lo + hi) \div 2 IN ConcatRange(ss, lo, mid) \o ConcatRange(ss, mid + 1, hi)
Flat(ss) == LET t == ss \o <<>> IN ConcatRange(t, 1, Len(t))
MapL(seq, F(_)) == [i \in 1 .. Len(seq) |-> F(seq[i])]
MapIdx(seq, F(_, _)) == [i \in 1 .. Len(seq) |-> F(i, seq[i])]
Opt(c, seq) == IF c THEN seq ELSE <<>>
Sel(seq, P(_)) == SelectSeq(seq, P)
Take(seq, n) == SubSeq(seq, 1, IF Len(seq) < n THEN Len(seq) ELSE n)
Range(seq) == {seq[i] : i \in 1 .. Len(seq)}
Ch(s, i) == SubSeq(s, i, i)
LowerAZ == "abcdefghijklmnopqrstuvwxyz"
UpperAZ == "ABCDEFGHIJKLMNOPQRSTUVWXYZ"
IdxIn(s, c) == CHOOSE i \in 1 .. Len(s) : Ch(s, i) = c
InStr(s, c) == \E i \in 1 .. Len(s) : Ch(s, i) = c
SwapCh(c) == IF InStr(LowerAZ, c) THEN Ch(UpperAZ, IdxIn(LowerAZ, c))
             ELSE IF InStr(UpperAZ, c) THEN Ch(LowerAZ, IdxIn(UpperAZ, c)) ELSE c
RECURSIVE SwapFrom(_, _)
SwapFrom(s, k) == IF k > Len(s) THEN "" ELSE SwapCh(Ch(s, k)) \o SwapFrom(s, k + 1)
\* the same name in the other case (differs from s iff s has a letter)
CaseVariant(s) == SwapFrom(s, 1)
RECURSIVE Rep(_, _)
Rep(s, n) == IF n <= 0 THEN "" ELSE IF n = 1 THEN s
             ELSE LET h == Rep(s, n \div 2) IN h \o h \o (IF n % 2 = 1 THEN s ELSE "")
Long5000 == Rep("a", 5000)
Digit(n) == SubSeq("0123456789", n + 1, n + 1)
RECURSIVE NumStr(_)
NumStr(n) == IF n < 10 THEN Digit(n) ELSE NumStr(n \div 10) \o Digit(n % 10)

----------------------------------------------------------------------------
(* the base document *)
N == Len(Doc)
Els == 1 .. N
ElSeq == [i \in 1 .. N |-> i]
Tag(i) == Doc[i].lt
Par(i) == Doc[i].parent
Has(i, a) == \E k \in 1 .. Len(Doc[i].attrs) : Doc[i].attrs[k].n = a
Val(i, a) == IF Has(i, a) THEN Doc[i].attrs[CHOOSE k \in 1 .. Len(Doc[i].attrs) : Doc[i].attrs[k].n = a].v ELSE ""
AttrNames(i) == [k \in 1 .. Len(Doc[i].attrs) |-> Doc[i].attrs[k].n]
RECURSIVE IsAnc(_, _)
IsAnc(a, i) == i # 0 /\ (Par(i) = a \/ IsAnc(a, Par(i)))
Subtree(i) == {j \in Els : j = i \/ IsAnc(i, j)}
Kids(i) == Sel(ElSeq, LAMBDA j : Par(j) = i)
KidsTagged(i, t) == Sel(ElSeq, LAMBDA j : Par(j) = i /\ Tag(j) = t)
Tagged(t) == Sel(ElSeq, LAMBDA j : Tag(j) = t)
Root == 1
TypesEls == KidsTagged(Root, "types")
IsTop(i) == Par(i) # 0 /\ Tag(Par(i)) = "types" /\ Par(Par(i)) = Root
TopTypes == Sel(ElSeq, IsTop)
RECURSIVE TopOf(_)
TopOf(i) == IF i = 0 THEN 0 ELSE IF IsTop(i) THEN i ELSE TopOf(Par(i))
Messages == KidsTagged(Root, "message")
Levels == Sel(ElSeq, LAMBDA j : Tag(j) \in {"message", "group"})

HeaderName == IF Has(Root, "headerType") THEN Val(Root, "headerType") ELSE "messageHeader"
DimNames == {IF Has(g, "dimensionType") THEN Val(g, "dimensionType") ELSE "groupSizeEncoding" : g \in Range(Tagged("group"))}
DataNames == {Val(d, "type") : d \in Range(Tagged("data"))}
RoleOfName(n) == IF n = HeaderName THEN "header" ELSE IF n \in DimNames THEN "dimension"
                 ELSE IF n \in DataNames THEN "data" ELSE "public"
RoleOfTop(t) == RoleOfName(Val(t, "name"))
Required(role) == CASE role = "header" -> <<"blockLength", "templateId", "schemaId", "version">>
                    [] role = "dimension" -> <<"blockLength", "numInGroup">>
                    [] role = "data" -> <<"length", "varData">>
                    [] OTHER -> <<>>

\* position class of an element: role of the top-level type it belongs to and the
\* path of tags down to it, or the path of tags below the root
RECURSIVE PathFrom(_, _)
PathFrom(top, i) == IF i = top \/ i = 0 THEN Tag(top) ELSE PathFrom(top, Par(i)) \o "/" \o Tag(i)
RECURSIVE PathBelowRoot(_)
PathBelowRoot(i) == IF Par(i) = Root \/ Par(i) = 0 THEN Tag(i) ELSE PathBelowRoot(Par(i)) \o "/" \o Tag(i)
PosClass(i) == IF i = Root THEN "schema"
               ELSE IF TopOf(i) # 0 THEN RoleOfTop(TopOf(i)) \o ":" \o PathFrom(TopOf(i), i)
               ELSE PathBelowRoot(i)

\* top-level types by kind (for retargeting)
IsScalarT(i) == Tag(i) = "type" /\ ~Has(i, "length") /\ Val(i, "presence") # "constant"
IsArrayT(i) == Tag(i) = "type" /\ Has(i, "length")
IsConstT(i) == Tag(i) = "type" /\ Val(i, "presence") = "constant"
TopWhere(P(_)) == Sel(TopTypes, P)
\* every name a reference could be pointed at: all top-level types of the base (in the given and in the other
\* case), labelled by role and kind, and the name of a message
TargetLabel(t) == RoleOfTop(t) \o "-" \o Tag(t) \o "(" \o Val(t, "name") \o ")"
KindTargets ==
  MapL(TopTypes, LAMBDA t : <<"to-" \o TargetLabel(t), Val(t, "name")>>) \o
  MapL(Sel(TopTypes, LAMBDA t : CaseVariant(Val(t, "name")) # Val(t, "name")),
       LAMBDA t : <<"to-other-case-of-" \o TargetLabel(t), CaseVariant(Val(t, "name"))>>) \o
  MapL(Take(Messages, 1), LAMBDA m : <<"to-message-name", Val(m, "name")>>)

----------------------------------------------------------------------------
(* edits and actions (records of one shape each, for JSON) *)
NoFrag == <<>>
Ed(op, el, attr, val, dst, at, k, frag) ==
  [op |-> op, el |-> el, attr |-> attr, val |-> val, dst |-> dst, at |-> at, k |-> k, frag |-> frag]
DropAttr(i, a) == Ed("dropattr", i, a, "", 0, "", 0, NoFrag)
SetAttr(i, a, v) == Ed("setattr", i, a, v, 0, "", 0, NoFrag)
SetText(i, v) == Ed("settext", i, "", v, 0, "", 0, NoFrag)
Retag(i, v) == Ed("retag", i, "", v, 0, "", 0, NoFrag)
Delete(i) == Ed("delete", i, "", "", 0, "", 0, NoFrag)
Dup(i) == Ed("dup", i, "", "", 0, "", 0, NoFrag)
Move(i, dst, at) == Ed("move", i, "", "", dst, at, 0, NoFrag)
Insert(dst, at, frag) == Ed("insert", 0, "", "", dst, at, 0, frag)
Replace(i, frag) == Ed("replace", i, "", "", 0, "", 0, frag)
Nest(dst, tag, k, frag) == Ed("nest", 0, "", tag, dst, "", k, frag)
TextOp(op, k, v) == Ed(op, 0, "", v, 0, "", k, NoFrag)
TreeOps == {"dropattr", "setattr", "settext", "retag", "delete", "dup", "move", "insert", "replace", "nest"}
TextOps == {"truncate", "truncmid", "textins", "textset", "prepend", "append", "setdecl", "reencode"}
Places == {"first", "last", "before", "after"}

\* fragments: flat tables like Doc (parent 0 = fragment root)
A(n, v) == [n |-> n, v |-> v]
FragEl(tag, parent, attrs, text) == [tag |-> tag, parent |-> parent, attrs |-> attrs, text |-> text]
RefFrag(name, type) == <<FragEl("ref", 0, <<A("name", name), A("type", type)>>, "")>>
TypeFrag(name, prim, extra) == <<FragEl("type", 0, <<A("name", name), A("primitiveType", prim)>> \o extra, "")>>
CompFrag(name) == <<FragEl("composite", 0, <<A("name", name)>>, ""),
                    FragEl("type", 1, <<A("name", "x"), A("primitiveType", "uint16")>>, "")>>
EnumFrag(name) == <<FragEl("enum", 0, <<A("name", name), A("encodingType", "uint8")>>, ""),
                    FragEl("validValue", 1, <<A("name", "A")>>, "1")>>
SetFrag(name) == <<FragEl("set", 0, <<A("name", name), A("encodingType", "uint8")>>, ""),
                   FragEl("choice", 1, <<A("name", "a")>>, "0")>>
IncFrag(href) == <<FragEl("xi:include", 0, <<A("href", href)>>, "")>>

NoFile == <<>>
File(name, kind, includes, types, msgs, k) ==
  [name |-> name, kind |-> kind, includes |-> includes, types |-> types, msgs |-> msgs, k |-> k]
Frag(name, includes, types) == File(name, "frag", includes, types, <<>>, 0)

Act(group, action, pos, lex, edits, files, argv, env) ==
  [group |-> group, action |-> action, pos |-> pos, lex |-> lex, edits |-> edits, files |-> files, argv |-> argv, env |-> env]
TreeAct(action, pos, lex, edits) == Act("garble", action, pos, lex, edits, NoFile, <<>>, "")

\* elements an action removes from the document / addresses
Killed(a) == UNION {IF a.edits[k].op \in {"delete", "replace"} THEN Subtree(a.edits[k].el) ELSE {} : k \in 1 .. Len(a.edits)}
Addressed(a) == UNION {({a.edits[k].el, a.edits[k].dst} \ {0}) : k \in 1 .. Len(a.edits)}
Touched(a) == {<<a.edits[k].el, a.edits[k].attr>> : k \in {j \in 1 .. Len(a.edits) : a.edits[j].op \in {"dropattr", "setattr", "settext"}}}

\* one position per class (rotated by Seed), or all of them
RankIn(cands, cls, k) == Cardinality({j \in 1 .. k : cls[cands[j]] = cls[cands[k]]})
SizeOf(cands, cls, k) == Cardinality({j \in 1 .. Len(cands) : cls[cands[j]] = cls[cands[k]]})
Pick(cands, cls) ==
  IF PerClass = 0 THEN cands
  ELSE LET c == cands \o <<>>
           keep == {k \in 1 .. Len(c) : ((RankIn(c, cls, k) - 1 + SizeOf(c, cls, k) - (Seed % SizeOf(c, cls, k))) % SizeOf(c, cls, k)) < PerClass}
       IN Sel([k \in 1 .. Len(c) |-> k], LAMBDA k : k \in keep)
\* (Pick returns INDICES into cands when PerClass > 0; PickEls returns the elements)
PickEls(cands, cls) == IF PerClass = 0 THEN cands ELSE LET c == cands \o <<>> IN MapL(Pick(c, cls), LAMBDA k : c[k])
\* n members of a pool, rotating with the position so that every member is used somewhere
Rot(pool, i, n) == IF n = 0 \/ n >= Len(pool) THEN pool
                   ELSE [t \in 1 .. n |-> pool[((i * n + t + Seed) % Len(pool)) + 1]]

----------------------------------------------------------------------------
(* 1. DropAttribute: every attribute of every element *)
DropMuts(cls) ==
  Flat(MapL(ElSeq, LAMBDA i : MapL(AttrNames(i), LAMBDA a : TreeAct("DropAttribute", cls[i], a, <<DropAttr(i, a)>>))))

(* 2. GarbleNumber *)
\* text that a diagnostic echoes must not be interpreted by whatever formats the diagnostic
\* ({fmt} replacement fields, printf conversions): tried at every picked position, never rotated away
EchoLex == << <<"brace-open", "a{b">>, <<"brace-pair", "{}">>, <<"brace-index", "x{0}">>, <<"brace-close", "a}b">>,
              <<"printf-conversions", "%s%n%s">> >>
NumLex == << <<"empty", "">>, <<"minus-one", "-1">>, <<"plus-sign", "+5">>, <<"leading-space", " 5">>, <<"trailing-space", "5 ">>,
             <<"hex", "0x10">>, <<"exponent", "1e3">>, <<"u64-max", "18446744073709551615">>,
             <<"u64-max-plus-1", "18446744073709551616">>, <<"20-digits", "99999999999999999999">>,
             <<"leading-zeros", "007">>, <<"minus-zero", "-0">>, <<"arabic-indic-digit", "\\u0663">>,
             <<"u32-max", "4294967295">>, <<"u32-max-plus-1", "4294967296">>, <<"i64-min", "-9223372036854775808">>,
             <<"u16-max-plus-1", "65536">>, <<"i32-max-plus-1", "2147483648">>, <<"zero", "0">>, <<"fraction", "1.5">>,
             <<"letters", "abc">>, <<"u64-max-minus-1", "18446744073709551614">> >>
NumAttrsOf(t) == CASE t = "messageSchema" -> <<"id", "version">>
                   [] t = "type" -> <<"length", "offset", "sinceVersion", "deprecated", "minValue", "maxValue", "nullValue">>
                   [] t \in {"composite", "enum", "set", "ref"} -> <<"offset", "sinceVersion", "deprecated">>
                   [] t \in {"validValue", "choice"} -> <<"sinceVersion", "deprecated">>
                   [] t \in {"message", "group"} -> <<"id", "blockLength", "sinceVersion", "deprecated">>
                   [] t = "field" -> <<"id", "offset", "sinceVersion", "deprecated">>
                   [] t = "data" -> <<"id", "sinceVersion", "deprecated">>
                   [] OTHER -> <<>>
NumTextTags == {"validValue", "choice"}
NumberMuts(cls) ==
  Flat(MapIdx(PickEls(ElSeq, cls), LAMBDA r, i :
    Flat(MapIdx(NumAttrsOf(Tag(i)), LAMBDA q, a :
      MapL(Rot(NumLex, r * 7 + q, LexPer), LAMBDA lx :
        TreeAct("GarbleNumber", cls[i] \o "@" \o a, lx[1], <<SetAttr(i, a, lx[2])>>)))) \o
    Flat(MapL(Take(NumAttrsOf(Tag(i)), 1), LAMBDA a : MapL(Take(EchoLex, 2), LAMBDA lx :
        TreeAct("GarbleNumber", cls[i] \o "@" \o a, lx[1], <<SetAttr(i, a, lx[2])>>)))) \o
    Opt(Tag(i) \in NumTextTags \/ (Tag(i) = "type" /\ Doc[i].text # ""),
        MapL(Rot(NumLex, r * 7 + 5, LexPer), LAMBDA lx :
          TreeAct("GarbleNumber", cls[i] \o "@text", lx[1], <<SetText(i, lx[2])>>)))))

(* 3. GarbleName *)
NameLex == << <<"empty", "">>, <<"leading-digit", "1abc">>, <<"dash", "a-b">>, <<"space", "a b">>, <<"5000-chars", Long5000>>,
              <<"non-ascii", "\\u00e9">>, <<"keyword-class", "class">>, <<"keyword-int", "int">>, <<"keyword-namespace", "namespace">>,
              <<"reserved-types", "types">>, <<"reserved-messages", "messages">>, <<"reserved-schema", "schema">>,
              <<"reserved-detail", "detail">>, <<"dot", "a.b">>, <<"colons", "a::b">>, <<"slash", "../x">>, <<"quote", "a\"b">>,
              <<"nul", "a\\u0001b">>, <<"high-byte", "\\xff\\xfe">>, <<"underscore", "_">>, <<"double-underscore", "a__b">> >>
Named == Sel(ElSeq, LAMBDA i : Has(i, "name"))
NextSibNamed(i) == Sel(Kids(Par(i)), LAMBDA j : j # i /\ Has(j, "name"))
NameMuts(cls) ==
  Flat(MapIdx(PickEls(Named, cls), LAMBDA r, i :
    MapL(Rot(NameLex, r, NamePer), LAMBDA lx : TreeAct("GarbleName", cls[i], lx[1], <<SetAttr(i, "name", lx[2])>>)) \o
    MapL(EchoLex, LAMBDA lx : TreeAct("GarbleName", cls[i], lx[1], <<SetAttr(i, "name", lx[2])>>)) \o
    <<TreeAct("GarbleName", cls[i], "own-name-other-case", <<SetAttr(i, "name", CaseVariant(Val(i, "name")))>>)>> \o
    MapL(Take(NextSibNamed(i), 1), LAMBDA j :
      TreeAct("GarbleName", cls[i], "sibling-name-other-case", <<SetAttr(i, "name", CaseVariant(Val(j, "name")))>>)) \o
    MapL(Take(NextSibNamed(i), 1), LAMBDA j :
      TreeAct("GarbleName", cls[i], "same-as-sibling", <<SetAttr(i, "name", Val(j, "name"))>>)))) \o
  MapL(Rot(NameLex, 3, 0) \o EchoLex, LAMBDA lx : TreeAct("GarbleName", "schema@package", lx[1], <<SetAttr(Root, "package", lx[2])>>))

(* 4. MoveElement *)
cls0(i) == PosClass(i)
MoveAct(i, dst, at, label) == TreeAct("MoveElement", cls0(i) \o "->" \o cls0(dst), label, <<Move(i, dst, at)>>)
LevelMoves(lv) ==
  LET fs == KidsTagged(lv, "field")
      gs == KidsTagged(lv, "group")
      ds == KidsTagged(lv, "data")
  IN Opt(Len(fs) > 0 /\ Len(gs) > 0, <<MoveAct(fs[1], gs[Len(gs)], "after", "field-after-group")>>) \o
     Opt(Len(fs) > 0 /\ Len(ds) > 0, <<MoveAct(fs[1], ds[Len(ds)], "after", "field-after-data")>>) \o
     Opt(Len(gs) > 0 /\ Len(ds) > 0, <<MoveAct(gs[1], ds[Len(ds)], "after", "group-after-data")>>) \o
     Opt(Len(ds) > 0 /\ Len(fs) > 0, <<MoveAct(ds[1], fs[1], "before", "data-before-field")>>) \o
     Opt(Len(gs) > 0, <<MoveAct(gs[1], gs[1], "first", "group-into-itself")>>)
MoveMuts ==
  Flat(MapL(Levels, LevelMoves)) \o
  Flat(MapL(TypesEls, LAMBDA ty :
    MapL(Take(Tagged("ref"), 2), LAMBDA r : MoveAct(r, ty, "last", "ref-to-top-level-of-types")) \o
    MapL(Take(Tagged("field"), 1), LAMBDA f : MoveAct(f, ty, "last", "field-into-types")) \o
    MapL(Take(Tagged("validValue"), 1), LAMBDA x : MoveAct(x, ty, "first", "validValue-into-types")) \o
    MapL(Take(Messages, 1), LAMBDA m : MoveAct(m, ty, "last", "message-into-types")) \o
    MapL(Take(Messages, 1), LAMBDA m : MoveAct(ty, m, "first", "types-into-message")) \o
    MapL(Take(Messages, 1), LAMBDA m : MoveAct(ty, Messages[Len(Messages)], "after", "types-after-messages")))) \o
  Flat(MapL(Take(Messages, 1), LAMBDA m :
    MapL(Take(TopTypes, 1), LAMBDA t : MoveAct(t, m, "first", "type-into-message")) \o
    MapL(Take(TopWhere(LAMBDA t : Tag(t) = "composite"), 1), LAMBDA t : MoveAct(t, m, "last", "composite-into-message")) \o
    MapL(Take(Tagged("choice"), 1), LAMBDA c : MoveAct(c, m, "first", "choice-into-message")))) \o
  Opt(Len(Messages) >= 2, <<MoveAct(Messages[2], Messages[1], "last", "message-nested-in-message"),
                            MoveAct(Messages[2], Messages[1], "first", "message-nested-first-in-message")>>) \o
  Flat(MapL(Take(Tagged("group"), 1), LAMBDA g : MapL(Take(Messages, 1), LAMBDA m : MoveAct(m, g, "last", "message-nested-in-group")))) \o
  Flat(MapL(Take(Tagged("field"), 1), LAMBDA f : <<MoveAct(f, Root, "first", "field-under-root")>>)) \o
  Flat(MapL(Take(Tagged("enum"), 1), LAMBDA e : MapL(Take(Tagged("set"), 1), LAMBDA s :
    MoveAct(KidsTagged(s, "choice")[1], e, "last", "choice-into-enum")))) \o
  Flat(MapL(Take(Tagged("enum"), 1), LAMBDA e : MapL(Take(Tagged("set"), 1), LAMBDA s :
    MoveAct(KidsTagged(e, "validValue")[1], s, "last", "validValue-into-set")))) \o
  Flat(MapL(Take(TopWhere(LAMBDA t : Tag(t) = "composite" /\ RoleOfTop(t) = "public"), 1), LAMBDA c :
    MapL(Take(Tagged("field"), 1), LAMBDA f : MoveAct(f, c, "first", "field-into-composite")) \o
    MapL(Take(TopWhere(LAMBDA t : Tag(t) = "composite" /\ RoleOfTop(t) = "header"), 1), LAMBDA h : MoveAct(h, c, "last", "header-composite-into-composite"))))

(* 5. Retarget: every attribute that names another entity *)
RefAttrOf(i) == CASE Tag(i) \in {"field", "data", "ref"} -> <<"type">>
                  [] Tag(i) \in {"enum", "set"} -> <<"encodingType">>
                  [] Tag(i) = "group" -> <<"dimensionType">>
                  [] Tag(i) = "messageSchema" -> <<"headerType">>
                  [] OTHER -> <<>>
RefHolders == Sel(ElSeq, LAMBDA i : Len(RefAttrOf(i)) > 0)
SelfName(i) == IF TopOf(i) # 0 THEN Val(TopOf(i), "name") ELSE Val(i, "name")
RetargetAt(cls, i) ==
  LET a == RefAttrOf(i)[1]
      cur == Val(i, a)
      pos == cls[i] \o "@" \o a
  IN MapL(Sel(KindTargets, LAMBDA t : t[2] # cur), LAMBDA t : TreeAct("Retarget", pos, t[1], <<SetAttr(i, a, t[2])>>)) \o
     <<TreeAct("Retarget", pos, "self", <<SetAttr(i, a, SelfName(i))>>),
       TreeAct("Retarget", pos, "nonexistent", <<SetAttr(i, a, "nosuch_t")>>),
       TreeAct("Retarget", pos, "empty", <<SetAttr(i, a, "")>>),
       TreeAct("Retarget", pos, "primitive-char", <<SetAttr(i, a, "char")>>),
       TreeAct("Retarget", pos, "primitive-double", <<SetAttr(i, a, "double")>>),
       TreeAct("Retarget", pos, "primitive-other-case", <<SetAttr(i, a, "UINT8")>>),
       TreeAct("Retarget", pos, "non-ascii", <<SetAttr(i, a, "\\u00e9\\xff")>>)>> \o
     MapL(EchoLex, LAMBDA lx : TreeAct("Retarget", pos, lx[1], <<SetAttr(i, a, lx[2])>>)) \o
     Opt(cur # "" /\ CaseVariant(cur) # cur, <<TreeAct("Retarget", pos, "other-case", <<SetAttr(i, a, CaseVariant(cur))>>)>>)
PubComposites == TopWhere(LAMBDA t : Tag(t) = "composite" /\ RoleOfTop(t) = "public")
MutualCycles ==
  Opt(Len(PubComposites) >= 2,
      LET a == PubComposites[1]
          b == PubComposites[2]
      IN <<TreeAct("Retarget", "public:composite", "mutual-cycle-by-refs",
                   <<Insert(a, "last", RefFrag("cyc_b", Val(b, "name"))), Insert(b, "last", RefFrag("cyc_a", Val(a, "name")))>>),
           TreeAct("Retarget", "public:composite", "self-cycle-by-ref",
                   <<Insert(a, "last", RefFrag("cyc_self", Val(a, "name")))>>)>>) \o
  Flat(MapL(Take(Sel(TopTypes, LAMBDA t : Tag(t) = "enum"), 1), LAMBDA e :
    <<TreeAct("Retarget", "public:enum@encodingType", "mutual-cycle-of-encoding-types",
              <<SetAttr(e, "encodingType", Val(e, "name"))>>)>>)) \o
  Flat(MapL(Take(TopWhere(IsScalarT), 1), LAMBDA t :
    <<TreeAct("Retarget", "public:type@primitiveType", "own-name", <<SetAttr(t, "primitiveType", Val(t, "name"))>>),
      TreeAct("Retarget", "public:type@primitiveType", "other-case", <<SetAttr(t, "primitiveType", "UINT16")>>),
      TreeAct("Retarget", "public:type@primitiveType", "nonexistent", <<SetAttr(t, "primitiveType", "int24")>>)>>))
RetargetMuts(cls) == Flat(MapL(PickEls(RefHolders, cls), LAMBDA i : RetargetAt(cls, i))) \o MutualCycles

(* 6. LevelHeaderVariant: the members of header / dimension / data composites *)
RoleComposites == TopWhere(LAMBDA t : Tag(t) = "composite" /\ RoleOfTop(t) # "public")
Member(c, name) == Sel(Kids(c), LAMBDA j : Val(j, "name") = name)
HelperType(isVar) == IF isVar THEN TypeFrag("c09_vd", "uint8", <<A("length", "0")>>) ELSE TypeFrag("c09_u16", "uint16", <<>>)
HeaderVariantsOf(c, nm) ==
  LET role == RoleOfTop(c)
      pos == role \o "/" \o nm
      ms == Member(c, nm)
      isVar == nm = "varData"
      LV(label, edits) == TreeAct("LevelHeaderVariant", pos, label, edits)
      first(P(_)) == Take(TopWhere(P), 1)
  IN IF Len(ms) = 0 \/ Len(TypesEls) = 0 THEN <<>>
     ELSE LET m == ms[1] IN
       <<LV("as-ref", <<Insert(TypesEls[1], "first", HelperType(isVar)),
                        Replace(m, RefFrag(nm, IF isVar THEN "c09_vd" ELSE "c09_u16"))>>),
         LV("as-inline-composite", <<Replace(m, CompFrag(nm))>>),
         LV("as-enum", <<Replace(m, EnumFrag(nm))>>),
         LV("as-set", <<Replace(m, SetFrag(nm))>>),
         LV("constant", <<SetAttr(m, "presence", "constant"), SetText(m, "1")>>),
         LV("constant-without-value", <<SetAttr(m, "presence", "constant")>>),
         LV("optional", <<SetAttr(m, "presence", "optional")>>),
         LV("array-length-2", <<SetAttr(m, "length", "2")>>),
         LV("array-length-0", <<SetAttr(m, "length", "0")>>),
         LV("missing", <<Delete(m)>>),
         LV("duplicated", <<Dup(m)>>),
         LV("renamed-other-case", <<SetAttr(m, "name", CaseVariant(nm))>>),
         LV("float", <<SetAttr(m, "primitiveType", "float")>>),
         LV("char", <<SetAttr(m, "primitiveType", "char")>>),
         LV("signed", <<SetAttr(m, "primitiveType", "int8")>>),
         LV("uint64", <<SetAttr(m, "primitiveType", "uint64")>>),
         LV("moved-last", <<Move(m, c, "last")>>),
         LV("huge-offset", <<SetAttr(m, "offset", "4294967295")>>)>> \o
       MapL(first(LAMBDA t : Tag(t) = "composite" /\ RoleOfTop(t) = "public"), LAMBDA t : LV("as-ref-to-composite", <<Replace(m, RefFrag(nm, Val(t, "name")))>>)) \o
       MapL(first(LAMBDA t : Tag(t) = "enum"), LAMBDA t : LV("as-ref-to-enum", <<Replace(m, RefFrag(nm, Val(t, "name")))>>)) \o
       MapL(first(LAMBDA t : Tag(t) = "set"), LAMBDA t : LV("as-ref-to-set", <<Replace(m, RefFrag(nm, Val(t, "name")))>>)) \o
       MapL(first(IsConstT), LAMBDA t : LV("as-ref-to-constant", <<Replace(m, RefFrag(nm, Val(t, "name")))>>)) \o
       MapL(first(IsArrayT), LAMBDA t : LV("as-ref-to-array", <<Replace(m, RefFrag(nm, Val(t, "name")))>>)) \o
       <<LV("as-ref-to-own-composite", <<Replace(m, RefFrag(nm, Val(c, "name")))>>),
         LV("as-ref-to-nothing", <<Replace(m, RefFrag(nm, "nosuch_t"))>>)>>
HeaderMuts ==
  Flat(MapL(RoleComposites, LAMBDA c : Flat(MapL(Required(RoleOfTop(c)), LAMBDA nm : HeaderVariantsOf(c, nm))))) \o
  Flat(MapL(RoleComposites, LAMBDA c :
    <<TreeAct("LevelHeaderVariant", RoleOfTop(c), "no-members", MapL(Kids(c), Delete)),
      TreeAct("LevelHeaderVariant", RoleOfTop(c), "composite-missing", <<Delete(c)>>),
      TreeAct("LevelHeaderVariant", RoleOfTop(c), "composite-duplicated", <<Dup(c)>>),
      TreeAct("LevelHeaderVariant", RoleOfTop(c), "composite-as-type", <<Replace(c, TypeFrag(Val(c, "name"), "uint16", <<>>))>>),
      TreeAct("LevelHeaderVariant", RoleOfTop(c), "composite-as-enum", <<Replace(c, EnumFrag(Val(c, "name")))>>),
      TreeAct("LevelHeaderVariant", RoleOfTop(c), "composite-as-set", <<Replace(c, SetFrag(Val(c, "name")))>>)>>))

(* 7. ConstantVariants *)
VRefGarbage == << <<"empty", "">>, <<"dot", ".">>, <<"no-value", "A.">>, <<"no-enum", ".B">>, <<"two-dots", "A.B.C">>,
                  <<"no-dot", "A">>, <<"unknown-enum", "nosuch_e.X">> >>
FirstEnumName == IF Len(TopWhere(LAMBDA t : Tag(t) = "enum")) > 0 THEN Val(TopWhere(LAMBDA t : Tag(t) = "enum")[1], "name") ELSE "nosuch_e"
FirstCompName == IF Len(PubComposites) > 0 THEN Val(PubComposites[1], "name") ELSE "nosuch_c"
VRefPool == VRefGarbage \o << <<"brace-pair", "{}.{}">>, <<"brace-open", "a{.b">> >> \o << <<"unknown-value", FirstEnumName \o ".NoSuchValue">>, <<"enum-other-case", CaseVariant(FirstEnumName) \o ".A">>,
                              <<"composite-member", FirstCompName \o ".x">>, <<"only-enum-name", FirstEnumName>> >>
TypeEls == Tagged("type")
PrimOf(i) == IF Has(i, "primitiveType") THEN Val(i, "primitiveType") ELSE "?"
TypeShape(i) == PrimOf(i) \o (IF Has(i, "length") THEN "[n]" ELSE "") \o (IF Val(i, "presence") = "constant" THEN "/const" ELSE "")
ConstTypeAt(cls, i) ==
  LET pos == cls[i] \o ":" \o TypeShape(i)
      CV(label, edits) == TreeAct("ConstantVariants", pos, label, edits)
      mk == <<SetAttr(i, "presence", "constant")>>
  IN <<CV("constant-empty-content", mk \o <<SetText(i, "")>>),
       CV("constant-empty-content-no-length", mk \o <<SetText(i, "")>> \o Opt(Has(i, "length"), <<DropAttr(i, "length")>>)),
       CV("constant-empty-content-no-valueRef", mk \o <<SetText(i, "")>> \o Opt(Has(i, "valueRef"), <<DropAttr(i, "valueRef")>>)),
       CV("constant-blank-content", mk \o <<SetText(i, "  ")>>),
       CV("constant-value-and-valueRef", mk \o <<SetText(i, "1"), SetAttr(i, "valueRef", FirstEnumName \o ".A")>>),
       CV("constant-long-content", mk \o <<SetText(i, Long5000)>>),
       CV("constant-quote-backslash-content", mk \o <<SetText(i, "a\"b\\")>>),
       CV("constant-non-ascii-content", mk \o <<SetText(i, "\\u00e9\\xff")>>),
       CV("constant-length-0", mk \o <<SetText(i, "1"), SetAttr(i, "length", "0")>>),
       CV("constant-length-u32-max", mk \o <<SetText(i, "ab"), SetAttr(i, "length", "4294967295")>>),
       CV("constant-length-u64-max", mk \o <<SetText(i, "ab"), SetAttr(i, "length", "18446744073709551615")>>),
       CV("constant-length-100000", mk \o <<SetText(i, "ab"), SetAttr(i, "length", "100000")>>),
       CV("char-constant", mk \o <<SetAttr(i, "primitiveType", "char"), SetText(i, "")>> \o Opt(Has(i, "length"), <<DropAttr(i, "length")>>) \o Opt(Has(i, "valueRef"), <<DropAttr(i, "valueRef")>>)),
       CV("presence-garbage", <<SetAttr(i, "presence", "Constant")>>),
       CV("presence-empty", <<SetAttr(i, "presence", "")>>)>> \o
     MapL(VRefPool, LAMBDA g : CV("valueRef-" \o g[1], mk \o <<SetAttr(i, "valueRef", g[2]), SetText(i, "")>>))
FieldKindOf(f) ==
  LET t == Val(f, "type")
      m == TopWhere(LAMBDA x : Val(x, "name") = t)
  IN IF Len(m) = 0 THEN "primitive" ELSE Tag(m[1])
ConstFieldAt(cls, f) ==
  LET pos == cls[f] \o ":" \o FieldKindOf(f)
      CV(label, edits) == TreeAct("ConstantVariants", pos, label, edits)
      mk == <<SetAttr(f, "presence", "constant")>>
  IN <<CV("constant-without-valueRef", mk \o Opt(Has(f, "valueRef"), <<DropAttr(f, "valueRef")>>)),
       CV("constant-with-content", mk \o <<SetText(f, "1")>>),
       CV("optional", <<SetAttr(f, "presence", "optional")>>),
       CV("presence-garbage", <<SetAttr(f, "presence", "optional ")>>),
       CV("valueRef-without-constant", <<SetAttr(f, "valueRef", FirstEnumName \o ".A"), SetAttr(f, "presence", "required")>>)>> \o
     MapL(VRefPool, LAMBDA g : CV("valueRef-" \o g[1], mk \o <<SetAttr(f, "valueRef", g[2])>>))
ShapeCls(cls) == [i \in Els |-> cls[i] \o ":" \o (IF Tag(i) = "type" THEN TypeShape(i) ELSE IF Tag(i) = "field" THEN FieldKindOf(i) ELSE "")]
ConstMuts(cls) ==
  LET sc == ShapeCls(cls) \o <<>>
  IN Flat(MapL(PickEls(TypeEls, sc), LAMBDA i : ConstTypeAt(cls, i))) \o
     Flat(MapL(PickEls(Tagged("field"), sc), LAMBDA f : ConstFieldAt(cls, f)))

(* 8. IncludeGraph *)
IncAct(label, edits, files) == Act("include", "IncludeGraph", "schema", label, edits, files, <<>>, "")
IncRoot(href, at) == Insert(Root, at, IncFrag(href))
FirstTopName == IF Len(TopTypes) > 0 THEN Val(TopTypes[1], "name") ELSE "messageHeader"
FirstMsg == IF Len(Messages) > 0 THEN <<[name |-> Val(Messages[1], "name"), id |-> Val(Messages[1], "id")]>> ELSE <<>>
\* a file with k includes: the i-th one closes a cycle (to the file itself / its parent / its grandparent),
\* the others are small valid fragments (an included file may hold several top-level nodes)
LeafName(j) == "l" \o NumStr(j) \o ".xml"
Leaf(j) == Frag(LeafName(j), <<>>, <<"inc_l" \o NumStr(j)>>)
IncList(k, i, target) == [j \in 1 .. k |-> IF j = i THEN target ELSE LeafName(j)]
Leaves(k, i) == Flat([j \in 1 .. k |-> IF j = i THEN <<>> ELSE <<Leaf(j)>>])
KI(k, i) == NumStr(k) \o "-includes/through-no-" \o NumStr(i)
CycleMutsK ==
  Flat([kk \in 1 .. 2 |-> LET k == kk + 1 IN Flat([i \in 1 .. k |->
    <<IncAct("cycle-to-itself/" \o KI(k, i), <<IncRoot("a.xml", "first")>>,
             <<Frag("a.xml", IncList(k, i, "a.xml"), <<>>)>> \o Leaves(k, i)),
      IncAct("cycle-to-parent/" \o KI(k, i), <<IncRoot("a.xml", "last")>>,
             <<Frag("a.xml", <<"b.xml">>, <<>>), Frag("b.xml", IncList(k, i, "a.xml"), <<>>)>> \o Leaves(k, i)),
      IncAct("cycle-to-parent-both-with-several/" \o KI(k, i), <<IncRoot("a.xml", "first")>>,
             <<Frag("a.xml", IncList(k, i, "b.xml"), <<>>), Frag("b.xml", IncList(k, i, "a.xml"), <<>>)>> \o Leaves(k, i)),
      IncAct("cycle-to-grandparent/" \o KI(k, i), <<IncRoot("a.xml", "first")>>,
             <<Frag("a.xml", <<"b.xml">>, <<>>), Frag("b.xml", <<"c.xml">>, <<>>), Frag("c.xml", IncList(k, i, "a.xml"), <<>>)>> \o Leaves(k, i)),
      \* the schema file itself has k includes, the i-th leads into a fragment that includes itself second
      IncAct("cycle-entered-from-schema/" \o KI(k, i), [j \in 1 .. k |-> Insert(Root, "last", IncFrag(IF j = i THEN "a.xml" ELSE LeafName(j)))],
             <<Frag("a.xml", <<"l9.xml", "a.xml">>, <<>>), Leaf(9)>> \o Leaves(k, i)),
      \* no cycle at all: k includes of distinct valid fragments
      IncAct("acyclic/" \o KI(k, i), <<IncRoot("a.xml", "first")>>,
             <<Frag("a.xml", IncList(k, i, "b.xml"), <<>>), Frag("b.xml", <<>>, <<"inc_b">>)>> \o Leaves(k, i))>>])])

IncludeMuts ==
  <<IncAct("missing-file", <<IncRoot("nosuch.xml", "first")>>, NoFile),
    IncAct("missing-file-absolute", <<IncRoot("/nonexistent/dir/x.xml", "last")>>, NoFile),
    IncAct("href-is-directory", <<IncRoot(".", "first")>>, NoFile),
    IncAct("href-5000-chars", <<IncRoot(Long5000, "first")>>, NoFile),
    IncAct("href-non-ascii", <<IncRoot("\\u00e9\\xff.xml", "first")>>, NoFile),
    IncAct("href-brace-pair", <<IncRoot("{}.xml", "first")>>, NoFile),
    IncAct("href-brace-open", <<IncRoot("a{b.xml", "last")>>, NoFile),
    IncAct("href-printf-conversions", <<IncRoot("%s%n.xml", "first")>>, NoFile),
    IncAct("href-missing", <<Insert(Root, "first", <<FragEl("xi:include", 0, <<>>, "")>>)>>, NoFile),
    IncAct("self-include-of-main", <<IncRoot("main.xml", "first")>>, NoFile),
    IncAct("self-include-of-fragment", <<IncRoot("a.xml", "first")>>, <<Frag("a.xml", <<"a.xml">>, <<>>)>>),
    IncAct("mutual-include", <<IncRoot("a.xml", "first")>>, <<Frag("a.xml", <<"b.xml">>, <<>>), Frag("b.xml", <<"a.xml">>, <<>>)>>),
    IncAct("mutual-include-with-types", <<IncRoot("a.xml", "last")>>, <<Frag("a.xml", <<"b.xml">>, <<"inc_a">>), Frag("b.xml", <<"a.xml">>, <<"inc_b">>)>>),
    IncAct("diamond", <<IncRoot("a.xml", "first"), IncRoot("b.xml", "first")>>,
           <<Frag("a.xml", <<"c.xml">>, <<"inc_a">>), Frag("b.xml", <<"c.xml">>, <<"inc_b">>), Frag("c.xml", <<>>, <<"inc_c">>)>>),
    IncAct("diamond-without-definitions", <<IncRoot("a.xml", "first"), IncRoot("b.xml", "first")>>,
           <<Frag("a.xml", <<"c.xml">>, <<>>), Frag("b.xml", <<"c.xml">>, <<>>), Frag("c.xml", <<>>, <<>>)>>),
    IncAct("same-file-twice", <<IncRoot("a.xml", "first"), IncRoot("a.xml", "last")>>, <<Frag("a.xml", <<>>, <<"inc_a">>)>>),
    IncAct("duplicate-type-definition", <<IncRoot("a.xml", "last")>>, <<Frag("a.xml", <<>>, <<FirstTopName>>)>>),
    IncAct("duplicate-type-definition-other-case", <<IncRoot("a.xml", "first")>>, <<Frag("a.xml", <<>>, <<CaseVariant(FirstTopName)>>)>>),
    IncAct("duplicate-inside-fragment", <<IncRoot("a.xml", "first")>>, <<Frag("a.xml", <<>>, <<"inc_a", "inc_a">>)>>),
    IncAct("duplicate-message", <<IncRoot("a.xml", "last")>>, <<File("a.xml", "frag", <<>>, <<>>, FirstMsg, 0)>>),
    IncAct("valid-fragment", <<IncRoot("a.xml", "first")>>, <<Frag("a.xml", <<>>, <<"inc_a">>)>>),
    IncAct("not-xml", <<IncRoot("a.xml", "first")>>, <<File("a.xml", "garbage", <<>>, <<>>, <<>>, 0)>>),
    IncAct("empty-file", <<IncRoot("a.xml", "first")>>, <<File("a.xml", "empty", <<>>, <<>>, <<>>, 0)>>),
    IncAct("copy-of-main", <<IncRoot("a.xml", "last")>>, <<File("a.xml", "copy-of-main", <<>>, <<>>, <<>>, 0)>>),
    IncAct("chain-of-60", <<IncRoot("ch1.xml", "first")>>, <<File("ch", "chain", <<>>, <<>>, <<>>, 60)>>),
    IncAct("chain-of-50-two-includes-per-file", <<IncRoot("cc1.xml", "first")>>, <<File("cc", "chain2", <<>>, <<>>, <<>>, 50)>>),
    IncAct("diamond-with-repeated-includes", <<IncRoot("a.xml", "first"), IncRoot("b.xml", "first"), IncRoot("a.xml", "last")>>,
           <<Frag("a.xml", <<"c.xml", "c.xml">>, <<>>), Frag("b.xml", <<"c.xml", "a.xml">>, <<>>), Frag("c.xml", <<>>, <<>>)>>),
    IncAct("diamond-with-repeated-includes-and-definitions", <<IncRoot("a.xml", "first"), IncRoot("b.xml", "last")>>,
           <<Frag("a.xml", <<"c.xml", "c.xml">>, <<"inc_a">>), Frag("b.xml", <<"c.xml">>, <<"inc_b">>), Frag("c.xml", <<>>, <<"inc_c">>)>>)>> \o
  CycleMutsK \o
  Flat(MapL(TypesEls, LAMBDA ty : <<IncAct("include-inside-types", <<Insert(ty, "first", IncFrag("a.xml"))>>, <<Frag("a.xml", <<>>, <<"inc_a">>)>>)>>)) \o
  Flat(MapL(Take(Messages, 1), LAMBDA m : <<IncAct("include-inside-message", <<Insert(m, "first", IncFrag("nosuch.xml"))>>, NoFile)>>))

(* 9. DocumentDamage *)
DocAct(label, lex, edits) == Act("doc", "DocumentDamage", label, lex, edits, NoFile, <<>>, "")
CutPoints == {k \in 1 .. NTok - 1 : (k + Seed) % TruncStep = 0} \cup {1, 2, NTok - 1}
InsLex == << <<"stray-lt", "<">>, <<"bad-entity", "&foo;">>, <<"nul-byte", "\\x00">>, <<"stray-gt", ">">>, <<"stray-quote", "\"">>,
             <<"open-comment", "<!--">>, <<"open-cdata", "<![CDATA[">>, <<"surrogate-char-ref", "&#xD800;">>, <<"nul-char-ref", "&#0;">>,
             <<"cdata-end", "]]>">>, <<"invalid-utf8", "\\xc3\\x28">>, <<"pi-include", "<?include href='x'?>">>, <<"lone-ampersand", "&">> >>
InsPoints == {k \in 1 .. NTok - 1 : (k + Seed) % (TruncStep * 4) = 1}
\* a set of token positions as an ascending sequence
SeqOfSet(S) == SelectSeq([k \in 1 .. NTok |-> k], LAMBDA k : k \in S)
DocMuts ==
  MapL(SeqOfSet(CutPoints), LAMBDA k : DocAct("truncate", "at-token", <<TextOp("truncate", k, "")>>)) \o
  MapL(SeqOfSet({k \in CutPoints : k % 3 = 0}), LAMBDA k : DocAct("truncate", "inside-token", <<TextOp("truncmid", k, "")>>)) \o
  Flat(MapIdx(SeqOfSet(InsPoints), LAMBDA r, k : MapL(Rot(InsLex, r, 3), LAMBDA lx : DocAct("insert", lx[1], <<TextOp("textins", k, lx[2])>>)))) \o
  MapL(InsLex, LAMBDA lx : DocAct("insert", lx[1], <<TextOp("textins", NTok \div 2, lx[2])>>)) \o
  <<DocAct("whole-file", "empty", <<TextOp("textset", 0, "")>>),
    DocAct("whole-file", "only-whitespace", <<TextOp("textset", 0, " \n\t ")>>),
    DocAct("whole-file", "only-declaration", <<TextOp("textset", 0, "<?xml version=\"1.0\"?>")>>),
    DocAct("whole-file", "only-nul-bytes", <<TextOp("textset", 0, "\\x00\\x00\\x00\\x00")>>),
    DocAct("whole-file", "only-lt", <<TextOp("textset", 0, "<")>>),
    DocAct("whole-file", "binary", <<TextOp("textset", 0, "\\x7fELF\\x02\\x01\\x01\\x00\\xff\\xfe\\xfd")>>),
    DocAct("encoding", "utf16-bom-before-utf8-text", <<TextOp("prepend", 0, "\\xff\\xfe")>>),
    DocAct("encoding", "utf8-bom", <<TextOp("prepend", 0, "\\xef\\xbb\\xbf")>>),
    DocAct("encoding", "utf32-bom-before-utf8-text", <<TextOp("prepend", 0, "\\xff\\xfe\\x00\\x00")>>),
    DocAct("encoding", "utf-16", <<TextOp("reencode", 0, "utf-16")>>),
    DocAct("encoding", "utf-16-be-without-bom", <<TextOp("reencode", 0, "utf-16-be")>>),
    DocAct("encoding", "utf-32", <<TextOp("reencode", 0, "utf-32")>>),
    DocAct("encoding", "declared-encoding-unknown", <<TextOp("setdecl", 0, "<?xml version=\"1.0\" encoding=\"no-such-charset\"?>")>>),
    DocAct("encoding", "declaration-garbage", <<TextOp("setdecl", 0, "<?xml version=\"9.9\" standalone=\"maybe\"?>")>>),
    DocAct("encoding", "no-declaration", <<TextOp("setdecl", 0, "")>>),
    DocAct("encoding", "doctype-with-entities", <<TextOp("setdecl", 0, "<?xml version=\"1.0\"?><!DOCTYPE x [<!ENTITY a \"aaaaaaaaaa\"><!ENTITY b \"&a;&a;&a;&a;&a;&a;&a;&a;\"><!ENTITY c \"&b;&b;&b;&b;&b;&b;&b;&b;\">]>")>>),
    DocAct("tail", "text-after-root", <<TextOp("append", 0, "trailing text")>>),
    DocAct("tail", "second-root-appended", <<TextOp("append", 0, "<sbe:messageSchema package=\"second\" id=\"2\" version=\"0\"/>")>>),
    DocAct("tail", "nul-after-root", <<TextOp("append", 0, "\\x00")>>),
    DocAct("structure", "wrong-root-element", <<Retag(Root, "sbe:message")>>),
    DocAct("structure", "root-without-prefix", <<Retag(Root, "messageSchema")>>),
    DocAct("structure", "root-other-prefix", <<Retag(Root, "x:y:messageSchema")>>),
    DocAct("structure", "root-tag-other-case", <<Retag(Root, "sbe:MessageSchema")>>),
    DocAct("structure", "two-roots", <<Dup(Root)>>),
    DocAct("structure", "root-inside-root", <<Nest(0, "sbe:messageSchema", 1, NoFrag)>>),
    DocAct("structure", "no-messages", MapL(Messages, Delete)),
    DocAct("structure", "empty-root", MapL(Kids(Root), Delete)),
    DocAct("structure", "root-nested-10000-deep", <<Nest(0, "wrap", 10000, NoFrag)>>),
    DocAct("structure", "root-nested-100-deep", <<Nest(0, "wrap", 100, NoFrag)>>)>> \o
  Flat(MapL(TypesEls, LAMBDA ty :
    <<DocAct("structure", "missing-types", <<Delete(ty)>>),
      DocAct("structure", "empty-types", MapL(Kids(ty), Delete)),
      DocAct("structure", "two-types-blocks", <<Dup(ty)>>),
      DocAct("structure", "types-retagged", <<Retag(ty, "Types")>>),
      DocAct("structure", "composites-nested-10000-deep", <<Nest(ty, "composite", 10000, <<FragEl("composite", 0, <<A("name", "deep")>>, "")>>)>>),
      DocAct("structure", "composites-nested-100-deep", <<Nest(ty, "composite", 100, <<FragEl("composite", 0, <<A("name", "deep")>>, "")>>)>>),
      DocAct("structure", "unknown-elements-nested-10000-deep", <<Nest(ty, "zzz", 10000, NoFrag)>>)>>)) \o
  Flat(MapL(Take(Messages, 1), LAMBDA m :
    <<DocAct("structure", "groups-nested-10000-deep", <<Nest(m, "group", 10000, <<FragEl("group", 0, <<A("name", "deep"), A("id", "1")>>, "")>>)>>),
      DocAct("structure", "groups-nested-100-deep", <<Nest(m, "group", 100, <<FragEl("group", 0, <<A("name", "deep"), A("id", "1")>>, "")>>)>>),
      DocAct("structure", "message-retagged", <<Retag(m, "sbe:Message")>>),
      DocAct("structure", "message-duplicated", <<Dup(m)>>)>>))

(* 10. Argv: the command line (placeholders starting with @ are fixtures    *)
(* of the run directory: @main the schema, @out the output directory (not   *)
(* yet existing), @second another valid schema, @missing a path that does   *)
(* not exist, @dir a directory, @unreadable a file with mode 000, @outfile  *)
(* an existing regular file, @outro a directory with mode 555, @long a      *)
(* 5000-character name; "@none" = no arguments at all).  env: "nobody" = the *)
(* fixture only bites for an unprivileged user (the run is made as one).    *)
ArgAct(variant, lex, argv, env) == Act("argv", "Argv", variant, lex, <<>>, NoFile, argv, env)
Std == <<"--output-dir", "@out">>
OptNames == <<"--schema-name", "--output-dir", "--inject-include">>
SchemaNames == << <<"empty", "">>, <<"space", "a b">>, <<"keyword", "class">>, <<"leading-digit", "9x">>, <<"slash", "a/b">>,
                  <<"dot-dot", "../x">>, <<"colons", "a::b">>, <<"5000-chars", Long5000>>, <<"non-ascii", "\\u00e9">>,
                  <<"invalid-utf8", "\\xff\\xfe">>, <<"reserved-types", "types">>, <<"reserved-schema", "schema">>, <<"valid", "other_name">>,
                  <<"dash-dash", "--">>, <<"option-like", "--output-dir">>, <<"brace-pair", "{}">>, <<"brace-open", "a{b">> >>
IncludeArgs == << <<"quote", "a\"b.hpp">>, <<"backslash", "a\\b.hpp">>, <<"angle", "<vector>">>, <<"empty", "">>, <<"newline", "a\\u000ab">>,
                  <<"directive-injection", "x.hpp\"\\u000a#error injected\\u000a#include \"y">>, <<"5000-chars", Long5000>>,
                  <<"non-ascii", "\\u00e9\\xff.hpp">>, <<"valid", "my/header.hpp">> >>
ArgvMuts ==
  <<ArgAct("no-arguments", "-", <<"@none">>, ""),
    ArgAct("help", "alone", <<"--help">>, ""),
    ArgAct("help", "before-file", <<"--help", "@main">>, ""),
    ArgAct("help", "after-options", Std \o <<"--help">>, ""),
    ArgAct("help", "after-file", Std \o <<"@main", "--help">>, ""),
    ArgAct("help", "after-dash-dash", Std \o <<"--", "--help">>, ""),
    ArgAct("help", "with-value", <<"--help=1">>, ""),
    ArgAct("version", "alone", <<"--version">>, ""),
    ArgAct("version", "before-file", <<"--version", "@main">>, ""),
    ArgAct("version", "twice", <<"--version", "--version">>, ""),
    ArgAct("unknown-option", "long", Std \o <<"--nope", "@main">>, ""),
    ArgAct("unknown-option", "short", Std \o <<"-x", "@main">>, ""),
    ArgAct("unknown-option", "single-dash", Std \o <<"-", "@main">>, ""),
    ArgAct("unknown-option", "triple-dash", Std \o <<"---", "@main">>, ""),
    ArgAct("unknown-option", "equals-form", <<"--output-dir=@out", "@main">>, ""),
    ArgAct("unknown-option", "5000-chars", <<"--" \o Long5000, "@main">>, ""),
    ArgAct("unknown-option", "non-ascii", <<"--\\u00e9\\xff", "@main">>, ""),
    ArgAct("dash-dash", "before-file", Std \o <<"--", "@main">>, ""),
    ArgAct("dash-dash", "alone", <<"--">>, ""),
    ArgAct("dash-dash", "twice", Std \o <<"--", "--", "@main">>, ""),
    ArgAct("dash-dash", "after-file", Std \o <<"@main", "--">>, ""),
    ArgAct("dash-dash", "then-option", <<"--", "--output-dir", "@out", "@main">>, ""),
    ArgAct("dash-dash", "file-named-like-option", Std \o <<"--", "-weird.xml">>, ""),
    ArgAct("files", "two-files", Std \o <<"@main", "@second">>, ""),
    ArgAct("files", "same-file-twice", Std \o <<"@main", "@main">>, ""),
    ArgAct("files", "no-file", Std, ""),
    ArgAct("files", "options-after-file", <<"@main", "--output-dir", "@out">>, ""),
    ArgAct("files", "nonexistent", Std \o <<"@missing">>, ""),
    ArgAct("files", "directory", Std \o <<"@dir">>, ""),
    ArgAct("files", "unreadable", Std \o <<"@unreadable">>, "nobody"),
    ArgAct("files", "empty-name", Std \o <<"">>, ""),
    ArgAct("files", "5000-char-name", Std \o <<"@long">>, ""),
    ArgAct("files", "dev-null", Std \o <<"/dev/null">>, ""),
    ArgAct("files", "dev-zero", Std \o <<"/dev/zero">>, ""),
    ArgAct("files", "non-ascii-name", Std \o <<"\\u00e9\\xff.xml">>, ""),
    ArgAct("files", "brace-pair-name", Std \o <<"{}.xml">>, ""),
    ArgAct("files", "brace-open-name", Std \o <<"a{b.xml">>, ""),
    ArgAct("files", "printf-conversions-name", Std \o <<"%s%n.xml">>, ""),
    ArgAct("unknown-option", "braces", Std \o <<"--{}", "@main">>, ""),
    ArgAct("output-dir", "braces-below-a-file", <<"--output-dir", "@outfile/{}", "@main">>, ""),
    ArgAct("files", "second-valid-schema", Std \o <<"@second">>, ""),
    ArgAct("output-dir", "existing-file", <<"--output-dir", "@outfile", "@main">>, ""),
    ArgAct("output-dir", "below-a-file", <<"--output-dir", "@outfile/sub", "@main">>, ""),
    ArgAct("output-dir", "unwritable", <<"--output-dir", "@outro/sub", "@main">>, "nobody"),
    ArgAct("output-dir", "unwritable-itself", <<"--output-dir", "@outro", "@main">>, "nobody"),
    ArgAct("output-dir", "empty", <<"--output-dir", "", "@main">>, ""),
    ArgAct("output-dir", "5000-chars", <<"--output-dir", "@out/" \o Long5000, "@main">>, ""),
    ArgAct("output-dir", "dev-null", <<"--output-dir", "/dev/null", "@main">>, ""),
    ArgAct("output-dir", "proc", <<"--output-dir", "/proc/c09_nosuch/x", "@main">>, ""),
    ArgAct("output-dir", "given-twice", <<"--output-dir", "@outfile", "--output-dir", "@out", "@main">>, ""),
    ArgAct("output-dir", "non-ascii", <<"--output-dir", "@out/\\u00e9\\xff", "@main">>, ""),
    ArgAct("output-dir", "default-cwd", <<"@main">>, "")>> \o
  MapL(OptNames, LAMBDA o : ArgAct("missing-value", o \o "/alone", <<o>>, "")) \o
  MapL(OptNames, LAMBDA o : ArgAct("missing-value", o \o "/last", Std \o <<"@main", o>>, "")) \o
  MapL(OptNames, LAMBDA o : ArgAct("missing-value", o \o "/takes-the-file", (IF o = "--output-dir" THEN <<>> ELSE Std) \o <<o, "@main">>, "")) \o
  MapL(OptNames, LAMBDA o : ArgAct("missing-value", o \o "/takes-dash-dash", Std \o <<o, "--", "@main">>, "")) \o
  MapL(SchemaNames, LAMBDA s : ArgAct("schema-name", s[1], Std \o <<"--schema-name", s[2], "@main">>, "")) \o
  MapL(IncludeArgs, LAMBDA s : ArgAct("inject-include", s[1], Std \o <<"--inject-include", s[2], "@main">>, "")) \o
  <<ArgAct("schema-name", "given-twice", Std \o <<"--schema-name", "9x", "--schema-name", "ok_name", "@main">>, ""),
    ArgAct("inject-include", "given-twice", Std \o <<"--inject-include", "a.hpp", "--inject-include", "b.hpp", "@main">>, "")>>

----------------------------------------------------------------------------
AllActions ==
  LET cls == [i \in Els |-> PosClass(i)] \o <<>>
  IN Opt("drop" \in Groups, DropMuts(cls)) \o
     Opt("number" \in Groups, NumberMuts(cls)) \o
     Opt("name" \in Groups, NameMuts(cls)) \o
     Opt("move" \in Groups, MoveMuts) \o
     Opt("retarget" \in Groups, RetargetMuts(cls)) \o
     Opt("header" \in Groups, HeaderMuts) \o
     Opt("constant" \in Groups, ConstMuts(cls)) \o
     Opt("include" \in Groups, IncludeMuts) \o
     Opt("doc" \in Groups, DocMuts) \o
     Opt("argv" \in Groups, ArgvMuts)

Init == /\ picked = <<>>
        /\ tab = AllActions \o <<>>

\* the second action must not address what the first removed, nor overwrite the
\* very attribute the first one set; at most one command line per case
Compatible(a, b) ==
  /\ Addressed(b) \cap Killed(a) = {}
  /\ Touched(a) \cap Touched(b) = {}
  /\ ~(Len(a.argv) > 0 /\ Len(b.argv) > 0)
  /\ ~(Len(a.files) > 0 /\ Len(b.files) > 0)

\* the sample: for the i-th action every Stride-th action, starting at an offset that depends on i and Seed
\* (T * T stays below 2^31 for T < 46000)
Stride(T) == IF PairBudget = 0 THEN 0 ELSE IF T * T <= PairBudget THEN 1 ELSE (T * T) \div PairBudget
Partners(i, T) == IF PairBudget = 0 \/ T = 0 THEN {}
                  ELSE LET st == Stride(T)
                           off == (i * 7919 + Seed * 31) % st
                       IN {off + 1 + m * st : m \in 0 .. (T \div st)} \cap (1 .. T)

Next ==
  \/ /\ picked = <<>>
     /\ \E i \in 1 .. Len(tab) : picked' = <<i>>
     /\ UNCHANGED tab
  \/ /\ Len(picked) = 1 /\ MaxDepth >= 2
     /\ \E j \in Partners(picked[1], Len(tab)) :
          /\ j # picked[1]
          /\ Compatible(tab[picked[1]], tab[j])
          /\ picked' = <<picked[1], j>>
     /\ UNCHANGED tab

Spec == Init /\ [][Next]_vars
View == picked

----------------------------------------------------------------------------
(* sanity invariants on the generated scope *)
ActionNames == {"DropAttribute", "GarbleNumber", "GarbleName", "MoveElement", "Retarget", "LevelHeaderVariant",
                "ConstantVariants", "IncludeGraph", "DocumentDamage", "Argv"}
FragOK(f) == /\ Len(f) >= 1 /\ f[1].parent = 0
             /\ \A k \in 2 .. Len(f) : f[k].parent \in 1 .. k - 1
EditOK(e) ==
  /\ e.op \in TreeOps \cup TextOps
  /\ e.op \in {"dropattr", "setattr", "settext", "retag", "delete", "dup", "move", "replace"} => e.el \in Els
  /\ e.op = "dropattr" => Has(e.el, e.attr)
  /\ e.op \in {"dropattr", "setattr"} => e.attr # ""
  /\ e.op = "move" => e.dst \in Els /\ e.at \in Places /\ (e.at \in {"before", "after"} => e.dst # Root)
  /\ e.op = "insert" => e.dst \in Els /\ e.at \in Places /\ FragOK(e.frag)
  /\ e.op = "replace" => FragOK(e.frag) /\ e.el # Root
  /\ e.op = "nest" => e.dst \in Els \cup {0} /\ e.k >= 1 /\ e.val # ""
  /\ e.op \in {"truncate", "truncmid", "textins"} => e.k \in 1 .. NTok
ActionOK(a) ==
  /\ a.action \in ActionNames
  /\ a.pos # "" /\ a.lex # ""
  /\ \A k \in 1 .. Len(a.edits) : EditOK(a.edits[k])
  /\ Len(a.edits) + Len(a.files) + Len(a.argv) >= 1
  /\ a.env \in {"", "nobody"}
  /\ \A k \in 1 .. Len(a.files) : a.files[k].kind \in {"frag", "garbage", "empty", "copy-of-main", "chain", "chain2"}
DepthOK == Len(picked) <= MaxDepth /\ MaxDepth <= 2
CaseWellFormed == \A k \in 1 .. Len(picked) : picked[k] \in 1 .. Len(tab) /\ ActionOK(tab[picked[k]])
PairOK == Len(picked) = 2 => (picked[1] # picked[2] /\ Compatible(tab[picked[1]], tab[picked[2]]))
\* every enabled group contributes (the scope is not silently empty)
GroupOf == [drop |-> "DropAttribute", number |-> "GarbleNumber", name |-> "GarbleName", move |-> "MoveElement",
            retarget |-> "Retarget", header |-> "LevelHeaderVariant", constant |-> "ConstantVariants",
            include |-> "IncludeGraph", doc |-> "DocumentDamage", argv |-> "Argv"]
ScopeNotEmpty == \A g \in Groups : \E k \in 1 .. Len(tab) : tab[k].action = GroupOf[g]
\* the one verdict
Verdict == "graceful"

Emit == Len(picked) = 0 \/
        PrintT(ToJson([base |-> BaseName, depth |-> Len(picked), verdict |-> Verdict,
                       actions |-> [k \in 1 .. Len(picked) |-> tab[picked[k]]]]))
=============================================================================
