------------------------------- MODULE Visit -------------------------------
(* Visiting (C19): what a recursive visitor built on sbepp::visit_children  *)
(* must observe on a decoded image, and where the cursor is at each         *)
(* callback.                                                                *)
(*                                                                          *)
(* Two definitions of the same log:                                         *)
(*   DenLog  - from the abstract message (SbeImage): every non-constant     *)
(*             direct member once, in schema order, entries in order        *)
(*   OpLog   - by walking the BUFFER with a cursor exactly as the documented *)
(*             cursor protocol prescribes (Cursor.tla landing positions),    *)
(*             reading values where the cursor-relative accessors read them  *)
(* TLC checks OpLog = DenLog and that the cursor ends at the end of the     *)
(* message (also on inflated block lengths: C03).  Every prefix of the log  *)
(* is the expected observation of a visitor that stops at its k-th callback.*)
EXTENDS View

VARIABLES stop,     \* the callback at which the visitor returns true (0 = never)
          how       \* how group entries are walked: "visit" = visit_children(group),
                    \* "sub1" = consecutive cursor_subrange(c, pos, 1) chunks; "sub2" =
                    \* chunks of 2, the last one through cursor_subrange(c, pos):
                    \* the chunking must be invisible in the log

svars == <<sh, mode, buf, pc, last, memo, stop, how>>

Key(li, name) == Append(LV[li].path, name)

\* ---- denotational log
DenLeafEv(s, li, ip, k) ==
  LET leaf == LLeaves[li][k]
  IN [ev |-> IF leaf.kind \in {"scalar", "array"} THEN "type" ELSE leaf.kind,
      key |-> Append(LV[li].path, leaf.path[1]) \o Tail(leaf.path),
      val |-> LeafVal(s, li, k, ip, leaf), n |-> 0]
\* a field: one "field" event; a composite field is followed by the events of
\* its members (visit_children on the composite, recursively, leaves in order)
DenFieldEvs(s, li, ip, f) ==
  LET fld == LFields[li][f]
      ks == SelectSeq([k \in 1 .. Len(LLeaves[li]) |-> k] \o <<>>,
                      LAMBDA k : LLeaves[li][k].path[1] = fld.name)
      single == Len(ks) = 1 /\ Len(LLeaves[li][ks[1]].path) = 1
  IN IF single
     THEN <<[ev |-> "field", key |-> Key(li, fld.name),
             val |-> LeafVal(s, li, ks[1], ip, LLeaves[li][ks[1]]), n |-> 0]>>
     ELSE <<[ev |-> "field", key |-> Key(li, fld.name), val |-> <<>>, n |-> 0]>>
          \o [j \in 1 .. Len(ks) |-> DenLeafEv(s, li, ip, ks[j])]

RECURSIVE DenLevelLog(_, _, _)
DenLevelLog(s, li, ip) ==
  ConcatAll([f \in 1 .. Len(LFields[li]) |-> DenFieldEvs(s, li, ip, f)])
  \o ConcatAll([g \in 1 .. Len(LDef[li].groups) |->
       LET gli == LChild[li][g]
       IN <<[ev |-> "group", key |-> Key(li, LDef[gli].name), val |-> <<>>,
             n |-> Cnt(s, gli, ip)]>>
          \o ConcatAll([e \in 1 .. Cnt(s, gli, ip) |->
               <<[ev |-> "entry", key |-> LV[gli].path, val |-> <<>>, n |-> e]>>
               \o DenLevelLog(s, gli, Append(ip, e))])])
  \o [d \in 1 .. Len(LDef[li].data) |->
        [ev |-> "data", key |-> Key(li, LDef[li].data[d].name),
         val |-> DataVal(s, li, d, ip), n |-> 0]]
DenLog(s) == DenLevelLog(s, 1, <<>>)

\* ---- operational log: walk the buffer with a cursor (plain wrapper).
\* Each event carries the cursor position at the time of the callback.
\* an entry with nothing a cursor accessor could move over (constant fields
\* have no cursor accessors): its block is consumed when the entry is formed.
\* Whether that has already happened when on_entry is called is not
\* documented, so both positions are admitted at that callback (alt).
IsEmptyEntry(li) == LFields[li] = <<>> /\ LDef[li].groups = <<>> /\ LDef[li].data = <<>>

OpFieldEvs(b, li, a, bl, f) ==
  LET fld == LFields[li][f]
      at == a + fld.off
      land == IF f = Len(LFields[li]) THEN a + bl ELSE at + fld.size
      ks == SelectSeq([k \in 1 .. Len(LLeaves[li]) |-> k] \o <<>>,
                      LAMBDA k : LLeaves[li][k].path[1] = fld.name)
      single == Len(ks) = 1 /\ Len(LLeaves[li][ks[1]].path) = 1
      RdLeaf(leaf) == IF leaf.n = 1 THEN UnWire(Slice(b, a + leaf.off, leaf.w))
                      ELSE Slice(b, a + leaf.off, leaf.w * leaf.n)
  IN IF single
     THEN <<[ev |-> "field", key |-> Key(li, fld.name), val |-> RdLeaf(LLeaves[li][ks[1]]),
             n |-> 0, cur |-> land, alt |-> land]>>
     ELSE <<[ev |-> "field", key |-> Key(li, fld.name), val |-> <<>>, n |-> 0, cur |-> land, alt |-> land]>>
          \o [j \in 1 .. Len(ks) |->
                LET leaf == LLeaves[li][ks[j]]
                IN [ev |-> IF leaf.kind \in {"scalar", "array"} THEN "type" ELSE leaf.kind,
                    key |-> Append(LV[li].path, leaf.path[1]) \o Tail(leaf.path),
                    val |-> RdLeaf(leaf), n |-> 0, cur |-> land, alt |-> land]]

RECURSIVE OpLevelLog(_, _, _, _), OpEntriesLog(_, _, _, _, _, _)
OpLevelLog(b, li, a, bl) ==
  ConcatAll([f \in 1 .. Len(LFields[li]) |-> OpFieldEvs(b, li, a, bl, f)])
  \o ConcatAll([g \in 1 .. Len(LDef[li].groups) |->
       LET gli == LChild[li][g]
           ga == OpGroupAddr(b, li, a, bl, g)
       IN <<[ev |-> "group", key |-> Key(li, LDef[gli].name), val |-> <<>>,
             n |-> OpGroupN(b, gli, ga), cur |-> ga + LDimSize[gli], alt |-> ga + LDimSize[gli]]>>
          \o OpEntriesLog(b, gli, ga + LDimSize[gli], OpGroupBL(b, gli, ga), 1,
                          OpGroupN(b, gli, ga))])
  \o [d \in 1 .. Len(LDef[li].data) |->
        LET da == OpDataAddr(b, li, a, bl, d)
        IN [ev |-> "data", key |-> Key(li, LDef[li].data[d].name),
            val |-> Slice(b, da + LLenW[li][d], Rd(b, da, LLenW[li][d])), n |-> 0,
            cur |-> da + OpDataSize(b, li, d, da), alt |-> da + OpDataSize(b, li, d, da)]]
\* entries are constructed at the cursor; an entry without any member
\* consumes its block on construction
OpEntriesLog(b, gli, ea, gbl, e, n) ==
  IF e > n THEN <<>>
  ELSE <<[ev |-> "entry", key |-> LV[gli].path, val |-> <<>>, n |-> e,
          cur |-> IF IsEmptyEntry(gli) THEN ea + gbl ELSE ea, alt |-> ea]>>
       \o OpLevelLog(b, gli, ea, gbl)
       \o OpEntriesLog(b, gli, OpLevelEnd(b, gli, ea, gbl), gbl, e + 1, n)
OpLog(b) == OpLevelLog(b, 1, V0 + HSize, OpRootBL(b))

Strip(l) == [i \in 1 .. Len(l) |-> [ev |-> l[i].ev, key |-> l[i].key, val |-> l[i].val, n |-> l[i].n]]

VInit == /\ MemoInit
         /\ sh \in Shapes
         /\ mode = "visit"
         /\ \E b0 \in {Overlay(Region(sh), MsgImage(MI, sh), V0)} : buf = b0
         /\ pc = 0
         /\ last = [op |-> "init", li |-> 0, ip |-> <<>>, k |-> 0]
         /\ stop = -1
         /\ how = "visit"

\* one visit of the whole message by a recursive visitor stopping at callback k
VisitStop(k, h) == /\ stop = -1
                   /\ stop' = k
                   /\ how' = h
                   /\ UNCHANGED <<sh, mode, buf, pc, last, memo>>
VNext == \/ \E k \in 0 .. Len(DenLog(sh)) : VisitStop(k, "visit")
         \/ \E h \in {"sub1", "sub2"} : VisitStop(0, h)

\* ---- properties
VisitOrderComplete == stop = -1 => Strip(OpLog(buf)) = DenLog(sh) \o <<>>
\* every callback's cursor is inside the message, monotone, and the complete
\* visit ends at the end of the message (wire size, also for inflated blocks)
VisitLandsAtEnd ==
  stop = -1 =>
    \A l \in {OpLog(buf)} :
      /\ \A i \in 1 .. Len(l) : l[i].cur >= V0 + HSize /\ l[i].cur <= V0 + MsgSize(MI, sh)
      /\ \A i \in 2 .. Len(l) : l[i].cur >= l[i - 1].cur
      /\ Len(l) > 0 => l[Len(l)].cur = V0 + MsgSize(MI, sh)
      /\ OpLevelEnd(buf, 1, V0 + HSize, OpRootBL(buf)) = V0 + MsgSize(MI, sh)

EmitVisit ==
  \E l \in {OpLog(buf)} :
    PrintT(ToJson([kind |-> "visit", msg |-> Msg(MI).name, v0 |-> V0,
                   size |-> MsgSize(MI, sh), ext |-> sh.ext, buf |-> buf,
                   stop |-> stop', how |-> how',
                   log |-> IF stop' = 0 THEN l ELSE SubSeq(l, 1, stop'),
                   complete |-> stop' = 0,
                   end_cur |-> V0 + MsgSize(MI, sh)]))
EmitVisitAndStop == EmitVisit /\ FALSE
=============================================================================
