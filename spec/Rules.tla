------------------------------- MODULE Rules -------------------------------
(* C08: which schemas are valid.  `Valid` is a conjunction of NAMED rules,  *)
(* each stated from the property text and the SBE layout rules of Sbe.tla - *)
(* not from sbeppc's validator.  The schema is the record S of Sbe.tla,     *)
(* extended by tools/rulesgen.py with the attributes the rules talk about   *)
(* (min/max/null/const/valueRef strings, enum values, set choices,          *)
(* "" = attribute absent, lenx = `length` attribute written explicitly).    *)
(*                                                                          *)
(* Numbers in attribute values are decimal STRINGS (TLC ints are 32-bit):   *)
(* representability is decided on digit strings (length, then lexicographic)*)
(* against 2^n computed by repeated doubling of a digit sequence.           *)
(*                                                                          *)
(* Rules that need the layout (sizes, offsets) are only meaningful on a     *)
(* schema whose references resolve (WellFormed); on other schemas they hold *)
(* vacuously, the reference rule being the broken one.                      *)
EXTENDS Sbe

----------------------------------------------------------------------------
(* strings: TLC implements Len, SubSeq and \o on strings *)
Ch(s, i) == SubSeq(s, i, i)
LowerAZ == "abcdefghijklmnopqrstuvwxyz"
UpperAZ == "ABCDEFGHIJKLMNOPQRSTUVWXYZ"
DigitChars == "0123456789"
CharSetOf(s) == {Ch(s, i) : i \in 1 .. Len(s)}
LowerSet == CharSetOf(LowerAZ)
UpperSet == CharSetOf(UpperAZ)
DigitSet == CharSetOf(DigitChars)

IndexIn(s, c) == CHOOSE i \in 1 .. Len(s) : Ch(s, i) = c
LowerCh(c) == IF c \in UpperSet THEN Ch(LowerAZ, IndexIn(UpperAZ, c)) ELSE c
UpperCh(c) == IF c \in LowerSet THEN Ch(UpperAZ, IndexIn(LowerAZ, c)) ELSE c
RECURSIVE LowerFrom(_, _)
LowerFrom(s, k) == IF k > Len(s) THEN "" ELSE LowerCh(Ch(s, k)) \o LowerFrom(s, k + 1)
Lower(s) == LowerFrom(s, 1)
RECURSIVE UpperFrom(_, _)
UpperFrom(s, k) == IF k > Len(s) THEN "" ELSE UpperCh(Ch(s, k)) \o UpperFrom(s, k + 1)
Upper(s) == UpperFrom(s, 1)

DotPos(s) == IF \E i \in 1 .. Len(s) : Ch(s, i) = "."
             THEN CHOOSE i \in 1 .. Len(s) : Ch(s, i) = "." /\ \A j \in 1 .. i - 1 : Ch(s, j) # "."
             ELSE 0
VRefEnum(s) == SubSeq(s, 1, DotPos(s) - 1)
VRefValue(s) == SubSeq(s, DotPos(s) + 1, Len(s))

\* (each names[i] is evaluated once: TLC re-evaluates the body of a function
\* constructor at every application)
NoDup(names) == Cardinality({names[i] : i \in 1 .. Len(names)}) = Len(names)
\* the same sequence, as an explicit tuple (for TLC: evaluate the elements once)
Eager(seq) == seq \o <<>>
\* quantification over a sequence that is evaluated once (TLC re-evaluates a
\* definition at every use; an operator argument is evaluated once)
AllOf(seq, P(_)) == \A i \in 1 .. Len(seq) : P(seq[i])
MapSeq(seq, F(_)) == [i \in 1 .. Len(seq) |-> F(seq[i])]

----------------------------------------------------------------------------
(* decimal digit strings *)
IsDigits(s) == Len(s) >= 1 /\ \A i \in 1 .. Len(s) : Ch(s, i) \in DigitSet
DigitVal(c) == IndexIn(DigitChars, c) - 1
RECURSIVE StripZeros(_)
StripZeros(s) == IF Len(s) > 1 /\ Ch(s, 1) = "0" THEN StripZeros(SubSeq(s, 2, Len(s))) ELSE s
RECURSIVE LexLeq(_, _, _)        \* equal lengths
LexLeq(a, b, k) == IF k > Len(a) THEN TRUE
                   ELSE LET x == DigitVal(Ch(a, k))
                            y == DigitVal(Ch(b, k))
                        IN IF x < y THEN TRUE ELSE IF x > y THEN FALSE ELSE LexLeq(a, b, k + 1)
\* a <= b as natural numbers, a and b digit strings
MagLeq(a, b) == LET x == StripZeros(a)
                    y == StripZeros(b)
                IN Len(x) < Len(y) \/ (Len(x) = Len(y) /\ LexLeq(x, y, 1))

\* arithmetic on digit sequences, least significant digit first
RECURSIVE DoubleD(_, _, _)
DoubleD(d, k, c) == IF k > Len(d) THEN (IF c = 0 THEN <<>> ELSE <<c>>)
                    ELSE LET x == 2 * d[k] + c IN <<x % 10>> \o DoubleD(d, k + 1, x \div 10)
RECURSIVE Pow2Acc(_, _)          \* (Len(d) forces d at every step: no chain of lazy arguments)
Pow2Acc(d, n) == IF n = 0 \/ Len(d) = 0 THEN d ELSE Pow2Acc(DoubleD(d, 1, 0), n - 1)
Pow2D(n) == Pow2Acc(<<1>>, n)
RECURSIVE IncD(_, _)
IncD(d, k) == IF k > Len(d) THEN <<1>>
              ELSE IF d[k] = 9 THEN <<0>> \o IncD(d, k + 1)
              ELSE <<d[k] + 1>> \o SubSeq(d, k + 1, Len(d))
RECURSIVE DecD(_, _)              \* d > 0
DecD(d, k) == IF d[k] = 0 THEN <<9>> \o DecD(d, k + 1)
              ELSE <<d[k] - 1>> \o SubSeq(d, k + 1, Len(d))
RECURSIVE StrFrom(_, _)
StrFrom(d, k) == IF k = 0 THEN "" ELSE Ch(DigitChars, d[k] + 1) \o StrFrom(d, k - 1)
DStr(d) == StripZeros(StrFrom(d, Len(d)))
DOf(s) == [i \in 1 .. Len(s) |-> DigitVal(Ch(s, Len(s) + 1 - i))]
IncStr(s) == DStr(IncD(DOf(s), 1))
DecStr(s) == DStr(DecD(DOf(s), 1))
Pow2Str(n) == DStr(Pow2D(n))

IntPrims == {"int8", "uint8", "int16", "uint16", "int32", "uint32", "int64", "uint64"}
FloatPrims == {"float", "double"}
IsSigned(p) == p \in {"int8", "int16", "int32", "int64"}
Bits(p) == 8 * PrimSize(p)
\* the value range of a primitive integer type: [-2^(w-1), 2^(w-1)-1] or [0, 2^w-1].
\* The magnitudes are written out (evaluated at every comparison); SchemaGen
\* checks once per run that they equal the values obtained by doubling.
MaxMag(p) == CASE p = "int8" -> "127" [] p = "uint8" -> "255"
               [] p = "int16" -> "32767" [] p = "uint16" -> "65535"
               [] p = "int32" -> "2147483647" [] p = "uint32" -> "4294967295"
               [] p = "int64" -> "9223372036854775807" [] p = "uint64" -> "18446744073709551615"
MinMag(p) == CASE p = "int8" -> "128" [] p = "int16" -> "32768" [] p = "int32" -> "2147483648"
               [] p = "int64" -> "9223372036854775808" [] OTHER -> "0"
MaxMagByDoubling(p) == DecStr(Pow2Str(IF IsSigned(p) THEN Bits(p) - 1 ELSE Bits(p)))
MinMagByDoubling(p) == IF IsSigned(p) THEN Pow2Str(Bits(p) - 1) ELSE "0"
MaxStr(p) == MaxMag(p)
MinStr(p) == IF IsSigned(p) THEN "-" \o MinMag(p) ELSE "0"


\* a decimal integer lexeme [-]digits denotes a value of integer primitive p
FitsInt(v, p) ==
  IF Len(v) >= 1 /\ Ch(v, 1) = "-"
  THEN LET m == SubSeq(v, 2, Len(v)) IN IsDigits(m) /\ IsSigned(p) /\ MagLeq(m, MinMag(p))
  ELSE IsDigits(v) /\ MagLeq(v, MaxMag(p))

\* ---- floating point lexemes:  [-]digits[.digits][(e|E)[+|-]digits] | NaN | INF | -INF
\* A finite lexeme is representable when its magnitude does not exceed the
\* largest finite value.  The comparison uses the 17 significant digits of
\* that maximum truncated (3.4028234663852886e38, 1.7976931348623157e308):
\* lexemes between the truncated and the exact maximum, and lexemes that only
\* underflow, are outside what the generator produces (unspecified here).
FMaxDigits(p) == IF p = "float" THEN "34028234663852886" ELSE "17976931348623157"
FMaxExp(p) == IF p = "float" THEN 39 ELSE 309       \* max = 0.<digits> * 10^exp

EPos(s) == IF \E i \in 1 .. Len(s) : Ch(s, i) \in {"e", "E"}
           THEN CHOOSE i \in 1 .. Len(s) : Ch(s, i) \in {"e", "E"} ELSE 0
RECURSIVE NatOf(_, _)            \* small digit strings only (<= 6 digits)
NatOf(s, k) == IF k > Len(s) THEN 0 ELSE DigitVal(Ch(s, k)) * (CASE Len(s) - k = 0 -> 1 [] Len(s) - k = 1 -> 10
                   [] Len(s) - k = 2 -> 100 [] Len(s) - k = 3 -> 1000 [] Len(s) - k = 4 -> 10000 [] OTHER -> 100000)
                   + NatOf(s, k + 1)
RECURSIVE LeadingZeros(_, _)
LeadingZeros(s, k) == IF k > Len(s) \/ Ch(s, k) # "0" THEN 0 ELSE 1 + LeadingZeros(s, k + 1)
RECURSIVE PadRight(_, _)
PadRight(s, n) == IF Len(s) >= n THEN s ELSE PadRight(s \o "0", n)

FitsFloat(v, p) ==
  IF v \in {"NaN", "INF", "-INF"} THEN TRUE
  ELSE
  LET u == IF Len(v) >= 1 /\ Ch(v, 1) = "-" THEN SubSeq(v, 2, Len(v)) ELSE v
      ep == EPos(u)
      mant == IF ep = 0 THEN u ELSE SubSeq(u, 1, ep - 1)
      ex == IF ep = 0 THEN "0" ELSE SubSeq(u, ep + 1, Len(u))
      exNeg == Len(ex) >= 1 /\ Ch(ex, 1) = "-"
      exDig == IF Len(ex) >= 1 /\ Ch(ex, 1) \in {"-", "+"} THEN SubSeq(ex, 2, Len(ex)) ELSE ex
      dp == DotPos(mant)
      ip == IF dp = 0 THEN mant ELSE SubSeq(mant, 1, dp - 1)
      fp == IF dp = 0 THEN "" ELSE SubSeq(mant, dp + 1, Len(mant))
      all == ip \o fp
      wellFormed == /\ Len(all) >= 1 /\ \A i \in 1 .. Len(all) : Ch(all, i) \in DigitSet
                    /\ IsDigits(exDig) /\ Len(exDig) <= 5
      z == LeadingZeros(all, 1)
      sig == SubSeq(all, z + 1, Len(all))                       \* significant digits
      e10 == Len(ip) - z + (IF exNeg THEN 0 - NatOf(exDig, 1) ELSE NatOf(exDig, 1))   \* value = 0.sig * 10^e10
      n == IF Len(sig) > Len(FMaxDigits(p)) THEN Len(sig) ELSE Len(FMaxDigits(p))
  IN wellFormed /\ (sig = "" \/ e10 < FMaxExp(p)
                    \/ (e10 = FMaxExp(p) /\ LexLeq(PadRight(sig, n), PadRight(FMaxDigits(p), n), 1)))

Fits(v, p) == IF p \in FloatPrims THEN FitsFloat(v, p) ELSE FitsInt(v, p)

----------------------------------------------------------------------------
(* every encoding node and every level of the schema, with its position *)
RECURSIVE EncNodes(_, _, _, _)
EncNodes(e, path, depth, top) ==
  <<[e |-> e, path |-> path, depth |-> depth, top |-> top]>> \o
  (IF e.kind = "composite"
   THEN ConcatAll([k \in 1 .. Len(e.elements) |->
          EncNodes(e.elements[k], path \o <<"elements", k>>, depth + 1, top)])
   ELSE <<>>)
AllEncNodes == ConcatAll([i \in 1 .. Len(S.types) |-> EncNodes(S.types[i], <<"types", i>>, 0, i)])

RECURSIVE LevelNodes(_, _, _)
LevelNodes(L, path, depth) ==
  <<[def |-> L, path |-> path, depth |-> depth]>> \o
  ConcatAll([g \in 1 .. Len(L.groups) |-> LevelNodes(L.groups[g], path \o <<"groups", g>>, depth + 1)])
AllLevels == ConcatAll([m \in 1 .. Len(S.messages) |-> LevelNodes(S.messages[m], <<"messages", m>>, 0)])

NodesOfKind(kinds) == SelectSeq(AllEncNodes, LAMBDA n : n.e.kind \in kinds)
TypeNodes == NodesOfKind({"type"})
CompositeNodes == NodesOfKind({"composite"})
EnumNodes == NodesOfKind({"enum"})
SetNodes == NodesOfKind({"set"})
RefNodes == NodesOfKind({"ref"})
GroupLevels == SelectSeq(AllLevels, LAMBDA l : l.depth > 0)

TypeNames == {S.types[i].name : i \in 1 .. Len(S.types)}
Exists(n) == n \in TypeNames
KindOf(n) == TypeNamed(n).kind

----------------------------------------------------------------------------
(* R_RefExists: every name used as a type names a type of the schema *)
ValueRefUsedByType(e) == e.kind = "type" /\ e.presence = "constant" /\ e.valueRef # ""
\* a field's valueRef matters when the field itself is the constant: a
\* constant of primitive type, or a constant of enum type
ValueRefUsedByField(f) ==
  /\ f.presence = "constant"
  /\ (IsPrim(f.type) \/ (Exists(f.type) /\ KindOf(f.type) = "enum"))

EncRefsExist(e) ==
  CASE e.kind = "ref" -> Exists(e.type)
    [] e.kind \in {"enum", "set"} -> IsPrim(e.enc) \/ Exists(e.enc)
    [] e.kind = "type" -> (ValueRefUsedByType(e) /\ DotPos(e.valueRef) > 0) => Exists(VRefEnum(e.valueRef))
    [] OTHER -> TRUE

FieldRefsExist(f) ==
  /\ IsPrim(f.type) \/ Exists(f.type)
  /\ (ValueRefUsedByField(f) /\ DotPos(f.valueRef) > 0) => Exists(VRefEnum(f.valueRef))
LevelRefsExist(lv) ==
  /\ AllOf(lv.def.fields, FieldRefsExist)
  /\ AllOf(lv.def.data, LAMBDA d : Exists(d.type))
  /\ lv.depth > 0 => Exists(lv.def.dim)
R_RefExists ==
  /\ Exists(S.headerType)
  /\ AllOf(AllEncNodes, LAMBDA n : EncRefsExist(n.e))
  /\ AllOf(AllLevels, LevelRefsExist)

----------------------------------------------------------------------------
(* R_RefKind: a reference names a type of the kind its use requires *)
\* enum / set encodingType: a primitive, or a non-array <type>
EncKindOK(e) == (e.kind \in {"enum", "set"} /\ ~IsPrim(e.enc) /\ Exists(e.enc))
                   => (KindOf(e.enc) = "type" /\ TypeNamed(e.enc).length = 1)
R_RefKind_enc == AllOf(AllEncNodes, LAMBDA n : EncKindOK(n.e))

\* a member of a level header: a <type> or a <ref> to one; `ok` is the
\* requirement on that type
HdrMember(c, n, ok(_)) ==
  \E k \in 1 .. Len(c.elements) :
    /\ c.elements[k].name = n
    /\ LET m == c.elements[k]
       IN CASE m.kind = "type" -> ok(m)
            [] m.kind = "ref" -> Exists(m.type) => (KindOf(m.type) = "type" /\ ok(TypeNamed(m.type)))
            [] OTHER -> FALSE
ScalarNonConst(t) == t.length = 1 /\ t.presence # "constant"
LevelHeaderOK(tn, names) ==
  Exists(tn) => /\ KindOf(tn) = "composite"
                /\ \A n \in names : HdrMember(TypeNamed(tn), n, ScalarNonConst)

R_RefKind_header == LevelHeaderOK(S.headerType, {"blockLength", "templateId", "schemaId", "version"})
R_RefKind_dim == AllOf(GroupLevels, LAMBDA lv : LevelHeaderOK(lv.def.dim, {"blockLength", "numInGroup"}))
IsVarData(t) == t.length = 0
DataHeaderOK(tn) ==
  Exists(tn) => /\ KindOf(tn) = "composite"
                /\ HdrMember(TypeNamed(tn), "length", ScalarNonConst)
                /\ HdrMember(TypeNamed(tn), "varData", IsVarData)
R_RefKind_data == AllOf(AllLevels, LAMBDA lv : AllOf(lv.def.data, LAMBDA d : DataHeaderOK(d.type)))

\* valueRef = "<Enum>.<Value>": an enum of the schema and one of its values
ValueRefOK(vr) ==
  /\ DotPos(vr) > 1 /\ DotPos(vr) < Len(vr)
  /\ Exists(VRefEnum(vr)) =>
       /\ KindOf(VRefEnum(vr)) = "enum"
       /\ \E j \in 1 .. Len(TypeNamed(VRefEnum(vr)).values) : TypeNamed(VRefEnum(vr)).values[j].name = VRefValue(vr)
R_RefKind_valueRef ==
  /\ AllOf(TypeNodes, LAMBDA n : ValueRefUsedByType(n.e) => ValueRefOK(n.e.valueRef))
  /\ AllOf(AllLevels, LAMBDA lv : AllOf(lv.def.fields,
         LAMBDA f : (ValueRefUsedByField(f) /\ f.valueRef # "") => ValueRefOK(f.valueRef)))

R_RefKind == R_RefKind_enc /\ R_RefKind_header /\ R_RefKind_dim /\ R_RefKind_data /\ R_RefKind_valueRef

----------------------------------------------------------------------------
(* R_NoCycle: no composite contains itself through <ref>s *)
RECURSIVE RefTargets(_)
RefTargets(e) == CASE e.kind = "ref" -> {e.type}
                   [] e.kind = "composite" -> UNION {RefTargets(e.elements[k]) : k \in 1 .. Len(e.elements)}
                   [] OTHER -> {}
SuccNames(n) == IF Exists(n) THEN RefTargets(TypeNamed(n)) ELSE {}
RECURSIVE ReachN(_, _)
ReachN(set, steps) == LET next == set \cup UNION {SuccNames(n) : n \in set}
                      IN IF steps = 0 \/ next = set THEN set ELSE ReachN(next, steps - 1)
ReachFrom(n) == ReachN(SuccNames(n), Len(S.types))
R_NoCycle == \A n \in TypeNames : n \notin ReachFrom(n)

WellFormed == R_RefExists /\ R_RefKind /\ R_NoCycle

----------------------------------------------------------------------------
(* layout rules (SBE): a member sits at its custom offset or right after   *)
(* the previous non-constant member; a custom offset must not be below     *)
(* that point; a block must hold its members                               *)
\* Sizes and layouts.  The layout RULE is Sbe!LayoutFrom; it is applied here
\* to explicit tuples of sizes (Sbe!CompLayout hands LayoutFrom a function
\* constructor whose every Len() re-evaluates all member sizes, which is
\* exponential in the nesting depth).  SchemaGen checks Size = Sbe!EncSize and
\* LLayout = Sbe!LevelLayout on the base schema.
RECURSIVE Size(_)
CompSizes(c) == Eager([k \in 1 .. Len(c.elements) |-> Size(c.elements[k])])
CompConsts(c) == Eager([k \in 1 .. Len(c.elements) |-> IsConstEnc(c.elements[k])])
CompCustoms(c) == Eager([k \in 1 .. Len(c.elements) |-> c.elements[k].offset])
CLayout(c) == LayoutFrom(CompSizes(c), CompConsts(c), CompCustoms(c), 1, 0)
Size(e) == CASE e.kind = "type" -> PrimSize(e.prim) * e.length
             [] e.kind = "composite" -> CLayout(e)[2]
             [] e.kind \in {"enum", "set"} -> PrimSize(EncPrim(e.enc))
             [] e.kind = "ref" -> Size(TypeNamed(e.type))
LevelSizes(L) == Eager([k \in 1 .. Len(L.fields) |-> Size(FieldEnc(L.fields[k]))])
LevelConsts(L) == Eager([k \in 1 .. Len(L.fields) |-> IsConstField(L.fields[k])])
LevelCustoms(L) == Eager([k \in 1 .. Len(L.fields) |-> L.fields[k].offset])
LLayout(L) == LayoutFrom(LevelSizes(L), LevelConsts(L), LevelCustoms(L), 1, 0)
MinBL(L) == LLayout(L)[2]
BL(L) == IF L.blockLength >= 0 THEN L.blockLength ELSE MinBL(L)

MaxOf(set) == CHOOSE x \in set : \A y \in set : y <= x
\* end of the nearest preceding non-constant member (0 if none)
MinAt(sizes, consts, offs, k) ==
  LET prev == {j \in 1 .. k - 1 : ~consts[j]}
      last == MaxOf(prev)
  IN IF prev = {} THEN 0 ELSE offs[last] + sizes[last]

LevelMin(L, k) == MinAt(LevelSizes(L), LevelConsts(L), LLayout(L)[1], k)
CompMin(c, k) == MinAt(CompSizes(c), CompConsts(c), CLayout(c)[1], k)

\* every custom offset of a member list is at or above its minimum
SeqOffsetsOK(sizes, consts, offs, customs) ==
  \A k \in 1 .. Len(sizes) : (~consts[k] /\ customs[k] >= 0) => customs[k] >= MinAt(sizes, consts, offs, k)
LevelOffsetsOK(L) == SeqOffsetsOK(LevelSizes(L), LevelConsts(L), LLayout(L)[1], LevelCustoms(L))
CompOffsetsOK(c) == SeqOffsetsOK(CompSizes(c), CompConsts(c), CLayout(c)[1], CompCustoms(c))

\* (wf: WellFormed, passed in so that one pass over all rules evaluates it once)
FieldOffsetW(wf) == wf => AllOf(AllLevels, LAMBDA lv : LevelOffsetsOK(lv.def))
ElementOffsetW(wf) == wf => AllOf(CompositeNodes, LAMBDA n : CompOffsetsOK(n.e))
BlockLengthW(wf) ==
  wf => AllOf(AllLevels, LAMBDA lv : lv.def.blockLength >= 0 => lv.def.blockLength >= MinBL(lv.def))
\* A <data> member is represented as a length prefix immediately followed by the
\* payload (dynamic_array_ref knows the type of `length` and nothing else about the
\* header composite).  A data header whose `length` is not at offset 0, whose
\* `varData` does not start right after it, or that holds anything else that
\* occupies space describes an image the library cannot produce or read: it is a
\* malformed level header.  (Found in round 4: sbeppc accepted such headers and
\* wrote the prefix at +0 and the payload right after it whatever the offsets said.)
MemberIdx(c, n) == CHOOSE k \in 1 .. Len(c.elements) : c.elements[k].name = n
DataLayoutOK(tn) ==
  LET c == TypeNamed(tn)
      lay == CLayout(c)
      li == MemberIdx(c, "length")
      vi == MemberIdx(c, "varData")
  IN /\ lay[1][li] = 0
     /\ lay[1][vi] = CompSizes(c)[li]
     /\ lay[2] = CompSizes(c)[li]
DataLayoutW(wf) ==
  wf => AllOf(AllLevels, LAMBDA lv : AllOf(lv.def.data, LAMBDA d : CompOffsetsOK(TypeNamed(d.type)) => DataLayoutOK(d.type)))
R_DataLayout == DataLayoutW(WellFormed)
R_FieldOffset == FieldOffsetW(WellFormed)
R_ElementOffset == ElementOffsetW(WellFormed)
R_BlockLength == BlockLengthW(WellFormed)

\* ---- what the layout rules are for (design theorem: Valid => both)
Disjoint(o1, s1, o2, s2) == o1 + s1 <= o2 \/ o2 + s2 <= o1
SeqNoOverlap(sizes, consts, offs) ==
  \A i, j \in 1 .. Len(sizes) : (i < j /\ ~consts[i] /\ ~consts[j]) => Disjoint(offs[i], sizes[i], offs[j], sizes[j])
SeqInside(sizes, consts, offs, total) ==
  \A i \in 1 .. Len(sizes) : ~consts[i] => (offs[i] >= 0 /\ offs[i] + sizes[i] <= total)

NoOverlap ==
  /\ AllOf(AllLevels, LAMBDA lv : SeqNoOverlap(LevelSizes(lv.def), LevelConsts(lv.def), LLayout(lv.def)[1]))
  /\ AllOf(CompositeNodes, LAMBDA n : SeqNoOverlap(CompSizes(n.e), CompConsts(n.e), CLayout(n.e)[1]))
MembersInsideBlock ==
  /\ AllOf(AllLevels, LAMBDA lv : SeqInside(LevelSizes(lv.def), LevelConsts(lv.def), LLayout(lv.def)[1], BL(lv.def)))
  /\ AllOf(CompositeNodes, LAMBDA n : SeqInside(CompSizes(n.e), CompConsts(n.e), CLayout(n.e)[1], Size(n.e)))

\* Independent characterisation for member lists whose offsets are all written
\* out: valid iff declaration order = offset order, no overlap, inside the block
\* (SchemaGen checks it on every state of the offset grids).
SeqOrdered(consts, offs) == \A i, j \in 1 .. Len(offs) : (i < j /\ ~consts[i] /\ ~consts[j]) => offs[i] <= offs[j]
Ordered ==
  /\ AllOf(AllLevels, LAMBDA lv : SeqOrdered(LevelConsts(lv.def), LLayout(lv.def)[1]))
  /\ AllOf(CompositeNodes, LAMBDA n : SeqOrdered(CompConsts(n.e), CLayout(n.e)[1]))

----------------------------------------------------------------------------
(* R_ArraySingleByte: only char/int8/uint8 may have length other than 1 *)
R_ArraySingleByte == AllOf(TypeNodes, LAMBDA n : n.e.length # 1 => n.e.prim \in {"char", "int8", "uint8"})

----------------------------------------------------------------------------
(* R_ValueFits: attribute values denote values of the primitive type.      *)
(* min/max/null concern scalar non-constant numeric types (null: optional  *)
(* ones); what a `char` range bound looks like is not specified here.      *)
Ranged(e) == e.presence # "constant" /\ e.length = 1 /\ e.prim # "char"
R_ValueFits_min == AllOf(TypeNodes, LAMBDA n : (Ranged(n.e) /\ n.e.min # "") => Fits(n.e.min, n.e.prim))
R_ValueFits_max == AllOf(TypeNodes, LAMBDA n : (Ranged(n.e) /\ n.e.max # "") => Fits(n.e.max, n.e.prim))
R_ValueFits_null == AllOf(TypeNodes, LAMBDA n :
  (Ranged(n.e) /\ n.e.presence = "optional" /\ n.e.null # "") => Fits(n.e.null, n.e.prim))

\* the primitive type behind an enum/set, when its encodingType resolves
EncResolves(e) == IsPrim(e.enc) \/ (Exists(e.enc) /\ KindOf(e.enc) = "type")
EnumValueFits(v, p) == IF p = "char" THEN Len(v) = 1 ELSE Fits(v, p)
R_ValueFits_enum == AllOf(EnumNodes, LAMBDA n :
  EncResolves(n.e) => AllOf(n.e.values, LAMBDA v : EnumValueFits(v.value, EncPrim(n.e.enc))))

\* a constant given through valueRef: the referenced enum value must be a
\* value of the constant's primitive type (a single character always is)
ValueRefResolves(vr) ==
  /\ DotPos(vr) > 1 /\ DotPos(vr) < Len(vr) /\ Exists(VRefEnum(vr)) /\ KindOf(VRefEnum(vr)) = "enum"
  /\ EncResolves(TypeNamed(VRefEnum(vr)))
  /\ \E j \in 1 .. Len(TypeNamed(VRefEnum(vr)).values) : TypeNamed(VRefEnum(vr)).values[j].name = VRefValue(vr)
ValueRefFits(vr, p) ==
  ValueRefResolves(vr) =>
    LET en == TypeNamed(VRefEnum(vr))
        j == CHOOSE j \in 1 .. Len(en.values) : en.values[j].name = VRefValue(vr)
    IN EncPrim(en.enc) = "char" \/ p = "char" \/ Fits(en.values[j].value, p)
ConstFits(e) ==
  e.presence = "constant" =>
    IF e.valueRef # "" THEN ValueRefFits(e.valueRef, e.prim)
    ELSE IF e.const = "" THEN TRUE
    ELSE IF e.prim = "char" THEN (e.lenx => Len(e.const) <= e.length)
    ELSE Fits(e.const, e.prim)
R_ValueFits_const ==
  /\ AllOf(TypeNodes, LAMBDA n : ConstFits(n.e))
  /\ AllOf(AllLevels, LAMBDA lv : AllOf(lv.def.fields, LAMBDA f :
         (f.presence = "constant" /\ IsPrim(f.type) /\ f.valueRef # "") => ValueRefFits(f.valueRef, f.type)))

----------------------------------------------------------------------------
(* R_ChoiceIndex: a choice is a bit of the encoding: 0 <= index < width *)
R_ChoiceIndex == AllOf(SetNodes, LAMBDA n :
  EncResolves(n.e) => AllOf(n.e.choices, LAMBDA c : c.index >= 0 /\ c.index < Bits(EncPrim(n.e.enc))))

----------------------------------------------------------------------------
(* names *)
LevelMemberNames(L) == [k \in 1 .. Len(L.fields) |-> L.fields[k].name] \o
                       [k \in 1 .. Len(L.groups) |-> L.groups[k].name] \o
                       [k \in 1 .. Len(L.data) |-> L.data[k].name]
EncOwnNames(e) == <<e.name>> \o
                  (CASE e.kind = "enum" -> [j \in 1 .. Len(e.values) |-> e.values[j].name]
                     [] e.kind = "set" -> [j \in 1 .. Len(e.choices) |-> e.choices[j].name]
                     [] OTHER -> <<>>)
AllNames == <<S.package>> \o
            ConcatAll(MapSeq(AllEncNodes, LAMBDA n : EncOwnNames(n.e))) \o
            [m \in 1 .. Len(S.messages) |-> S.messages[m].name] \o
            ConcatAll(MapSeq(AllLevels, LAMBDA lv : LevelMemberNames(lv.def)))

\* SBE symbolic name: [A-Za-z_][A-Za-z0-9_]*
IsNameOver(s, first, rest) ==
  /\ Len(s) >= 1
  /\ Ch(s, 1) \in first
  /\ \A i \in 2 .. Len(s) : Ch(s, i) \in rest
IsSymbolicName(s) == IsNameOver(s, LowerSet \cup UpperSet \cup {"_"}, LowerSet \cup UpperSet \cup DigitSet \cup {"_"})
R_Name == LET first == LowerSet \cup UpperSet \cup {"_"}
              rest == first \cup DigitSet
          IN AllOf(AllNames, LAMBDA n : IsNameOver(n, first, rest))

\* the keywords of C++ (ISO C++20 [lex.key], including the alternative tokens)
CppKeywords == {
  "alignas", "alignof", "and", "and_eq", "asm", "auto", "bitand", "bitor", "bool", "break", "case", "catch",
  "char", "char8_t", "char16_t", "char32_t", "class", "compl", "concept", "const", "consteval", "constexpr",
  "constinit", "const_cast", "continue", "co_await", "co_return", "co_yield", "decltype", "default", "delete",
  "do", "double", "dynamic_cast", "else", "enum", "explicit", "export", "extern", "false", "float", "for",
  "friend", "goto", "if", "inline", "int", "long", "mutable", "namespace", "new", "noexcept", "not", "not_eq",
  "nullptr", "operator", "or", "or_eq", "private", "protected", "public", "register", "reinterpret_cast",
  "requires", "return", "short", "signed", "sizeof", "static", "static_assert", "static_cast", "struct",
  "switch", "template", "this", "thread_local", "throw", "true", "try", "typedef", "typeid", "typename",
  "union", "unsigned", "using", "virtual", "void", "volatile", "wchar_t", "while", "xor", "xor_eq"}
R_Keyword == AllOf(AllNames, LAMBDA n : n \notin CppKeywords)

\* duplicate names: types (case-insensitively), messages, members of one
\* level, elements of one composite, values of one enum, choices of one set
LowerWith(s, map) == LET RECURSIVE go(_)
                         go(k) == IF k > Len(s) THEN ""
                                  ELSE (IF Ch(s, k) \in DOMAIN map THEN map[Ch(s, k)] ELSE Ch(s, k)) \o go(k + 1)
                     IN go(1)
R_Unique_type == LET map == [c \in UpperSet |-> LowerCh(c)]
                 IN NoDup([i \in 1 .. Len(S.types) |-> LowerWith(S.types[i].name, map)])
R_Unique_message == NoDup([m \in 1 .. Len(S.messages) |-> S.messages[m].name])
NamesOf(seq) == [k \in 1 .. Len(seq) |-> seq[k].name]
R_Unique_member == AllOf(AllLevels, LAMBDA lv : NoDup(LevelMemberNames(lv.def)))
R_Unique_element == AllOf(CompositeNodes, LAMBDA n : NoDup(NamesOf(n.e.elements)))
R_Unique_value == AllOf(EnumNodes, LAMBDA n : NoDup(NamesOf(n.e.values)))
R_Unique_choice == AllOf(SetNodes, LAMBDA n : NoDup(NamesOf(n.e.choices)))
\* the values of one enum are pairwise different as VALUES (1 and 01 are one value): two
\* names for one value cannot be told apart when decoding, and the switch generated for
\* visit / enum_to_string would have equal case labels (round 4; sbeppc accepted them)
CanonValue(v) == IF Len(v) >= 2 /\ Ch(v, 1) = "-" /\ IsDigits(SubSeq(v, 2, Len(v)))
                 THEN (IF StripZeros(SubSeq(v, 2, Len(v))) = "0" THEN "0" ELSE "-" \o StripZeros(SubSeq(v, 2, Len(v))))
                 ELSE IF Len(v) >= 2 /\ IsDigits(v) THEN StripZeros(v) ELSE v
R_Unique_valuenum ==
  AllOf(EnumNodes, LAMBDA n :
    (IsPrim(n.e.enc) \/ Exists(n.e.enc)) =>
      NoDup([k \in 1 .. Len(n.e.values) |->
               IF IsPrim(n.e.enc) /\ n.e.enc = "char" THEN n.e.values[k].value
               ELSE IF ~IsPrim(n.e.enc) /\ KindOf(n.e.enc) = "type" /\ TypeNamed(n.e.enc).prim = "char" THEN n.e.values[k].value
               ELSE CanonValue(n.e.values[k].value)]))
R_Unique == R_Unique_type /\ R_Unique_message /\ R_Unique_member /\ R_Unique_element /\ R_Unique_value /\ R_Unique_choice
            /\ R_Unique_valuenum

----------------------------------------------------------------------------
RuleNames == {"R_RefExists", "R_RefKind.enc", "R_RefKind.header", "R_RefKind.dim", "R_RefKind.data",
              "R_RefKind.valueRef", "R_NoCycle", "R_FieldOffset", "R_ElementOffset", "R_BlockLength", "R_DataLayout",
              "R_ArraySingleByte", "R_ValueFits.min", "R_ValueFits.max", "R_ValueFits.null", "R_ValueFits.const",
              "R_ValueFits.enum", "R_ChoiceIndex", "R_Name", "R_Keyword", "R_Unique.type", "R_Unique.message",
              "R_Unique.member", "R_Unique.element", "R_Unique.value", "R_Unique.choice", "R_Unique.valuenum"}
HoldsW(r, wf) ==
           CASE r = "R_RefExists" -> R_RefExists
              [] r = "R_RefKind.enc" -> R_RefKind_enc
              [] r = "R_RefKind.header" -> R_RefKind_header
              [] r = "R_RefKind.dim" -> R_RefKind_dim
              [] r = "R_RefKind.data" -> R_RefKind_data
              [] r = "R_RefKind.valueRef" -> R_RefKind_valueRef
              [] r = "R_NoCycle" -> R_NoCycle
              [] r = "R_FieldOffset" -> FieldOffsetW(wf)
              [] r = "R_ElementOffset" -> ElementOffsetW(wf)
              [] r = "R_BlockLength" -> BlockLengthW(wf)
              [] r = "R_DataLayout" -> DataLayoutW(wf)
              [] r = "R_ArraySingleByte" -> R_ArraySingleByte
              [] r = "R_ValueFits.min" -> R_ValueFits_min
              [] r = "R_ValueFits.max" -> R_ValueFits_max
              [] r = "R_ValueFits.null" -> R_ValueFits_null
              [] r = "R_ValueFits.const" -> R_ValueFits_const
              [] r = "R_ValueFits.enum" -> R_ValueFits_enum
              [] r = "R_ChoiceIndex" -> R_ChoiceIndex
              [] r = "R_Name" -> R_Name
              [] r = "R_Keyword" -> R_Keyword
              [] r = "R_Unique.type" -> R_Unique_type
              [] r = "R_Unique.message" -> R_Unique_message
              [] r = "R_Unique.member" -> R_Unique_member
              [] r = "R_Unique.element" -> R_Unique_element
              [] r = "R_Unique.value" -> R_Unique_value
              [] r = "R_Unique.choice" -> R_Unique_choice
              [] r = "R_Unique.valuenum" -> R_Unique_valuenum
Holds(r) == HoldsW(r, WellFormed)
Broken == LET wf == WellFormed IN {r \in RuleNames : ~HoldsW(r, wf)}

Valid ==
  /\ R_RefExists /\ R_RefKind /\ R_NoCycle       \* = WellFormed, so the next line may assume it
  /\ FieldOffsetW(TRUE) /\ ElementOffsetW(TRUE) /\ BlockLengthW(TRUE) /\ DataLayoutW(TRUE)
  /\ R_ArraySingleByte
  /\ R_ValueFits_min /\ R_ValueFits_max /\ R_ValueFits_null /\ R_ValueFits_const /\ R_ValueFits_enum
  /\ R_ChoiceIndex
  /\ R_Name /\ R_Keyword /\ R_Unique

\* the two definitions of validity agree (checked as an invariant)
ValidIsNoBrokenRule == Valid <=> (Broken = {})
\* design theorem
LayoutTheorem == Valid => (NoOverlap /\ MembersInsideBlock)
=============================================================================
