----------------------------- MODULE SbeImage -----------------------------
(* Denotation: abstract message (a "shape") |-> its SBE wire image.        *)
(*                                                                         *)
(* A shape fixes everything the schema leaves open for message mi:         *)
(*   vs   value scheme of the scalar members: "zero" | "ones" | "pat"      *)
(*   cnt  per level (group definition): base entry count                   *)
(*   dl   per level: base length of its <data> members                     *)
(*   ext  per level: how many bytes the wire blockLength exceeds the       *)
(*        compiled one (a newer schema version appended fields, C03)       *)
(* Counts/lengths of a particular *instance* additionally depend on the    *)
(* entry index path ip (sequence of 1-based entry indices from the root),  *)
(* so sibling entries differ.  Values are distinct per leaf instance so a  *)
(* misplaced, swapped or truncated access is visible in the bytes.         *)
EXTENDS Sbe

CONSTANT MI         \* index of the message under study in S.messages

\* TLC does not cache the two tables below as constants (they are built by
\* RECURSIVE operators), and re-deriving them at every use dominates the run
\* time.  They are therefore carried in a ghost variable that every machine
\* initialises with MemoInit and never changes: a memo, not state.
VARIABLE memo
LLeaves == memo.leaves
LFields == memo.fields

\* ---- static tables of message MI.  Zero-arity constant definitions: TLC
\* evaluates each once, so the layout rules of Sbe.tla are not re-derived
\* for every byte that is read.  (A function constructor stays lazy even when
\* cached - every application would re-evaluate its body; "\o <<>>" turns
\* it into an explicit tuple.)
LV == Levels(MI) \o <<>>
NL == Len(LV)
LDef == ([li \in 1 .. NL |-> LV[li].def]) \o <<>>
LLeavesDef == ([li \in 1 .. NL |-> LevelLeaves(LV[li].def)]) \o <<>>
LBL == ([li \in 1 .. NL |-> BlockLength(LV[li].def)]) \o <<>>
LChild == ([li \in 1 .. NL |-> [g \in 1 .. Len(LV[li].def.groups) |->
              LevelIdx(MI, Append(LV[li].path, LV[li].def.groups[g].name))] \o <<>>]) \o <<>>
LParent == ([li \in 1 .. NL |-> IF li = 1 THEN 0 ELSE LevelIdx(MI, Front(LV[li].path))]) \o <<>>
LOrd == ([li \in 1 .. NL |->
           IF li = 1 THEN 0
           ELSE LET p == LV[LParent[li]].def
                IN CHOOSE g \in 1 .. Len(p.groups) : p.groups[g].name = Last(LV[li].path)]) \o <<>>
LDimSize == ([li \in 1 .. NL |-> IF li = 1 THEN 0 ELSE DimSize(LV[li].def)]) \o <<>>
LDimOff == ([li \in 1 .. NL |-> IF li = 1 THEN <<0, 0>>
              ELSE <<CompMemberOff(Dim(LV[li].def), "blockLength"),
                     CompMemberOff(Dim(LV[li].def), "numInGroup")>>]) \o <<>>
LDimW == ([li \in 1 .. NL |-> IF li = 1 THEN <<0, 0>>
              ELSE <<CompMemberW(Dim(LV[li].def), "blockLength"),
                     CompMemberW(Dim(LV[li].def), "numInGroup")>>]) \o <<>>
LLenW == ([li \in 1 .. NL |-> [d \in 1 .. Len(LV[li].def.data) |-> LenW(LV[li].def.data[d])] \o <<>>]) \o <<>>
\* non-constant fields of each level, in order: what cursor accessors exist for
\* [name, off, size, kind ("scalar": returns a value | "view": composite or
\* array, returns a view), leaf (index of the scalar's leaf in LLeaves)]
RECURSIVE NonConstFields(_, _, _)
NonConstFields(L, lay, k) ==
  IF k > Len(L.fields) THEN <<>>
  ELSE IF lay[k] < 0 THEN NonConstFields(L, lay, k + 1)
  ELSE LET e == FieldEnc(L.fields[k])
           scalar == (e.kind = "type" /\ e.length = 1) \/ e.kind \in {"enum", "set"}
       IN <<[name |-> L.fields[k].name, off |-> lay[k], size |-> EncSize(e),
             kind |-> IF scalar THEN "scalar" ELSE "view"]>>
          \o NonConstFields(L, lay, k + 1)
LFieldsDef == ([li \in 1 .. NL |->
               CHOOSE r \in {NonConstFields(LV[li].def, lay, 1) : lay \in {LevelLayout(LV[li].def)[1]}} : TRUE]) \o <<>>
MemoInit == memo = [leaves |-> LLeavesDef, fields |-> LFieldsDef]
LeafOfField(li, name) ==
  CHOOSE k \in 1 .. Len(LLeaves[li]) : LLeaves[li][k].path = <<name>>
HSize == HeaderSize
HBlOff == CompMemberOff(Header, "blockLength")
HBlW == CompMemberW(Header, "blockLength")

RECURSIVE IpHashFrom(_, _)
IpHashFrom(ip, h) == IF ip = <<>> THEN h ELSE IpHashFrom(Tail(ip), (h * 3 + Head(ip)) % 97)
IpHash(ip) == IpHashFrom(ip, 0)

MaxCnt == 3
Cnt(sh, li, ip) == (sh.cnt[li] + IpHash(ip)) % MaxCnt
DLen(sh, li, di, ip) == (sh.dl[li] + di + IpHash(ip)) % 3
Ext(sh, li) == sh.ext[li]

\* value of leaf number k of level li in instance ip: w*n bytes
\* (scalars: little-endian value digits; arrays: the elements in order)
LeafVal(sh, li, k, ip, leaf) ==
  [j \in 1 .. leaf.w * leaf.n |->
     CASE sh.vs = "zero" -> 0
       [] sh.vs = "ones" -> 255
       [] OTHER -> (li * 41 + k * 29 + IpHash(ip) * 53 + j * 7 + 3) % 256]
LeafWire(leaf, val) == IF leaf.n = 1 THEN Wire(val) ELSE val

DataVal(sh, li, di, ip) ==
  [j \in 1 .. DLen(sh, li, di, ip) |->
     CASE sh.vs = "zero" -> 0
       [] sh.vs = "ones" -> 255
       [] OTHER -> (li * 43 + di * 67 + IpHash(ip) * 59 + j * 11 + 5) % 256]

ChildLi(mi, li, g) == LChild[li][g]   \* level index of the g-th group of level li

WireBL(mi, sh, li) == LBL[li] + Ext(sh, li)

RECURSIVE PutLeaves(_, _, _, _, _, _)
PutLeaves(img, leaves, k, sh, li, ip) ==
  IF k > Len(leaves) THEN img
  ELSE PutLeaves(Put(img, leaves[k].off, LeafWire(leaves[k], LeafVal(sh, li, k, ip, leaves[k]))),
                 leaves, k + 1, sh, li, ip)

BlockImage(mi, sh, li, ip) ==
  PutLeaves(Holes(WireBL(mi, sh, li)), LLeaves[li], 1, sh, li, ip)

CounterNames == <<"blockLength", "numInGroup", "numGroups", "numVarDataFields">>

DataImage(mi, sh, li, di, ip) ==
  LET d == LDef[li].data[di]
  IN Wire(FromNat(DLen(sh, li, di, ip), LLenW[li][di])) \o DataVal(sh, li, di, ip)

RECURSIVE LevelImage(_, _, _, _), GroupImage(_, _, _, _)
LevelImage(mi, sh, li, ip) ==
  LET L == LDef[li]
  IN BlockImage(mi, sh, li, ip)
     \o ConcatAll([g \in 1 .. Len(L.groups) |-> GroupImage(mi, sh, ChildLi(mi, li, g), ip)])
     \o ConcatAll([d \in 1 .. Len(L.data) |-> DataImage(mi, sh, li, d, ip)])
GroupImage(mi, sh, gli, ip) ==
  LET g == LDef[gli]
      n == Cnt(sh, gli, ip)
  IN CompImage(Dim(g), CounterNames,
               <<WireBL(mi, sh, gli), n, Len(g.groups), Len(g.data)>>)
     \o ConcatAll([k \in 1 .. n |-> LevelImage(mi, sh, gli, Append(ip, k))])

HeaderNames == <<"blockLength", "templateId", "schemaId", "version", "numGroups", "numVarDataFields">>
HeaderImage(mi, sh) ==
  CompImage(Header, HeaderNames,
            <<WireBL(mi, sh, 1), Msg(mi).id, S.id, S.version,
              Len(Msg(mi).groups), Len(Msg(mi).data)>>)

MsgImage(mi, sh) == HeaderImage(mi, sh) \o LevelImage(mi, sh, 1, <<>>)

\* ---- denotational sizes and addresses (0-based, relative to the message
\* start).  Sizes are defined by structural recursion on the abstract message;
\* ImageSizesConsistent (below) ties them to the lengths of the images.
RECURSIVE LevelSize(_, _, _, _), GroupSize(_, _, _, _)
LevelSize(mi, sh, li, ip) ==
  WireBL(mi, sh, li)
  + SumSeq([g \in 1 .. Len(LDef[li].groups) |-> GroupSize(mi, sh, LChild[li][g], ip)])
  + SumSeq([d \in 1 .. Len(LDef[li].data) |-> LLenW[li][d] + DLen(sh, li, d, ip)])
GroupSize(mi, sh, gli, ip) ==
  LDimSize[gli]
  + SumSeq([k \in 1 .. Cnt(sh, gli, ip) |-> LevelSize(mi, sh, gli, Append(ip, k))])
MsgSize(mi, sh) == HSize + LevelSize(mi, sh, 1, <<>>)

\* start of the g-th group of level instance (li, ip) that starts at a
DenGroupAddr(mi, sh, li, ip, a, g) ==
  a + WireBL(mi, sh, li)
    + SumSeq([j \in 1 .. g - 1 |-> GroupSize(mi, sh, LChild[li][j], ip)])
\* start of entry k (1-based) of group instance (gli, ip) that starts at ga
DenEntryAddr(mi, sh, gli, ip, ga, k) ==
  ga + LDimSize[gli]
     + SumSeq([j \in 1 .. k - 1 |-> LevelSize(mi, sh, gli, Append(ip, j))])
DenDataAddr(mi, sh, li, ip, a, d) ==
  DenGroupAddr(mi, sh, li, ip, a, Len(LDef[li].groups) + 1)
  + SumSeq([j \in 1 .. d - 1 |-> LLenW[li][j] + DLen(sh, li, j, ip)])

ImageSizesConsistent(mi, sh) ==
  /\ Len(MsgImage(mi, sh)) = MsgSize(mi, sh)
  /\ \A g \in 1 .. Len(LDef[1].groups) :
       Len(GroupImage(mi, sh, LChild[1][g], <<>>)) = GroupSize(mi, sh, LChild[1][g], <<>>)

\* all level instances of the message under the shape, with their
\* denotational start addresses: sequence of [li, ip, a]
RECURSIVE DenInstances(_, _, _, _, _)
DenInstances(mi, sh, li, ip, a) ==
  LET L == LDef[li]
  IN <<[li |-> li, ip |-> ip, a |-> a]>> \o
     ConcatAll([g \in 1 .. Len(L.groups) |->
        LET gli == ChildLi(mi, li, g)
            ga == DenGroupAddr(mi, sh, li, ip, a, g)
        IN ConcatAll([k \in 1 .. Cnt(sh, gli, ip) |->
              DenInstances(mi, sh, gli, Append(ip, k),
                           DenEntryAddr(mi, sh, gli, ip, ga, k))])])
Instances(mi, sh) == DenInstances(mi, sh, 1, <<>>, HSize)

\* all group instances: [gli, ip (of the parent instance), ga, n]
RECURSIVE DenGroups(_, _, _, _, _)
DenGroups(mi, sh, li, ip, a) ==
  LET L == LDef[li]
  IN ConcatAll([g \in 1 .. Len(L.groups) |->
        LET gli == ChildLi(mi, li, g)
            ga == DenGroupAddr(mi, sh, li, ip, a, g)
        IN <<[gli |-> gli, pli |-> li, g |-> g, ip |-> ip, ga |-> ga, n |-> Cnt(sh, gli, ip)]>> \o
           ConcatAll([k \in 1 .. Cnt(sh, gli, ip) |->
              DenGroups(mi, sh, gli, Append(ip, k), DenEntryAddr(mi, sh, gli, ip, ga, k))])])
GroupInstances(mi, sh) == DenGroups(mi, sh, 1, <<>>, HSize)

\* background and overlay: bytes no member owns keep their previous value
Background(n) == [i \in 1 .. n |-> (i * 37 + 11) % 251]
\* TLC re-evaluates an operator argument at every use when the expression is
\* state-level; binding through a singleton set makes it a value once.
Strict3(F(_, _, _), x, y, z) == CHOOSE r \in {F(a, b, c) : a \in {x}, b \in {y}, c \in {z}} : TRUE
OverlayV(bg, img, at0) ==
  [i \in 1 .. Len(bg) |->
     IF i > at0 /\ i <= at0 + Len(img) /\ img[i - at0] # Hole THEN img[i - at0] ELSE bg[i]]
Overlay(bg, img, at0) == Strict3(OverlayV, bg, img, at0)
=============================================================================
