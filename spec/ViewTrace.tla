----------------------------- MODULE ViewTrace -----------------------------
(* Trace validation for the view machine (code -> spec): a log of encoding  *)
(* calls made on a real generated message (harness/view_main.cpp, record    *)
(* mode: in-order fills with random counts, lengths and values, beyond the  *)
(* shapes TLC explores exhaustively, interleaved with getters and size      *)
(* queries) must be a behaviour of View.tla's operational layer: every call  *)
(* is applied to the spec's buffer with addresses derived from the bytes in  *)
(* that buffer, and the bytes the real call changed (logged as deltas) must  *)
(* be exactly the bytes the spec changes.                                    *)
EXTENDS View, IOUtils

VARIABLE l
Tr == ndJsonDeserialize(IOEnv.TRACE)
tvars == <<sh, mode, buf, pc, last, memo, l>>

Dummy == [vs |-> "pat", cnt |-> <<>>, dl |-> <<>>, ext |-> <<>>]

RECURSIVE ApplyDeltas(_, _, _)
ApplyDeltas(b, ds, i) == IF i > Len(ds) THEN b ELSE ApplyDeltas(Put(b, ds[i].off, ds[i].bytes), ds, i + 1)

Li(ev) == LevelIdx(MI, ev.level)
LeafK(li, path) == CHOOSE k \in 1 .. Len(LLeaves[li]) : LLeaves[li][k].path = path
GroupG(li, name) == CHOOSE g \in 1 .. Len(LDef[li].groups) : LDef[li].groups[g].name = name
DataD(li, name) == CHOOSE d \in 1 .. Len(LDef[li].data) : LDef[li].data[d].name = name

TraceInit == /\ MemoInit
             /\ l = 2
             /\ Tr[1].e = "Reset"
             /\ buf = Tr[1].buf
             /\ sh = Dummy /\ mode = "trace" /\ pc = 0
             /\ last = [op |-> "init", li |-> 0, ip |-> <<>>, k |-> 0]

IsEvent(e) == l <= Len(Tr) /\ Tr[l].e = e /\ l' = l + 1
Keep == UNCHANGED <<sh, mode, pc, last, memo>>
\* the real call changed exactly what the spec changes
Observed(b1) == \E b2 \in {b1} : buf' = b2 /\ b2 = ApplyDeltas(buf, Tr[l].delta, 1)

TrReset == IsEvent("Reset") /\ buf' = Tr[l].buf /\ Keep
TrMhdr == IsEvent("mhdr") /\ Observed(Overlay(buf, MsgHeaderFill, V0)) /\ Keep
TrSet == /\ IsEvent("set")
         /\ \E li \in {Li(Tr[l])} : \E k \in {LeafK(li, Tr[l].leaf)} :
              LET leaf == LLeaves[li][k]
              IN /\ Len(Tr[l].val) = leaf.w * leaf.n
                 /\ Observed(Put(buf, OpInst(buf, li, Tr[l].ip).a + leaf.off,
                                 LeafWire(leaf, Tr[l].val)))
         /\ Keep
TrGet == /\ IsEvent("get")
         /\ \E li \in {Li(Tr[l])} : \E k \in {LeafK(li, Tr[l].leaf)} :
              LET leaf == LLeaves[li][k]
                  raw == Slice(buf, OpInst(buf, li, Tr[l].ip).a + leaf.off, leaf.w * leaf.n)
              IN Tr[l].val = (IF leaf.n = 1 THEN UnWire(raw) ELSE raw)
         /\ UNCHANGED buf /\ Keep
TrGhdr == /\ IsEvent("ghdr")
          /\ \E li \in {Li(Tr[l])} : \E g \in {GroupG(li, Tr[l].name)} :
               Observed(Overlay(buf, GroupHeaderFill(LDef[LChild[li][g]], Tr[l].n),
                                OpGroupOf(buf, li, Tr[l].ip, g)))
          /\ Keep
TrData == /\ IsEvent("data")
          /\ \E li \in {Li(Tr[l])} : \E d \in {DataD(li, Tr[l].name)} :
               Observed(Put(buf, OpDataOf(buf, li, Tr[l].ip, d),
                            Wire(FromNat(Len(Tr[l].val), LLenW[li][d])) \o Tr[l].val))
          /\ Keep
TrSize == IsEvent("size") /\ OpMsgSize(buf) = Tr[l].ret /\ UNCHANGED buf /\ Keep
TrGsize == /\ IsEvent("gsize")
           /\ \E li \in {Li(Tr[l])} : \E g \in {GroupG(li, Tr[l].name)} :
                /\ OpGroupN(buf, LChild[li][g], OpGroupOf(buf, li, Tr[l].ip, g)) = Tr[l].n
                /\ OpGroupSize(buf, LChild[li][g], OpGroupOf(buf, li, Tr[l].ip, g)) = Tr[l].ret
           /\ UNCHANGED buf /\ Keep

TraceNext == TrReset \/ TrMhdr \/ TrSet \/ TrGet \/ TrGhdr \/ TrData \/ TrSize \/ TrGsize
TraceSpec == TraceInit /\ [][TraceNext]_tvars
TraceAccepted == TLCGet("stats").diameter = Len(Tr)
=============================================================================
