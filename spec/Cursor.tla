------------------------------ MODULE Cursor ------------------------------
(* The cursor protocol (C04) as a state machine over the cursor position.  *)
(*                                                                         *)
(* Context: one level instance (message root or group entry) of a decoded  *)
(* image.  A transition is one cursor-based accessor call                  *)
(*      view.member(wrapper(c))        wrapper in plain/init/dont_move/    *)
(*                                     init_dont_move/skip, getter|setter  *)
(* Its legality and landing position follow Appendix A of DESIGN.md, which *)
(* transcribes doc/representation.md and the cursor_ops reference.  All    *)
(* addresses are computed operationally (from bytes read in the buffer,    *)
(* View.tla); DecodeRefines ties them to the denotation.                   *)
EXTENDS View

VARIABLES ctx,       \* [li, ip]: the level instance whose accessors are called
          cur,       \* cursor position (0-based absolute offset) or -1 = unset
          ret,       \* what the call returned (see RetOf)
          asserted,  \* the call is reported through the assertion handler
          tab        \* ghost: addresses of the members of ctx, computed once
                     \* per behaviour from the initial buffer (cursor calls
                     \* never write a header, so they stay valid)

cvars == <<sh, mode, buf, pc, last, ctx, cur, ret, asserted, tab, memo>>

Wrappers == {"plain", "init", "dont_move", "init_dont_move", "skip"}
Unset == -1

\* ---- addresses of the members of the context instance, from the buffer
F(c) == LFields[c.li]
NG(c) == Len(LDef[c.li].groups)
ND(c) == Len(LDef[c.li].data)
TabOf(b, c, a, bl) ==
  [a |-> a, be |-> a + bl, va |-> IF c.li = 1 THEN V0 ELSE a,
   lend |-> OpLevelEnd(b, c.li, a, bl), msize |-> OpMsgSize(b),
   gs |-> [g \in 1 .. NG(c) |-> OpGroupAddr(b, c.li, a, bl, g)],
   ge |-> [g \in 1 .. NG(c) |->
             OpGroupAddr(b, c.li, a, bl, g)
             + OpGroupSize(b, LChild[c.li][g], OpGroupAddr(b, c.li, a, bl, g))],
   gn |-> [g \in 1 .. NG(c) |->
             OpGroupN(b, LChild[c.li][g], OpGroupAddr(b, c.li, a, bl, g))],
   ds |-> [d \in 1 .. ND(c) |-> OpDataAddr(b, c.li, a, bl, d)],
   de |-> [d \in 1 .. ND(c) |->
             OpDataAddr(b, c.li, a, bl, d)
             + OpDataSize(b, c.li, d, OpDataAddr(b, c.li, a, bl, d))]]
Tab(b, c) == TabOf(b, c, OpInst(b, c.li, c.ip).a, OpInst(b, c.li, c.ip).bl)

A(b, c) == tab.a                              \* start of the block
BE(b, c) == tab.be                            \* block end at WIRE blockLength
ViewAddr(b, c) == tab.va
FS(b, c, k) == tab.a + F(c)[k].off
FE(b, c, k) == FS(b, c, k) + F(c)[k].size
FReq(b, c, k) == IF k = 1 THEN tab.a ELSE FE(b, c, k - 1)
GS(b, c, g) == tab.gs[g]
GH(b, c, g) == tab.gs[g] + LDimSize[LChild[c.li][g]]
GE(b, c, g) == tab.ge[g]
DS(b, c, d) == tab.ds[d]
DE(b, c, d) == tab.de[d]

Members(c) == [kind : {"field"}, i : 1 .. Len(F(c))]
              \cup [kind : {"group"}, i : 1 .. NG(c)]
              \cup [kind : {"data"}, i : 1 .. ND(c)]

\* the first variable-length member of the level needs no cursor position
FirstVar(c, m) == \/ m.kind = "group" /\ m.i = 1
                  \/ m.kind = "data" /\ m.i = 1 /\ NG(c) = 0
IsLastField(c, m) == m.kind = "field" /\ m.i = Len(F(c))

StartOf(b, c, m) == CASE m.kind = "field" -> FS(b, c, m.i)
                      [] m.kind = "group" -> GS(b, c, m.i)
                      [] m.kind = "data" -> DS(b, c, m.i)
EndOf(b, c, m) == CASE m.kind = "field" -> FE(b, c, m.i)
                    [] m.kind = "group" -> GE(b, c, m.i)
                    [] m.kind = "data" -> DE(b, c, m.i)
\* the position the member requires of a plain / dont_move / skip cursor
ReqPos(b, c, m) == IF m.kind = "field" THEN FReq(b, c, m.i) ELSE StartOf(b, c, m)

Legal(w, b, c, m, p) ==
  \/ w \in {"init", "init_dont_move"}
  \/ FirstVar(c, m)
  \/ p = ReqPos(b, c, m)

\* documented landing position (Appendix A)
Land(w, b, c, m, p) ==
  CASE w \in {"plain", "init"} ->
         (CASE m.kind = "field" -> IF IsLastField(c, m) THEN BE(b, c) ELSE FE(b, c, m.i)
            [] m.kind = "group" -> GH(b, c, m.i)
            [] m.kind = "data" -> DE(b, c, m.i))
    [] w = "dont_move" -> IF FirstVar(c, m) THEN BE(b, c) ELSE p
    [] w = "init_dont_move" ->
         IF FirstVar(c, m) THEN BE(b, c) ELSE ReqPos(b, c, m)
    [] w = "skip" ->
         IF IsLastField(c, m) THEN BE(b, c) ELSE EndOf(b, c, m)

\* what a legal non-skip call returns: the value for scalars, the start of
\* the returned view otherwise (plus size() / contents for groups / data)
RetOf(b, c, m) ==
  CASE m.kind = "field" /\ F(c)[m.i].kind = "scalar" ->
         [what |-> "value", addr |-> FS(b, c, m.i), n |-> 0,
          bytes |-> UnWire(Slice(b, FS(b, c, m.i), F(c)[m.i].size))]
    [] m.kind = "field" -> [what |-> "view", addr |-> FS(b, c, m.i), n |-> 0, bytes |-> <<>>]
    [] m.kind = "group" ->
         [what |-> "group", addr |-> GS(b, c, m.i),
          n |-> tab.gn[m.i], bytes |-> <<>>]
    [] m.kind = "data" ->
         [what |-> "data", addr |-> DS(b, c, m.i), n |-> 0,
          bytes |-> Slice(b, DS(b, c, m.i) + LLenW[c.li][m.i],
                          Rd(b, DS(b, c, m.i), LLenW[c.li][m.i]))]
NoRet == [what |-> "none", addr |-> -1, n |-> 0, bytes |-> <<>>]

SetVal(n) == [j \in 1 .. n |-> (90 + 13 * j) % 256]

\* every position a cursor can be left at by some call on this instance, the
\* neighbours of the required positions, and "unset"
Landmarks(b, c) ==
  {A(b, c), BE(b, c), A(b, c) + 1, ViewAddr(b, c)}
  \cup {FS(b, c, k) : k \in 1 .. Len(F(c))} \cup {FE(b, c, k) : k \in 1 .. Len(F(c))}
  \cup {GS(b, c, g) : g \in 1 .. NG(c)} \cup {GH(b, c, g) : g \in 1 .. NG(c)}
  \cup {GE(b, c, g) : g \in 1 .. NG(c)}
  \cup {DS(b, c, d) : d \in 1 .. ND(c)} \cup {DE(b, c, d) : d \in 1 .. ND(c)}

CInit ==
  /\ MemoInit
  /\ sh \in Shapes
  /\ mode = "cursor"
  /\ \E b0 \in {Overlay(Region(sh), MsgImage(MI, sh), V0)} : buf = b0
  /\ pc = 0
  /\ last = [op |-> "init", w |-> "", kind |-> "", i |-> 0, set |-> FALSE]
  /\ ctx \in {[li |-> Instances(MI, sh)[j].li, ip |-> Instances(MI, sh)[j].ip] :
                 j \in 1 .. Len(Instances(MI, sh))}
  /\ \E t \in {Tab(buf, ctx)} : tab = t     \* bound once, as a value
  /\ cur \in Landmarks(buf, ctx) \cup {Unset}
  /\ ret = NoRet
  /\ asserted = FALSE

\* getter through wrapper w
CGet(w, m) ==
  /\ cur # Unset \/ w \in {"init", "init_dont_move"} \/ FirstVar(ctx, m)
  /\ IF Legal(w, buf, ctx, m, cur)
     THEN /\ asserted' = FALSE
          /\ cur' = Land(w, buf, ctx, m, cur)
          /\ ret' = IF w = "skip" THEN NoRet ELSE RetOf(buf, ctx, m)
     ELSE /\ asserted' = TRUE         \* must be reported (checks enabled)
          /\ UNCHANGED <<cur, ret>>
  /\ last' = [op |-> "cget", w |-> w, kind |-> m.kind, i |-> m.i, set |-> FALSE]
  /\ UNCHANGED <<sh, mode, buf, pc, ctx, tab, memo>>

\* setter through wrapper w (scalar fields only; skip has no setter)
CSet(w, m) ==
  /\ m.kind = "field" /\ F(ctx)[m.i].kind = "scalar" /\ w # "skip"
  /\ cur # Unset \/ w \in {"init", "init_dont_move"}
  /\ IF Legal(w, buf, ctx, m, cur)
     THEN /\ asserted' = FALSE
          /\ cur' = Land(w, buf, ctx, m, cur)
          /\ buf' = Put(buf, FS(buf, ctx, m.i), Wire(SetVal(F(ctx)[m.i].size)))
     ELSE /\ asserted' = TRUE
          /\ UNCHANGED <<cur, buf>>
  /\ ret' = NoRet
  /\ last' = [op |-> "cset", w |-> w, kind |-> m.kind, i |-> m.i, set |-> TRUE]
  /\ UNCHANGED <<sh, mode, pc, ctx, tab, memo>>

Relevant(m) == {Unset, ReqPos(buf, ctx, m), ReqPos(buf, ctx, m) + 1, StartOf(buf, ctx, m),
                EndOf(buf, ctx, m), A(buf, ctx), BE(buf, ctx)}
CNext == \E w \in Wrappers, m \in Members(ctx) :
            cur \in Relevant(m) /\ (CGet(w, m) \/ CSet(w, m))
CSpec == CInit /\ [][CNext]_cvars

----------------------------------------------------------------------------
(* Laws the table must satisfy (checked in every state, for every member)  *)
\* (the laws speak about (buf, ctx, cur, tab), which the initial states range
\* over completely; successor states add nothing, so they are skipped)
TableLaws ==
 TLCGet("level") = 1 =>
  \A m \in Members(ctx) :
    LET p0 == Land("init_dont_move", buf, ctx, m, cur)
    IN \* after init_dont_move(m) a plain call on m is legal and lands where init(m) lands
       /\ Legal("plain", buf, ctx, m, p0)
       /\ Land("plain", buf, ctx, m, p0) = Land("init", buf, ctx, m, cur)
       \* dont_move(m); plain(m)  ==  plain(m)
       /\ Legal("plain", buf, ctx, m, cur) =>
            /\ Legal("dont_move", buf, ctx, m, cur)
            /\ LET p1 == Land("dont_move", buf, ctx, m, cur)
               IN /\ Legal("plain", buf, ctx, m, p1)
                  /\ Land("plain", buf, ctx, m, p1) = Land("plain", buf, ctx, m, cur)
       \* a legal call addressed from the cursor reads the random-access bytes
       /\ (Legal("plain", buf, ctx, m, cur) /\ m.kind = "field" /\ ~FirstVar(ctx, m)) =>
            cur + (FS(buf, ctx, m.i) - FReq(buf, ctx, m.i)) = FS(buf, ctx, m.i)
       \* landing positions never leave the view
       /\ \A w \in Wrappers : Legal(w, buf, ctx, m, cur) =>
            (Land(w, buf, ctx, m, cur) >= ViewAddr(buf, ctx)
             /\ Land(w, buf, ctx, m, cur) <= V0 + tab.msize)

\* in-order plain traversal of the members of the instance: each call is legal
\* where the previous one landed, and the last one lands at the level's end
\* when every group is skipped as a whole
LevelWalk ==
 TLCGet("level") = 1 =>
  LET ms == [k \in 1 .. Len(F(ctx)) |-> [kind |-> "field", i |-> k]]
            \o [g \in 1 .. NG(ctx) |-> [kind |-> "group", i |-> g]]
            \o [d \in 1 .. ND(ctx) |-> [kind |-> "data", i |-> d]]
      W(m) == IF m.kind = "group" THEN "skip" ELSE "plain"
      Pos[k \in 0 .. Len(ms)] ==
        IF k = 0 THEN A(buf, ctx) ELSE Land(W(ms[k]), buf, ctx, ms[k], Pos[k - 1])
  IN /\ \A k \in 1 .. Len(ms) : Legal(W(ms[k]), buf, ctx, ms[k], Pos[k - 1])
     /\ Len(ms) > 0 =>
          Pos[Len(ms)] = tab.lend

CTypeOK == /\ cur = Unset \/ cur \in 0 .. Len(buf)
           /\ asserted \in BOOLEAN

----------------------------------------------------------------------------
(* Emission: one vector per transition *)
MemberName(c, m) == CASE m.kind = "field" -> F(c)[m.i].name
                      [] m.kind = "group" -> LDef[c.li].groups[m.i].name
                      [] m.kind = "data" -> LDef[c.li].data[m.i].name
EmitCursor ==
  LET m == [kind |-> last'.kind, i |-> last'.i]
  IN PrintT(ToJson(
       [kind |-> "cursor", msg |-> Msg(MI).name, v0 |-> V0, size |-> tab.msize,
        ext |-> sh.ext, pre |-> buf, post |-> buf',
        level |-> LV[ctx.li].path, ip |-> ctx.ip,
        w |-> last'.w, mkind |-> last'.kind, name |-> MemberName(ctx, m),
        set |-> last'.set,
        val |-> IF last'.set THEN SetVal(F(ctx)[m.i].size) ELSE <<>>,
        cur |-> cur, legal |-> ~asserted', post_cur |-> cur',
        ret |-> ret']))
\* as an ACTION_CONSTRAINT: print the transition, then cut the successor off
\* (every transition from every initial position is what is wanted; the
\* positions reachable later are landmarks, i.e. initial positions, again)
EmitCursorAndStop == EmitCursor /\ FALSE
=============================================================================
