---------------------------- MODULE SbeppcTrace ----------------------------
(* Trace validation for Sbeppc: recorded runs of the real sbeppc binary     *)
(* (tools/sbeppcrun.py, LD_PRELOAD harness/ioshim.c, optional phase-marker  *)
(* hook in main.cpp) must be behaviours of the machine.                     *)
(*                                                                          *)
(* Lines of the trace (ndjson):                                             *)
(*  {"ev":"Plan","schema":s,"ops":[{"call","path","dir","len","src"}],"nin":n} *)
(*      the emission plan of schema s, transliterated from the FAULT-FREE   *)
(*      reference run of the real binary (which is itself one of the runs   *)
(*      below and must be accepted)                                         *)
(*  {"ev":"Reset","run":id,"schema":s,"init":"fresh"|"populated"|"stale",   *)
(*   "fault":{"cls","k","kind"},"expect":"accept"|"any"}   starts a run     *)
(*  {"ev":"phase","name":..}          hook (optional)                       *)
(*  {"ev":"sys","cls","call","path","src","k","res","errno","len","fd","inj"} *)
(*  {"ev":"diag","present":b,"located":b}                                   *)
(*  {"ev":"exit","status":n,"signal":s}                                     *)
(*  {"ev":"disk","files":[{"path","state"}]}   state: absent | partial |    *)
(*      complete | stale | extra  (size+sha256 against the reference run)   *)
(*                                                                          *)
(* Every line is matched by exactly one action; the matching is             *)
(* deterministic, so the state graph is a chain.  A run that cannot be      *)
(* continued is REJECTED: the line, run id and event are printed as a JSON  *)
(* record, the rest of that run is skipped and validation goes on with the  *)
(* next run (a rejected episode does not stop the next one).  The trace as  *)
(* a whole is accepted iff no run was rejected (then, and only then, the    *)
(* chain has as many states as the trace has lines).                        *)
EXTENDS Sbeppc, IOUtils, Json

VARIABLES l,        \* next line
          run,      \* id of the current run
          plans,    \* schema -> [ops, nin]
          nopen,    \* number of input files a good run opens (from the plan)
          hooked,   \* phase markers seen in this run
          okplans,  \* schemas whose recorded plan is well-formed (PlanOK), computed once
          stage     \* "idle" | "run" | "exited" | "checked" | "skipped"

Tr == ndJsonDeserialize(IOEnv.TRACE)

tvars == <<vars, l, run, plans, nopen, hooked, okplans, stage>>

EmptyPlan == <<>>
EmptyDisk == [x \in {} |-> "absent"]

TraceInit ==
  /\ l = 1 /\ run = "" /\ plans = [x \in {} |-> 0] /\ nopen = 0 /\ hooked = FALSE /\ stage = "idle"
  \* (evaluated here, not in TrPlan: TLC evaluates ENABLED TrMatch recursively and the
  \* nested quantifiers of PlanOK over a 100-call plan would exhaust the Java stack)
  /\ okplans = {Tr[i].schema : i \in {j \in 1 .. Len(Tr) : Tr[j].ev = "Plan" /\ PlanOK(Tr[j].ops)}}
  /\ plan = EmptyPlan /\ fault = NoFault /\ disk = EmptyDisk /\ disk0 = EmptyDisk
  /\ mayreject = FALSE
  /\ phase = "Done" /\ pc = 1 /\ nio = 0 /\ nin = 0 /\ inopens = 0
  /\ diag = FALSE /\ exit = 0 /\ failed = FALSE /\ soft = FALSE /\ offplan = FALSE
  /\ pend = 0 /\ cur = "" /\ bad = FALSE /\ thrown = FALSE /\ gen = 1

IsEvent(e) == l <= Len(Tr) /\ Tr[l].ev = e /\ l' = l + 1

\* ---- plan of a schema ----------------------------------------------------
TrPlan ==
  /\ IsEvent("Plan")
  /\ stage \in {"idle", "checked", "skipped"}
  /\ Tr[l].schema \in okplans
  /\ plans' = (Tr[l].schema :> [ops |-> Tr[l].ops, nin |-> Tr[l].nin]) @@ plans
  /\ UNCHANGED <<vars, run, nopen, hooked, okplans, stage>>

\* ---- a run starts --------------------------------------------------------
TrReset ==
  /\ IsEvent("Reset")
  /\ stage \in {"idle", "checked", "skipped"}
  /\ Tr[l].schema \in DOMAIN plans
  /\ Tr[l].init \in {"fresh", "populated", "stale"}
  /\ LET P == plans[Tr[l].schema] IN
       /\ plan' = P.ops
       /\ nopen' = P.nin
       /\ disk' = DiskOf(P.ops, Tr[l].init)
       /\ disk0' = DiskOf(P.ops, Tr[l].init)
  /\ fault' = Tr[l].fault
  /\ Tr[l].fault.cls \in {"none", "out", "in"}
  /\ mayreject' = (Tr[l].expect # "accept")
  /\ run' = Tr[l].run /\ hooked' = FALSE /\ stage' = "run"
  /\ phase' = "Start" /\ pc' = 1 /\ nio' = 0 /\ nin' = 0 /\ inopens' = 0
  /\ diag' = FALSE /\ exit' = -1 /\ failed' = FALSE /\ soft' = FALSE /\ offplan' = FALSE
  /\ pend' = 0 /\ cur' = "" /\ bad' = FALSE /\ thrown' = FALSE /\ gen' = 1
  /\ UNCHANGED <<plans, okplans>>

\* ---- phase markers (hook) ------------------------------------------------
MarkerPhase(n) == CASE n = "args" -> "Args" [] n = "parsed" -> "Parsed" [] n = "validated" -> "Validated"
                    [] n = "cpp-validated" -> "CppValidated" [] n = "named" -> "Named" [] OTHER -> "?"

TrPhase ==
  /\ IsEvent("phase") /\ stage = "run" /\ Running
  /\ LET n == Tr[l].name IN
       CASE n \in {"args", "parsed", "validated", "cpp-validated", "named"} ->
              \* the pipeline order of the machine; all input is read before "parsed"
              /\ ~failed
              /\ phase \in {"Start", "Args", "Parsed", "Validated", "CppValidated"}
              /\ MarkerPhase(n) = NextPhase(phase)
              /\ phase' = MarkerPhase(n)
         [] n = "compiled" ->
              \* emission returned normally: the whole plan was carried out
              /\ phase \in {"Named", "Emitting"}
              /\ offplan \/ (pend = 0 /\ SkipTo(pc) > Len(plan))
              /\ phase' = "Emitting"
         [] n = "error" ->
              \* an error reached main
              /\ phase' = phase
         [] OTHER -> FALSE
  /\ hooked' = TRUE
  /\ UNCHANGED <<plan, pc, nio, nin, inopens, fault, disk, disk0, diag, exit, failed, soft, offplan,
                 pend, cur, bad, thrown, gen, mayreject, run, plans, nopen, okplans, stage>>

\* ---- system calls (shim) -------------------------------------------------
Outcome(e) == IF e.res < 0 THEN (IF e.call = "mkdir" /\ e.errno = 17 THEN "exists"
                                 ELSE IF e.call = "unlink" /\ e.errno = 2 THEN "absent" ELSE "fail")
              ELSE IF e.call = "write" /\ e.res < e.len THEN "short" ELSE "ok"

TrSysOut ==
  /\ IsEvent("sys") /\ stage = "run" /\ Tr[l].cls = "out"
  /\ LET e == Tr[l] IN
       /\ e.k = nio + 1
       \* the shim injected exactly what the run was set up with, and nothing else
       /\ e.inj = (IF HitOut /\ (fault.kind \in Errnos \/ e.call = "write") THEN fault.kind ELSE "")
       /\ Running
       \* with the hook: output only after "named"; without it the pipeline phases
       \* went by unobserved and only "all input was read first" can be checked
       /\ IF hooked THEN phase \in {"Named", "Emitting"}
          ELSE phase \in {"Start", "Emitting"} /\ (inopens = nopen \/ failed)
       /\ IoBody(e.call, e.path, e.len, Outcome(e), IF e.res < 0 THEN 0 ELSE e.res)
  /\ UNCHANGED <<plan, nin, inopens, fault, disk0, diag, exit, thrown, gen, mayreject,
                 run, plans, nopen, hooked, okplans, stage>>

TrSysIn ==
  /\ IsEvent("sys") /\ stage = "run" /\ Tr[l].cls = "in"
  /\ LET e == Tr[l] IN
       /\ e.k = nin + 1
       /\ e.inj = (IF HitIn /\ fault.kind \in Errnos THEN fault.kind ELSE "")
       /\ InOp(e.call, IF e.res < 0 THEN "fail" ELSE "ok")
  /\ UNCHANGED <<phase, plan, pc, nio, fault, disk, disk0, diag, exit, offplan, pend, cur, bad, thrown,
                 gen, mayreject, run, plans, nopen, hooked, okplans, stage>>

\* ---- end of the process --------------------------------------------------
TrDiag ==
  /\ IsEvent("diag") /\ stage = "run" /\ Running
  /\ diag' = Tr[l].present
  /\ UNCHANGED <<phase, plan, pc, nio, nin, inopens, fault, disk, disk0, exit, failed, soft, offplan,
                 pend, cur, bad, thrown, gen, mayreject, run, plans, nopen, hooked, okplans, stage>>

\* the only way to end: a normal exit whose status the property allows
TrExit ==
  /\ IsEvent("exit") /\ stage = "run" /\ Running
  /\ Tr[l].signal = 0
  /\ ExitAllowed(Tr[l].status, diag)
  \* success means the program went through all of its phases and its whole plan
  /\ (Tr[l].status = 0) => /\ pend = 0 /\ cur = "" /\ SkipTo(pc) > Len(plan)
                           /\ inopens = nopen
                           /\ hooked => phase = "Emitting"
  /\ exit' = Tr[l].status
  /\ phase' = "Done"
  /\ stage' = "exited"
  /\ UNCHANGED <<plan, pc, nio, nin, inopens, fault, disk, disk0, diag, failed, soft, offplan,
                 pend, cur, bad, thrown, gen, mayreject, run, plans, nopen, hooked, okplans>>

\* what is on the disk afterwards (observed by hashing, against the reference run)
ObsMatches(obs, st) == obs = st
TrDisk ==
  /\ IsEvent("disk") /\ stage = "exited"
  /\ LET fs == Tr[l].files
         I  == 1 .. Len(fs) IN
       \* the tree holds the planned files and nothing else (a file written under a
       \* temporary name shows as "extra": it is not part of the reference tree)
       /\ \A i \in I : /\ fs[i].path \in AllPaths(plan)
                         /\ (fs[i].state = "extra") => fs[i].path \in TmpFiles(plan)
       /\ \A f \in FinalFiles(plan) : \E i \in I : fs[i].path = f
       \* ExitTruthful on what is really there
       /\ (exit = 0) => \A i \in I : fs[i].state = "complete"
       \* and, as long as the run stayed on its plan, exactly the model's disk
       /\ ~offplan => \A i \in I : IF fs[i].state = "extra" THEN disk[fs[i].path] # "absent"
                                     ELSE ObsMatches(fs[i].state, disk[fs[i].path])
       \* nothing was touched if no output call was made
       /\ (nio = 0) => \A i \in I : ObsMatches(fs[i].state, disk0[fs[i].path])
  /\ stage' = "checked"
  /\ UNCHANGED <<vars, run, plans, nopen, hooked, okplans>>

TrMatch == TrPlan \/ TrReset \/ TrPhase \/ TrSysOut \/ TrSysIn \/ TrDiag \/ TrExit \/ TrDisk

\* ---- rejection of one run ------------------------------------------------
\* first line after i that starts a run (or a plan); Len(Tr) + 1 if none
StartLines == {i \in 1 .. Len(Tr) : Tr[i].ev \in {"Reset", "Plan"}}
NextReset(i) == LET S == {j \in StartLines : j >= i} IN
                IF S = {} THEN Len(Tr) + 1 ELSE CHOOSE j \in S : \A k \in S : j <= k

TrSkip ==
  /\ l <= Len(Tr)
  /\ ~ENABLED TrMatch
  /\ PrintT(ToJson([rejected |-> run, line |-> l, stage |-> stage, phase |-> phase, pc |-> pc, nio |-> nio,
                    failed |-> failed, soft |-> soft, offplan |-> offplan, diag |-> diag,
                    event |-> Tr[l]]))
  /\ l' = NextReset(l + 1)
  /\ stage' = "skipped"
  /\ UNCHANGED <<vars, run, plans, nopen, hooked, okplans>>

TraceNext == TrMatch \/ TrSkip
TraceSpec == TraceInit /\ [][TraceNext]_tvars

\* all lines consumed one by one (a skipped run shortens the chain)
TraceAccepted == TLCGet("stats").diameter = Len(Tr) + 1
=============================================================================
