------------------------- MODULE StaticArrayTrace -------------------------
(* Trace validation for StaticArray: a log of calls made on one live       *)
(* static_array_ref object (harness/c14_arrays.cpp, record mode) must be a *)
(* behaviour of StaticArray.  Every event carries its arguments, the       *)
(* observed memory strip (array + both guards) and the observed result, so *)
(* the search is linear.  Reset events start a new episode.                *)
EXTENDS StaticArray, IOUtils

VARIABLE l
Tr == ndJsonDeserialize(IOEnv.TRACE)

tvars == <<mem, ret, last, l>>

TraceInit == /\ l = 2
             /\ Tr[1].e = "Reset"
             /\ mem = Tr[1].mem
             /\ GuardsIntact
             /\ ret = -1
             /\ last = Act("init", <<>>, "", -1, -1)

IsEvent(e) == l <= Len(Tr) /\ Tr[l].e = e /\ l' = l + 1
Observed == mem' = Tr[l].mem /\ ret' = Tr[l].ret

TrReset == /\ IsEvent("Reset")
           /\ mem' = Tr[l].mem
           /\ Len(mem') = N + 2 /\ mem'[1] = GL /\ mem'[N + 2] = GR
           /\ ret' = -1
           /\ last' = Act("init", <<>>, "", -1, -1)

TrAssignStringPtr   == IsEvent("assign_string_ptr") /\ AssignStringPtr(Tr[l].s, Tr[l].eos) /\ Observed
TrAssignStringRange == IsEvent("assign_string_range") /\ AssignStringRange(Tr[l].s, Tr[l].eos) /\ Observed
TrAssignRange       == IsEvent("assign_range") /\ AssignRange(Tr[l].s) /\ Observed
TrAssignCount       == IsEvent("assign_count") /\ AssignCount(Tr[l].count, Tr[l].value) /\ Observed
TrAssignIters       == IsEvent("assign_iters") /\ AssignIters(Tr[l].s) /\ Observed
TrAssignIlist       == IsEvent("assign_ilist") /\ AssignIlist(Tr[l].s) /\ Observed
TrFill              == IsEvent("fill") /\ Fill(Tr[l].value) /\ Observed
TrStrlen            == IsEvent("strlen") /\ StrlenCall /\ Observed
TrStrlenR           == IsEvent("strlen_r") /\ StrlenRCall /\ Observed

TraceNext == \/ TrReset
             \/ TrAssignStringPtr \/ TrAssignStringRange \/ TrAssignRange
             \/ TrAssignCount \/ TrAssignIters \/ TrAssignIlist \/ TrFill
             \/ TrStrlen \/ TrStrlenR
TraceSpec == TraceInit /\ [][TraceNext]_tvars

TraceAccepted == TLCGet("stats").diameter = Len(Tr)
=============================================================================
