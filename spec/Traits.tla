------------------------------ MODULE Traits ------------------------------
(* C18: the complete trait table as a function of the schema.              *)
(*                                                                         *)
(* ExpectedTraits is a sequence of records, one per schema entity:         *)
(*    [path   |-> tag path as a sequence of names,                         *)
(*               <<"schema">> | <<"types", T, e1, ...>> | <<"messages", M, g, ..., f>> *)
(*     kind   |-> "schema" | "type" | "enum" | "enum_value" | "set" |       *)
(*               "choice" | "composite" | "ref" | "message" | "field" |     *)
(*               "group" | "data",                                         *)
(*     tk     |-> which *_traits class documents the entity (for a <ref>    *)
(*               the kind of the referred type, otherwise = kind),          *)
(*     traits |-> sequence of <<trait name, value as text>>]                *)
(*                                                                         *)
(* Sources (none of them is sbeppc): the attribute the XML states; the SBE *)
(* layout rules of Sbe.tla (offsets, sizes, block lengths); the SBE        *)
(* defaults (sinceVersion 0, min/max/null per primitive type); the doc     *)
(* comments of the *_traits classes in sbepp.hpp and doc/traits.md (which  *)
(* traits exist for which entity, "actual presence", tag lists "in schema  *)
(* order", traits_tag <-> value_type).  Where those are silent the trait   *)
(* is left out of the table (never guessed):                               *)
(*   - offset of constant members, of public types that carry an explicit  *)
(*     offset attribute, of constant fields;                               *)
(*   - description / deprecated of a <ref> that does not state them;       *)
(*   - value_type_tag of constant fields that are not numeric constants;   *)
(*   - minValue of float/double when defaulted, explicit min/max/null of   *)
(*     char types (lexeme ambiguity), character_encoding when absent.      *)
(*                                                                         *)
(* The schema record S is the one of Sbe.tla plus the descriptive          *)
(* attributes (tools/traitsgen.py normalize; absent = "" / -1).            *)
EXTENDS Sbe, Json

----------------------------------------------------------------------------
(* text helpers *)
Str(n) == ToString(n)
Bool(b) == IF b THEN "true" ELSE "false"

RECURSIVE JoinFrom(_, _, _)
JoinFrom(p, k, sep) ==
  IF k > Len(p) THEN "" ELSE (IF k = 1 THEN "" ELSE sep) \o p[k] \o JoinFrom(p, k + 1, sep)
PathStr(p) == JoinFrom(p, 1, "/")
ListStr(ps) == JoinFrom([k \in 1 .. Len(ps) |-> PathStr(ps[k])], 1, ",")

T(n, v) == <<<<n, v>>>>                 \* one trait
Opt(c, ts) == IF c THEN ts ELSE <<>>
Ent(path, kind, tk, traits) == <<[path |-> path, kind |-> kind, tk |-> tk, traits |-> traits]>>

----------------------------------------------------------------------------
(* Layout tables.  Zero-arity constant definitions: TLC evaluates each once  *)
(* (the layout operators of Sbe.tla are expensive to re-evaluate: every call *)
(* of LayoutFrom costs time exponential in the number of members).           *)
AllLevels ==      \* every level of every message: [path, def]
  ConcatAll([i \in 1 .. Len(S.messages) |->
     FlatLevels(S.messages[i], <<"messages", S.messages[i].name>>)])
NLv == Len(AllLevels)
LevLay == [i \in 1 .. NLv |-> LevelLayout(AllLevels[i].def)]     \* <<field offsets, end>>
LevBL == [i \in 1 .. NLv |-> BlockLength(AllLevels[i].def)]
LevIdx(path) == CHOOSE i \in 1 .. NLv : AllLevels[i].path = path

RECURSIVE CompsOf(_, _)
CompsOf(c, path) ==
  <<[path |-> path, def |-> c]>> \o
  ConcatAll([k \in 1 .. Len(c.elements) |->
     IF c.elements[k].kind = "composite"
     THEN CompsOf(c.elements[k], Append(path, c.elements[k].name)) ELSE <<>>])
AllComps ==       \* every composite, public or inline at any depth: [path, def]
  ConcatAll([i \in 1 .. Len(S.types) |->
     IF S.types[i].kind = "composite" THEN CompsOf(S.types[i], <<"types", S.types[i].name>>) ELSE <<>>])
NCo == Len(AllComps)
CompLay == [i \in 1 .. NCo |-> CompLayout(AllComps[i].def)]      \* <<element offsets, size>>
CompIdx(path) == CHOOSE i \in 1 .. NCo : AllComps[i].path = path
\* EncSize of a composite is CompLayout(c)[2] (Sbe.tla)
CompSizeAt(path) == CompLay[CompIdx(path)][2]

----------------------------------------------------------------------------
(* SBE defaults *)
Since(e) == IF e.since < 0 THEN 0 ELSE e.since        \* sinceVersion defaults to 0

\* minValue / maxValue / nullValue of the primitive types (SBE 1.0, 2.4.x);
\* exact decimal text.  float/double: maxValue = largest finite value (C99
\* hexfloat text, see FpText), nullValue = NaN; their numeric minValue is
\* not pinned down by the standard's table -> left out ("").
DefMin == [char |-> "32", int8 |-> "-127", uint8 |-> "0", int16 |-> "-32767", uint16 |-> "0",
           int32 |-> "-2147483647", uint32 |-> "0", int64 |-> "-9223372036854775807", uint64 |-> "0",
           float |-> "", double |-> ""]
DefMax == [char |-> "126", int8 |-> "127", uint8 |-> "254", int16 |-> "32767", uint16 |-> "65534",
           int32 |-> "2147483647", uint32 |-> "4294967294", int64 |-> "9223372036854775807",
           uint64 |-> "18446744073709551614", float |-> "0x1.fffffep+127", double |-> "0x1.fffffffffffffp+1023"]
DefNull == [char |-> "0", int8 |-> "-128", uint8 |-> "255", int16 |-> "-32768", uint16 |-> "65535",
            int32 |-> "-2147483648", uint32 |-> "4294967295", int64 |-> "-9223372036854775808",
            uint64 |-> "18446744073709551615", float |-> "nan", double |-> "nan"]

\* The IEEE-754 value an XML Schema float/double lexeme denotes (round to
\* nearest even), as exact text: "nan", "inf", "-inf" or C99 hexfloat with
\* the sign of zero preserved (the notation printf("%a") gives for the
\* value).  <<binary32, binary64>>.  A fixed table: TLC has no reals; a
\* lexeme that is not listed yields "" and the trait is left out.
FpLex(lex) ==
  CASE lex = "-INF" -> <<"-inf", "-inf">>
    [] lex = "INF" -> <<"inf", "inf">>
    [] lex = "+INF" -> <<"inf", "inf">>
    [] lex = "NaN" -> <<"nan", "nan">>
    [] lex = "-0.0" -> <<"-0x0p+0", "-0x0p+0">>
    [] lex = "0" -> <<"0x0p+0", "0x0p+0">>
    [] lex = "1e-3" -> <<"0x1.0624dep-10", "0x1.0624dd2f1a9fcp-10">>
    [] lex = "-1.5E+10" -> <<"-0x1.bf08ecp+33", "-0x1.bf08ebp+33">>
    [] lex = "3" -> <<"0x1.8p+1", "0x1.8p+1">>
    [] lex = "-2.5" -> <<"-0x1.4p+1", "-0x1.4p+1">>
    [] lex = "1024" -> <<"0x1p+10", "0x1p+10">>
    [] lex = "-1" -> <<"-0x1p+0", "-0x1p+0">>
    [] lex = "+1.25" -> <<"0x1.4p+0", "0x1.4p+0">>
    [] lex = ".5" -> <<"0x1p-1", "0x1p-1">>
    [] lex = "5." -> <<"0x1.4p+2", "0x1.4p+2">>
    [] lex = "0.1" -> <<"0x1.99999ap-4", "0x1.999999999999ap-4">>
    \* leading zeros (decimal in XML, whatever C++ makes of them) and integer-looking
    \* lexemes that binary32 / binary64 cannot represent exactly (round to nearest even)
    [] lex = "010" -> <<"0x1.4p+3", "0x1.4p+3">>
    [] lex = "007.50" -> <<"0x1.ep+2", "0x1.ep+2">>
    [] lex = "-0012" -> <<"-0x1.8p+3", "-0x1.8p+3">>
    [] lex = "08" -> <<"0x1p+3", "0x1p+3">>
    [] lex = "00.125" -> <<"0x1p-3", "0x1p-3">>
    [] lex = "16777217" -> <<"0x1p+24", "0x1.000001p+24">>
    [] lex = "123456789" -> <<"0x1.d6f346p+26", "0x1.d6f3454p+26">>
    [] lex = "-9007199254740993" -> <<"-0x1p+53", "-0x1p+53">>
    [] lex = "18446744073709551615" -> <<"0x1p+64", "0x1p+64">>
    [] lex = "3.4028234663852886e+38" -> <<"0x1.fffffep+127", "0x1.fffffep+127">>
    [] lex = "-3.4028234663852886e+38" -> <<"-0x1.fffffep+127", "-0x1.fffffep+127">>
    [] lex = "1.17549435e-38" -> <<"0x1p-126", "0x1.fffffff9fdba8p-127">>
    [] lex = "1.7976931348623157e+308" -> <<"", "0x1.fffffffffffffp+1023">>     \* not a binary32 value
    [] lex = "-1.7976931348623157e+308" -> <<"", "-0x1.fffffffffffffp+1023">>
    [] lex = "2.2250738585072014e-308" -> <<"", "0x1p-1022">>
    [] OTHER -> <<"", "">>
IsFp(p) == p \in {"float", "double"}
FpText(p, lex) == FpLex(lex)[IF p = "float" THEN 1 ELSE 2]

\* documented C++ type of the numeric traits (sbepp.hpp: offset_t, length_t,
\* version_t, block_length_t = uint64; schema_id_t, message_id_t = uint32;
\* member_id_t = uint16; choice_index_t = uint8; size_bytes: std::size_t)
RtCommon == T("rt_since_version", "uint64")
RtOffset == T("rt_offset", "uint64")
RtDepr == T("rt_deprecated", "uint64")

----------------------------------------------------------------------------
(* traits every entity states itself *)
Depr(e) == IF e.depr >= 0
           THEN T("has_deprecated", "true") \o T("deprecated", Str(e.depr)) \o RtDepr
           ELSE T("has_deprecated", "false")
Own(e) == T("name", e.name) \o T("since_version", Str(Since(e))) \o RtCommon \o Depr(e)
Desc(e) == T("description", e.desc)

\* offset(): "available only if offset is static".  pub: a public type.
\* off < 0: a constant member (occupies nothing; docs are silent).
OffsetT(e, off, pub) ==
  IF pub THEN Opt(e.offset < 0, T("has_offset", "false"))
  ELSE Opt(off >= 0, T("has_offset", "true") \o T("offset", Str(off)) \o RtOffset)

Kinds(k) == T("tag_kinds", k)          \* exactly one tag-kind predicate holds

----------------------------------------------------------------------------
(* encodings: the part of the traits a <ref> shares with its target *)
\* length of a <type>: the attribute, else 1 - except for a char constant whose
\* length is not given: its length is that of its text ("string constant with
\* deduced length", test/schemas/test_schema.xml; the repository's traits tests
\* assert it).  Found when the repository's traits_test_schema was run through
\* this module: the rule "attribute or 1" was a false alarm of the specification.
TLen(t) == IF ~t.lengthGiven /\ t.prim = "char" /\ t.presence = "constant" /\ t.const # "" /\ t.valueRef = ""
           THEN Len(t.const) ELSE t.length
HasMinMax(t) == TLen(t) = 1 /\ t.presence # "constant"
HasNull(t) == TLen(t) = 1 /\ t.presence = "optional"
\* explicit integers are compared verbatim (schemas give them in canonical
\* decimal), explicit float/double lexemes through FpText; explicit values of
\* char types are left out
Val3(t, explicit, def) ==
  IF explicit # ""
  THEN (IF t.prim = "char" THEN "" ELSE IF IsFp(t.prim) THEN FpText(t.prim, explicit) ELSE explicit)
  ELSE def[t.prim]
MinMaxNull(t) ==
  T("has_min_value", Bool(HasMinMax(t))) \o T("has_max_value", Bool(HasMinMax(t)))
  \o T("has_null_value", Bool(HasNull(t)))
  \o Opt(HasMinMax(t) /\ Val3(t, t.min, DefMin) # "",
         T("min_value", Val3(t, t.min, DefMin)) \o T("rt_min_value", t.prim))
  \o Opt(HasMinMax(t) /\ Val3(t, t.max, DefMax) # "",
         T("max_value", Val3(t, t.max, DefMax)) \o T("rt_max_value", t.prim))
  \o Opt(HasNull(t) /\ Val3(t, t.null, DefNull) # "",
         T("null_value", Val3(t, t.null, DefNull)) \o T("rt_null_value", t.prim))

\* representation type of a <type>: wrapper class (traits_tag maps it back to
\* the tag), alias template for non-constant arrays, the raw primitive for
\* non-array constants ("return directly underlying value without any
\* wrapper"), a plain array type for constant strings
TypeValueType(t, path) ==
  IF t.presence = "constant"
  THEN T("value_type_form", "plain")
       \o (IF TLen(t) = 1 THEN T("value_type", "prim:" \o t.prim)
           ELSE T("value_type", "tag:" \o PathStr(path)))
  ELSE T("value_type_form", IF TLen(t) = 1 THEN "plain" ELSE "template")
       \o T("value_type", "tag:" \o PathStr(path))

TypeShared(t, path) ==
  T("presence", t.presence) \o T("primitive_type", t.prim)
  \o T("length", Str(TLen(t))) \o T("rt_length", "uint64")
  \o T("semantic_type", t.sem)
  \o Opt(t.charEnc # "", T("character_encoding", t.charEnc))
  \o MinMaxNull(t) \o TypeValueType(t, path)

ChildPaths(path, xs) == [k \in 1 .. Len(xs) |-> Append(path, xs[k].name)]

EnumShared(e, path) ==
  T("encoding_type", EncPrim(e.enc))
  \o T("value_type_form", "plain") \o T("value_type", "tag:" \o PathStr(path))
  \o T("value_type_is_enum_over", EncPrim(e.enc))
  \o T("value_tags", ListStr(ChildPaths(path, e.values)))
SetShared(s, path) ==
  T("encoding_type", EncPrim(s.enc))
  \o T("value_type_form", "plain") \o T("value_type", "tag:" \o PathStr(path))
  \o T("choice_tags", ListStr(ChildPaths(path, s.choices)))
CompShared(c, path) ==
  T("semantic_type", c.sem)
  \o T("size_bytes", Str(CompSizeAt(path))) \o T("rt_size_bytes", "uint64")
  \o T("value_type_form", "template") \o T("value_type", "tag:" \o PathStr(path))
  \o T("element_tags", ListStr(ChildPaths(path, c.elements)))

Shared(e, path) == CASE e.kind = "type" -> TypeShared(e, path)
                     [] e.kind = "enum" -> EnumShared(e, path)
                     [] e.kind = "set" -> SetShared(e, path)
                     [] e.kind = "composite" -> CompShared(e, path)

\* public representation types live at <schema>::types::<name>
PublicT(e, pub) ==
  Opt(pub /\ ~(e.kind = "type" /\ e.presence = "constant"), T("value_type_public", "true"))

ValueEnt(path, v) ==
  Ent(Append(path, v.name), "enum_value", "enum_value",
      Own(v) \o Desc(v) \o T("value", v.value) \o Kinds("enum_value"))
ChoiceEnt(path, c) ==
  Ent(Append(path, c.name), "choice", "set_choice",
      Own(c) \o Desc(c) \o T("index", Str(c.index)) \o T("rt_index", "uint8") \o Kinds("set_choice"))

\* entities of an encoding at `path`; off = offset within the enclosing
\* composite (-1: constant member / not applicable); pub = public type
RECURSIVE EncEntities(_, _, _, _)
EncEntities(e, path, off, pub) ==
  CASE e.kind = "ref" ->
         LET t == TypeNamed(e.type)
             tp == <<"types", e.type>>
         IN Ent(path, "ref", t.kind,
                T("name", e.name) \o T("since_version", Str(Since(e))) \o RtCommon
                \o Opt(e.depr >= 0, Depr(e))
                \o Shared(t, tp) \o OffsetT(e, off, FALSE) \o Kinds(t.kind))
    [] e.kind = "type" ->
         Ent(path, "type", "type",
             Own(e) \o Desc(e) \o Shared(e, path) \o PublicT(e, pub) \o OffsetT(e, off, pub) \o Kinds("type"))
    [] e.kind = "enum" ->
         Ent(path, "enum", "enum",
             Own(e) \o Desc(e) \o Shared(e, path) \o PublicT(e, pub) \o OffsetT(e, off, pub) \o Kinds("enum"))
         \o ConcatAll([k \in 1 .. Len(e.values) |-> ValueEnt(path, e.values[k])])
    [] e.kind = "set" ->
         Ent(path, "set", "set",
             Own(e) \o Desc(e) \o Shared(e, path) \o PublicT(e, pub) \o OffsetT(e, off, pub) \o Kinds("set"))
         \o ConcatAll([k \in 1 .. Len(e.choices) |-> ChoiceEnt(path, e.choices[k])])
    [] e.kind = "composite" ->
         Ent(path, "composite", "composite",
             Own(e) \o Desc(e) \o Shared(e, path) \o PublicT(e, pub) \o OffsetT(e, off, pub) \o Kinds("composite"))
         \o ConcatAll([k \in 1 .. Len(e.elements) |->
                EncEntities(e.elements[k], Append(path, e.elements[k].name),
                            CompLay[CompIdx(path)][1][k], FALSE)])

TypeEntities ==
  ConcatAll([i \in 1 .. Len(S.types) |-> EncEntities(S.types[i], <<"types", S.types[i].name>>, -1, TRUE)])

----------------------------------------------------------------------------
(* levels *)
\* "Returns the actual presence. Note that it can be different from the one
\* provided in schema": a field of a named <type> has the type's presence;
\* enum and set fields are never optional (an optional field accepts
\* sbepp::nullopt, doc/examples.md "Set all optional fields to null") and a
\* set cannot be constant; "" = the documentation does not decide
ActualPresence(f) ==
  IF IsPrim(f.type) THEN f.presence
  ELSE LET t == TypeNamed(f.type)
       IN CASE t.kind = "type" -> t.presence
            [] t.kind = "enum" -> IF f.presence = "constant" THEN "constant" ELSE "required"
            [] t.kind = "set" -> "required"
            \* a composite field: nothing in SBE or in the documentation derives another
            \* presence than the one the XML states (optional: nullness is carried by the members)
            [] t.kind = "composite" -> IF f.presence \in {"required", "optional"} THEN f.presence ELSE ""

\* representation type of a field and its tag
FieldValueType(f) ==
  IF IsPrim(f.type)
  THEN IF f.presence = "constant"
       THEN T("value_type_form", "plain") \o T("value_type", "prim:" \o f.type) \o T("has_value_type_tag", "false")
       ELSE LET b == "builtin/" \o f.type \o (IF f.presence = "optional" THEN "_opt" ELSE "")
                opt == f.presence = "optional"
            IN T("value_type_form", "plain") \o T("value_type", "tag:" \o b)
               \o T("has_value_type_tag", "true") \o T("value_type_tag", b)
               \* the built-in type behind it carries the SBE defaults of the primitive type
               \* (type_traits<value_type_tag>; the defaulted minValue of float/double is left out)
               \o T("vt_presence", IF opt THEN "optional" ELSE "required") \o T("vt_primitive_type", f.type)
               \o T("vt_length", "1")
               \o Opt(~IsFp(f.type), T("vt_min_value", DefMin[f.type]))
               \o T("vt_max_value", DefMax[f.type])
               \o Opt(opt, T("vt_null_value", DefNull[f.type]))
               \o T("vt_has_null_value", Bool(opt))
  ELSE LET t == TypeNamed(f.type)
           tp == "types/" \o f.type
           const == IsConstField(f)
       IN CASE t.kind = "type" ->
                 IF const
                 THEN T("value_type_form", "plain")
                      \o (IF TLen(t) = 1
                          THEN T("value_type", "prim:" \o t.prim)
                               \* "Not available for constants of numeric types"
                               \o Opt(t.prim # "char", T("has_value_type_tag", "false"))
                          ELSE T("value_type", "tag:" \o tp))
                 ELSE T("value_type_form", IF TLen(t) = 1 THEN "plain" ELSE "template")
                      \o T("value_type", "tag:" \o tp)
                      \o T("has_value_type_tag", "true") \o T("value_type_tag", tp)
            [] t.kind \in {"enum", "set"} ->
                 T("value_type_form", "plain") \o T("value_type", "tag:" \o tp)
                 \o Opt(~const, T("has_value_type_tag", "true") \o T("value_type_tag", tp))
            [] t.kind = "composite" ->
                 T("value_type_form", "template") \o T("value_type", "tag:" \o tp)
                 \o T("has_value_type_tag", "true") \o T("value_type_tag", tp)

\* "Constant accessors are represented via static functions. Non-array
\* constants return directly underlying value": the value of a float/double
\* constant is the one its XML lexeme denotes
FpConstant(f) ==
  IF IsPrim(f.type) THEN <<>>
  ELSE LET t == TypeNamed(f.type)
       IN Opt(t.kind = "type" /\ t.presence = "constant" /\ TLen(t) = 1 /\ IsFp(t.prim)
              /\ t.const # "" /\ FpText(t.prim, t.const) # "",
              T("constant_value", FpText(t.prim, t.const)))

FieldEnt(L, k, path, off) ==
  LET f == L.fields[k]
  IN Ent(Append(path, f.name), "field", "field",
         Own(f) \o Desc(f) \o T("id", Str(f.id)) \o T("rt_id", "uint16")
         \o Opt(ActualPresence(f) # "", T("presence", ActualPresence(f)))
         \o Opt(off >= 0, T("has_offset", "true") \o T("offset", Str(off)) \o RtOffset)
         \o FieldValueType(f) \o FpConstant(f) \o Kinds("field"))

DataEnt(d, path) ==
  LET p == Append(path, d.name)
      lt == "types/" \o d.type \o "/length"
  IN Ent(p, "data", "data",
         Own(d) \o Desc(d) \o T("id", Str(d.id)) \o T("rt_id", "uint16")
         \o T("value_type_form", "template")
         \o T("length_type", "tag:" \o lt) \o T("length_type_tag", lt)
         \o T("length_type_value_type", "prim:" \o ElemPrim(DataEnc(d).elements[CompMember(DataEnc(d), "length")]))
         \o T("size_bytes_3", Str(DataHdrSize(d) + 3)) \o T("rt_size_bytes", "uint64")
         \o Kinds("data"))

\* closed size formula of the traits, evaluated at "no entries, no payload"
\* and at "every group has one entry in total, payload 7 bytes in total"
DataTotal == 7
RECURSIVE HasData(_), OnesAt(_)
HasData(L) == Len(L.data) > 0 \/ \E g \in 1 .. Len(L.groups) : HasData(L.groups[g])
LevelHeaders(L) == SumSeq([g \in 1 .. Len(L.groups) |-> DimSize(L.groups[g])])
                   + SumSeq([d \in 1 .. Len(L.data) |-> DataHdrSize(L.data[d])])
\* size of the level at `path` when every group below it has exactly one entry
OnesAt(path) ==
  LET L == AllLevels[LevIdx(path)].def
  IN LevBL[LevIdx(path)]
     + SumSeq([g \in 1 .. Len(L.groups) |-> DimSize(L.groups[g]) + OnesAt(Append(path, L.groups[g].name))])
     + SumSeq([d \in 1 .. Len(L.data) |-> DataHdrSize(L.data[d])])

\* size_bytes evaluated at pairwise DISTINCT counts (an argument that is forwarded
\* to the wrong group, or not at all, changes the result): the k-th count
\* parameter (top-to-bottom order; for a group its own count is the first) is
\* DCnt(k), the payload total is DataTotal.  "This parameter represents the
\* total number of group entries (even if they are spread across multiple
\* enclosing group entries)": a group definition with c entries in total, whose
\* parent level has pc instances in total, contributes pc headers and c blocks.
DCnt(k) == k + 2
PathPrefix(p, q) == Len(p) <= Len(q) /\ SubSeq(q, 1, Len(p)) = p
\* the levels at and below `path`, in top-to-bottom order (AllLevels is depth first)
Below(path) == SelectSeq([i \in 1 .. NLv |-> i], LAMBDA i : PathPrefix(path, AllLevels[i].path))
RankIn(seq, x) == CHOOSE k \in 1 .. Len(seq) : seq[k] = x
\* total instances of level i when evaluating at `path`: own = the count of
\* `path` itself (1 for a message: the root block exists once)
DInst(path, own, i) ==
  LET b == Below(path)
  IN IF AllLevels[i].path = path THEN own
     ELSE DCnt(RankIn(b, i) - (IF own = 1 THEN 1 ELSE 0))
DLevelData(i) == SumSeq([d \in 1 .. Len(AllLevels[i].def.data) |-> DataHdrSize(AllLevels[i].def.data[d])])
\* own = 1: message (ranks of the groups below start at 1); own = DCnt(1): group (its own count is parameter 1)
DistinctSize(path, own) ==
  LET b == Below(path)
  IN SumSeq([k \in 1 .. Len(b) |->
       LET i == b[k]
           inst == DInst(path, own, i)
           parent == IF AllLevels[i].path = path THEN 0 ELSE LevIdx(Front(AllLevels[i].path))
       IN inst * LevBL[i] + inst * DLevelData(i)
          + (IF parent = 0 THEN 0 ELSE DInst(path, own, parent) * DimSize(AllLevels[i].def))])

LevelLists(L, path) ==
  T("field_tags", ListStr(ChildPaths(path, L.fields)))
  \o T("group_tags", ListStr(ChildPaths(path, L.groups)))
  \o T("data_tags", ListStr(ChildPaths(path, L.data)))

RECURSIVE LevelMembers(_, _)
GroupEnt(g, path) ==
  LET p == Append(path, g.name)
      dp == "types/" \o g.dim
  IN Ent(p, "group", "group",
         Own(g) \o Desc(g) \o T("id", Str(g.id)) \o T("rt_id", "uint16")
         \o T("block_length", Str(LevBL[LevIdx(p)])) \o T("rt_block_length", "uint64")
         \o T("semantic_type", g.sem)
         \o T("value_type_form", "template") \o T("value_type", "tag:" \o PathStr(p))
         \o T("entry_type", "tag:" \o PathStr(p))
         \o T("dimension_type", "tag:" \o dp) \o T("dimension_type_tag", dp)
         \o T("size_bytes_0", Str(DimSize(g)))
         \o T("size_bytes_1", Str(DimSize(g) + OnesAt(p) + (IF HasData(g) THEN DataTotal ELSE 0)))
         \o T("size_bytes_d", Str(DimSize(g) + DistinctSize(p, DCnt(1)) + (IF HasData(g) THEN DataTotal ELSE 0)))
         \o T("rt_size_bytes", "uint64")
         \o LevelLists(g, p) \o Kinds("group"))
     \o LevelMembers(g, p)
LevelMembers(L, path) ==
  ConcatAll([k \in 1 .. Len(L.fields) |-> FieldEnt(L, k, path, LevLay[LevIdx(path)][1][k])])
  \o ConcatAll([k \in 1 .. Len(L.groups) |-> GroupEnt(L.groups[k], path)])
  \o ConcatAll([k \in 1 .. Len(L.data) |-> DataEnt(L.data[k], path)])

MessageEnt(m) ==
  LET p == <<"messages", m.name>>
  IN Ent(p, "message", "message",
         Own(m) \o Desc(m) \o T("id", Str(m.id)) \o T("rt_id", "uint32")
         \o T("block_length", Str(LevBL[LevIdx(p)])) \o T("rt_block_length", "uint64")
         \o T("semantic_type", m.sem)
         \o T("value_type_form", "template") \o T("value_type", "tag:" \o PathStr(p))
         \o T("value_type_public", "true")
         \o T("schema_tag", "schema")
         \o T("size_bytes_0", Str(HeaderSize + LevBL[LevIdx(p)] + LevelHeaders(m)))
         \o T("size_bytes_1", Str(HeaderSize + OnesAt(p) + (IF HasData(m) THEN DataTotal ELSE 0)))
         \o T("size_bytes_d", Str(HeaderSize + DistinctSize(p, 1) + (IF HasData(m) THEN DataTotal ELSE 0)))
         \o T("rt_size_bytes", "uint64")
         \o LevelLists(m, p) \o Kinds("message"))
     \o LevelMembers(m, p)

SchemaEnt ==
  LET hp == "types/" \o S.headerType
  IN Ent(<<"schema">>, "schema", "schema",
         T("package", S.package) \o T("id", Str(S.id)) \o T("rt_id", "uint32")
         \o T("version", Str(S.version)) \o T("rt_version", "uint64")
         \o T("semantic_version", S.semVer) \o T("description", S.desc)
         \o T("byte_order", IF BigEndian THEN "big" ELSE "little")
         \o T("header_type", "tag:" \o hp) \o T("header_type_tag", hp)
         \o T("type_tags", ListStr([i \in 1 .. Len(S.types) |-> <<"types", S.types[i].name>>]))
         \o T("unordered_lists", "type_tags")          \* "Public schema type tags, unordered"
         \o T("message_tags", ListStr([i \in 1 .. Len(S.messages) |-> <<"messages", S.messages[i].name>>]))
         \o Kinds("schema"))

\* the table (zero-arity: evaluated once)
ExpectedTraits ==
  SchemaEnt \o TypeEntities \o ConcatAll([i \in 1 .. Len(S.messages) |-> MessageEnt(S.messages[i])])

NE == Len(ExpectedTraits)

----------------------------------------------------------------------------
(* properties of the table itself, checked by TLC *)
PathSet == {ExpectedTraits[i].path : i \in 1 .. NE}
PathStrSet == {PathStr(ExpectedTraits[i].path) : i \in 1 .. NE}

\* every entity has its own tag path
PathsUnique == Cardinality(PathSet) = NE /\ Cardinality(PathStrSet) = NE

\* no trait is stated twice for one entity
TraitNamesUnique ==
  \A i \in 1 .. NE :
    LET ts == ExpectedTraits[i].traits
    IN Cardinality({ts[k][1] : k \in 1 .. Len(ts)}) = Len(ts)

NoDup(s) == Cardinality({s[k] : k \in 1 .. Len(s)}) = Len(s)

\* children lists: no duplicates, every child is an entity of the table;
\* checked on the structured lists the text is printed from
RECURSIVE CompChildrenOK(_, _)
CompChildrenOK(c, path) ==
  /\ NoDup(ChildPaths(path, c.elements))
  /\ \A k \in 1 .. Len(c.elements) :
       /\ Append(path, c.elements[k].name) \in PathSet
       /\ c.elements[k].kind = "composite" =>
            CompChildrenOK(c.elements[k], Append(path, c.elements[k].name))
       /\ c.elements[k].kind = "enum" =>
            /\ NoDup(ChildPaths(Append(path, c.elements[k].name), c.elements[k].values))
            /\ \A v \in 1 .. Len(c.elements[k].values) :
                 Append(Append(path, c.elements[k].name), c.elements[k].values[v].name) \in PathSet
       /\ c.elements[k].kind = "set" =>
            /\ NoDup(ChildPaths(Append(path, c.elements[k].name), c.elements[k].choices))
            /\ \A v \in 1 .. Len(c.elements[k].choices) :
                 Append(Append(path, c.elements[k].name), c.elements[k].choices[v].name) \in PathSet
RECURSIVE LevelChildrenOK(_, _)
LevelChildrenOK(L, path) ==
  /\ NoDup(ChildPaths(path, L.fields) \o ChildPaths(path, L.groups) \o ChildPaths(path, L.data))
  /\ \A k \in 1 .. Len(L.fields) : Append(path, L.fields[k].name) \in PathSet
  /\ \A k \in 1 .. Len(L.data) : Append(path, L.data[k].name) \in PathSet
  /\ \A k \in 1 .. Len(L.groups) :
       /\ Append(path, L.groups[k].name) \in PathSet
       /\ LevelChildrenOK(L.groups[k], Append(path, L.groups[k].name))
ChildrenOK ==
  /\ NoDup([i \in 1 .. Len(S.types) |-> S.types[i].name])
  /\ NoDup([i \in 1 .. Len(S.messages) |-> S.messages[i].name])
  /\ \A i \in 1 .. Len(S.types) :
       LET t == S.types[i]
           p == <<"types", t.name>>
       IN /\ p \in PathSet
          /\ t.kind = "composite" => CompChildrenOK(t, p)
          /\ t.kind = "enum" => NoDup(ChildPaths(p, t.values))
          /\ t.kind = "set" => NoDup(ChildPaths(p, t.choices))
  /\ \A i \in 1 .. Len(S.messages) :
       /\ <<"messages", S.messages[i].name>> \in PathSet
       /\ LevelChildrenOK(S.messages[i], <<"messages", S.messages[i].name>>)

\* offsets of the table are consistent with the layout: members of one
\* container do not overlap and lie inside it (NoOverlap / inside block)
MembersOK(sizes, offs, total) ==
  /\ \A i \in 1 .. Len(sizes) : offs[i] >= 0 => offs[i] + sizes[i] <= total
  /\ \A i, j \in 1 .. Len(sizes) :
       (i < j /\ offs[i] >= 0 /\ offs[j] >= 0) => offs[i] + sizes[i] <= offs[j]
ElemSizes(c) == [k \in 1 .. Len(c.elements) |-> EncSize(c.elements[k])]
FieldSizes(L) == [k \in 1 .. Len(L.fields) |-> EncSize(FieldEnc(L.fields[k]))]
OffsetsConsistent ==
  /\ \A i \in 1 .. NCo : MembersOK(ElemSizes(AllComps[i].def), CompLay[i][1], CompLay[i][2])
  /\ \A i \in 1 .. NLv : MembersOK(FieldSizes(AllLevels[i].def), LevLay[i][1], LevBL[i])

\* the offset column of the table is the layout's (ties the printed text to
\* the structured layout the check above is about)
OffsetTrait(i) ==
  LET ts == ExpectedTraits[i].traits
      ks == {k \in 1 .. Len(ts) : ts[k][1] = "offset"}
  IN IF ks = {} THEN "" ELSE ts[CHOOSE k \in ks : TRUE][2]
EntIndex(p) == CHOOSE j \in 1 .. NE : ExpectedTraits[j].path = p
OffText(o) == IF o >= 0 THEN Str(o) ELSE ""
OffsetColumnOK ==
  /\ \A i \in 1 .. NCo : \A k \in 1 .. Len(AllComps[i].def.elements) :
       OffsetTrait(EntIndex(Append(AllComps[i].path, AllComps[i].def.elements[k].name)))
         = OffText(CompLay[i][1][k])
  /\ \A i \in 1 .. NLv : \A k \in 1 .. Len(AllLevels[i].def.fields) :
       OffsetTrait(EntIndex(Append(AllLevels[i].path, AllLevels[i].def.fields[k].name)))
         = OffText(LevLay[i][1][k])

\* ---- emission: one JSON line per entity
EmitTable ==
  \A i \in 1 .. NE :
    PrintT(ToJson([path |-> PathStr(ExpectedTraits[i].path), kind |-> ExpectedTraits[i].kind,
                   tk |-> ExpectedTraits[i].tk, traits |-> ExpectedTraits[i].traits]))
=============================================================================
