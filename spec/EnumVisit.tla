----------------------------- MODULE EnumVisit -----------------------------
(* Visiting an enum value (C19): sbepp::visit(e, visitor) calls             *)
(*   visitor.on_enum_value(e, Tag{})                                        *)
(* where Tag is the tag of the validValue equal to e, or                    *)
(* sbepp::unknown_enum_value_tag when e is none of the schema's values.     *)
(* The deprecated enum_to_string(e) returns that value's name or nullptr.   *)
(*                                                                          *)
(* Enums: sequence of [name, w (bytes of the encoding), values: sequence of *)
(* [name, code]] where code is the underlying value as a natural number      *)
(* (char values by their character code) - transliterated from the schema.  *)
EXTENDS Naturals, Sequences, FiniteSets, TLC, Json

CONSTANT Enums

VARIABLES en,     \* index of the enum under test
          x,      \* the underlying value that is visited
          ret     \* the tag name reported, or "unknown"
vars == <<en, x, ret>>

Codes(e) == {Enums[e].values[k].code : k \in 1 .. Len(Enums[e].values)}
\* probes: every declared value, its neighbours, zero and the type maximum
MaxOf(w) == CASE w = 1 -> 255 [] w = 2 -> 65535 [] OTHER -> 2147483647
Probes(e) == (Codes(e) \cup {c + 1 : c \in Codes(e)} \cup {c - 1 : c \in Codes(e) \ {0}}
              \cup {0, MaxOf(Enums[e].w)}) \cap (0 .. MaxOf(Enums[e].w))

TagOf(e, v) ==
  IF v \in Codes(e)
  THEN Enums[e].values[CHOOSE k \in 1 .. Len(Enums[e].values) : Enums[e].values[k].code = v].name
  ELSE "unknown"

Init == en \in 1 .. Len(Enums) /\ x = 0 /\ ret = "init"
VisitValue(v) == /\ ret = "init"
                 /\ x' = v
                 /\ ret' = TagOf(en, v)
                 /\ UNCHANGED en
Next == \E v \in Probes(en) : VisitValue(v)
Spec == Init /\ [][Next]_vars

\* exactly one tag per value; a declared value is never reported unknown and
\* an undeclared one never gets a value tag
TagIsFunctional ==
  ret # "init" => /\ (ret = "unknown") = (x \notin Codes(en))
                  /\ ret # "unknown" => \E k \in 1 .. Len(Enums[en].values) :
                        Enums[en].values[k].name = ret /\ Enums[en].values[k].code = x
\* the schema's values are distinct (else "the" tag is not defined)
ValuesDistinct == \A e \in 1 .. Len(Enums) : Cardinality(Codes(e)) = Len(Enums[e].values)

EmitEnum == PrintT(ToJson([kind |-> "enumvisit", name |-> Enums[en].name, w |-> Enums[en].w,
                           x |-> x', tag |-> ret']))
EmitEnumAndStop == EmitEnum /\ FALSE
=============================================================================
