----------------------------- MODULE EnumVisit -----------------------------
(* Visiting an enum value (C19): sbepp::visit(e, visitor) calls             *)
(*   visitor.on_enum_value(e, Tag{})                                        *)
(* where Tag is the tag of the validValue equal to e, or                    *)
(* sbepp::unknown_enum_value_tag when e is none of the schema's values.     *)
(* The deprecated enum_to_string(e) returns that value's name or nullptr.   *)
(*                                                                          *)
(* Enums: sequence of [name, w (bytes of the encoding), values: sequence of *)
(* [name, code]] where code is the underlying value as w little-endian      *)
(* bytes (two's complement; char values by their character code) -          *)
(* transliterated from the schema.  Bytes, because 64-bit encodings are no  *)
(* TLC integers and a comparison of the wrong width (value modulo 2^32)     *)
(* shows only there.                                                        *)
EXTENDS Naturals, Sequences, FiniteSets, TLC, Json

CONSTANT Enums

VARIABLES en,     \* index of the enum under test
          x,      \* the underlying value that is visited
          ret     \* the tag name reported, or "unknown"
vars == <<en, x, ret>>

Codes(e) == {Enums[e].values[k].code : k \in 1 .. Len(Enums[e].values)}
\* probes: every declared value; every declared value with ONE byte changed by +1, -1 or its top
\* bit (the neighbours in every digit: +-1, +-256, ..., +-2^32, ..., sign); zero; all ones
Bump(c, i, d) == [c EXCEPT ![i] = (c[i] + d) % 256]
Probes(e) == LET w == Enums[e].w
             IN Codes(e)
                \cup {Bump(c, i, d) : c \in Codes(e), i \in 1 .. w, d \in {1, 255, 128}}
                \cup {[i \in 1 .. w |-> 0], [i \in 1 .. w |-> 255]}

TagOf(e, v) ==
  IF v \in Codes(e)
  THEN Enums[e].values[CHOOSE k \in 1 .. Len(Enums[e].values) : Enums[e].values[k].code = v].name
  ELSE "unknown"

Init == en \in 1 .. Len(Enums) /\ x = <<>> /\ ret = "init"
VisitValue(v) == /\ ret = "init"
                 /\ x' = v
                 /\ ret' = TagOf(en, v)
                 /\ UNCHANGED en
Next == \E v \in Probes(en) : VisitValue(v)
Spec == Init /\ [][Next]_vars

\* exactly one tag per value; a declared value is never reported unknown and
\* an undeclared one never gets a value tag
TagIsFunctional ==
  ret # "init" => /\ (ret = "unknown") = (x \notin Codes(en))
                  /\ ret # "unknown" => \E k \in 1 .. Len(Enums[en].values) :
                        Enums[en].values[k].name = ret /\ Enums[en].values[k].code = x
\* the schema's values are distinct (else "the" tag is not defined)
ValuesDistinct == \A e \in 1 .. Len(Enums) : Cardinality(Codes(e)) = Len(Enums[e].values)

EmitEnum == PrintT(ToJson([kind |-> "enumvisit", name |-> Enums[en].name, w |-> Enums[en].w,
                           x |-> x', tag |-> ret']))
EmitEnumAndStop == EmitEnum /\ FALSE
=============================================================================
