----------------------------- MODULE SchemaGen -----------------------------
(* C08 generative scope: from a valid base schema (CONSTANT Base, a record  *)
(* of Rules.tla) every schema obtained by ONE edit:                         *)
(*   Break(rule, position)    - an edit that breaks `rule` at `position`    *)
(*   Boundary(rule, position) - the nearest edit that keeps the schema valid*)
(* at every applicable position: top-level and nested-group fields, members *)
(* of public and inline composites at any depth, refs, header / dimension / *)
(* data composites and their members, enum values, choices, names.          *)
(* A state is one schema (sch) + how it was obtained (meta) + the verdict   *)
(* of Rules.tla on it (valid, broken).  Every state is emitted as JSON and  *)
(* run through the real sbeppc by tools/checks/c08.py.                      *)
EXTENDS Integers, Sequences, FiniteSets, TLC, Json

CONSTANTS Base,            \* valid base schema
          BadNames,        \* sequence: strings that are not SBE symbolic names
          Keywords,        \* sequence: C++ keywords to try
          GoodNames,       \* sequence: unusual but valid names
          NamesPerEntity,  \* how many of each pool every named entity gets (rotating)
          RetargetMax,     \* how many alternative targets a reference gets
          GridOffsets,     \* sequence of offsets (-1 = none) for the complete offset grids
          GridBlocks,      \* sequence of blockLengths (-1 = none) for the grids
          Slices,          \* the mutants are dealt into this many hands (one TLC worker each)
          Groups           \* generator groups enabled in this run (scope selection)

B == INSTANCE Rules WITH S <- Base
R(s) == INSTANCE Rules WITH S <- s

\* the type ranges written out in Rules.tla are 2^n - 1 / 2^(n-1), computed by doubling
ASSUME \A p \in B!IntPrims : B!MaxMag(p) = B!MaxMagByDoubling(p) /\ B!MinMag(p) = B!MinMagByDoubling(p)

\* the fast size/layout definitions of Rules.tla are those of Sbe.tla
ASSUME \A i \in 1 .. Len(B!AllEncNodes) : B!Size(B!AllEncNodes[i].e) = B!EncSize(B!AllEncNodes[i].e)
ASSUME \A i \in 1 .. Len(B!AllLevels) : /\ B!LLayout(B!AllLevels[i].def) = B!LevelLayout(B!AllLevels[i].def)
                                        /\ B!BL(B!AllLevels[i].def) = B!BlockLength(B!AllLevels[i].def)
ASSUME \A i \in 1 .. Len(B!CompositeNodes) : B!CLayout(B!CompositeNodes[i].e) = B!CompLayout(B!CompositeNodes[i].e)

VARIABLES sch,      \* the schema of this state
          meta,     \* how it was obtained from Base
          valid,    \* Rules!Valid on sch
          broken,   \* the rules that do not hold on sch
          todo      \* initial state only: the mutants to generate (computed once)
vars == <<sch, meta, valid, broken, todo>>

----------------------------------------------------------------------------
(* edits *)
E(path, attr, val) == [path |-> path, attr |-> attr, val |-> val]
RECURSIVE SetAt(_, _, _, _)
SetAt(v, path, attr, val) ==
  IF Len(path) = 0 THEN [v EXCEPT ![attr] = val]
  ELSE [v EXCEPT ![Head(path)] = SetAt(v[Head(path)], Tail(path), attr, val)]
RECURSIVE ApplyFrom(_, _, _)
ApplyFrom(s, edits, k) == IF k > Len(edits) THEN s
                          ELSE ApplyFrom(SetAt(s, edits[k].path, edits[k].attr, edits[k].val), edits, k + 1)
ApplyAll(s, edits) == ApplyFrom(s, edits, 1)

MutX(kind, rule, pos, variant, edits, also, exact) ==
  [kind |-> kind, rule |-> rule, pos |-> pos, variant |-> variant, edits |-> edits, also |-> also, exact |-> exact]
Mut(kind, rule, pos, variant, edits) == MutX(kind, rule, pos, variant, edits, {}, TRUE)
Brk(rule, pos, variant, edits) == Mut("break", rule, pos, variant, edits)
Bnd(rule, pos, variant, edits) == Mut("boundary", rule, pos, variant, edits)

Flat(ss) == B!ConcatAll(ss)
MapL(seq, F(_)) == [i \in 1 .. Len(seq) |-> F(seq[i])]
MapIdx(seq, F(_, _)) == [i \in 1 .. Len(seq) |-> F(i, seq[i])]
Opt(c, seq) == IF c THEN seq ELSE <<>>
Take(seq, n) == SubSeq(seq, 1, IF Len(seq) < n THEN Len(seq) ELSE n)
Digit(n) == SubSeq("0123456789", n + 1, n + 1)
RECURSIVE NumStr(_)
NumStr(n) == IF n < 10 THEN Digit(n) ELSE NumStr(n \div 10) \o Digit(n % 10)
RECURSIVE PadStr(_, _)
PadStr(s, n) == IF Len(s) >= n THEN s ELSE PadStr(s \o "x", n)
Rot(pool, i, t) == pool[((i + t) % Len(pool)) + 1]

----------------------------------------------------------------------------
(* positions in the base schema *)
Levels == B!AllLevels
Nodes == B!AllEncNodes
PublicTypes == Base.types
DimNames == {Levels[i].def.dim : i \in {j \in 1 .. Len(Levels) : Levels[j].depth > 0}}
DataNames == UNION {{Levels[i].def.data[k].type : k \in 1 .. Len(Levels[i].def.data)} : i \in 1 .. Len(Levels)}
RoleOfName(n) == IF n = Base.headerType THEN "header"
                 ELSE IF n \in DimNames THEN "dimension"
                 ELSE IF n \in DataNames THEN "data-header" ELSE "public"
RoleOfTop(i) == RoleOfName(Base.types[i].name)
Required(role) == CASE role = "header" -> {"blockLength", "templateId", "schemaId", "version"}
                    [] role = "dimension" -> {"blockLength", "numInGroup"}
                    [] role = "data-header" -> {"length", "varData"}
                    [] OTHER -> {}
RoleRule(role) == CASE role = "header" -> "R_RefKind.header"
                    [] role = "dimension" -> "R_RefKind.dim"
                    [] OTHER -> "R_RefKind.data"
IsRoleMember(n) == n.depth = 1 /\ n.e.name \in Required(RoleOfTop(n.top))
RoleAlso(n) == IF IsRoleMember(n) THEN {RoleRule(RoleOfTop(n.top))} ELSE {}
NodePos(n) == RoleOfTop(n.top) \o (IF n.depth = 0 THEN "" ELSE "/inline-d" \o Digit(n.depth)) \o "/" \o n.e.kind
LevelPos(lv) == IF lv.depth = 0 THEN "message" ELSE IF lv.depth = 1 THEN "group" ELSE "nested-group"

Sel(seq, P(_)) == SelectSeq(seq, P)
TypeNodes == Sel(Nodes, LAMBDA n : n.e.kind = "type")
CompNodes == Sel(Nodes, LAMBDA n : n.e.kind = "composite")
EnumNodes == Sel(Nodes, LAMBDA n : n.e.kind = "enum")
SetNodes == Sel(Nodes, LAMBDA n : n.e.kind = "set")
RefNodes == Sel(Nodes, LAMBDA n : n.e.kind = "ref")
PubOfKind(k) == Sel(PublicTypes, LAMBDA t : t.kind = k)
PubComposites == PubOfKind("composite")
PubEnums == PubOfKind("enum")
PubSets == PubOfKind("set")
PubScalars == Sel(PublicTypes, LAMBDA t : t.kind = "type" /\ t.length = 1)
PubArrays == Sel(PublicTypes, LAMBDA t : t.kind = "type" /\ t.length # 1)
PubConstants == Sel(PublicTypes, LAMBDA t : t.kind = "type" /\ t.presence = "constant" /\ t.length = 1)
Missing == "nosuch_t"
AllValueRefs == {TypeNodes[i].e.valueRef : i \in 1 .. Len(TypeNodes)} \cup
                UNION {{Levels[i].def.fields[k].valueRef : k \in 1 .. Len(Levels[i].def.fields)} : i \in 1 .. Len(Levels)}
ValueReferenced(n, vname) == n.depth = 0 /\ (n.e.name \o "." \o vname) \in AllValueRefs


----------------------------------------------------------------------------
(* 1. offsets and block lengths *)
LastNonConst(consts, k) == \A j \in k + 1 .. Len(consts) : consts[j]

FieldOffAt(lv, k) ==
  LET L == lv.def
      fp == lv.path \o <<"fields", k>>
      m == B!LevelMin(L, k)
      pos == LevelPos(lv) \o "-field"
  IN IF B!IsConstField(L.fields[k]) THEN <<>>
     ELSE Opt(m >= 1, <<Brk("R_FieldOffset", pos, "min-1", <<E(fp, "offset", m - 1)>>)>>) \o
          Opt(m >= 2, <<Brk("R_FieldOffset", pos, "zero", <<E(fp, "offset", 0)>>)>>) \o
          <<Bnd("R_FieldOffset", pos, "min", <<E(fp, "offset", m)>>)>> \o
          Opt(LastNonConst(B!LevelConsts(L), k) /\ L.blockLength < 0,
              <<Bnd("R_FieldOffset", pos, "min+3", <<E(fp, "offset", m + 3)>>)>>)
FieldOffsetMuts == Flat(MapL(Levels, LAMBDA lv : Flat([k \in 1 .. Len(lv.def.fields) |-> FieldOffAt(lv, k)])))

ElemOffAt(n, k) ==
  LET c == n.e
      ep == n.path \o <<"elements", k>>
      m == B!CompMin(c, k)
      pos == RoleOfTop(n.top) \o "/composite-d" \o Digit(n.depth) \o "/member-" \o c.elements[k].kind
      \* a zero-size member (varData) below the minimum breaks the rule without overlapping anything
      v1 == IF B!Size(c.elements[k]) = 0 THEN "min-1/zero-size" ELSE "min-1"
  IN IF B!IsConstEnc(c.elements[k]) THEN <<>>
     ELSE Opt(m >= 1, <<Brk("R_ElementOffset", pos, v1, <<E(ep, "offset", m - 1)>>)>>) \o
          Opt(m >= 2, <<Brk("R_ElementOffset", pos, "zero", <<E(ep, "offset", 0)>>)>>) \o
          <<Bnd("R_ElementOffset", pos, "min", <<E(ep, "offset", m)>>)>> \o
          \* growing a message header / dimension does not move anything else
          Opt(LastNonConst(B!CompConsts(c), k) /\ n.depth = 0 /\ RoleOfTop(n.top) \in {"header", "dimension"},
              <<Bnd("R_ElementOffset", pos, "min+3", <<E(ep, "offset", m + 3)>>)>>) \o
          \* a data header is a length prefix immediately followed by the payload: any
          \* member moved away from its default place is a malformed header
          Opt(n.depth = 0 /\ RoleOfTop(n.top) = "data-header" /\ c.elements[k].name \in {"length", "varData"},
              <<Brk("R_DataLayout", pos, "min+2/" \o c.elements[k].name, <<E(ep, "offset", m + 2)>>)>>)
ElementOffsetMuts == Flat(MapL(CompNodes, LAMBDA n : Flat([k \in 1 .. Len(n.e.elements) |-> ElemOffAt(n, k)])))

BlockLenAt(lv) ==
  LET m == B!MinBL(lv.def)
      pos == LevelPos(lv)
  IN Opt(m >= 1, <<Brk("R_BlockLength", pos, "min-1", <<E(lv.path, "blockLength", m - 1)>>)>>) \o
     Opt(m >= 2, <<Brk("R_BlockLength", pos, "zero", <<E(lv.path, "blockLength", 0)>>)>>) \o
     <<Bnd("R_BlockLength", pos, "min", <<E(lv.path, "blockLength", m)>>),
       Bnd("R_BlockLength", pos, "min+5", <<E(lv.path, "blockLength", m + 5)>>)>>
BlockLengthMuts == Flat(MapL(Levels, BlockLenAt))

----------------------------------------------------------------------------
(* 2. values: <<label, lexeme>> just outside / at the edge of the type *)
IntBreaks(p) == << <<"max+1", B!IncStr(B!MaxMag(p))>>,
                   <<"min-1", IF B!IsSigned(p) THEN "-" \o B!IncStr(B!MinMag(p)) ELSE "-1">>,
                   <<"huge", "99999999999999999999999">>,
                   \* not a decimal integer lexeme at all
                   <<"letters", "abc">>, <<"fraction", "1.5">>, <<"hex", "0x10">>, <<"exponent", "1e3">> >>
IntBounds(p) == << <<"max", B!MaxStr(p)>>, <<"min", B!MinStr(p)>> >>
\* lexemes outside  [-]digits[.digits][(e|E)[+|-]digits] | NaN | INF | -INF  (the XML Schema forms)
FloatGarbage == << <<"letters", "abc">>, <<"lowercase-nan", "nan">>, <<"signed-nan", "-NaN">>, <<"hex", "0x1p3">>,
                   <<"two-points", "1.5.2">>, <<"lowercase-inf", "inf">>, <<"suffix", "1.5f">>, <<"comma", "1,5">> >>
FloatBreaks(p) == (IF p = "float" THEN << <<"overflow", "1e39">>, <<"neg-overflow", "-3.5e38">> >>
                   ELSE << <<"overflow", "1e309">>, <<"neg-overflow", "-1.8e308">> >>) \o FloatGarbage
FloatBounds(p) == IF p = "float"
                  THEN << <<"max", "3.4028234e38">>, <<"min", "-3.4028234e38">>, <<"nan", "NaN">>, <<"inf", "-INF">> >>
                  ELSE << <<"max", "1.7976931348623157e308">>, <<"min", "-1.7976931348623157E+308">>,
                          <<"nan", "NaN">>, <<"inf", "INF">> >>
Breaks(p) == IF p \in B!FloatPrims THEN FloatBreaks(p) ELSE IntBreaks(p)
Bounds(p) == IF p \in B!FloatPrims THEN FloatBounds(p) ELSE IntBounds(p)

ValueEditsX(rule, pos, p, path, attr, exact, withBounds) ==
  MapL(Breaks(p), LAMBDA lv : MutX("break", rule, pos, p \o "/" \o lv[1], <<E(path, attr, lv[2])>>, {}, exact)) \o
  Opt(withBounds, MapL(Bounds(p), LAMBDA lv : Bnd(rule, pos, p \o "/" \o lv[1], <<E(path, attr, lv[2])>>)))
ValueEdits(rule, pos, p, path, attr) == ValueEditsX(rule, pos, p, path, attr, TRUE, TRUE)

RangeAttrs(e) == <<"min", "max">> \o Opt(e.presence = "optional", <<"null">>)
RangeMuts == Flat(MapL(Sel(TypeNodes, LAMBDA n : B!Ranged(n.e)), LAMBDA n :
               Flat(MapL(RangeAttrs(n.e), LAMBDA a : ValueEdits("R_ValueFits." \o a, NodePos(n), n.e.prim, n.path, a)))))

IntPrimSeq == <<"int8", "uint8", "int16", "uint16", "int32", "uint32", "int64", "uint64">>
\* a constant given by valueRef: change the primitive type under the value
ValueRefPrimMuts(pos, vr, cur, path, attr) ==
  IF ~B!ValueRefResolves(vr) \/ B!EncPrim(B!TypeNamed(B!VRefEnum(vr)).enc) = "char" THEN <<>>
  ELSE LET en == B!TypeNamed(B!VRefEnum(vr))
           v == en.values[CHOOSE j \in 1 .. Len(en.values) : en.values[j].name = B!VRefValue(vr)].value
       IN MapL(Take(Sel(IntPrimSeq, LAMBDA p : ~B!Fits(v, p)), 2),
               LAMBDA p : Brk("R_ValueFits.const", pos, "valueRef/" \o p, <<E(path, attr, p)>>)) \o
          MapL(Take(Sel(IntPrimSeq, LAMBDA p : B!Fits(v, p) /\ p # cur), 2),
               LAMBDA p : Bnd("R_ValueFits.const", pos, "valueRef/" \o p, <<E(path, attr, p)>>))
ConstAt(n) ==
  LET e == n.e
      pos == NodePos(n)
  IN IF e.presence # "constant" THEN <<>>
     ELSE IF e.valueRef # "" THEN ValueRefPrimMuts(pos, e.valueRef, e.prim, n.path, "prim")
     ELSE IF e.const = "" THEN <<>>
     ELSE IF e.prim = "char"
          THEN Opt(e.lenx, <<Brk("R_ValueFits.const", pos, "char/too-long", <<E(n.path, "const", PadStr(e.const, e.length + 1))>>),
                             Bnd("R_ValueFits.const", pos, "char/exact", <<E(n.path, "const", PadStr(e.const, e.length))>>)>> \o
                           Opt(e.length >= 2, <<Bnd("R_ValueFits.const", pos, "char/shorter",
                                                   <<E(n.path, "const", SubSeq(PadStr(e.const, e.length), 1, e.length - 1))>>)>>))
     ELSE ValueEdits("R_ValueFits.const", pos, e.prim, n.path, "const")
ConstFieldAt(lv, k) ==
  LET f == lv.def.fields[k]
  IN IF f.presence = "constant" /\ B!IsPrim(f.type) /\ f.valueRef # ""
     THEN ValueRefPrimMuts(LevelPos(lv) \o "-field", f.valueRef, f.type, lv.path \o <<"fields", k>>, "type")
     ELSE <<>>
ConstMuts == Flat(MapL(TypeNodes, ConstAt)) \o
             Flat(MapL(Levels, LAMBDA lv : Flat([k \in 1 .. Len(lv.def.fields) |-> ConstFieldAt(lv, k)])))

\* (a value that constants take through valueRef: changing it may also make
\* those constants unrepresentable - no exactness claim, no boundary edit)
EnumValueAt(n, j) ==
  LET p == B!EncPrim(n.e.enc)
      vp == n.path \o <<"values", j>>
      pos == NodePos(n) \o "/value"
      free == ~ValueReferenced(n, n.e.values[j].name)
      \* an edge value that a sibling already has would be a second rule's business (R_Unique.valuenum)
      Collides(v) == \E k \in 1 .. Len(n.e.values) :
                        k # j /\ (IF p = "char" THEN n.e.values[k].value = v ELSE B!CanonValue(n.e.values[k].value) = B!CanonValue(v))
      Keep(m) == m.kind # "boundary" \/ ~Collides(m.edits[1].val)
  IN IF p = "char"
     THEN Sel(<<Brk("R_ValueFits.enum", pos, "char/two-chars", <<E(vp, "value", "xy")>>),
                Bnd("R_ValueFits.enum", pos, "char/one-char", <<E(vp, "value", "Z")>>)>>, Keep)
     ELSE Sel(ValueEditsX("R_ValueFits.enum", pos, p, vp, "value", free, free), Keep)
EnumValueMuts == Flat(MapL(EnumNodes, LAMBDA n : Flat([j \in 1 .. Len(n.e.values) |-> EnumValueAt(n, j)])))

ChoiceAt(n, j) ==
  LET w == B!Bits(B!EncPrim(n.e.enc))
      cp == n.path \o <<"choices", j>>
      pos == NodePos(n) \o "/choice"
      v == "w" \o NumStr(w) \o "/"
  IN <<Brk("R_ChoiceIndex", pos, v \o "width", <<E(cp, "index", w)>>),
       Brk("R_ChoiceIndex", pos, v \o "255", <<E(cp, "index", 255)>>),
       Brk("R_ChoiceIndex", pos, v \o "256", <<E(cp, "index", 256)>>),
       Bnd("R_ChoiceIndex", pos, v \o "width-1", <<E(cp, "index", w - 1)>>),
       Bnd("R_ChoiceIndex", pos, v \o "0", <<E(cp, "index", 0)>>)>>
ChoiceMuts == Flat(MapL(SetNodes, LAMBDA n : Flat([j \in 1 .. Len(n.e.choices) |-> ChoiceAt(n, j)])))

----------------------------------------------------------------------------
(* 3. references *)
FieldKind(f) == IF B!IsPrim(f.type) THEN "prim" ELSE B!KindOf(f.type)
UsesValueRefT(e) == B!ValueRefUsedByType(e)
UsesValueRefF(f) == B!ValueRefUsedByField(f) /\ f.valueRef # ""

RefExistsLevel(lv) ==
  LET L == lv.def
      pos == LevelPos(lv)
  IN Flat([k \in 1 .. Len(L.fields) |->
        LET f == L.fields[k]
            fp == lv.path \o <<"fields", k>>
        IN <<Brk("R_RefExists", pos \o "-field", "type-of-" \o FieldKind(f) \o "-field", <<E(fp, "type", Missing)>>)>> \o
           Opt(B!IsPrim(f.type), <<Brk("R_RefExists", pos \o "-field", "no-such-primitive", <<E(fp, "type", "int24")>>)>>) \o
           Opt(UsesValueRefF(f), <<Brk("R_RefExists", pos \o "-field", "valueRef-enum", <<E(fp, "valueRef", "nosuch_e.A")>>)>>)]) \o
     [k \in 1 .. Len(L.data) |-> Brk("R_RefExists", pos \o "-data", "data-type", <<E(lv.path \o <<"data", k>>, "type", Missing)>>)] \o
     Opt(lv.depth > 0, <<Brk("R_RefExists", pos, "dimensionType", <<E(lv.path, "dim", Missing)>>)>>)
RefExistsNode(n) ==
  CASE n.e.kind = "ref" -> <<Brk("R_RefExists", NodePos(n), "ref-type", <<E(n.path, "type", Missing)>>)>>
    [] n.e.kind \in {"enum", "set"} -> <<Brk("R_RefExists", NodePos(n), "encodingType", <<E(n.path, "enc", Missing)>>)>>
    [] n.e.kind = "type" -> Opt(UsesValueRefT(n.e), <<Brk("R_RefExists", NodePos(n), "valueRef-enum", <<E(n.path, "valueRef", "nosuch_e.A")>>)>>)
    [] OTHER -> <<>>
\* a valid retargeting: the last field of a level without explicit blockLength
\* may be of any public type
RetargetLast(lv) ==
  LET L == lv.def
      k == Len(L.fields)
  IN IF k = 0 \/ L.blockLength >= 0 \/ L.fields[k].presence = "constant" THEN <<>>
     ELSE MapL(Take(Sel(PublicTypes, LAMBDA t : RoleOfName(t.name) = "public" /\ t.name # L.fields[k].type), RetargetMax),
               LAMBDA t : Bnd("R_RefExists", LevelPos(lv) \o "-field", "retarget-to-" \o t.kind,
                              <<E(lv.path \o <<"fields", k>>, "type", t.name)>>))
RefExistsMuts == <<Brk("R_RefExists", "schema", "headerType", <<E(<<>>, "headerType", Missing)>>)>> \o
                 Flat(MapL(Levels, RefExistsLevel)) \o Flat(MapL(Nodes, RefExistsNode)) \o Flat(MapL(Levels, RetargetLast))

\* ---- wrong kind
First(seq) == Take(seq, 1)
EncKindAt(n) ==
  LET pos == NodePos(n)
      wrong == First(PubComposites) \o First(PubEnums) \o First(PubSets) \o First(PubArrays)
      cls(t) == IF t.kind = "type" THEN "array" ELSE t.kind
      p == B!EncPrim(n.e.enc)
      right == Take(Sel(PubScalars, LAMBDA t : t.prim = p /\ t.name # n.e.enc), RetargetMax)
  \* (an array type still has a primitive type, possibly one the values / choices do not fit)
  IN MapL(wrong, LAMBDA t : MutX("break", "R_RefKind.enc", pos, "to-" \o cls(t), <<E(n.path, "enc", t.name)>>, {}, t.kind # "type")) \o
     MapL(right, LAMBDA t : Bnd("R_RefKind.enc", pos, "to-type-of-" \o p, <<E(n.path, "enc", t.name)>>))
EncKindMuts == Flat(MapL(EnumNodes \o SetNodes, EncKindAt))

\* the use of a level-header type: header / dimension / data
HeaderUseMuts(rule, pos, path, attr, cur, ok(_)) ==
  LET wrong == First(PubScalars) \o First(PubEnums) \o First(PubSets) \o
               Take(Sel(PubComposites, LAMBDA t : ~ok(t.name)), 2)
      right == Take(Sel(PubComposites, LAMBDA t : ok(t.name) /\ t.name # cur), RetargetMax)
  IN MapL(wrong, LAMBDA t : Brk(rule, pos, "to-" \o (IF t.kind = "composite" THEN "composite-lacking-members" ELSE t.kind),
                                <<E(path, attr, t.name)>>)) \o
     MapL(right, LAMBDA t : Bnd(rule, pos, "to-other-suitable-composite", <<E(path, attr, t.name)>>))
HdrOK(n) == B!LevelHeaderOK(n, Required("header"))
DimOK(n) == B!LevelHeaderOK(n, Required("dimension"))
DataOK(n) == B!DataHeaderOK(n)
HeaderUses ==
  HeaderUseMuts("R_RefKind.header", "schema", <<>>, "headerType", Base.headerType, HdrOK) \o
  Flat(MapL(Levels, LAMBDA lv :
    Opt(lv.depth > 0, HeaderUseMuts("R_RefKind.dim", LevelPos(lv), lv.path, "dim", IF lv.depth > 0 THEN lv.def.dim ELSE "", DimOK)) \o
    Flat([k \in 1 .. Len(lv.def.data) |->
           HeaderUseMuts("R_RefKind.data", LevelPos(lv) \o "-data", lv.path \o <<"data", k>>, "type", lv.def.data[k].type, DataOK)])))

\* the members of a level-header composite
MultiByte(p) == B!PrimSize(p) > 1
RoleMemberAt(n) ==
  IF ~IsRoleMember(n) THEN <<>>
  ELSE
  LET role == RoleOfTop(n.top)
      rule == RoleRule(role)
      pos == role \o "/member"
      nm == n.e.name
      e == n.e
      isVar == nm = "varData"
      parent == SubSeq(n.path, 1, Len(n.path) - 1)       \* ..., "elements"
      idx == n.path[Len(n.path)]
      refTargets == Sel(PubScalars, LAMBDA t : t.prim = e.prim /\ t.presence # "constant")
  IN <<Brk(rule, pos, nm \o "/renamed", <<E(n.path, "name", nm \o "X")>>)>> \o
     (IF e.kind = "type"
      THEN Opt(~isVar, <<Brk(rule, pos, nm \o "/constant", <<E(n.path, "presence", "constant"), E(n.path, "const", "1")>>),
                         MutX("break", rule, pos, nm \o "/array", <<E(n.path, "length", 2), E(n.path, "lenx", TRUE)>>,
                              IF MultiByte(e.prim) THEN {"R_ArraySingleByte"} ELSE {}, TRUE),
                         Bnd(rule, pos, nm \o "/optional", <<E(n.path, "presence", "optional")>>)>> \o
                       MapL(First(refTargets), LAMBDA t :
                            Bnd(rule, pos, nm \o "/as-ref", <<E(parent, idx, [kind |-> "ref", name |-> nm, type |-> t.name, offset |-> e.offset])>>))) \o
           Opt(isVar, <<Brk(rule, pos, nm \o "/length-1", <<E(n.path, "length", 1), E(n.path, "lenx", TRUE)>>),
                        Brk(rule, pos, nm \o "/length-2", <<E(n.path, "length", 2), E(n.path, "lenx", TRUE)>>)>>)
      ELSE IF e.kind = "ref"
      THEN MapL(First(Sel(PubComposites, LAMBDA t : t.name # Base.types[n.top].name /\ Base.types[n.top].name \notin B!ReachFrom(t.name))) \o
                First(PubEnums) \o Opt(~isVar, First(PubArrays) \o First(PubConstants)),
                LAMBDA t : Brk(rule, pos, nm \o "/ref-to-" \o (IF t.kind # "type" THEN t.kind ELSE IF t.length # 1 THEN "array" ELSE "constant"),
                               <<E(n.path, "type", t.name)>>))
      ELSE <<>>)
RoleMemberMuts == Flat(MapL(Nodes, RoleMemberAt))

\* valueRef
ValueRefAt(pos, vr, path, isEnumField) ==
  LET en == B!VRefEnum(vr)
  IN <<Brk("R_RefKind.valueRef", pos, "no-such-value", <<E(path, "valueRef", en \o ".NoSuchValue")>>),
       Brk("R_RefKind.valueRef", pos, "no-dot", <<E(path, "valueRef", en)>>)>> \o
     MapL(First(PubComposites), LAMBDA t : Brk("R_RefKind.valueRef", pos, "not-an-enum", <<E(path, "valueRef", t.name \o ".x")>>)) \o
     Opt(isEnumField /\ B!ValueRefResolves(vr),
         MapL(Sel(B!TypeNamed(en).values, LAMBDA v : v.name # B!VRefValue(vr)),
              LAMBDA v : Bnd("R_RefKind.valueRef", pos, "other-value", <<E(path, "valueRef", en \o "." \o v.name)>>)))
ValueRefMuts ==
  Flat(MapL(Sel(TypeNodes, LAMBDA n : UsesValueRefT(n.e)), LAMBDA n : ValueRefAt(NodePos(n), n.e.valueRef, n.path, FALSE))) \o
  Flat(MapL(Levels, LAMBDA lv : Flat([k \in 1 .. Len(lv.def.fields) |->
         LET f == lv.def.fields[k]
         IN Opt(UsesValueRefF(f), ValueRefAt(LevelPos(lv) \o "-field", f.valueRef, lv.path \o <<"fields", k>>, ~B!IsPrim(f.type)))])))

\* cycles: a ref inside composite X retargeted to X or to a composite that contains X
CycleAt(n) ==
  LET x == Base.types[n.top].name
  IN MapL(Sel(PubComposites, LAMBDA t : t.name = x \/ x \in B!ReachFrom(t.name)),
          LAMBDA t : MutX("break", "R_NoCycle", NodePos(n), IF t.name = x THEN "self" ELSE "through-" \o NumStr(Cardinality(B!ReachFrom(t.name))) \o "-types",
                          <<E(n.path, "type", t.name)>>, RoleAlso(n), TRUE))
CycleMuts == Flat(MapL(RefNodes, CycleAt))

----------------------------------------------------------------------------
(* 4. arrays *)
ArrayAt(n) ==
  LET e == n.e
      pos == NodePos(n)
  IN Opt(e.presence # "constant" /\ e.length = 1 /\ MultiByte(e.prim),
         <<MutX("break", "R_ArraySingleByte", pos, e.prim \o "/length-2", <<E(n.path, "length", 2), E(n.path, "lenx", TRUE)>>, RoleAlso(n), FALSE),
           MutX("break", "R_ArraySingleByte", pos, e.prim \o "/length-0", <<E(n.path, "length", 0), E(n.path, "lenx", TRUE)>>, RoleAlso(n), n.depth > 0)>>) \o
     Opt(e.presence # "constant" /\ e.length >= 2,
         <<Bnd("R_ArraySingleByte", pos, e.prim \o "/shorter-array", <<E(n.path, "length", e.length - 1)>>)>>)
ArrayMuts == Flat(MapL(TypeNodes, ArrayAt))

----------------------------------------------------------------------------
(* 5. names *)
\* renaming a public type renames every reference to it: one logical edit
VRefRenamed(vr, old, new) == IF B!DotPos(vr) > 0 /\ B!VRefEnum(vr) = old THEN new \o "." \o B!VRefValue(vr) ELSE vr
RenameTypeEdits(old, new) ==
  Flat(MapIdx(PublicTypes, LAMBDA i, t : Opt(t.name = old, <<E(<<"types", i>>, "name", new)>>))) \o
  Flat(MapL(Nodes, LAMBDA n :
    CASE n.e.kind = "ref" -> Opt(n.e.type = old, <<E(n.path, "type", new)>>)
      [] n.e.kind \in {"enum", "set"} -> Opt(n.e.enc = old, <<E(n.path, "enc", new)>>)
      [] n.e.kind = "type" -> Opt(VRefRenamed(n.e.valueRef, old, new) # n.e.valueRef, <<E(n.path, "valueRef", VRefRenamed(n.e.valueRef, old, new))>>)
      [] OTHER -> <<>>)) \o
  Flat(MapL(Levels, LAMBDA lv :
    Flat([k \in 1 .. Len(lv.def.fields) |->
       LET f == lv.def.fields[k]
           fp == lv.path \o <<"fields", k>>
       IN Opt(f.type = old, <<E(fp, "type", new)>>) \o
          Opt(VRefRenamed(f.valueRef, old, new) # f.valueRef, <<E(fp, "valueRef", VRefRenamed(f.valueRef, old, new))>>)]) \o
    Flat([k \in 1 .. Len(lv.def.data) |-> Opt(lv.def.data[k].type = old, <<E(lv.path \o <<"data", k>>, "type", new)>>)]) \o
    Opt(lv.depth > 0 /\ (IF lv.depth > 0 THEN lv.def.dim ELSE "") = old, <<E(lv.path, "dim", new)>>))) \o
  Opt(Base.headerType = old, <<E(<<>>, "headerType", new)>>)

Ent(kind, pos, path, old) == [kind |-> kind, pos |-> pos, path |-> path, old |-> old]
Entities ==
  <<Ent("package", "package", <<>>, Base.package)>> \o
  Flat(MapL(Nodes, LAMBDA n :
    Opt(n.depth = 0, <<Ent("type", NodePos(n), n.path, n.e.name)>>) \o
    Opt(n.depth > 0 /\ ~IsRoleMember(n), <<Ent("node", NodePos(n), n.path, n.e.name)>>) \o
    (CASE n.e.kind = "enum" -> Flat([j \in 1 .. Len(n.e.values) |->
              Opt(~ValueReferenced(n, n.e.values[j].name), <<Ent("node", NodePos(n) \o "/value", n.path \o <<"values", j>>, n.e.values[j].name)>>)])
       [] n.e.kind = "set" -> [j \in 1 .. Len(n.e.choices) |-> Ent("node", NodePos(n) \o "/choice", n.path \o <<"choices", j>>, n.e.choices[j].name)]
       [] OTHER -> <<>>))) \o
  Flat(MapL(Levels, LAMBDA lv :
    <<Ent("node", LevelPos(lv), lv.path, lv.def.name)>> \o
    [k \in 1 .. Len(lv.def.fields) |-> Ent("node", LevelPos(lv) \o "-field", lv.path \o <<"fields", k>>, lv.def.fields[k].name)] \o
    [k \in 1 .. Len(lv.def.data) |-> Ent("node", LevelPos(lv) \o "-data", lv.path \o <<"data", k>>, lv.def.data[k].name)]))
RenameEdits(ent, new) == CASE ent.kind = "type" -> RenameTypeEdits(ent.old, new)
                           [] ent.kind = "package" -> <<E(<<>>, "package", new)>>
                           [] OTHER -> <<E(ent.path, "name", new)>>
ShowName(s) == IF s = "" THEN "(empty)" ELSE s
PoolMuts(kind, rule, pool, skip(_, _)) ==
  IF Len(pool) = 0 THEN <<>>
  ELSE Flat(MapIdx(Entities, LAMBDA i, ent :
         Flat([t \in 1 .. (IF NamesPerEntity < Len(pool) THEN NamesPerEntity ELSE Len(pool)) |->
           LET new == Rot(pool, i, t)
               \* (an empty or dotted enum name also garbles the valueRefs that mention it)
               exact == ~(ent.kind = "type" /\ (new = "" \/ B!DotPos(new) > 0))
           IN Opt(~skip(ent, new), <<MutX(kind, rule, ent.pos, ShowName(new), RenameEdits(ent, new), {}, exact)>>)])))
NoSkip(ent, new) == FALSE
\* a public type named like a primitive type would change what references mean
PrimClash(ent, new) == ent.kind = "type" /\ new \in B!Prims
NameMuts == PoolMuts("break", "R_Name", BadNames, NoSkip) \o PoolMuts("boundary", "R_Name", GoodNames, NoSkip)
KeywordMuts == PoolMuts("break", "R_Keyword", Keywords, PrimClash)

----------------------------------------------------------------------------
(* 6. duplicates *)
CaseVariant(s) == IF B!Upper(s) # s THEN B!Upper(s) ELSE B!Lower(s)
NextIdx(i, n) == (i % n) + 1
TypeReferenced(name) == Len(RenameTypeEdits(name, name \o "_")) > 1
UniqueTypeMuts ==
  LET n == Len(PublicTypes)
  IN IF n < 2 THEN <<>>
     ELSE Flat([i \in 1 .. n |->
            LET x == PublicTypes[i].name
                y == PublicTypes[NextIdx(i, n)].name
                pos == RoleOfName(x) \o "/" \o PublicTypes[i].kind
            IN Opt(CaseVariant(y) # y, <<Brk("R_Unique.type", pos, "case-variant-of-other", RenameTypeEdits(x, CaseVariant(y)))>>) \o
               Opt(~TypeReferenced(x), <<MutX("break", "R_Unique.type", pos, "same-as-other", <<E(<<"types", i>>, "name", y)>>, {}, FALSE)>>) \o
               <<Bnd("R_Unique.type", pos, "fresh-name", RenameTypeEdits(x, x \o "_u"))>> \o
               Opt(CaseVariant(x) # x, <<Bnd("R_Unique.type", pos, "case-variant-of-self", RenameTypeEdits(x, CaseVariant(x)))>>)])
\* siblings: items == sequence of [path, name, movable]
SiblingMuts(rule, pos, items) ==
  LET n == Len(items)
  IN Flat([i \in 1 .. n |->
       Opt(items[i].movable,
           Opt(n >= 2, <<Brk(rule, pos, "same-as-sibling", <<E(items[i].path, "name", items[NextIdx(i, n)].name)>>)>>) \o
           <<Bnd(rule, pos, "fresh-name", <<E(items[i].path, "name", items[i].name \o "_u")>>)>>)])
Item(path, name, movable) == [path |-> path, name |-> name, movable |-> movable]
UniqueMuts ==
  UniqueTypeMuts \o
  SiblingMuts("R_Unique.message", "message", [m \in 1 .. Len(Base.messages) |-> Item(<<"messages", m>>, Base.messages[m].name, TRUE)]) \o
  Flat(MapL(Levels, LAMBDA lv :
    SiblingMuts("R_Unique.member", LevelPos(lv) \o "-member",
      [k \in 1 .. Len(lv.def.fields) |-> Item(lv.path \o <<"fields", k>>, lv.def.fields[k].name, TRUE)] \o
      [k \in 1 .. Len(lv.def.groups) |-> Item(lv.path \o <<"groups", k>>, lv.def.groups[k].name, TRUE)] \o
      [k \in 1 .. Len(lv.def.data) |-> Item(lv.path \o <<"data", k>>, lv.def.data[k].name, TRUE)]))) \o
  Flat(MapL(CompNodes, LAMBDA n :
    SiblingMuts("R_Unique.element", RoleOfTop(n.top) \o "/composite-d" \o Digit(n.depth),
      [k \in 1 .. Len(n.e.elements) |-> Item(n.path \o <<"elements", k>>, n.e.elements[k].name,
                                             ~(n.depth = 0 /\ n.e.elements[k].name \in Required(RoleOfTop(n.top))))]))) \o
  Flat(MapL(EnumNodes, LAMBDA n :
    SiblingMuts("R_Unique.value", NodePos(n), [j \in 1 .. Len(n.e.values) |->
      Item(n.path \o <<"values", j>>, n.e.values[j].name, ~ValueReferenced(n, n.e.values[j].name))]))) \o
  Flat(MapL(SetNodes, LAMBDA n :
    SiblingMuts("R_Unique.choice", NodePos(n), [j \in 1 .. Len(n.e.choices) |-> Item(n.path \o <<"choices", j>>, n.e.choices[j].name, TRUE)]))) \o
  \* one VALUE under two names: the sibling's lexeme, and (integers) the sibling's value spelled with a leading zero
  Flat(MapL(EnumNodes, LAMBDA n :
    LET nv == Len(n.e.values)
        ischar == B!EncPrim(n.e.enc) = "char"
    IN IF nv < 2 THEN <<>>
       ELSE Flat([j \in 1 .. nv |->
              LET other == n.e.values[NextIdx(j, nv)].value
              IN <<Brk("R_Unique.valuenum", NodePos(n), "same-as-sibling", <<E(n.path \o <<"values", j>>, "value", other)>>)>> \o
                 Opt(~ischar /\ Len(other) >= 1 /\ B!Ch(other, 1) # "-",
                     <<Brk("R_Unique.valuenum", NodePos(n), "sibling-with-leading-zero", <<E(n.path \o <<"values", j>>, "value", "0" \o other)>>)>>)])))

----------------------------------------------------------------------------
(* 7. probes: edits on which the rule list of C08 is silent (the property   *)
(* names neither outcome).  They are emitted with verdict "unspecified":    *)
(* either exit status is fine, a crash or an unlocated rejection is not.    *)
Prb(pos, variant, edits) == Mut("probe", "unspecified", pos, variant, edits)
ProbeType(n) ==
  LET e == n.e
      pos == NodePos(n)
      nc == e.presence # "constant"
  IN Opt(nc /\ e.length > 1 /\ e.prim \in {"int8", "uint8"},
         <<Prb(pos, "array-of-" \o e.prim \o "/minValue-beyond-type", <<E(n.path, "min", "300")>>)>>) \o
     Opt(nc /\ e.length = 1 /\ e.prim = "char",
         <<Prb(pos, "char/maxValue-300", <<E(n.path, "max", "300")>>),
           Prb(pos, "char/maxValue-65", <<E(n.path, "max", "65")>>),
           Prb(pos, "char/maxValue-letter", <<E(n.path, "max", "z")>>)>>) \o
     Opt(B!Ranged(e) /\ e.presence = "required" /\ e.prim \in B!IntPrims,
         <<Prb(pos, "required-" \o e.prim \o "/nullValue-beyond-type", <<E(n.path, "null", B!IncStr(B!MaxMag(e.prim)))>>)>>) \o
     Opt(B!Ranged(e) /\ e.prim \in B!IntPrims,
         <<Prb(pos, e.prim \o "/maxValue-with-plus-sign", <<E(n.path, "max", "+1")>>),
           Prb(pos, e.prim \o "/minValue-minus-zero", <<E(n.path, "min", "-0")>>)>>) \o
     Opt(B!Ranged(e) /\ e.prim = "float",
         <<Prb(pos, "float/minValue-underflows", <<E(n.path, "min", "1e-46")>>),
           Prb(pos, "float/maxValue-between-truncated-and-exact-maximum", <<E(n.path, "max", "3.4028235e38")>>)>>)
ProbeMuts ==
  Flat(MapL(TypeNodes, ProbeType)) \o
  \* a reference written in another case than the definition
  Flat(MapL(Levels, LAMBDA lv : Flat([k \in 1 .. Len(lv.def.fields) |->
     Opt(~B!IsPrim(lv.def.fields[k].type) /\ CaseVariant(lv.def.fields[k].type) # lv.def.fields[k].type,
         <<Prb(LevelPos(lv) \o "-field", "type-in-other-case", <<E(lv.path \o <<"fields", k>>, "type", CaseVariant(lv.def.fields[k].type))>>)>>)]))) \o
  Flat(MapL(RefNodes, LAMBDA n : <<Prb(NodePos(n), "type-in-other-case", <<E(n.path, "type", CaseVariant(n.e.type))>>)>>)) \o
  \* encodings the property does not mention
  Flat(MapL(SetNodes, LAMBDA n : Opt(B!IsPrim(n.e.enc), <<Prb(NodePos(n), "signed-encodingType", <<E(n.path, "enc", "int" \o SubSeq(n.e.enc, 5, Len(n.e.enc)))>>)>>))) \o
  Flat(MapL(EnumNodes, LAMBDA n : Opt(B!IsPrim(n.e.enc) /\ n.e.enc # "char", <<Prb(NodePos(n), "float-encodingType", <<E(n.path, "enc", "double")>>)>>))) \o
  Opt(Len(Base.messages) >= 2, <<Prb("message", "duplicate-id", <<E(<<"messages", 1>>, "id", Base.messages[2].id)>>)>>)

----------------------------------------------------------------------------
(* 8. grids: EVERY assignment of offsets from GridOffsets to the members of *)
(* a small member list (and of a blockLength from GridBlocks to a level):   *)
(* a complete small scope for the layout rules and the design theorem, also *)
(* run through sbeppc.  Several attributes change at once, so these states  *)
(* lie outside the one-edit quantifier of C08; the verdict is Rules!Valid.  *)
RECURSIVE OffsetTuples(_)
OffsetTuples(n) == IF n = 0 THEN << <<>> >>
                   ELSE Flat(MapL(OffsetTuples(n - 1), LAMBDA t : MapL(GridOffsets, LAMBDA o : Append(t, o))))
RECURSIVE TupleName(_, _)
TupleName(t, k) == IF k > Len(t) THEN ""
                   ELSE (IF t[k] < 0 THEN "-" ELSE NumStr(t[k])) \o (IF k < Len(t) THEN "," ELSE "") \o TupleName(t, k + 1)
Grd(pos, variant, edits) == Mut("grid", "layout", pos, variant, edits)
GridLevel(lv) ==
  LET n == Len(lv.def.fields)
  IN IF n < 2 \/ n > 3 \/ Len(GridOffsets) = 0 \/ \E k \in 1 .. n : B!IsConstField(lv.def.fields[k]) THEN <<>>
     ELSE Flat(MapL(OffsetTuples(n), LAMBDA t : MapL(GridBlocks, LAMBDA bl :
            Grd(LevelPos(lv) \o "-fields", "offsets=" \o TupleName(t, 1) \o "/blockLength=" \o (IF bl < 0 THEN "-" ELSE NumStr(bl)),
                [k \in 1 .. n |-> E(lv.path \o <<"fields", k>>, "offset", t[k])] \o <<E(lv.path, "blockLength", bl)>>))))
GridComposite(n) ==
  LET m == Len(n.e.elements)
  IN IF n.depth > 0 \/ m < 2 \/ m > 3 \/ Len(GridOffsets) = 0 \/ TypeReferenced(n.e.name)
        \/ RoleOfTop(n.top) # "public" \/ \E k \in 1 .. m : B!IsConstEnc(n.e.elements[k]) THEN <<>>
     ELSE MapL(OffsetTuples(m), LAMBDA t :
            Grd("public/composite-members", "offsets=" \o TupleName(t, 1), [k \in 1 .. m |-> E(n.path \o <<"elements", k>>, "offset", t[k])]))
GridMuts == Flat(MapL(Levels, GridLevel)) \o Flat(MapL(CompNodes, GridComposite))

----------------------------------------------------------------------------
AllMutants ==
  Opt("offset" \in Groups, FieldOffsetMuts \o ElementOffsetMuts \o BlockLengthMuts) \o
  Opt("range" \in Groups, RangeMuts) \o
  Opt("value" \in Groups, ConstMuts \o EnumValueMuts \o ChoiceMuts) \o
  Opt("ref" \in Groups, RefExistsMuts) \o
  Opt("kind" \in Groups, EncKindMuts \o HeaderUses \o RoleMemberMuts \o ValueRefMuts \o CycleMuts \o ArrayMuts) \o
  Opt("name" \in Groups, NameMuts) \o
  Opt("keyword" \in Groups, KeywordMuts) \o
  Opt("unique" \in Groups, UniqueMuts) \o
  Opt("probe" \in Groups, ProbeMuts) \o
  Opt("grid" \in Groups, GridMuts)

BaseMeta == MutX("base", "", "", "", <<>>, {}, TRUE)

Init == /\ sch = Base
        /\ meta = BaseMeta
        /\ valid = B!Valid
        /\ broken = B!Broken
        /\ todo = AllMutants

\* the k-th hand: mutants k, k + Slices, k + 2 Slices, ...
Hand(seq, k) == [j \in 1 .. ((Len(seq) - k) \div Slices) + 1 |-> seq[(j - 1) * Slices + k]]

\* base --Deal--> "dispatch" states (same schema, a hand of mutants each; only
\* there so that TLC's workers share the evaluation) --Mutate--> one state per mutant
Deal == /\ meta.kind = "base"
        /\ \E k \in 1 .. Slices :
             /\ k <= Len(todo)
             /\ meta' = [meta EXCEPT !.kind = "dispatch", !.variant = NumStr(k)]
             /\ todo' = Hand(todo, k)
        /\ UNCHANGED <<sch, valid, broken>>

Mutate == /\ meta.kind = "dispatch"
          /\ \E i \in 1 .. Len(todo) :
               LET s2 == ApplyAll(Base, todo[i].edits)
               IN /\ sch' = s2
                  /\ meta' = todo[i]
                  /\ valid' = R(s2)!Valid
                  /\ broken' = R(s2)!Broken
                  /\ todo' = <<>>

Next == Deal \/ Mutate

Spec == Init /\ [][Next]_vars

----------------------------------------------------------------------------
(* properties of the generator and of the rules, checked by TLC *)
BaseIsValid == meta.kind = "base" => valid
BreakBreaksNamedRule == meta.kind = "break" => (~valid /\ meta.rule \in broken)
BreakBreaksExactlyOne == (meta.kind = "break" /\ meta.exact) => broken = {meta.rule} \cup meta.also
BoundaryStaysValid == meta.kind = "boundary" => valid
ValidIsNoBrokenRule == valid <=> (broken = {})
\* design theorem: no accepted schema has overlapping members or members outside their block
LayoutTheorem == valid => (R(sch)!NoOverlap /\ R(sch)!MembersInsideBlock)
\* companion (non-vacuity of the offset rules): breaking an offset rule really produces an overlap
OffsetBreakOverlaps == (meta.kind = "break" /\ meta.rule \in {"R_FieldOffset", "R_ElementOffset"} /\ meta.variant = "min-1")
                         => ~R(sch)!NoOverlap
\* on the grids, where every offset of the edited list is written out: the rules
\* accept exactly the layouts that are in declaration order, overlap-free and inside the block
GridCharacterisation ==
  (meta.kind = "grid" /\ \A i \in 1 .. Len(meta.edits) : meta.edits[i].val >= 0)
    => (valid <=> (R(sch)!Ordered /\ R(sch)!NoOverlap /\ R(sch)!MembersInsideBlock))
BlockBreakEscapes == (meta.kind = "break" /\ meta.rule = "R_BlockLength") => ~R(sch)!MembersInsideBlock

----------------------------------------------------------------------------
(* the same schema distributed over files (Files.tla): for the states whose  *)
(* rule talks about names and references across the whole schema            *)
F == INSTANCE Files
SplitRules == {"R_Unique.type", "R_Unique.message", "R_RefExists", "R_NoCycle",
               "R_RefKind.enc", "R_RefKind.data", "R_RefKind.dim", "R_RefKind.header", "R_RefKind.valueRef"}
HasPlans == "files" \in Groups /\ Len(sch.types) >= 2 /\ meta.kind \in {"base", "break", "boundary"}
            /\ (meta.kind = "base" \/ meta.rule \in SplitRules)
MinOf(set) == CHOOSE x \in set : \A y \in set : x <= y
\* cut the type list between the first two colliding names, if any (else in the middle)
TypeCut(s) ==
  LET n == Len(s.types)
      low == [i \in 1 .. n |-> B!Lower(s.types[i].name)]
      col == {i \in 1 .. n : \E j \in (i + 1) .. n : low[i] = low[j]}
  IN IF col # {} THEN MinOf(col) ELSE n \div 2
MsgCut(s) ==
  LET n == Len(s.messages)
      col == {i \in 1 .. n : \E j \in (i + 1) .. n : s.messages[i].name = s.messages[j].name \/ s.messages[i].id = s.messages[j].id}
  IN IF col # {} THEN MinOf(col) ELSE n \div 2
PlansOf(s) == F!Plans(Len(s.types), Len(s.messages), TypeCut(s), MsgCut(s))
\* (bound through a singleton set: TLC evaluates the plans once per state)
PlansWellFormed ==
  HasPlans => \A ps \in {PlansOf(sch)} : \A i \in 1 .. Len(ps) :
                F!WellFormed(ps[i].tree, Len(sch.types), Len(sch.messages))
\* the rule set does not see the distribution: the merged schema of every plan is valid iff this one is, and
\* breaks exactly the same rules (while type names are unique: a reference to a name that exists twice has
\* no single meaning, so which further rules such a schema breaks is not a function of the schema)
SplitKeepsVerdict ==
  HasPlans => \A ps \in {PlansOf(sch)} : \A i \in 1 .. Len(ps) :
                \A b2 \in {R(F!Merged(sch, ps[i].tree))!Broken} :
                  /\ (b2 = {}) = valid
                  /\ ("R_Unique.type" \in b2) = ("R_Unique.type" \in broken)
                  /\ "R_Unique.type" \notin broken => b2 = broken

Emit == meta.kind = "dispatch" \/ PrintT(ToJson([kind |-> meta.kind, rule |-> meta.rule, pos |-> meta.pos, variant |-> meta.variant,
                       edits |-> meta.edits, also |-> meta.also, exact |-> meta.exact,
                       verdict |-> IF meta.kind = "probe" THEN "unspecified" ELSE IF valid THEN "accept" ELSE "reject",
                       broken |-> broken, schema |-> sch,
                       plans |-> IF HasPlans THEN PlansOf(sch) ELSE <<>>]))
=============================================================================
