-------------------------- MODULE GroupIterTrace --------------------------
(* Trace validation for GroupIter: a log of calls made on real generated   *)
(* group views (harness/c12_groups.cpp, record mode; one dimension         *)
(* encoding = one NW/BW per log) must be a behaviour of GroupIter.  Every  *)
(* event carries its arguments and what the real code returned, so the     *)
(* search is linear.                                                       *)
(*   Reset   a new flat group (n, bl; header digits as found in the buffer)*)
(*   Start   it = begin() / end()                                          *)
(*   Move    it = it + n, it += n, ++it, ... with the observed index       *)
(*           (it - begin()) and entry address of the register and of the   *)
(*           value of the expression; address -1 = not observable (end())  *)
(*   Index, Cmp, Deref, Size, At, Front, Back    pure calls                *)
(*   Resize, Clear    the header afterwards                                *)
(*   NReset  a new nested group (its bytes); NBegin, NInc: forward walk    *)
(* Observed values outside 0..2^24 are logged as -7777777 (TLC reads JSON  *)
(* numbers as 32-bit integers); no address of the specification has that  *)
(* value.                                                                  *)
EXTENDS GroupIter, IOUtils

VARIABLE l
Tr == ndJsonDeserialize(IOEnv.TRACE)

tvars == <<cfg, mem, it, chain, fresh, ret, last, l>>

IsEvent(e) == l <= Len(Tr) /\ Tr[l].e = e /\ l' = l + 1
Ev == Tr[l]

\* observed address -1: the iterator is end(), nothing to compare
SameIt(x, i, a) == x.i = i /\ (a = -1 \/ x.a = a)

ResetTo(e) == /\ cfg' = [n |-> e.n, bl |-> e.bl]
              /\ mem' = FlatImage(cfg')
              /\ HdrWire(mem').le = e.hdr
              /\ it' = NoIt /\ chain' = <<>> /\ fresh' = TRUE
              /\ ret' = 0 /\ last' = [op |-> "init"]
NResetTo(e) == /\ cfg' = [n |-> 0, bl |-> 0]
               /\ mem' = e.mem
               /\ it' = NoIt /\ chain' = <<>> /\ fresh' = TRUE
               /\ ret' = 0 /\ last' = [op |-> "init"]

TraceInit == /\ l = 2
             /\ \/ Tr[1].e = "Reset" /\ cfg = [n |-> Tr[1].n, bl |-> Tr[1].bl] /\ mem = FlatImage(cfg)
                   /\ HdrWire(mem).le = Tr[1].hdr
                \/ Tr[1].e = "NReset" /\ cfg = [n |-> 0, bl |-> 0] /\ mem = Tr[1].mem
             /\ it = NoIt /\ chain = <<>> /\ fresh = TRUE
             /\ ret = 0 /\ last = [op |-> "init"]

TrReset == IsEvent("Reset") /\ ResetTo(Ev)
TrNReset == IsEvent("NReset") /\ NResetTo(Ev)
TrStart == IsEvent("Start") /\ fresh /\ StartCore(Ev.which) /\ SameIt(it', Ev.i, Ev.a) /\ UNCHANGED chain
TrMove == /\ IsEvent("Move") /\ fresh
          /\ MoveCore(Ev.op, Ev.n)
          /\ SameIt(it', Ev.i, Ev.a) /\ SameIt(ret', Ev.ri, Ev.ra)
          /\ UNCHANGED chain
TrIndex == IsEvent("Index") /\ fresh /\ Index(Ev.n) /\ ret' = Ev.a
TrCmp == /\ IsEvent("Cmp") /\ fresh /\ Compare(Ev.j)
         /\ ret' = [eq |-> Ev.eq, ne |-> Ev.ne, lt |-> Ev.lt, le |-> Ev.le, gt |-> Ev.gt, ge |-> Ev.ge, d |-> Ev.d]
         /\ Ev.rd = -Ev.d
TrDeref == IsEvent("Deref") /\ fresh /\ Deref /\ ret' = Ev.a
TrSize == IsEvent("Size") /\ Size /\ ret' = Ev.d /\ Ev.empty = EmptyRes(mem)
TrAt == IsEvent("At") /\ fresh /\ At(Ev.k) /\ ret' = Ev.a
TrFront == IsEvent("Front") /\ fresh /\ Front /\ ret' = Ev.a
TrBack == IsEvent("Back") /\ fresh /\ Back /\ ret' = Ev.a
TrResize == /\ IsEvent("Resize") /\ fresh
            /\ ResizeCore(Ev.d) /\ cfg' = [cfg EXCEPT !.n = ToNat(Ev.d)]
            /\ last' = [op |-> "resize", d |-> Ev.d]
            /\ HdrWire(mem').le = Ev.hdr /\ Ev.entries_unchanged /\ ret' = Ev.size
TrClear == /\ IsEvent("Clear") /\ fresh
           /\ ResizeCore(Zeros(NW)) /\ cfg' = [cfg EXCEPT !.n = 0]
           /\ last' = [op |-> "clear", d |-> Zeros(NW)]
           /\ HdrWire(mem').le = Ev.hdr /\ Ev.entries_unchanged /\ ret' = Ev.size
\* nested: forward walk; at the end the position is all that is observable
TrNBegin == /\ IsEvent("NBegin") /\ NBegin
            /\ Ev.at_end = NAtEnd(mem, it') /\ (Ev.at_end \/ it'.a = Ev.a)
TrNInc == /\ IsEvent("NInc") /\ NInc
          /\ Ev.at_end = NAtEnd(mem, it') /\ (Ev.at_end \/ it'.a = Ev.a)

Regular == \/ TrReset \/ TrNReset \/ TrStart \/ TrMove \/ TrIndex \/ TrCmp \/ TrDeref
           \/ TrSize \/ TrAt \/ TrFront \/ TrBack \/ TrResize \/ TrClear
           \/ TrNBegin \/ TrNInc

\* A line that is not a behaviour of the spec ends its episode, not the
\* validation: the line is reported and the next episode is validated
\* (episodes are independent; every one starts with Reset / NReset).
RECURSIVE NextReset(_)
NextReset(k) == IF k > Len(Tr) THEN k
                ELSE IF Tr[k].e \in {"Reset", "NReset"} THEN k ELSE NextReset(k + 1)
TrSkip == /\ l <= Len(Tr) /\ ~ENABLED Regular
          /\ PrintT(ToJson([rejected |-> l]))
          /\ l' = NextReset(l + 1)
          /\ UNCHANGED vars

TraceNext == Regular \/ TrSkip
TraceSpec == TraceInit /\ [][TraceNext]_tvars

\* every line was consumed (printed once at the end of the log)
TraceDone == IF l > Len(Tr) THEN PrintT(ToJson([done |-> l - 1])) ELSE TRUE
\* strict form: no line was rejected
TraceAccepted == TLCGet("stats").diameter = Len(Tr)
=============================================================================
