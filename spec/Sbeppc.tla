------------------------------- MODULE Sbeppc -------------------------------
(* The sbeppc process as a state machine (properties C20, C09).             *)
(*                                                                          *)
(* Two layers share one set of variables:                                   *)
(*  - the ENVIRONMENT: what a directory creation / open / write / close     *)
(*    does to the disk, how the single injected fault hits the k-th call,   *)
(*    how a short write is completed.  Actions Io(..) and InOp(..) take the *)
(*    OUTCOME of the call as a parameter, so the trace spec (SbeppcTrace)   *)
(*    can feed them what really happened.                                   *)
(*  - the DESIGN (the program as it should be): walks the emission plan,    *)
(*    throws on a failed mkdir/open, and - iff CheckStream - looks at the   *)
(*    stream state after close.  Exit status and diagnostic follow from     *)
(*    `thrown` only.  CheckStream = FALSE is the code as found (DESIGN 6    *)
(*    #9): TLC then violates ExitTruthful / FaultReported.                  *)
(*                                                                          *)
(* The properties are stated over observable state only (disk, exit, diag,  *)
(* failed) and are shared by both layers: ExitAllowed is the invariant of   *)
(* the model AND the guard of the recorded exit event.                      *)
(*                                                                          *)
(* There is no state for "killed by a signal" or "aborted": a run ending    *)
(* that way is not a behaviour of this machine.                             *)
EXTENDS Naturals, Integers, Sequences, FiniteSets, TLC

CONSTANTS Plans,        \* set of emission plans explored by the model
          InFiles,      \* number of input files opened while parsing (schema + includes)
          FaultsOf(_),  \* plan -> set of faults to explore
          InitKinds,    \* subset of {"fresh","populated","stale"}
          CheckStream   \* design switch: stream state examined after close

VARIABLES phase,      \* Start Args Parsed Validated CppValidated Named Emitting Done
          plan,       \* sequence of [call, path, dir, len, src]; mkdir* then per file open write+ close,
                      \* optionally rename(src -> path) of a closed file into place / unlink of a closed file
          pc,         \* next plan index
          nio,        \* output-class I/O calls made so far (the shim's counter k)
          nin,        \* input-class calls made so far
          inopens,    \* input files opened successfully
          fault,      \* [cls, k, kind]: at most one fault per run
          disk,       \* path -> "absent" | "dir" | "partial" | "complete" | "stale"
          disk0,      \* disk when this run started
          diag,       \* a diagnostic was printed
          exit,       \* -1 while running, else the exit status
          failed,     \* a listed call (mkdir / open / write; input open) failed: alarm condition
          soft,       \* a close / read failed: recorded, not an alarm condition
          offplan,    \* an I/O call outside the plan was seen after a failure (disk book-keeping stops)
          pend,       \* bytes still owed by the stream after a short write (0 = none)
          cur,        \* path of the file currently open ("" = none)
          bad,        \* a write on `cur` failed (the stream's badbit)
          thrown,     \* design: an error is propagating to main
          gen,        \* 1 = first run, 2 = re-run on the disk the first run left
          mayreject   \* the input may legitimately be rejected (C09); FALSE = known-valid schema

vars == <<phase, plan, pc, nio, nin, inopens, fault, disk, disk0, diag, exit, failed, soft,
          offplan, pend, cur, bad, thrown, gen, mayreject>>

Kinds    == {"ENOSPC", "EACCES", "EIO", "SHORT"}
Errnos   == {"ENOSPC", "EACCES", "EIO"}
NoFault  == [cls |-> "none", k |-> 0, kind |-> ""]
Calls    == {"mkdir", "open", "write", "close", "rename", "unlink"}
PrePhases == <<"Start", "Args", "Parsed", "Validated", "CppValidated", "Named">>

\* ------------------------------------------------------------- plans -----
Idx(p)        == 1 .. Len(p)
FilesOf(p)    == {p[i].path : i \in {j \in Idx(p) : p[j].call = "open"}}
DirsOf(p)     == {p[i].path : i \in {j \in Idx(p) : p[j].call = "mkdir"}}
IsLastWrite(p, i) == ~ \E j \in Idx(p) : j > i /\ p[j].call = "write" /\ p[j].path = p[i].path

\* Two ways of producing a file are admitted: written in place, or written
\* under another name and renamed into place ("atomic replace"); a written
\* file may also be removed again.  What counts for the property are the
\* files the plan leaves behind.
RenamedAway(p) == {p[i].src : i \in {j \in Idx(p) : p[j].call = "rename"}}
RenameDst(p)   == {p[i].path : i \in {j \in Idx(p) : p[j].call = "rename"}}
Unlinked(p)    == {p[i].path : i \in {j \in Idx(p) : p[j].call = "unlink"}}
AllPaths(p)    == FilesOf(p) \cup RenameDst(p)
FinalFiles(p)  == (AllPaths(p) \ RenamedAway(p)) \ Unlinked(p)
TmpFiles(p)    == AllPaths(p) \ FinalFiles(p)

\* A plan is what a compiler run may look like: directories are created
\* before they are used, every file is opened once, written (>= 1 write) and
\* closed before the next one is opened; only a closed file is renamed or
\* removed, at most once.
PlanOK(p) ==
  /\ \A i \in Idx(p) : p[i].call \in Calls /\ p[i].len >= 0
  /\ FilesOf(p) \cap DirsOf(p) = {}
  /\ \A i, j \in Idx(p) : (i # j /\ p[i].call = p[j].call /\ p[i].call \in {"mkdir", "open", "close"}) => p[i].path # p[j].path
  /\ \A i \in Idx(p) : p[i].call = "mkdir" =>
        (p[i].dir = "" \/ \E j \in 1 .. i - 1 : p[j].call = "mkdir" /\ p[j].path = p[i].dir)
  /\ \A i \in Idx(p) : p[i].call = "open" =>
        /\ \E j \in 1 .. i - 1 : p[j].call = "mkdir" /\ p[j].path = p[i].dir
        /\ i + 2 <= Len(p) /\ p[i + 1].call = "write" /\ p[i + 1].path = p[i].path
  /\ \A i \in Idx(p) : p[i].call = "write" =>
        /\ p[i].len > 0
        /\ i + 1 <= Len(p) /\ p[i + 1].call \in {"write", "close"} /\ p[i + 1].path = p[i].path
        /\ i > 1 /\ p[i - 1].call \in {"open", "write"} /\ p[i - 1].path = p[i].path
  /\ \A i \in Idx(p) : p[i].call = "close" =>
        i > 1 /\ p[i - 1].call = "write" /\ p[i - 1].path = p[i].path
  /\ \A i \in Idx(p) : p[i].call = "rename" =>
        /\ p[i].src # p[i].path
        /\ \E j \in 1 .. i - 1 : p[j].call = "close" /\ p[j].path = p[i].src
        /\ ~ \E j \in 1 .. i - 1 : p[j].call \in {"rename", "unlink"} /\ p[i].src \in {p[j].src, p[j].path}
        /\ p[i].path \notin DirsOf(p) /\ p[i].path \notin FilesOf(p)
  \* (removing a name that is already gone - a temporary file after it was renamed - is a no-op)
  /\ \A i \in Idx(p) : p[i].call = "unlink" =>
        /\ \E j \in 1 .. i - 1 : p[j].call = "close" /\ p[j].path = p[i].path
        /\ p[i].path \notin RenameDst(p)
  /\ \A i, j \in Idx(p) : (i # j /\ p[i].call = "rename" /\ p[j].call = "rename") => p[i].path # p[j].path

\* a populated / stale directory holds the files a complete run leaves behind
DiskOf(p, kind) ==
  [x \in DirsOf(p) \cup AllPaths(p) |->
     IF x \in DirsOf(p) THEN (IF kind = "fresh" THEN "absent" ELSE "dir")
     ELSE IF kind = "fresh" \/ x \in TmpFiles(p) THEN "absent"
     ELSE IF kind = "populated" THEN "complete" ELSE "stale"]

AllComplete == \A f \in FinalFiles(plan) : disk[f] = "complete"

\* ------------------------------------------------------- environment -----
Running == exit = -1 /\ phase # "Done"

HitOut == fault.cls = "out" /\ fault.k = nio + 1
HitIn  == fault.cls = "in" /\ fault.k = nin + 1

\* create_directories() does not issue mkdir for a directory that exists
RECURSIVE SkipTo(_)
SkipTo(i) == IF i <= Len(plan) /\ plan[i].call = "mkdir" /\ disk[plan[i].path] = "dir"
             THEN SkipTo(i + 1) ELSE i

Same(i, call, path) == i >= 1 /\ i <= Len(plan) /\ plan[i].call = call /\ plan[i].path = path

\* plan index this call corresponds to, 0 if none
Match(call, path) == IF Same(pc, call, path) THEN pc
                     ELSE IF Same(SkipTo(pc), call, path) THEN SkipTo(pc) ELSE 0

\* One output-class call with its outcome o in {"ok","exists","fail","short"}:
\* len = bytes requested, n = bytes transferred (writes).
IoBody(call, path, len, o, n) ==
  LET j == Match(call, path) IN
  /\ phase' = "Emitting"
  /\ nio' = nio + 1
  \* the injected fault strikes exactly the k-th call
  /\ (HitOut /\ fault.kind \in Errnos) => o = "fail"
  /\ (HitOut /\ fault.kind = "SHORT" /\ call = "write" /\ len > 1) => o = "short"
  /\ IF j = 0
     THEN \* only after something failed may the program leave its plan (clean-up, early exit paths)
          /\ failed \/ soft
          /\ offplan' = TRUE
          /\ failed' = (failed \/ (o = "fail" /\ call \in {"mkdir", "open", "write"}))
          /\ soft' = (soft \/ (o = "fail" /\ call \notin {"mkdir", "open", "write"}))
          /\ UNCHANGED <<pc, disk, pend, cur, bad>>
     ELSE
       /\ UNCHANGED offplan
       /\ CASE call = "mkdir" ->
                 /\ o \in {"ok", "exists", "fail"}
                 /\ (o = "ok") => (disk[path] = "absent" /\ (IF plan[j].dir = "" THEN TRUE ELSE disk[plan[j].dir] = "dir"))
                 /\ (o = "exists") => disk[path] = "dir"
                 /\ disk' = IF o = "ok" THEN [disk EXCEPT ![path] = "dir"] ELSE disk
                 /\ failed' = (failed \/ o = "fail")
                 /\ pc' = j + 1
                 /\ UNCHANGED <<pend, cur, bad, soft>>
            [] call = "open" ->
                 /\ o \in {"ok", "fail"}
                 /\ cur = "" /\ pend = 0
                 /\ (o = "ok") => disk[plan[j].dir] = "dir"
                 \* O_TRUNC: whatever was there is gone; a failed open leaves the old file
                 /\ disk' = IF o = "ok" THEN [disk EXCEPT ![path] = "partial"] ELSE disk
                 /\ cur' = IF o = "ok" THEN path ELSE ""
                 /\ bad' = FALSE
                 /\ failed' = (failed \/ o = "fail")
                 /\ pc' = j + 1
                 /\ UNCHANGED <<pend, soft>>
            [] call = "write" ->
                 /\ o \in {"ok", "short", "fail"}
                 /\ cur = path
                 /\ len = (IF pend > 0 THEN pend ELSE plan[j].len)
                 /\ (o = "ok") => n = len
                 /\ (o = "short") => n > 0 /\ n < len
                 /\ pend' = IF o = "short" THEN len - n ELSE 0
                 /\ disk' = IF o = "ok" /\ IsLastWrite(plan, j) /\ ~bad
                            THEN [disk EXCEPT ![path] = "complete"] ELSE disk
                 /\ bad' = (bad \/ o = "fail")
                 /\ failed' = (failed \/ o = "fail")
                 \* a short write is completed by the stream layer: same plan entry again
                 /\ pc' = IF o = "short" THEN j ELSE j + 1
                 /\ UNCHANGED <<cur, soft>>
            [] call = "close" ->
                 /\ o \in {"ok", "fail"}
                 /\ cur = path /\ pend = 0
                 \* the descriptor is gone either way; the data already went through write
                 /\ cur' = ""
                 /\ soft' = (soft \/ o = "fail")
                 /\ pc' = j + 1
                 /\ UNCHANGED <<disk, pend, bad, failed>>
            [] call = "rename" ->
                 \* a closed file takes the place of whatever is there; a failed
                 \* rename leaves both names as they were
                 /\ o \in {"ok", "fail"}
                 /\ cur = "" /\ pend = 0
                 /\ disk' = IF o = "ok" THEN [disk EXCEPT ![path] = disk[plan[j].src], ![plan[j].src] = "absent"]
                            ELSE disk
                 /\ soft' = (soft \/ o = "fail")
                 /\ pc' = j + 1
                 /\ UNCHANGED <<pend, cur, bad, failed>>
            [] call = "unlink" ->
                 /\ o \in {"ok", "absent", "fail"}
                 /\ cur = "" /\ pend = 0
                 /\ (o = "ok") => disk[path] # "absent"
                 /\ (o = "absent") => disk[path] = "absent"
                 /\ disk' = IF o = "ok" THEN [disk EXCEPT ![path] = "absent"] ELSE disk
                 /\ soft' = (soft \/ o = "fail")
                 /\ pc' = j + 1
                 /\ UNCHANGED <<pend, cur, bad, failed>>

\* ... which the program may only make once the schema has been accepted and named
Io(call, path, len, o, n) ==
  /\ Running /\ phase \in {"Named", "Emitting"}
  /\ IoBody(call, path, len, o, n)

\* One input-class call (reading the schema / its includes).
InOp(call, o) ==
  /\ Running /\ phase \in {"Start", "Args"}
  /\ nin' = nin + 1
  /\ (HitIn /\ fault.kind \in Errnos) => o = "fail"
  /\ o \in {"ok", "fail"}
  /\ inopens' = IF call = "open" /\ o = "ok" THEN inopens + 1 ELSE inopens
  /\ failed' = (failed \/ (o = "fail" /\ call = "open"))
  /\ soft' = (soft \/ (o = "fail" /\ call # "open"))

\* ------------------------------------------------ the property, stated ---
\* on the observables of a finished run; s = exit status, d = diagnostic seen
ExitAllowed(s, d) ==
  /\ s >= 0
  /\ (s = 0) => AllComplete                        \* ExitTruthful
  /\ failed => (s # 0 /\ d)                        \* FaultReported
  /\ (s # 0) => d                                  \* an error exit explains itself
  /\ (~failed /\ ~soft /\ ~mayreject) => s = 0     \* no failure (short writes included): success

\* ------------------------------------------------------------ design -----
Init ==
  /\ plan \in Plans
  /\ fault \in FaultsOf(plan)
  /\ \E kind \in InitKinds : disk = DiskOf(plan, kind)
  /\ disk0 = disk
  /\ mayreject \in BOOLEAN
  /\ phase = "Start" /\ pc = 1 /\ nio = 0 /\ nin = 0 /\ inopens = 0
  /\ diag = FALSE /\ exit = -1 /\ failed = FALSE /\ soft = FALSE /\ offplan = FALSE
  /\ pend = 0 /\ cur = "" /\ bad = FALSE /\ thrown = FALSE /\ gen = 1

NextPhase(ph) == CHOOSE q \in {PrePhases[i + 1] : i \in {k \in 1 .. Len(PrePhases) - 1 : PrePhases[k] = ph}} : TRUE

\* command line parsed, schema parsed, validated, ... (no I/O on the output)
DPhase ==
  /\ Running /\ ~thrown
  /\ phase \in {"Start", "Args", "Parsed", "Validated", "CppValidated"}
  /\ (phase = "Args") => inopens = InFiles
  /\ phase' = NextPhase(phase)
  /\ UNCHANGED <<plan, pc, nio, nin, inopens, fault, disk, disk0, diag, exit, failed, soft, offplan,
                 pend, cur, bad, thrown, gen, mayreject>>

\* the parser opens the schema and every include; a failed open is an error
DIn ==
  /\ ~thrown /\ phase = "Args" /\ inopens < InFiles
  /\ LET o == IF HitIn /\ fault.kind \in Errnos THEN "fail" ELSE "ok" IN
       /\ InOp("open", o)
       /\ thrown' = (o = "fail")
  /\ UNCHANGED <<phase, plan, pc, nio, fault, disk, disk0, diag, exit, offplan, pend, cur, bad, gen, mayreject>>

\* an invalid command line / schema is rejected before anything is written
DReject ==
  /\ Running /\ ~thrown /\ mayreject
  /\ phase \in {"Start", "Args", "Parsed", "Validated"}
  /\ thrown' = TRUE
  /\ UNCHANGED <<phase, plan, pc, nio, nin, inopens, fault, disk, disk0, diag, exit, failed, soft, offplan,
                 pend, cur, bad, gen, mayreject>>

\* emission: the next planned call, its outcome decided by disk and fault
DOut ==
  /\ ~thrown
  /\ LET j == IF pend > 0 THEN pc ELSE SkipTo(pc) IN
       /\ j <= Len(plan)
       /\ LET op  == plan[j]
              len == IF op.call = "write" THEN (IF pend > 0 THEN pend ELSE op.len) ELSE 0
              o   == IF HitOut /\ fault.kind \in Errnos THEN "fail"
                     ELSE IF HitOut /\ fault.kind = "SHORT" /\ op.call = "write" /\ len > 1 THEN "short"
                     ELSE IF op.call = "mkdir" /\ disk[op.path] = "dir" THEN "exists"
                     ELSE IF op.call = "unlink" /\ disk[op.path] = "absent" THEN "absent"
                     ELSE "ok"
              n   == IF o = "short" THEN (len + 1) \div 2 ELSE IF o = "ok" THEN len ELSE 0
          IN /\ Io(op.call, op.path, len, o, n)
             \* reaction of the program
             /\ thrown' = CASE op.call \in {"mkdir", "open"} -> (o = "fail")
                            [] op.call = "write" -> FALSE      \* operator<< reports nothing
                            [] op.call = "close" -> (CheckStream /\ (bad \/ o = "fail"))
                            \* moving a file into place can fail like any other step and is checked
                            [] op.call = "rename" -> (o = "fail")
                            \* failing to remove a file that was to be removed is tolerated
                            [] op.call = "unlink" -> FALSE
  /\ UNCHANGED <<plan, nin, inopens, fault, disk0, diag, exit, gen, mayreject>>

\* main returns: 1 with a diagnostic if an error reached it, else 0
DExit ==
  /\ Running
  /\ thrown \/ (phase \in {"Named", "Emitting"} /\ pend = 0 /\ SkipTo(pc) > Len(plan))
  /\ exit' = IF thrown THEN 1 ELSE 0
  /\ diag' = thrown
  /\ phase' = "Done"
  /\ UNCHANGED <<plan, pc, nio, nin, inopens, fault, disk, disk0, failed, soft, offplan, pend, cur, bad,
                 thrown, gen, mayreject>>

\* compile the same schema again into the directory the first run left
Rerun ==
  /\ phase = "Done" /\ gen = 1 /\ exit = 0
  /\ gen' = 2 /\ disk0' = disk /\ fault' = NoFault
  /\ phase' = "Start" /\ pc' = 1 /\ nio' = 0 /\ nin' = 0 /\ inopens' = 0
  /\ diag' = FALSE /\ exit' = -1 /\ failed' = FALSE /\ soft' = FALSE /\ offplan' = FALSE
  /\ pend' = 0 /\ cur' = "" /\ bad' = FALSE /\ thrown' = FALSE /\ mayreject' = FALSE
  /\ UNCHANGED <<plan, disk>>

\* the only terminal states
Finished ==
  /\ phase = "Done" /\ (gen = 2 \/ exit # 0)
  /\ UNCHANGED vars

Next == DPhase \/ DIn \/ DReject \/ DOut \/ DExit \/ Rerun \/ Finished

Spec == Init /\ [][Next]_vars /\ WF_vars(DPhase \/ DIn \/ DReject \/ DOut \/ DExit \/ Rerun)

\* -------------------------------------------------------- invariants -----
States == {"absent", "dir", "partial", "complete", "stale"}
TypeOK ==
  /\ phase \in {"Start", "Args", "Parsed", "Validated", "CppValidated", "Named", "Emitting", "Done"}
  /\ PlanOK(plan)
  /\ pc \in 1 .. Len(plan) + 1
  /\ \A x \in DOMAIN disk : disk[x] \in States
  /\ \A d \in DirsOf(plan) : disk[d] \in {"absent", "dir"}
  /\ \A f \in AllPaths(plan) : disk[f] # "dir"
  /\ exit \in -1 .. 255 /\ gen \in {1, 2} /\ pend >= 0
  /\ (phase = "Done") = (exit # -1)

ExitTruthful  == (exit = 0) => AllComplete
FaultReported == (phase = "Done" /\ failed) => (exit # 0 /\ diag)
ExitOK        == (phase = "Done") => ExitAllowed(exit, diag)
\* a short write alone never makes the run fail
ShortIsNoFailure == (phase = "Done" /\ fault.kind = "SHORT") => (failed \/ soft \/ mayreject \/ exit = 0)
\* nothing is written before the schema has been accepted
RejectKeepsDisk == (nio = 0) => disk = disk0
\* a file is never left open, no transfer left half-done, when the run ends well
CleanEnd == (exit = 0) => (cur = "" /\ pend = 0)
\* compiling again into the populated directory: success, same tree
\* (the files the plan leaves behind; a scratch file whose removal failed the first time is not one of them)
RerunSame == (gen = 2 /\ phase = "Done") =>
               (exit = 0 /\ \A x \in DirsOf(plan) \cup FinalFiles(plan) : disk[x] = disk0[x])
\* the fault position is honoured: at most one call fails
OneFault == (fault = NoFault) => (~failed /\ ~soft)

\* Done is always reached (no other way to end)
Termination == <>(phase = "Done")
=============================================================================
