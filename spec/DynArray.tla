------------------------------ MODULE DynArray ------------------------------
(* <data> views (sbepp::detail::dynamic_array_ref) as a vector bounded by  *)
(* its buffer (C13).                                                       *)
(*                                                                         *)
(* Two descriptions of every operation live side by side:                  *)
(*   - the IDEAL one: `seq`, a std::vector subjected to the same call,     *)
(*     written with Sequences/SequencesExt operators (V_* below);          *)
(*   - the BYTE-LEVEL one: the length prefix `pfx` (little-endian base-256 *)
(*     digits, 8 of them; a W-byte length type uses the first W, the wire  *)
(*     image is that slice, reversed for big-endian) and the payload area  *)
(*     `mem` (Cap cells that the view may use + G guard cells behind       *)
(*     them), written as index arithmetic on cells (B_* below).            *)
(* The invariants tie them together: the prefix is the vector's size, the  *)
(* cells in use are the vector's contents, cells outside                   *)
(* max(old size, new size) never change, returned iterators designate the  *)
(* vector's positions.                                                     *)
(*                                                                         *)
(* Where the documentation is silent the effect is a SET of outcomes:      *)
(*   - cells between the new and the old end after a shrinking call,       *)
(*   - the new cells of resize(n, default_init)                            *)
(* may hold any value.  Every action therefore takes a parameter `fill`    *)
(* (a function giving the value of exactly those cells): the model checker *)
(* quantifies over all fills, the trace spec binds it to the observation.  *)
EXTENDS Integers, Sequences, SequencesExt, FiniteSets, TLC, Json

CONSTANTS Cap,       \* cells the buffer given to the view can hold
          G,         \* guard cells behind them (never to be touched)
          Elem,      \* values used as arguments
          Zero,      \* the value-initialised element (resize(n))
          Bg,        \* background value of untouched cells (model checking)
          CellVals   \* everything a cell may hold

VARIABLES seq,       \* ideal: the vector
          pfx,       \* length prefix, 8 little-endian digits
          mem,       \* payload area, cells 1..Cap+G
          ret,       \* returned iterator as 0-based offset, -1 for void
          last       \* ghost: label of the last action (op, arguments, don't-care range)

vars == <<seq, pfx, mem, ret, last>>
view == <<seq, pfx, mem>>

N == Cap + G
Min2(a, b) == IF a < b THEN a ELSE b
Max2(a, b) == IF a < b THEN b ELSE a

\* ------------------------------------------------------------- numbers ----
P256(k) == CASE k = 0 -> 1 [] k = 1 -> 256 [] k = 2 -> 65536 [] k = 3 -> 16777216
\* n < 2^31 as w little-endian base-256 digits
SizeBytesLE(n, w) == [k \in 1 .. w |-> IF k > 4 THEN 0 ELSE (n \div P256(k - 1)) % 256]
ToNat(d) == d[1] + 256 * d[2] + 65536 * d[3] + 16777216 * d[4]
Small(d) == d[4] < 128 /\ \A k \in 5 .. 8 : d[k] = 0
\* wire image of a W-byte length: byte order is sequence reversal
WireOf(d, w, order) == IF order = "le" THEN SubSeq(d, 1, w) ELSE Reverse(SubSeq(d, 1, w))
FitsWidth(d, w) == \A k \in (w + 1) .. 8 : d[k] = 0

Size == ToNat(pfx)                       \* what the view reads back as size()
Payload == [i \in 1 .. Size |-> mem[i]]  \* what the view exposes as [begin(), end())

Rep(k, x) == [i \in 1 .. k |-> x]
SeqsUpTo(S, k) == UNION {[1 .. m -> S] : m \in 0 .. k}

\* ---------------------------------------- ideal semantics: std::vector ----
\* positions are 0-based offsets from begin(), as iterators are
V_PushBack(s, x)      == Append(s, x)
V_PopBack(s)          == Front(s)
V_Insert(s, p, x)     == InsertAt(s, p + 1, x)
V_InsertSeq(s, p, xs) == SubSeq(s, 1, p) \o xs \o SubSeq(s, p + 1, Len(s))
V_Erase(s, p)         == RemoveAt(s, p + 1)
V_EraseRange(s, f, t) == SubSeq(s, 1, f) \o SubSeq(s, t + 1, Len(s))
V_Resize(s, m, xs)    == IF m <= Len(s) THEN SubSeq(s, 1, m) ELSE s \o xs   \* xs: the m - Len(s) new elements
V_Assign(xs)          == xs

\* ------------------------------- byte level: new contents of cells 1..n ----
B_Insert(p, xs) == LET k == Len(xs)
                   IN [i \in 1 .. Size + k |-> IF i <= p THEN mem[i]
                                               ELSE IF i <= p + k THEN xs[i - p]
                                               ELSE mem[i - k]]
B_Erase(f, t)   == LET k == t - f
                   IN [i \in 1 .. Size - k |-> IF i <= f THEN mem[i] ELSE mem[i + k]]
B_Resize(m, x)  == [i \in 1 .. m |-> IF i <= Size THEN mem[i] ELSE x]
B_ResizeDI(m, fill) == [i \in 1 .. m |-> IF i <= Size THEN mem[i] ELSE fill[i]]

\* cells whose value after the call is unspecified
ShrinkDC(m) == (m + 1) .. Size                           \* empty when m >= Size
GrowDC(m)   == (Size + 1) .. m                           \* resize(n, default_init) only

Lbl(op, p, q, n, x, xs) == [op |-> op, pos |-> p, pos2 |-> q, n |-> n, v |-> x, vs |-> xs]

\* One call: the vector becomes `news`, cells 1..Len(np) become np, cells in
\* `dc` take the (arbitrary) values of `fill`, every other cell keeps its value.
Commit(lbl, news, np, dc, r, fill) ==
  /\ Len(np) <= Cap                                      \* precondition: the result fits the buffer
  /\ seq' = news
  /\ pfx' = SizeBytesLE(Len(np), 8)
  /\ mem' = [i \in 1 .. N |-> IF i \in dc THEN fill[i]
                              ELSE IF i <= Len(np) THEN np[i]
                              ELSE mem[i]]
  /\ ret' = r
  /\ last' = lbl @@ [dc |-> dc]

\* ----------------------------------------------- one action per overload ----
PushBack(x, fill) ==
  Commit(Lbl("push_back", -1, -1, -1, x, <<>>), V_PushBack(seq, x), B_Insert(Size, <<x>>), {}, -1, fill)

PopBack(fill) ==
  /\ Size > 0
  /\ Commit(Lbl("pop_back", -1, -1, -1, -1, <<>>), V_PopBack(seq), B_Erase(Size - 1, Size), ShrinkDC(Size - 1), -1, fill)

Insert(p, x, fill) ==                                    \* insert(pos, value)
  /\ p \in 0 .. Size
  /\ Commit(Lbl("insert", p, -1, -1, x, <<>>), V_Insert(seq, p, x), B_Insert(p, <<x>>), {}, p, fill)

InsertN(p, k, x, fill) ==                                \* insert(pos, count, value)
  /\ p \in 0 .. Size
  /\ Commit(Lbl("insert_n", p, -1, k, x, <<>>), V_InsertSeq(seq, p, Rep(k, x)), B_Insert(p, Rep(k, x)), {}, p, fill)

InsertRange(p, xs, fill) ==                              \* insert(pos, first, last)
  /\ p \in 0 .. Size
  /\ Commit(Lbl("insert_range", p, -1, -1, -1, xs), V_InsertSeq(seq, p, xs), B_Insert(p, xs), {}, p, fill)

InsertIList(p, xs, fill) ==                              \* insert(pos, ilist)
  /\ p \in 0 .. Size
  /\ Commit(Lbl("insert_ilist", p, -1, -1, -1, xs), V_InsertSeq(seq, p, xs), B_Insert(p, xs), {}, p, fill)

Erase(p, fill) ==                                        \* erase(pos): pos dereferenceable
  /\ p \in 0 .. Size - 1
  /\ Commit(Lbl("erase", p, -1, -1, -1, <<>>), V_Erase(seq, p), B_Erase(p, p + 1), ShrinkDC(Size - 1), p, fill)

EraseRange(f, t, fill) ==                                \* erase(first, last): any valid range, last = end() included
  /\ f \in 0 .. Size /\ t \in f .. Size
  /\ Commit(Lbl("erase_range", f, t, -1, -1, <<>>), V_EraseRange(seq, f, t), B_Erase(f, t), ShrinkDC(Size - (t - f)), f, fill)

Resize(m, fill) ==                                       \* resize(count): value-initialised
  Commit(Lbl("resize", -1, -1, m, -1, <<>>), V_Resize(seq, m, Rep(m - Len(seq), Zero)), B_Resize(m, Zero), ShrinkDC(m), -1, fill)

ResizeV(m, x, fill) ==                                   \* resize(count, value)
  Commit(Lbl("resize_v", -1, -1, m, x, <<>>), V_Resize(seq, m, Rep(m - Len(seq), x)), B_Resize(m, x), ShrinkDC(m), -1, fill)

ResizeDI(m, fill) ==                                     \* resize(count, default_init): new elements unspecified
  Commit(Lbl("resize_di", -1, -1, m, -1, <<>>),
         V_Resize(seq, m, [i \in 1 .. m - Len(seq) |-> fill[Len(seq) + i]]),
         B_ResizeDI(m, fill), ShrinkDC(m) \cup GrowDC(m), -1, fill)

AssignN(m, x, fill) ==                                   \* assign(count, value)
  Commit(Lbl("assign_n", -1, -1, m, x, <<>>), V_Assign(Rep(m, x)), Rep(m, x), ShrinkDC(m), -1, fill)

AssignSeq(op, xs, fill) ==                               \* assign(first,last) / assign(ilist) / assign_string / assign_range
  Commit(Lbl(op, -1, -1, -1, -1, xs), V_Assign(xs), xs, ShrinkDC(Len(xs)), -1, fill)

Clear(fill) ==
  Commit(Lbl("clear", -1, -1, -1, -1, <<>>), <<>>, <<>>, ShrinkDC(0), -1, fill)

AssignOps == {"assign_range_it", "assign_ilist", "assign_string", "assign_range"}

\* all outcomes of a call whose unspecified cells are dc
AnyFill(dc, A(_)) == \E fill \in [dc -> CellVals] : A(fill)

Init == /\ seq = <<>>
        /\ pfx = SizeBytesLE(0, 8)
        /\ mem = [i \in 1 .. N |-> Bg]
        /\ ret = -1
        /\ last = Lbl("init", -1, -1, -1, -1, <<>>) @@ [dc |-> {}]

Next ==
  \/ \E x \in Elem : Size < Cap /\ PushBack(x, <<>>)
  \/ Size > 0 /\ AnyFill(ShrinkDC(Size - 1), LAMBDA fl : PopBack(fl))
  \/ \E p \in 0 .. Size, x \in Elem : Size < Cap /\ Insert(p, x, <<>>)
  \/ \E p \in 0 .. Size, k \in 0 .. Cap - Size, x \in Elem : InsertN(p, k, x, <<>>)
  \/ \E p \in 0 .. Size, xs \in SeqsUpTo(Elem, Cap - Size) : InsertRange(p, xs, <<>>)
  \/ \E p \in 0 .. Size, xs \in SeqsUpTo(Elem, Cap - Size) : InsertIList(p, xs, <<>>)
  \/ \E p \in 0 .. Size - 1 : AnyFill(ShrinkDC(Size - 1), LAMBDA fl : Erase(p, fl))
  \/ \E f \in 0 .. Size : \E t \in f .. Size : AnyFill(ShrinkDC(Size - (t - f)), LAMBDA fl : EraseRange(f, t, fl))
  \/ \E m \in 0 .. Cap : AnyFill(ShrinkDC(m), LAMBDA fl : Resize(m, fl))
  \/ \E m \in 0 .. Cap, x \in Elem : AnyFill(ShrinkDC(m), LAMBDA fl : ResizeV(m, x, fl))
  \/ \E m \in 0 .. Cap : AnyFill(ShrinkDC(m) \cup GrowDC(m), LAMBDA fl : ResizeDI(m, fl))
  \/ \E m \in 0 .. Cap, x \in Elem : AnyFill(ShrinkDC(m), LAMBDA fl : AssignN(m, x, fl))
  \/ \E op \in AssignOps, xs \in SeqsUpTo(Elem, Cap) : AnyFill(ShrinkDC(Len(xs)), LAMBDA fl : AssignSeq(op, xs, fl))
  \/ AnyFill(ShrinkDC(0), LAMBDA fl : Clear(fl))

Spec == Init /\ [][Next]_vars

\* ------------------------------------------------------------ properties ----
TypeOK == /\ seq \in Seq(CellVals) /\ Len(seq) <= Cap
          /\ pfx \in [1 .. 8 -> 0 .. 255] /\ Small(pfx)
          /\ mem \in [1 .. N -> CellVals]

\* the length prefix is the vector's size
PrefixIsSize == Size = Len(seq) /\ pfx = SizeBytesLE(Len(seq), 8)

\* the payload in use is the vector's contents
MatchesVector == Payload = seq

\* guard cells behind the capacity are never written
GuardIntact == \A i \in Cap + 1 .. N : mem[i] = Bg

\* no cell beyond max(old size, new size) is modified
Frame == [][\A i \in 1 .. N : i > Max2(Len(seq), Len(seq')) => mem'[i] = mem[i]]_vars

\* unspecified cells lie between the smaller and the larger of old/new size only
DontCareZone == [][\A i \in last'.dc : i > Min2(Len(seq), Len(seq')) /\ i <= Max2(Len(seq), Len(seq'))]_vars

\* returned iterators designate the vector's positions, stated by content:
\* insert -> first inserted element (pos if nothing was inserted);
\* erase  -> the element that followed the last removed one (end() if none)
InsertOps == {"insert", "insert_n", "insert_range", "insert_ilist"}
Inserted(l) == CASE l.op = "insert" -> <<l.v>>
                 [] l.op = "insert_n" -> Rep(l.n, l.v)
                 [] OTHER -> l.vs
IterPos ==
  [][/\ last'.op \in InsertOps =>
          LET k == Len(Inserted(last')) IN
          /\ ret' \in 0 .. Len(seq)
          /\ SubSeq(seq', 1, ret') = SubSeq(seq, 1, ret')
          /\ SubSeq(seq', ret' + 1, ret' + k) = Inserted(last')
          /\ SubSeq(seq', ret' + k + 1, Len(seq')) = SubSeq(seq, ret' + 1, Len(seq))
          /\ ret' = last'.pos
     /\ last'.op \in {"erase", "erase_range"} =>
          LET k == Len(seq) - Len(seq') IN
          /\ ret' \in 0 .. Len(seq')
          /\ SubSeq(seq', 1, ret') = SubSeq(seq, 1, ret')
          /\ SubSeq(seq', ret' + 1, Len(seq')) = SubSeq(seq, ret' + k + 1, Len(seq))
          /\ ret' = last'.pos
     /\ last'.op \notin InsertOps \cup {"erase", "erase_range"} => ret' = -1]_vars

\* ------------------------------------------------------- vector emission ----
\* prefix wire images for every length width and byte order, computed here so
\* that the harness never encodes or decodes an expected value itself
PfxImages(d) == [w1 |-> [le |-> WireOf(d, 1, "le"), be |-> WireOf(d, 1, "be")],
                 w2 |-> [le |-> WireOf(d, 2, "le"), be |-> WireOf(d, 2, "be")],
                 w4 |-> [le |-> WireOf(d, 4, "le"), be |-> WireOf(d, 4, "be")],
                 w8 |-> [le |-> WireOf(d, 8, "le"), be |-> WireOf(d, 8, "be")]]

DCMark == -1
Vector ==
  [cap  |-> Cap, g |-> G,
   pre  |-> [size |-> Len(seq), seq |-> seq, pfx |-> PfxImages(pfx), mem |-> mem],
   act  |-> [op |-> last'.op, pos |-> last'.pos, pos2 |-> last'.pos2, n |-> last'.n, v |-> last'.v, vs |-> last'.vs],
   post |-> [size |-> Len(seq'),
             seq |-> [i \in 1 .. Len(seq') |-> IF i \in last'.dc THEN DCMark ELSE seq'[i]],
             pfx |-> PfxImages(pfx'),
             mem |-> [i \in 1 .. N |-> IF i \in last'.dc THEN DCMark ELSE mem'[i]]],
   ret  |-> ret']

\* ACTION_CONSTRAINT: one record per (pre-state, call); of the outcomes that
\* differ only in unspecified cells the one with background values prints.
Emit == IF \A i \in last'.dc : mem'[i] = Bg THEN PrintT(ToJson(Vector)) ELSE TRUE
=============================================================================
