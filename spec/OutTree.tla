------------------------------ MODULE OutTree ------------------------------
(* The documented result of a successful sbeppc run (doc/sbeppc.md) as a    *)
(* function of the schema's names and the command line:                     *)
(*                                                                          *)
(*   <out>/<name>/<name>.hpp            "contains everything"               *)
(*   <out>/<name>/schema/schema.hpp     tags; --inject-include PATH puts    *)
(*                                      #include "PATH" at its top          *)
(*   <out>/<name>/types/<type>.hpp      one file per public type            *)
(*   <out>/<name>/messages/<msg>.hpp    one file per message                *)
(*                                                                          *)
(* <name> is --schema-name, else messageSchema.package.  `schema`, `types`  *)
(* and `messages` are fixed names; files carry the unmodified entity name.  *)
(*                                                                          *)
(* Sbeppc.tla takes the emission plan of a run as given (it is recorded     *)
(* from a fault-free run); this module says what the plan has to produce,   *)
(* so "exit 0 => every generated file was written completely" (C20) has an  *)
(* independent meaning of "every generated file".  The machine steps        *)
(* through the observed runs; the invariants compare each with the tree     *)
(* the schema defines.  Python supplies names and observations only.        *)
EXTENDS Naturals, Sequences, FiniteSets, TLC, Json

CONSTANT Runs   \* sequence of [id, name, types, msgs, inject, files, dirs, top, sch]
                \*   types, msgs : sequences of entity names (schema order)
                \*   inject      : sequence of --inject-include paths (command-line order)
                \*   files, dirs : sets of paths relative to the output directory
                \*   top, sch    : sequences of the #include "..." paths of <name>.hpp / schema/schema.hpp

VARIABLE i
vars == <<i>>

Range(s) == {s[k] : k \in 1 .. Len(s)}

Dirs(r)  == {r.name, r.name \o "/schema", r.name \o "/types", r.name \o "/messages"}
TypeFile(r, t) == r.name \o "/types/" \o t \o ".hpp"
MsgFile(r, m)  == r.name \o "/messages/" \o m \o ".hpp"
Files(r) == {r.name \o "/" \o r.name \o ".hpp", r.name \o "/schema/schema.hpp"}
            \cup {TypeFile(r, t) : t \in Range(r.types)}
            \cup {MsgFile(r, m) : m \in Range(r.msgs)}
\* "contains everything": the tags, every public type, every message
Everything(r) == {"schema/schema.hpp"} \cup {"types/" \o t \o ".hpp" : t \in Range(r.types)}
                 \cup {"messages/" \o m \o ".hpp" : m \in Range(r.msgs)}

TreeExact(r)   == r.files = Files(r) /\ r.dirs = Dirs(r)
TopComplete(r) == Range(r.top) = Everything(r)
\* injected includes come first in schema/schema.hpp, in command-line order
InjectFirst(r) == Len(r.sch) >= Len(r.inject) /\ SubSeq(r.sch, 1, Len(r.inject)) = r.inject

Init == i = 1
Next == i < Len(Runs) /\ i' = i + 1
Spec == Init /\ [][Next]_vars

TreeIsDocumented   == i <= Len(Runs) => TreeExact(Runs[i])
TopHasEverything   == i <= Len(Runs) => TopComplete(Runs[i])
InjectedComesFirst == i <= Len(Runs) => InjectFirst(Runs[i])

\* one record per run: what the schema defines and how the observation differs
EmitTree ==
  i > Len(Runs) \/
  LET r == Runs[i]
  IN PrintT(ToJson([kind |-> "outtree", id |-> r.id, expected |-> Cardinality(Files(r)),
                    missing |-> Files(r) \ r.files, extra |-> r.files \ Files(r),
                    dirs_missing |-> Dirs(r) \ r.dirs, dirs_extra |-> r.dirs \ Dirs(r),
                    top_missing |-> Everything(r) \ Range(r.top), top_extra |-> Range(r.top) \ Everything(r),
                    inject_ok |-> InjectFirst(r)]))
=============================================================================
