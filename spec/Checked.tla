------------------------------ MODULE Checked ------------------------------
(* C10 - checked builds never touch memory outside the view silently.       *)
(*                                                                         *)
(* A state is (image, n): a buffer holding the wire image of an abstract    *)
(* message - optionally with ONE header value overwritten by a hostile one  *)
(* (blockLength / numInGroup / length) - and a view [V0, V0+n) bound to it.  *)
(* For every operation op of the public API that can be applied to the view *)
(* or to views derived from it the spec defines, *operationally* (only from *)
(* bytes read in the buffer, as the library navigates, cf. View.tla):       *)
(*                                                                         *)
(*   Touched(op)  the bytes the *observable result* of op depends on (values  *)
(*                returned, addresses of returned views, final cursor        *)
(*                position) and the bytes it is documented to write, in      *)
(*                program order, each tagged with the start of the view (or  *)
(*                the cursor) through which the access is made.  A byte the  *)
(*                implementation happens to read for a check of its own is   *)
(*                NOT in Touched (it may be in Req).                         *)
(*   Req(op)      the extent the documentation makes the caller responsible *)
(*                for (DESIGN.md Appendix B; generous where the docs are    *)
(*                silent: a whole header composite, a whole fixed array or  *)
(*                composite that is obtained, prefix + max(old,new) size of *)
(*                a <data>, whole entries an iterator steps over, everything *)
(*                a cursor position check re-derives)                       *)
(*   Pre(op)      the documented precondition on the arguments (only calls   *)
(*                with Pre are generated, apart from those whose Pre depends *)
(*                on a hostile header)                                       *)
(*                                                                         *)
(* and the outcome relation                                                 *)
(*   Touched not within [V0,V0+n)          => must_assert                   *)
(*   Req within [V0,V0+n) /\ Pre           => must_ok                       *)
(*   otherwise                             => either   (docs are silent)    *)
(* Whatever the outcome, an access outside [V0,V0+n) without the handler is  *)
(* a violation; that is observed by the harness (guard pages), not stated    *)
(* here.  BeyondEnd labels the vectors in which some view of the call chain  *)
(* (or the cursor) starts beyond V0+n (DESIGN.md 6 #11).                     *)
(*                                                                         *)
(* An operation here is the whole C++ expression the harness evaluates:     *)
(* navigation from the message view to the receiver (accessors, begin(),    *)
(* iterator ++, dereference) followed by the call; its footprint is the    *)
(* union.                                                                  *)
(*                                                                         *)
(* Reads outside the modelled region yield 0 and end the walk ("dead": a    *)
(* touch beyond the region is beyond every view, the outcome is decided).   *)
(* Values are capped at Big; an operation whose addresses depend on a       *)
(* capped value or lie more than Big bytes away is flagged `far` (the       *)
(* harness cannot put a guard page there) and is not replayed.              *)
EXTENDS View

CONSTANTS AllN,      \* TRUE: every n in 0..full; FALSE: boundary sample
          HvMod,     \* hostile variants: those with index % HvMod = HvRem
          HvRem,     \*   (HvMod = 0: none)
          CursorOps  \* TRUE: include the cursor forms

VARIABLES hv,        \* hostile overwrite [what, at, w, val, orig] ("none": pristine)
          hvi,       \* its index (0 = pristine)
          n,         \* view length
          ctab       \* ghost: the operation table of this image (n-independent)

kvars == <<sh, mode, buf, pc, last, memo, hv, hvi, n, ctab>>
kview == <<sh, hvi, n>>     \* the ghost table is a function of (sh, hvi)

Big == 1000000
Max2(x, y) == IF x > y THEN x ELSE y

----------------------------------------------------------------------------
(* Walks: footprint accumulation *)
\* tr: touches <<lo, hi, base>> in program order; rq: required extents <<lo, hi>>
W0 == [tr |-> <<>>, rq |-> <<>>, dead |-> FALSE, far |-> FALSE]
\* the touches of w with the required extents of w2 (a walk that continues w)
ReqFrom(w, w2) == [tr |-> w.tr, rq |-> w2.rq, dead |-> w.dead, far |-> w.far \/ w2.far]

\* an access of len bytes at `at` through a view (cursor) starting at base,
\* for which the documentation makes the caller provide [rlo, rhi)
Acc(b, w, at, len, base, rlo, rhi) ==
  IF w.dead THEN w
  ELSE [tr |-> IF len > 0 THEN Append(w.tr, <<at, at + len, base>>) ELSE w.tr,
        rq |-> IF rhi > rlo THEN Append(w.rq, <<rlo, rhi>>) ELSE w.rq,
        dead |-> len > 0 /\ at + len > Len(b),
        far |-> w.far \/ (len > 0 /\ at + len > V0 + Big)]
ReqOnly(b, w, rlo, rhi) == Acc(b, w, 0, 0, 0, rlo, rhi)

\* value of the len-byte number at `at`: 0 outside the region, capped at Big
Val(b, at, len) ==
  IF at < 0 \/ at + len > Len(b) THEN 0
  ELSE LET d == UnWire(Slice(b, at, len))
       IN IF \A k \in 1 .. Len(d) : k > 3 => d[k] = 0
          THEN (LET x == ToNatFrom(d, 1) IN IF x > Big THEN Big ELSE x)
          ELSE Big
MulC(x, y) == IF x = 0 \/ y = 0 THEN 0
              ELSE IF x >= Big \/ y >= Big THEN Big
              ELSE IF x > Big \div y THEN Big ELSE x * y

RdW(b, w, at, len, base, rlo, rhi) ==
  IF w.dead THEN [w |-> w, v |-> 0]
  ELSE LET x == Val(b, at, len)
           w1 == Acc(b, w, at, len, base, rlo, rhi)
       IN [w |-> [w1 EXCEPT !.far = @ \/ x >= Big], v |-> x]

NG(li) == Len(LDef[li].groups)
ND(li) == Len(LDef[li].data)

RootBL(b, w) == RdW(b, w, V0 + HBlOff, HBlW, V0, V0, V0 + HSize)
DimBL(b, w, gli, ga) == RdW(b, w, ga + LDimOff[gli][1], LDimW[gli][1], ga, ga, ga + LDimSize[gli])
DimN(b, w, gli, ga) == RdW(b, w, ga + LDimOff[gli][2], LDimW[gli][2], ga, ga, ga + LDimSize[gli])
Prefix(b, w, li, d, da, base) == RdW(b, w, da, LLenW[li][d], base, da, da + LLenW[li][d])

\* size computations as the library performs them: every header / prefix on
\* the way is read; stepping over an entry of a nested group requires it whole
RECURSIVE WLevelEnd(_, _, _, _, _), WGroupEnd(_, _, _, _), WEntries(_, _, _, _, _, _),
          WGroups(_, _, _, _, _, _), WDatas(_, _, _, _, _, _)
WGroups(b, w, li, g, upto, pos) ==
  IF g > upto \/ w.dead THEN [w |-> w, e |-> pos]
  ELSE LET r == WGroupEnd(b, w, LChild[li][g], pos)
       IN WGroups(b, r.w, li, g + 1, upto, r.e)
WDatas(b, w, li, d, upto, pos) ==
  IF d > upto \/ w.dead THEN [w |-> w, e |-> pos]
  ELSE LET r == Prefix(b, w, li, d, pos, pos)
       IN WDatas(b, r.w, li, d + 1, upto, pos + LLenW[li][d] + r.v)
WGroupEnd(b, w, gli, ga) ==
  LET r1 == DimBL(b, w, gli, ga)
      r2 == DimN(b, r1.w, gli, ga)
  IN IF IsFlat(LDef[gli])
     THEN LET p == MulC(r2.v, r1.v)
          IN [w |-> [r2.w EXCEPT !.far = @ \/ p >= Big], e |-> ga + LDimSize[gli] + p]
     ELSE WEntries(b, r2.w, gli, ga + LDimSize[gli], r1.v, r2.v)
WEntries(b, w, gli, ea, bl, k) ==
  IF k = 0 \/ w.dead THEN [w |-> w, e |-> ea]
  ELSE LET r == WLevelEnd(b, w, gli, ea, bl)
       IN WEntries(b, ReqOnly(b, r.w, ea, r.e), gli, r.e, bl, k - 1)
WLevelEnd(b, w, li, a, bl) ==
  LET rg == WGroups(b, w, li, 1, NG(li), a + bl)
  IN WDatas(b, rg.w, li, 1, ND(li), rg.e)

\* k iterator increments starting at entry address ea
RECURSIVE NavSteps(_, _, _, _, _, _)
NavSteps(b, w, gli, ea, bl, k) ==
  IF k = 0 \/ w.dead THEN [w |-> w, e |-> ea]
  ELSE IF IsFlat(LDef[gli])
       THEN NavSteps(b, ReqOnly(b, w, ea, ea + bl), gli, ea + bl, bl, k - 1)
       ELSE LET r == WLevelEnd(b, w, gli, ea, bl)
            IN NavSteps(b, ReqOnly(b, r.w, ea, r.e), gli, r.e, bl, k - 1)

\* the level instance (li, ip) as the harness reaches it:
\*   m.g1() -> begin(), ++ (ip[1]-1 times), deref -> .g2() -> ...
\* [w, a (block start), bl (wire block length carried by an entry), base, ga]
RECURSIVE NavInst(_, _, _)
\* the wire block length of a level: the message reads it from its header, an
\* entry carries the value its group's begin() read from the dimension header -
\* the footprint records that read where the value is first *used* (a result
\* that does not depend on it does not depend on those bytes)
LevelBLW(b, w, li, inst) == IF li = 1 THEN RootBL(b, w) ELSE DimBL(b, w, li, inst.ga)
NavInst(b, li, ip) ==
  IF li = 1 THEN [w |-> W0, a |-> V0 + HSize, bl |-> -1, base |-> V0, ga |-> -1]
  ELSE LET p == NavInst(b, LParent[li], Front(ip))
           pbl == LevelBLW(b, p.w, LParent[li], p)
           rg == WGroups(b, pbl.w, LParent[li], 1, LOrd[li] - 1, p.a + pbl.v)
           \* begin(): the dimension header as a whole is required; its
           \* blockLength matters from the first increment on
           w0 == ReqOnly(b, rg.w, rg.e, rg.e + LDimSize[li])
           hb == IF Last(ip) > 1 THEN DimBL(b, w0, li, rg.e)
                 ELSE [w |-> w0, v |-> IF w0.dead THEN 0 ELSE Val(b, rg.e + LDimOff[li][1], LDimW[li][1])]
           st == NavSteps(b, hb.w, li, rg.e + LDimSize[li], hb.v, Last(ip) - 1)
       IN [w |-> st.w, a |-> st.e, bl |-> hb.v, base |-> st.e, ga |-> rg.e]

\* the g-th group / d-th data of instance inst of level li (random access)
GroupAt(b, li, inst, g) ==
  LET pbl == LevelBLW(b, inst.w, li, inst)
      rg == WGroups(b, pbl.w, li, 1, g - 1, inst.a + pbl.v)
  IN [w |-> rg.w, ga |-> rg.e]
DataAt(b, li, inst, d) ==
  LET pbl == LevelBLW(b, inst.w, li, inst)
      rg == WGroups(b, pbl.w, li, 1, NG(li), inst.a + pbl.v)
      rd == WDatas(b, rg.w, li, 1, d - 1, rg.e)
  IN [w |-> rd.w, da |-> rd.e]

\* sbepp::visit(message): the in-order traversal of everything with one plain
\* cursor (fields through the cursor accessors, groups through cursor ranges -
\* entries constructed from the cursor -, data through the cursor accessor)
IsEmptyEntry(li) == Len(LFields[li]) = 0 /\ NG(li) = 0 /\ ND(li) = 0
MaxVisit == 64
RECURSIVE WVisitLevel(_, _, _, _, _), WVisitFields(_, _, _, _, _), WVisitGroups(_, _, _, _, _, _),
          WVisitEntries(_, _, _, _, _, _), WVisitDatas(_, _, _, _, _, _)
WVisitFields(b, w, li, a, k) ==
  IF k > Len(LFields[li]) \/ w.dead THEN w
  ELSE LET f == LFields[li][k]
           fs == a + f.off
           req == IF k = 1 THEN a ELSE a + LFields[li][k - 1].off + LFields[li][k - 1].size
       IN WVisitFields(b, IF f.kind = "scalar" THEN Acc(b, w, fs, f.size, req, fs, fs + f.size)
                          ELSE ReqOnly(b, w, fs, fs + f.size), li, a, k + 1)
\* bl: carried wire block length of an entry; -1 for the message (read from its header)
WVisitLevel(b, w, li, a, bl) ==
  LET wf == WVisitFields(b, w, li, a, 1)
      \* a message always needs its wire blockLength: the last field, the first group /
      \* data member or - without any such member - the visit itself moves the cursor to
      \* the end of the block (C19: a complete visit ends at the end of the view)
      rb == IF bl < 0 THEN RootBL(b, wf) ELSE [w |-> wf, v |-> bl]
      rg == WVisitGroups(b, rb.w, li, a, 1, a + rb.v)
  IN WVisitDatas(b, rg.w, li, a, 1, rg.e)
WVisitGroups(b, w, li, a, g, pos) ==
  IF g > NG(li) \/ w.dead THEN [w |-> w, e |-> pos]
  ELSE LET gli == LChild[li][g]
           w0 == ReqOnly(b, ReqOnly(b, w, a, pos), pos, pos + LDimSize[gli])
           r1 == DimBL(b, w0, gli, pos)
           r2 == DimN(b, r1.w, gli, pos)
           re == IF IsEmptyEntry(gli)
                 THEN LET sz == MulC(r2.v, r1.v)
                      IN [w |-> ReqOnly(b, [r2.w EXCEPT !.far = @ \/ sz >= Big], pos + LDimSize[gli], pos + LDimSize[gli] + sz),
                          e |-> pos + LDimSize[gli] + sz]
                 ELSE IF r2.v > MaxVisit THEN [w |-> [r2.w EXCEPT !.far = TRUE, !.dead = TRUE], e |-> pos]
                 ELSE WVisitEntries(b, r2.w, gli, pos + LDimSize[gli], r1.v, r2.v)
       IN WVisitGroups(b, re.w, li, a, g + 1, re.e)
WVisitEntries(b, w, gli, ea, bl, k) ==
  IF k = 0 \/ w.dead THEN [w |-> w, e |-> ea]
  ELSE LET r == WVisitLevel(b, w, gli, ea, bl)
       IN WVisitEntries(b, r.w, gli, r.e, bl, k - 1)
WVisitDatas(b, w, li, a, d, pos) ==
  IF d > ND(li) \/ w.dead THEN [w |-> w, e |-> pos]
  ELSE LET r == Prefix(b, ReqOnly(b, w, a, pos), li, d, pos, pos)
       IN WVisitDatas(b, r.w, li, a, d + 1, pos + LLenW[li][d] + r.v)

----------------------------------------------------------------------------
(* Operations *)
\* recv: start of the view (or the cursor position) the final call is made on
Mk(cls, kind, li, ip, name, args, val, w, pre, grow, recv) ==
  [cls |-> cls, kind |-> kind, level |-> LV[li].path, ip |-> ip, name |-> name,
   a |-> args, v |-> val, tr |-> w.tr, rq |-> w.rq, pre |-> pre, grow |-> grow,
   far |-> w.far, dead |-> w.dead, recv |-> recv]

PatBytes(k) == [j \in 1 .. k |-> (90 + 13 * j) % 256]
Elem == 90
OvBytes(k) == [j \in 1 .. k |-> 65 + (j % 26)]     \* no NUL: a string of exactly k characters

\* ---- scalar / array leaves, field views, arrays
LeafOps(b, li, ip, inst) ==
  LET leaves == LLeaves[li]
  IN ConcatAll([k \in 1 .. Len(leaves) |->
       LET lf == leaves[k]
           at == inst.a + lf.off
           sz == lf.w * lf.n
           w == Acc(b, inst.w, at, sz, inst.base, at, at + sz)
       IN <<Mk("leaf-get", "leaf_get", li, ip, lf.path, <<>>, <<>>, w, TRUE, FALSE, inst.base),
            Mk("leaf-set", "leaf_set", li, ip, lf.path, <<>>, PatBytes(sz), w, TRUE, FALSE, inst.base)>>])

FieldViewOps(b, li, ip, inst) ==
  LET fs == LFields[li]
  IN ConcatAll([k \in 1 .. Len(fs) |->
       IF fs[k].kind # "view" THEN <<>>
       ELSE LET at == inst.a + fs[k].off
                w == ReqOnly(b, inst.w, at, at + fs[k].size)
            IN <<Mk("view-obtain", "fview", li, ip, <<fs[k].name>>, <<>>, <<>>, w, TRUE, FALSE, inst.base),
                 Mk("size-bytes", "fview_size", li, ip, <<fs[k].name>>, <<>>, <<>>, w, TRUE, FALSE, inst.base)>>])

\* index (0-based) of the first zero element, N if none; of the last non-zero, -1 if none
FirstNul(b, at, N) == IF \E i \in 0 .. N - 1 : b[at + i + 1] = 0
                      THEN CHOOSE i \in 0 .. N - 1 : b[at + i + 1] = 0 /\ \A j \in 0 .. i - 1 : b[at + j + 1] # 0
                      ELSE N
LastNonNul(b, at, N) == IF \E i \in 0 .. N - 1 : b[at + i + 1] # 0
                        THEN CHOOSE i \in 0 .. N - 1 : b[at + i + 1] # 0 /\ \A j \in i + 1 .. N - 1 : b[at + j + 1] = 0
                        ELSE -1

\* pfx: "arr_" (the array view itself) or "rarr_" (the byte-typed view arr.raw():
\* obtaining it touches nothing and it must inherit the end of the buffer)
ArrayOpsVia(b, li, ip, inst, pfx, cls) ==
  LET leaves == LLeaves[li]
  IN ConcatAll([k \in 1 .. Len(leaves) |->
       LET lf == leaves[k]
           at == inst.a + lf.off
           N == lf.n
           A(lo, len) == Acc(b, inst.w, at + lo, len, inst.base, at, at + N)
           inreg == at + N <= Len(b) /\ ~inst.w.dead
           O(kind, args, val, w) == Mk(cls, pfx \o kind, li, ip, lf.path, args, val, w, TRUE, FALSE, at)
       IN IF lf.kind # "array" \/ lf.w # 1 \/ N = 0 THEN <<>>
          ELSE <<O("at", <<0>>, <<>>, A(0, 1)),
                 O("at", <<N - 1>>, <<>>, A(N - 1, 1)),
                 O("front", <<>>, <<>>, A(0, 1)),
                 O("back", <<>>, <<>>, A(N - 1, 1)),
                 O("data", <<>>, <<>>, A(0, 0)),
                 O("size_bytes", <<>>, <<>>, A(0, 0)),
                 O("fill", <<Elem>>, <<>>, A(0, N)),
                 O("assign_n", <<0, Elem>>, <<>>, A(0, 0)),
                 O("assign_n", <<1, Elem>>, <<>>, A(0, 1)),
                 O("assign_n", <<N, Elem>>, <<>>, A(0, N)),
                 O("assign_str", <<>>, PatBytes(1), A(0, N)),
                 O("assign_str", <<>>, PatBytes(N), A(0, N)),
                 O("assign_range", <<>>, PatBytes(1), A(0, 1)),
                 O("assign_range", <<>>, PatBytes(N), A(0, N))>>
               \o (IF inreg
                   THEN <<O("strlen", <<>>, <<>>,
                            A(0, IF FirstNul(b, at, N) = N THEN N ELSE FirstNul(b, at, N) + 1)),
                          O("strlen_r", <<>>, <<>>,
                            LET j == LastNonNul(b, at, N)
                            IN IF j < 0 THEN A(0, N) ELSE A(j, N - j))>>
                   ELSE <<>>)])
ArrayOps(b, li, ip, inst) ==
  ArrayOpsVia(b, li, ip, inst, "arr_", "array") \o ArrayOpsVia(b, li, ip, inst, "rarr_", "array-raw")

\* ---- level views
LevelOps(b, li, ip, inst) ==
  LET bl == LevelBLW(b, inst.w, li, inst)
      e == WLevelEnd(b, bl.w, li, inst.a, bl.v)
      \* a message without groups and data: size = header + blockLength
  IN <<Mk("view-obtain", "lv_addr", li, ip, <<>>, <<>>, <<>>, inst.w, TRUE, FALSE, inst.base),
       Mk("size-bytes", "lv_size", li, ip, <<>>, <<>>, <<>>, e.w, TRUE, FALSE, inst.base)>>

HdrMember(b, w, name) ==
  IF HasMember(Header, name)
  THEN Acc(b, w, V0 + CompMemberOff(Header, name), CompMemberW(Header, name), V0, V0, V0 + HSize)
  ELSE w
MessageOps(b) ==
  LET O(kind, w) == Mk("header", kind, 1, <<>>, <<>>, <<>>, <<>>, w, TRUE, FALSE, V0)
  IN <<O("m_hdr", ReqOnly(b, W0, V0, V0 + HSize)),
       O("m_hdr_bl", RootBL(b, W0).w),
       O("m_fill_hdr", HdrMember(b, HdrMember(b, HdrMember(b, HdrMember(b, W0, "schemaId"), "templateId"), "version"), "blockLength")),
       Mk("visit", "m_visit", 1, <<>>, <<>>, <<>>, <<>>, WVisitLevel(b, W0, 1, V0 + HSize, -1).w, TRUE, FALSE, V0)>>

\* ---- groups: the g-th group of instance inst
GroupOps(b, li, ip, inst, g) ==
  LET gli == LChild[li][g]
      G == GroupAt(b, li, inst, g)
      ga == G.ga
      flat == IsFlat(LDef[gli])
      name == <<LDef[gli].name>>
      N == Val(b, ga + LDimOff[gli][2], LDimW[gli][2])
      BLv == Val(b, ga + LDimOff[gli][1], LDimW[gli][1])
      first == ga + LDimSize[gli]
      rb == DimBL(b, G.w, gli, ga)
      rn == DimN(b, G.w, gli, ga)
      rbn == DimN(b, rb.w, gli, ga)
      wdim == ReqOnly(b, G.w, ga, ga + LDimSize[gli])
      O(cls, kind, args, w, pre) == Mk(cls, kind, li, ip, name, args, <<>>, w, pre, FALSE, ga)
  IN <<O("view-obtain", "g_addr", <<>>, G.w, TRUE),
       O("header", "g_hdr", <<>>, wdim, TRUE),
       O("header", "g_hdr_bl", <<>>, rb.w, TRUE),
       O("header", "g_fill", <<1>>, DimN(b, DimBL(b, G.w, gli, ga).w, gli, ga).w, TRUE),
       O("group", "g_size", <<>>, rn.w, TRUE),
       O("group", "g_empty", <<>>, rn.w, TRUE),
       O("group", "g_resize", <<1>>, rn.w, TRUE),
       O("group", "g_clear", <<>>, rn.w, TRUE),
       O("size-bytes", "g_size_bytes", <<>>, WGroupEnd(b, G.w, gli, ga).w, TRUE),
       O("group", "g_begin", <<>>, wdim, TRUE),
       O("group", "g_end", <<>>, IF flat THEN rbn.w ELSE rn.w, TRUE)>>
     \o (IF N >= 1 /\ N < Big THEN <<O("group", "g_front", <<>>, wdim, TRUE)>> ELSE <<>>)
     \o (IF flat /\ N >= 1 /\ N < Big
         THEN <<O("group", "g_back", <<>>, rbn.w, TRUE),
                O("group", "g_at", <<0>>, rb.w, TRUE),
                O("group", "g_at", <<N - 1>>, rb.w, TRUE),
                O("iterator", "g_inc", <<0>>, ReqOnly(b, rb.w, first, first + BLv), TRUE),
                O("iterator", "g_inc", <<N - 1>>,
                  ReqOnly(b, rb.w, first + MulC(N - 1, BLv), first + MulC(N - 1, BLv) + BLv), TRUE),
                O("iterator", "g_dec", <<N>>, rbn.w, TRUE)>>
         ELSE <<>>)
     \o (IF ~flat /\ N < Big
         THEN \* for(e : g) use(addressof(e)): the addresses of entries 2..N depend on the
              \* sizes of entries 1..N-1; stepping over the last one is only required
              <<O("iterator", "g_walk", <<>>,
                  LET w1 == IF N >= 2 THEN rbn.w ELSE ReqOnly(b, rn.w, ga, ga + LDimSize[gli])
                  IN ReqFrom(NavSteps(b, w1, gli, first, BLv, IF N >= 1 THEN N - 1 ELSE 0).w,
                             NavSteps(b, w1, gli, first, BLv, N).w), TRUE)>>
         ELSE <<>>)

\* ---- data: the d-th <data> of instance inst
DataOps(b, li, ip, inst, d) ==
  LET D == DataAt(b, li, inst, d)
      da == D.da
      lw == LLenW[li][d]
      sz == Val(b, da, lw)
      name == <<LDef[li].data[d].name>>
      el == da + lw
      Whole(w, k) == ReqOnly(b, w, da, el + k)                  \* prefix + k elements required
      P(w) == Acc(b, w, da, lw, da, da, da + lw)                \* prefix read / written
      E(w, lo, len) == Acc(b, w, el + lo, len, da, el + lo, el + lo + len)
      O(kind, args, val, w, pre, grow) == Mk("data", kind, li, ip, name, args, val, w, pre, grow, da)
      Mut(kind, args, val, w, new) == O(kind, args, val, Whole(w, Max2(sz, new)), TRUE, new > sz)
      ks == {0, sz, sz + 1, sz + 3}
      maxlen == IF lw = 1 THEN 255 ELSE IF lw = 2 THEN 65535 ELSE Big
      \* growing a full array is not a call the documentation describes
      Grow(kind, args, val, w, new) == O(kind, args, val, Whole(w, new), sz < maxlen, TRUE)
  IN IF sz >= 250
     THEN \* long content (a hostile length, possibly the maximum of the length type):
          \* the calls at the far edge, where size() + 1 does not fit size_type
          <<Mk("view-obtain", "d_addr", li, ip, name, <<>>, <<>>, D.w, TRUE, FALSE, da),
            Mk("size-bytes", "d_size_bytes", li, ip, name, <<>>, <<>>, P(D.w), TRUE, FALSE, da),
            O("d_size", <<>>, <<>>, P(D.w), TRUE, FALSE)>>
          \* beyond Big (the maxima of 32 / 64-bit prefixes): element access whose address
          \* does not depend on the size - prefix + size() is beyond every view, so an
          \* element outside the view must be reported (prefix + size() must not wrap)
          \o (IF sz >= Big
              THEN <<O("d_at", <<0>>, <<>>, Whole(E(D.w, 0, 1), sz), TRUE, FALSE),
                     O("d_at", <<50>>, <<>>, Whole(E(D.w, 50, 1), sz), TRUE, FALSE),
                     O("d_front", <<>>, <<>>, Whole(E(D.w, 0, 1), sz), TRUE, FALSE),
                     O("d_data", <<>>, <<>>, Whole(D.w, sz), TRUE, FALSE)>>
              ELSE <<O("d_at", <<sz - 1>>, <<>>, Whole(E(D.w, sz - 1, 1), sz), TRUE, FALSE),
                     O("d_front", <<>>, <<>>, Whole(E(D.w, 0, 1), sz), TRUE, FALSE),
                     O("d_back", <<>>, <<>>, Whole(E(P(D.w), sz - 1, 1), sz), TRUE, FALSE),
                     O("d_pop_back", <<>>, <<>>, Whole(P(D.w), sz), TRUE, FALSE),
                     O("d_clear", <<>>, <<>>, Whole(P(D.w), sz), TRUE, FALSE),
                     O("d_resize_di", <<sz - 1>>, <<>>, Whole(P(D.w), sz), TRUE, FALSE),
                     Grow("d_push_back", <<Elem>>, <<>>, E(P(D.w), sz, 1), sz + 1),
                     Grow("d_insert", <<sz, Elem>>, <<>>, E(P(D.w), sz, 1), sz + 1),
                     Grow("d_insert", <<0, Elem>>, <<>>, E(P(D.w), 0, sz + 1), sz + 1),
                     Grow("d_insert_n", <<sz, 2, Elem>>, <<>>, E(P(D.w), sz, 2), sz + 2),
                     Grow("d_insert_range", <<sz>>, PatBytes(2), E(P(D.w), sz, 2), sz + 2),
                     Grow("d_insert_ilist", <<sz>>, PatBytes(2), E(P(D.w), sz, 2), sz + 2)>>)
     ELSE
     <<Mk("view-obtain", "d_addr", li, ip, name, <<>>, <<>>, D.w, TRUE, FALSE, da),
       Mk("size-bytes", "d_size_bytes", li, ip, name, <<>>, <<>>, P(D.w), TRUE, FALSE, da),
       O("d_size", <<>>, <<>>, P(D.w), TRUE, FALSE),
       O("d_get", <<>>, <<>>, Whole(E(P(D.w), 0, sz), sz), TRUE, FALSE),
       O("d_data", <<>>, <<>>, Whole(D.w, sz), TRUE, FALSE),
       O("d_clear", <<>>, <<>>, Whole(P(D.w), sz), TRUE, FALSE),
       Mut("d_push_back", <<Elem>>, <<>>, E(P(D.w), sz, 1), sz + 1)>>
     \o (IF sz >= 1
         THEN <<O("d_at", <<0>>, <<>>, Whole(E(D.w, 0, 1), sz), TRUE, FALSE),
                O("d_at", <<sz - 1>>, <<>>, Whole(E(D.w, sz - 1, 1), sz), TRUE, FALSE),
                O("d_front", <<>>, <<>>, Whole(E(D.w, 0, 1), sz), TRUE, FALSE),
                O("d_back", <<>>, <<>>, Whole(E(P(D.w), sz - 1, 1), sz), TRUE, FALSE),
                O("d_pop_back", <<>>, <<>>, Whole(P(D.w), sz), TRUE, FALSE),
                \* erase(pos): [pos+1, sz) moves down by one
                O("d_erase", <<0>>, <<>>, Whole(IF sz >= 2 THEN E(P(D.w), 0, sz) ELSE P(D.w), sz), TRUE, FALSE),
                O("d_erase", <<sz - 1>>, <<>>, Whole(P(D.w), sz), TRUE, FALSE),
                \* erase(first, last): [last, sz) moves to first
                O("d_erase_range", <<0, sz>>, <<>>, Whole(P(D.w), sz), TRUE, FALSE)>>
              \o (IF sz >= 2
                  THEN <<O("d_erase_range", <<0, 1>>, <<>>, Whole(E(P(D.w), 0, sz), sz), TRUE, FALSE),
                         O("d_erase_range", <<1, sz>>, <<>>, Whole(P(D.w), sz), TRUE, FALSE)>>
                  ELSE <<>>)
         ELSE <<>>)
     \o ConcatAll([c \in 1 .. 4 |->
          LET k == CASE c = 1 -> 0 [] c = 2 -> sz [] c = 3 -> sz + 1 [] OTHER -> sz + 3
          IN IF c = 2 /\ sz = 0 THEN <<>>
             ELSE <<Mut("d_resize", <<k>>, <<>>, IF k > sz THEN E(P(D.w), sz, k - sz) ELSE P(D.w), k),
                    Mut("d_resize_v", <<k, Elem>>, <<>>, IF k > sz THEN E(P(D.w), sz, k - sz) ELSE P(D.w), k),
                    Mut("d_resize_di", <<k>>, <<>>, P(D.w), k),
                    Mut("d_assign_n", <<k, Elem>>, <<>>, E(P(D.w), 0, k), k),
                    Mut("d_assign_range", <<>>, PatBytes(k), E(P(D.w), 0, k), k),
                    Mut("d_assign_it", <<>>, PatBytes(k), E(P(D.w), 0, k), k),
                    Mut("d_assign_str", <<>>, PatBytes(k), E(P(D.w), 0, k), k)>>
                  \o (IF k <= 3 THEN <<Mut("d_assign_ilist", <<>>, PatBytes(k), E(P(D.w), 0, k), k)>> ELSE <<>>)])
     \o ConcatAll([c \in 1 .. 3 |->
          LET pos == CASE c = 1 -> 0 [] c = 2 -> sz [] OTHER -> 1
          IN IF (c = 2 /\ sz = 0) \/ (c = 3 /\ sz < 2) THEN <<>>
             ELSE \* insert: [pos, sz) moves up by k, then k elements are written at pos
                  <<Mut("d_insert", <<pos, Elem>>, <<>>, E(P(D.w), pos, sz + 1 - pos), sz + 1),
                    Mut("d_insert_n", <<pos, 2, Elem>>, <<>>, E(P(D.w), pos, sz + 2 - pos), sz + 2),
                    Mut("d_insert_range", <<pos>>, PatBytes(2), E(P(D.w), pos, sz + 2 - pos), sz + 2),
                    Mut("d_insert_ilist", <<pos>>, PatBytes(2), E(P(D.w), pos, sz + 2 - pos), sz + 2)>>])
     \* more elements than the length type can count (uint8 lengths: the new size
     \* wraps in size_type).  Not a call the documentation describes (pre = FALSE),
     \* so the handler may or may not be invoked - but what such a call is documented
     \* to write ends beyond any view that cannot hold 256 elements, and a checked
     \* build must not write there silently.
     \o (IF lw = 1 /\ sz >= 1
         THEN LET c == 256 - sz
                  W(lo) == Whole(E(P(D.w), lo, 256 - lo), 256)
              IN <<O("d_insert_n", <<sz, c, Elem>>, <<>>, W(sz), FALSE, TRUE),
                   O("d_insert_n", <<0, c, Elem>>, <<>>, W(0), FALSE, TRUE),
                   O("d_insert_range", <<sz>>, OvBytes(c), W(sz), FALSE, TRUE),
                   O("d_insert_range", <<0>>, OvBytes(c), W(0), FALSE, TRUE),
                   O("d_assign_range", <<>>, OvBytes(256), W(0), FALSE, TRUE),
                   O("d_assign_it", <<>>, OvBytes(256), W(0), FALSE, TRUE),
                   O("d_assign_str", <<>>, OvBytes(256), W(0), FALSE, TRUE)>>
         ELSE <<>>)

\* ---- cursor forms, from the positions the documentation requires
\* wrapper ids: 0 plain, 1 init, 2 dont_move, 3 init_dont_move, 4 skip
CursorOps_(b, li, ip, inst) ==
  LET F == LFields[li]
      blv == IF li = 1 THEN Val(b, V0 + HBlOff, HBlW) ELSE inst.bl
      \* reads the level's block length where the cursor is moved to the block end
      BE(w) == LevelBLW(b, w, li, inst).w
      lname(k) == F[k].name
      Fields ==
        ConcatAll([k \in 1 .. Len(F) |->
          LET fs == inst.a + F[k].off
              sz == F[k].size
              req == IF k = 1 THEN inst.a ELSE inst.a + F[k - 1].off + F[k - 1].size
              isLast == k = Len(F)
              scalar == F[k].kind = "scalar"
          IN ConcatAll([wx \in 1 .. 5 |->
               LET wi == wx - 1
                   base == IF wi \in {1, 3} THEN inst.base ELSE req
                   w1 == IF scalar /\ wi # 4 THEN Acc(b, inst.w, fs, sz, base, fs, fs + sz)
                         ELSE ReqOnly(b, inst.w, fs, fs + sz)
                   w2 == IF isLast /\ wi \in {0, 1, 4} THEN BE(w1) ELSE w1
                   cur == IF wi \in {1, 3} THEN -1 ELSE req
               IN <<Mk("cursor", "cget", li, ip, <<lname(k)>>, <<wi, cur>>, <<>>, w2, TRUE, FALSE, Max2(cur, inst.base))>>
                  \o (IF scalar /\ wi # 4
                      THEN <<Mk("cursor", "cset", li, ip, <<lname(k)>>, <<wi, cur>>, PatBytes(sz), w2, TRUE, FALSE, Max2(cur, inst.base))>>
                      ELSE <<>>)])])
      Groups ==
        ConcatAll([g \in 1 .. NG(li) |->
          LET gli == LChild[li][g]
              RA == GroupAt(b, li, inst, g)       \* random access: what init / the position check evaluate
              gs == RA.ga
              dimr(w) == ReqOnly(b, w, gs, gs + LDimSize[gli])
              wq == ReqFrom(inst.w, RA.w)
              nm == <<LDef[gli].name>>
          IN IF RA.w.dead \/ RA.w.far THEN <<>>
             ELSE ConcatAll([wx \in 1 .. 5 |->
               LET wi == wx - 1
                   w == IF g = 1
                        THEN CASE wi \in {0, 1} -> dimr(RA.w)
                               [] wi \in {2, 3} -> RA.w
                               [] OTHER -> WGroupEnd(b, RA.w, gli, gs).w
                        ELSE CASE wi = 0 -> dimr(wq)
                               [] wi = 1 -> dimr(RA.w)
                               [] wi = 2 -> wq
                               [] wi = 3 -> RA.w
                               [] OTHER -> WGroupEnd(b, wq, gli, gs).w
                   cur == IF wi \in {1, 3} \/ g = 1 THEN -1 ELSE gs
               IN <<Mk("cursor", "cget", li, ip, nm, <<wi, cur>>, <<>>, w, TRUE, FALSE, Max2(cur, inst.base))>>])])
      Datas ==
        ConcatAll([d \in 1 .. ND(li) |->
          LET RA == DataAt(b, li, inst, d)
              ds == RA.da
              firstvar == d = 1 /\ NG(li) = 0
              wq == ReqFrom(inst.w, RA.w)
              nm == <<LDef[li].data[d].name>>
              pf(w) == Prefix(b, w, li, d, ds, ds).w
          IN IF RA.w.dead \/ RA.w.far THEN <<>>
             ELSE ConcatAll([wx \in 1 .. 5 |->
               LET wi == wx - 1
                   w == IF firstvar
                        THEN (IF wi \in {0, 1, 4} THEN pf(RA.w) ELSE RA.w)
                        ELSE CASE wi = 0 -> pf(wq)
                               [] wi = 1 -> pf(RA.w)
                               [] wi = 2 -> wq
                               [] wi = 3 -> RA.w
                               [] OTHER -> pf(wq)
                   cur == IF wi \in {1, 3} \/ firstvar THEN -1 ELSE ds
               IN <<Mk("cursor", "cget", li, ip, nm, <<wi, cur>>, <<>>, w, TRUE, FALSE, Max2(cur, inst.base))>>])])
  IN IF inst.w.dead \/ inst.w.far \/ blv >= Big THEN <<>> ELSE Fields \o Groups \o Datas

\* ---- everything applicable to the image b of shape s
InstOps(b, li, ip) ==
  LET inst == NavInst(b, li, ip)
  IN LevelOps(b, li, ip, inst) \o LeafOps(b, li, ip, inst) \o FieldViewOps(b, li, ip, inst)
     \o ArrayOps(b, li, ip, inst)
     \o ConcatAll([g \in 1 .. NG(li) |-> GroupOps(b, li, ip, inst, g)])
     \o ConcatAll([d \in 1 .. ND(li) |-> DataOps(b, li, ip, inst, d)])
     \o (IF CursorOps THEN CursorOps_(b, li, ip, inst) ELSE <<>>)

Bound(op) ==   \* footprint summary for the per-n classification
  LET Lo(s) == IF s = <<>> THEN 0 ELSE CHOOSE x \in {s[i][1] : i \in 1 .. Len(s)} : \A j \in 1 .. Len(s) : x <= s[j][1]
      Hi(s) == IF s = <<>> THEN 0 ELSE CHOOSE x \in {s[i][2] : i \in 1 .. Len(s)} : \A j \in 1 .. Len(s) : x >= s[j][2]
      BMax(s, x) == IF s = <<>> THEN x ELSE Max2(x, CHOOSE y \in {s[i][3] : i \in 1 .. Len(s)} : \A j \in 1 .. Len(s) : y >= s[j][3])
  IN [tlo |-> Lo(op.tr), thi |-> Hi(op.tr), rlo |-> Lo(op.rq), rhi |-> Hi(op.rq), bmax |-> BMax(op.tr, op.recv)]

OpTable(b, s) ==
  LET insts == Instances(MI, s)
      ops == MessageOps(b) \o ConcatAll([i \in 1 .. Len(insts) |-> InstOps(b, insts[i].li, insts[i].ip)])
  IN [ops |-> ops \o <<>>, bnd |-> [i \in 1 .. Len(ops) |-> Bound(ops[i])] \o <<>>]

----------------------------------------------------------------------------
(* Hostile headers: one header value of the image overwritten *)
NoHv == [what |-> "none", at |-> 0, w |-> 0, val |-> 0, orig |-> 0]
HostileAll(s) ==
  LET gis == GroupInstances(MI, s)
      insts == Instances(MI, s)
      H(what, at, w, orig, vals) ==
        [i \in 1 .. Len(vals) |-> [what |-> what, at |-> at, w |-> w, val |-> vals[i], orig |-> orig]]
      Fit(w, x) == IF w = 1 /\ x > 255 THEN 255 ELSE x
  IN H("rootBL", V0 + HBlOff, HBlW, WireBL(MI, s, 1),
       <<WireBL(MI, s, 1) + 1, WireBL(MI, s, 1) + 6, Fit(HBlW, 300)>>)
     \o ConcatAll([i \in 1 .. Len(gis) |->
          LET gi == gis[i]
              bl == WireBL(MI, s, gi.gli)
          IN H("groupBL", V0 + gi.ga + LDimOff[gi.gli][1], LDimW[gi.gli][1], bl,
               <<bl + 1, bl + 9, Fit(LDimW[gi.gli][1], 290)>>)
             \o H("groupN", V0 + gi.ga + LDimOff[gi.gli][2], LDimW[gi.gli][2], gi.n,
                  <<gi.n + 1, gi.n + 3>>)])
     \o ConcatAll([i \in 1 .. Len(insts) |->
          ConcatAll([d \in 1 .. ND(insts[i].li) |->
            LET len == DLen(s, insts[i].li, d, insts[i].ip)
                lw == LLenW[insts[i].li][d]
                at == V0 + DenDataAddr(MI, s, insts[i].li, insts[i].ip, insts[i].a, d)
            IN H("dataLen", at, lw, len, <<len + 1, len + 5, Fit(lw, 280)>>)
               \* the maximum of the length type; for 32 / 64-bit prefixes it is no TLC
               \* integer: val = -1 stands for "every digit 255" (KInit writes the digits)
               \o H("dataLenMax", at, lw, len, <<IF lw = 1 THEN 255 ELSE IF lw = 2 THEN 65535 ELSE -1>>)])])

Image(s) == Overlay(Region(s), MsgImage(MI, s), V0)
Full(s) == Len(MsgImage(MI, s))

\* sampled view lengths: 0, 1, full-1, full and, for every footprint, the lengths
\* that put its end just outside / just inside the view
SampleNs(t, full) ==
  ({0, 1, full - 1, full}
   \cup UNION {{t.bnd[i].thi - V0 + d, t.bnd[i].rhi - V0 + d} : i \in 1 .. Len(t.bnd), d \in {-1, 0}})
  \cap 0 .. full

KInit ==
  /\ MemoInit
  /\ sh \in Shapes
  /\ mode = "checked"
  /\ pc = 0
  /\ last = [op |-> "init", li |-> 0, ip |-> <<>>, k |-> 0]
  /\ \E hs \in {HostileAll(sh)} :
       \E j \in {0} \cup {i \in 1 .. Len(hs) : HvMod > 0 /\ (i % HvMod = HvRem \/ (HvMod >= 4 /\ hs[i].what = "dataLenMax"))} :
         /\ hvi = j
         /\ hv = IF j = 0 THEN NoHv ELSE hs[j]
         /\ \E b0 \in {IF j = 0 THEN Image(sh)
                       ELSE Put(Image(sh), hs[j].at,
                                IF hs[j].val = -1 THEN [i \in 1 .. hs[j].w |-> 255]
                                ELSE Wire(FromNat(hs[j].val, hs[j].w)))} :
              /\ buf = b0
              /\ \E t \in {OpTable(b0, sh)} :
                   /\ ctab = t
                   /\ n \in (IF AllN /\ j = 0 THEN 0 .. Full(sh) ELSE SampleNs(t, Full(sh)))

KNext == FALSE /\ UNCHANGED kvars     \* the states are the initial ones: (image, n)
KSpec == KInit /\ [][KNext]_kvars

----------------------------------------------------------------------------
(* Outcome relation *)
VEnd == V0 + n
TouchIn(i) == ctab.ops[i].tr = <<>> \/ (ctab.bnd[i].tlo >= V0 /\ ctab.bnd[i].thi <= VEnd)
ReqIn(i) == ctab.ops[i].rq = <<>> \/ (ctab.bnd[i].rlo >= V0 /\ ctab.bnd[i].rhi <= VEnd)
MustAssert(i) == ~TouchIn(i)
MustOk(i) == ReqIn(i) /\ ctab.ops[i].pre
\* some view of the call chain (a receiver, or the cursor) starts beyond the end
\* of the message view: the situation of DESIGN.md 6 #11 / Appendix B last paragraph
BeyondEnd(i) == ctab.bnd[i].bmax > VEnd
\* 0 must_assert, 1 must_ok, 2 either; +3 when BeyondEnd
Outcome(i) == (IF MustAssert(i) THEN 0 ELSE IF MustOk(i) THEN 1 ELSE 2) + (IF BeyondEnd(i) THEN 3 ELSE 0)

----------------------------------------------------------------------------
(* Sanity of the relation (model-checked) *)
NOps == Len(ctab.ops)
\* the documented extent covers everything the operation must access
TouchedWithinReq ==
  n = 0 => \A i \in 1 .. NOps :
             \A k \in 1 .. Len(ctab.ops[i].tr) :
               \E r \in 1 .. Len(ctab.ops[i].rq) :
                 /\ ctab.ops[i].rq[r][1] <= ctab.ops[i].tr[k][1]
                 /\ ctab.ops[i].tr[k][2] <= ctab.ops[i].rq[r][2]
\* no operation is both required to be reported and required to pass
Disjoint == \A i \in 1 .. NOps : ~(MustAssert(i) /\ MustOk(i))
\* on the pristine full-size view every precondition-true call that does not
\* enlarge the message passes (ties the relation to the decode replay)
FullViewOk ==
  (hvi = 0 /\ n = Full(sh)) =>
     \A i \in 1 .. NOps : (ctab.ops[i].pre /\ ~ctab.ops[i].grow) => MustOk(i) /\ ~BeyondEnd(i)
\* on the pristine image the walks find what the denotation says
WalkAgrees ==
  (hvi = 0 /\ n = 0) =>
     LET insts == Instances(MI, sh)
         gis == GroupInstances(MI, sh)
     IN /\ \A i \in 1 .. Len(insts) :
             LET o == NavInst(buf, insts[i].li, insts[i].ip)
             IN /\ o.a = V0 + insts[i].a
                /\ ~o.w.dead /\ ~o.w.far
                /\ \A d \in 1 .. ND(insts[i].li) :
                     DataAt(buf, insts[i].li, o, d).da
                       = V0 + DenDataAddr(MI, sh, insts[i].li, insts[i].ip, insts[i].a, d)
        /\ \A i \in 1 .. Len(gis) :
             LET o == NavInst(buf, gis[i].pli, gis[i].ip)
                 G == GroupAt(buf, gis[i].pli, o, gis[i].g)
             IN /\ G.ga = V0 + gis[i].ga
                /\ WGroupEnd(buf, G.w, gis[i].gli, G.ga).e = V0 + gis[i].ga + Len(GroupImage(MI, sh, gis[i].gli, gis[i].ip))
        /\ LET r == RootBL(buf, W0)
           IN WLevelEnd(buf, r.w, 1, V0 + HSize, r.v).e = V0 + Full(sh)
KTypeOK == /\ n \in 0 .. Full(sh)
           /\ \A i \in 1 .. NOps : Outcome(i) \in 0 .. 5

----------------------------------------------------------------------------
(* Emission: the image with its operation table once (n = 0), the outcomes *)
(* of all operations for every n                                            *)
ImgId == <<sh.vs, sh.cnt, sh.dl, sh.ext, hvi>>
EmitChecked ==
  /\ n = 0 =>
       PrintT(ToJson([kind |-> "c10img", msg |-> Msg(MI).name, img |-> ImgId, v0 |-> V0,
                      full |-> Full(sh), buf |-> buf, hv |-> hv, ops |-> ctab.ops]))
  /\ PrintT(ToJson([kind |-> "c10n", msg |-> Msg(MI).name, img |-> ImgId, n |-> n,
                    out |-> [i \in 1 .. NOps |-> Outcome(i)]]))
=============================================================================
