--------------------------- MODULE DynArrayTrace ---------------------------
(* Trace validation for DynArray (C13): a log of calls made on a real      *)
(* dynamic_array_ref (harness/c13_dynarray.cpp, record mode) must be a     *)
(* behaviour of DynArray.  Every event carries the arguments of the call   *)
(* and the complete observation after it (size() as decoded by the real    *)
(* code, the raw prefix bytes in wire order, every cell of the payload     *)
(* area incl. guard cells, the returned iterator offset, whether the       *)
(* assertion handler ran, whether any byte outside prefix and payload area *)
(* changed), so the search is linear.  The unspecified cells of a call     *)
(* (`fill`) are bound to the observed cells.  A Reset event starts a new   *)
(* episode (another length width / byte order / element type).             *)
EXTENDS DynArray, IOUtils

VARIABLES l,       \* next line of the log
          w,       \* bytes of the length type of the current episode
          order    \* "le" | "be"

Tr == ndJsonDeserialize(IOEnv.TRACE)
tvars == <<seq, pfx, mem, ret, last, l, w, order>>

Ev == Tr[l]
Fill == Tr[l].mem

InitLbl == Lbl("init", -1, -1, -1, -1, <<>>) @@ [dc |-> {}]

TraceInit == /\ l = 2
             /\ Tr[1].e = "Reset"
             /\ Len(Tr[1].mem) = N
             /\ seq = SubSeq(Tr[1].mem, 1, Tr[1].size)
             /\ pfx = SizeBytesLE(Tr[1].size, 8)
             /\ mem = Tr[1].mem
             /\ ret = -1
             /\ last = InitLbl
             /\ w = Tr[1].w
             /\ order = Tr[1].order
             /\ Tr[1].pfx = WireOf(pfx, w, order)

IsEvent(e) == l <= Len(Tr) /\ Tr[l].e = e /\ l' = l + 1

TrReset == /\ IsEvent("Reset")
           /\ Len(Ev.mem) = N
           /\ seq' = SubSeq(Ev.mem, 1, Ev.size)
           /\ pfx' = SizeBytesLE(Ev.size, 8)
           /\ mem' = Ev.mem
           /\ ret' = -1
           /\ last' = InitLbl
           /\ w' = Ev.w
           /\ order' = Ev.order
           /\ Ev.pfx = WireOf(pfx', w', order')

\* what was observed after the call is the primed spec state
Obs == /\ Ev.asserted = FALSE                  \* a legal call never reaches the assertion handler
       /\ Ev.size = Len(seq')
       /\ FitsWidth(pfx', w)
       /\ Ev.pfx = WireOf(pfx', w, order)
       /\ Ev.mem = mem'
       /\ Ev.ret = ret'
       /\ Ev.outside = FALSE                    \* frame outside the payload area
       /\ UNCHANGED <<w, order>>

TrPushBack    == IsEvent("push_back")    /\ PushBack(Ev.v, Fill) /\ Obs
TrPopBack     == IsEvent("pop_back")     /\ PopBack(Fill) /\ Obs
TrInsert      == IsEvent("insert")       /\ Insert(Ev.pos, Ev.v, Fill) /\ Obs
TrInsertN     == IsEvent("insert_n")     /\ Ev.n >= 0 /\ InsertN(Ev.pos, Ev.n, Ev.v, Fill) /\ Obs
TrInsertRange == IsEvent("insert_range") /\ InsertRange(Ev.pos, Ev.vs, Fill) /\ Obs
TrInsertIList == IsEvent("insert_ilist") /\ InsertIList(Ev.pos, Ev.vs, Fill) /\ Obs
TrErase       == IsEvent("erase")        /\ Erase(Ev.pos, Fill) /\ Obs
TrEraseRange  == IsEvent("erase_range")  /\ EraseRange(Ev.pos, Ev.pos2, Fill) /\ Obs
TrResize      == IsEvent("resize")       /\ Ev.n >= 0 /\ Resize(Ev.n, Fill) /\ Obs
TrResizeV     == IsEvent("resize_v")     /\ Ev.n >= 0 /\ ResizeV(Ev.n, Ev.v, Fill) /\ Obs
TrResizeDI    == IsEvent("resize_di")    /\ Ev.n >= 0 /\ ResizeDI(Ev.n, Fill) /\ Obs
TrAssignN     == IsEvent("assign_n")     /\ Ev.n >= 0 /\ AssignN(Ev.n, Ev.v, Fill) /\ Obs
TrAssignSeq   == \E op \in AssignOps : IsEvent(op) /\ AssignSeq(op, Ev.vs, Fill) /\ Obs
TrClear       == IsEvent("clear")        /\ Clear(Fill) /\ Obs

TraceNext == \/ TrReset
             \/ TrPushBack \/ TrPopBack
             \/ TrInsert \/ TrInsertN \/ TrInsertRange \/ TrInsertIList
             \/ TrErase \/ TrEraseRange
             \/ TrResize \/ TrResizeV \/ TrResizeDI
             \/ TrAssignN \/ TrAssignSeq
             \/ TrClear
TraceSpec == TraceInit /\ [][TraceNext]_tvars

TraceAccepted == TLCGet("stats").diameter = Len(Tr)
=============================================================================
