------------------------------- MODULE Fits -------------------------------
(* C06: the reference for sbepp::size_bytes_checked(view, n).              *)
(*                                                                         *)
(* Fits(b, n) walks the structure that the BUFFER describes (View.tla's    *)
(* navigation: every address is derived from values read in b) with a      *)
(* remaining budget, and never reads a byte it has not first paid for:     *)
(*   header      must fit before the root blockLength is read               *)
(*   root block  (wire blockLength) must fit                               *)
(*   group       dimension must fit before it is read; flat entries are    *)
(*               charged by division (numInGroup <= budget \div bl), never *)
(*               by iterating; nested entries one by one (each costs >= 1  *)
(*               byte, so at most n of them are ever visited)              *)
(*   data        length prefix must fit before it is read, then payload    *)
(* Result [valid, size] + ghosts: hi (upper bound of the offsets read),    *)
(* steps (number of validate steps), why / at / fw (which member did not    *)
(* fit, where it starts, width of a length prefix that did not fit),       *)
(* short / zf / fr (classification of the buffer, used only to name        *)
(* mismatch classes: fr = compiled scalar fields of visited blocks that    *)
(* lie beyond the wire blockLength).                                       *)
(*                                                                         *)
(* The invariants compare the budgeted walk with an independent forward    *)
(* size computation (StructEnd: saturating end addresses, no budget) and,  *)
(* on well-formed images, with the denotational MsgSize / GroupSize.       *)
(*                                                                         *)
(* Header values wider than TLC's integers: Sbe.tla's ToNat maps every     *)
(* value >= 2^24 to "huge" (2*10^9), larger than any budget; products are  *)
(* avoided (division), sums stay below 2^31.                               *)
EXTENDS View

CONSTANTS Pad,       \* background bytes after the image (n ranges up to size + Pad)
          Pairs,     \* BOOLEAN: also pairs of overwrites
          PairMod    \* pairs of fields of different headers: keep 1 in PairMod (0: none)

VARIABLES n,         \* the size argument
          cor,       \* the overwrites applied to the image (sequence of 0..2)
          vw,        \* the view: message at V0 | a group instance of the image
          res,       \* result of the call (done = FALSE before Check)
          tab        \* ghost: static tables (a memo like SbeImage's, never changes)

fvars == <<sh, mode, buf, pc, last, memo, n, cor, vw, res, tab>>

\* TLC re-derives SbeImage's LDimSize / LDimOff / LDimW / LLenW / HSize (built by
\* RECURSIVE layout operators) at every reference (measured: 0.1-0.5 ms each).
\* The walk below therefore takes them from a ghost variable initialised once.
\* They are the same tables: TablesAreSbeImage is checked as an invariant.
Ends(li) == {LFields[li][k].off + LFields[li][k].size : k \in 1 .. Len(LFields[li])}
CEDef(li) == IF Ends(li) = {} THEN 0 ELSE CHOOSE m \in Ends(li) : \A x \in Ends(li) : x <= m
TabDef == [dimsize |-> LDimSize, dimoff |-> LDimOff, dimw |-> LDimW, lenw |-> LLenW,
           hsize |-> HSize, hbloff |-> HBlOff, hblw |-> HBlW,
           ce |-> ([li \in 1 .. NL |-> CEDef(li)]) \o <<>>,
           flat |-> ([li \in 1 .. NL |-> IsFlat(LDef[li])]) \o <<>>,
           ng |-> ([li \in 1 .. NL |-> Len(LDef[li].groups)]) \o <<>>,
           nd |-> ([li \in 1 .. NL |-> Len(LDef[li].data)]) \o <<>>,
           \* value-returning (scalar) fields of each level: what visit_children reads
           sc |-> ([li \in 1 .. NL |-> SelectSeq(LFields[li], LAMBDA f : f.kind = "scalar")]) \o <<>>]
TabInit == tab = TabDef
TDimSize(gli) == tab.dimsize[gli]
TLenW(li, d) == tab.lenw[li][d]
TRootBL(b) == Rd(b, V0 + tab.hbloff, tab.hblw)
TGroupBL(b, gli, ga) == Rd(b, ga + tab.dimoff[gli][1], tab.dimw[gli][1])
TGroupN(b, gli, ga) == Rd(b, ga + tab.dimoff[gli][2], tab.dimw[gli][2])

ASSUME Pad \in Nat /\ Pairs \in BOOLEAN /\ PairMod \in Nat

----------------------------------------------------------------------------
(* The budgeted walk.  A walk state is a record                            *)
(*   ok, a (address of the next unread member), rem (budget left),         *)
(*   hi (end of the furthest read), steps, why, short, zf, fr              *)
(* Every operator below receives its walk state as a VALUE (call sites     *)
(* bind through singleton sets): TLC re-evaluates state-level arguments at *)
(* every use.                                                              *)
St0(start, nn) == [ok |-> TRUE, a |-> start, rem |-> nn, hi |-> start, steps |-> 0,
                   why |-> "", short |-> FALSE, zf |-> FALSE, fr |-> <<>>, fw |-> 0]

Fail(st, why) == [st EXCEPT !.ok = FALSE, !.steps = @ + 1, !.why = why]
\* validate-and-subtract: one step
Take(st, k, why) == IF k <= st.rem
                    THEN [st EXCEPT !.a = @ + k, !.rem = @ - k, !.steps = @ + 1]
                    ELSE Fail(st, why)
Touch(st, at0, w) == [st EXCEPT !.hi = IF at0 + w > @ THEN at0 + w ELSE @]

\* compiled extent of the fields of level li (tab.ce): what an accessor-based
\* walk of the block would touch
CE(li) == tab.ce[li]
MarkShort(st, li, bl) == IF bl < CE(li) THEN [st EXCEPT !.short = TRUE] ELSE st
\* ghost fr: the level instance li at a, whose block of bl bytes has just been
\* paid, is about to be visited; an accessor-based visit reads its scalar fields
\* at their COMPILED offsets.  Those that end beyond the wire block are recorded
\* ([off, w], absolute): a read there is the 'field beyond the wire block' class.
ShortReads(li, a, bl) ==
  ([k \in 1 .. Len(SelectSeq(tab.sc[li], LAMBDA f : f.off + f.size > bl)) |->
      [off |-> a + SelectSeq(tab.sc[li], LAMBDA f : f.off + f.size > bl)[k].off,
       w |-> SelectSeq(tab.sc[li], LAMBDA f : f.off + f.size > bl)[k].size]]) \o <<>>
NoteReads(st, li, a, bl) == IF st.ok /\ bl < CE(li) THEN [st EXCEPT !.fr = @ \o ShortReads(li, a, bl)] ELSE st

FitsData(b, st, li, d) ==
  IF ~st.ok THEN st
  ELSE IF TLenW(li, d) > st.rem THEN [Fail(st, "dlen") EXCEPT !.fw = TLenW(li, d)]
  ELSE Take(Touch(st, st.a, TLenW(li, d)), TLenW(li, d) + Rd(b, st.a, TLenW(li, d)), "data")

RECURSIVE FitsGroupAt(_, _, _), FitsEntries(_, _, _, _, _), FitsMem(_, _, _, _)
\* members k.. of a level instance whose block has been paid: groups, then data
FitsMem(b, st, li, k) ==
  IF ~st.ok \/ k > tab.ng[li] + tab.nd[li] THEN st
  ELSE IF k <= tab.ng[li]
       THEN CHOOSE r \in {FitsMem(b, s, li, k + 1) : s \in {FitsGroupAt(b, st, LChild[li][k])}} : TRUE
       ELSE CHOOSE r \in {FitsMem(b, s, li, k + 1) :
                            s \in {FitsData(b, st, li, k - tab.ng[li])}} : TRUE

FitsFlat(s, gli, bl, cnt) ==
  IF bl = 0 \/ cnt = 0
  THEN [s EXCEPT !.steps = @ + 1, !.zf = @ \/ (bl = 0 /\ cnt > 0)]     \* nothing to pay, nothing to iterate
  ELSE IF cnt <= s.rem \div bl THEN Take(s, cnt * bl, "flat") ELSE Fail(s, "flat")

\* cnt more entries of the nested group gli; each pays its block, then its members
FitsEntries(b, s, gli, bl, cnt) ==
  IF ~s.ok \/ cnt = 0 THEN s
  ELSE IF bl > s.rem THEN Fail(s, "entry")
  ELSE CHOOSE r \in {FitsEntries(b, s2, gli, bl, cnt - 1) :
                       s2 \in {FitsMem(b, s1, gli, 1) :
                                 s1 \in {NoteReads(Take(s, bl, "entry"), gli, s.a, bl)}}} : TRUE

\* the group gli whose dimension starts at st.a
FitsGroupAt(b, st, gli) ==
  IF ~st.ok THEN st
  ELSE IF TDimSize(gli) > st.rem THEN Fail(st, "dim")
  ELSE CHOOSE r \in
         {IF tab.flat[gli] THEN FitsFlat(s, gli, bl, cnt) ELSE FitsEntries(b, s, gli, bl, cnt) :
            s \in {MarkShort(Take(Touch(Touch(st, st.a + tab.dimoff[gli][1], tab.dimw[gli][1]),
                                        st.a + tab.dimoff[gli][2], tab.dimw[gli][2]),
                                  TDimSize(gli), "dim"),
                             gli, TGroupBL(b, gli, st.a))},
            bl \in {TGroupBL(b, gli, st.a)},
            cnt \in {TGroupN(b, gli, st.a)}} : TRUE

Result(st, nn) == [done |-> TRUE, valid |-> st.ok, size |-> IF st.ok THEN nn - st.rem ELSE 0,
                   hi |-> st.hi, steps |-> st.steps, why |-> st.why, short |-> st.short, zf |-> st.zf,
                   at |-> st.a, fr |-> st.fr, fw |-> st.fw]
NoRes == [done |-> FALSE, valid |-> FALSE, size |-> 0, hi |-> 0, steps |-> 0, why |-> "",
          short |-> FALSE, zf |-> FALSE, at |-> 0, fr |-> <<>>, fw |-> 0]

\* message view at V0
FitsMsgSt(b, nn) ==
  IF tab.hsize > nn THEN Fail(St0(V0, nn), "header")
  ELSE CHOOSE r \in
         {IF ~s.ok THEN s ELSE FitsMem(b, s, 1, 1) :
            s \in {NoteReads(MarkShort(Take(Take(Touch(St0(V0, nn), V0 + tab.hbloff, tab.hblw),
                                                 tab.hsize, "header"),
                                            TRootBL(b), "rootblock"),
                                       1, TRootBL(b)),
                             1, V0 + tab.hsize, TRootBL(b))}} : TRUE
Fits(b, nn) == CHOOSE r \in {Result(st, nn) : st \in {FitsMsgSt(b, nn)}} : TRUE

\* group view: the group gli whose dimension starts at ga
FitsGroup(b, gli, ga, nn) ==
  CHOOSE r \in {Result(st, nn) : st \in {FitsGroupAt(b, St0(ga, nn), gli)}} : TRUE

----------------------------------------------------------------------------
(* The independent reference: where does the structure that b describes    *)
(* end?  Forward computation of end addresses as in View.tla's OpLevelEnd, *)
(* made total: any address beyond the buffer (or any member whose header   *)
(* cannot be read inside the buffer) is INF.  Since n never exceeds the    *)
(* buffer, INF means "does not fit in any n".                              *)
INF(b) == Len(b) + 1
SAdd(b, a, k) == IF a >= INF(b) \/ k >= INF(b) - a THEN INF(b) ELSE a + k
SMul(b, c, k) == IF c = 0 \/ k = 0 THEN 0 ELSE IF c > INF(b) \div k THEN INF(b) ELSE c * k

SDataEnd(b, li, d, da) ==
  IF da + TLenW(li, d) > Len(b) THEN INF(b)
  ELSE SAdd(b, da, TLenW(li, d) + Rd(b, da, TLenW(li, d)))

RECURSIVE SGroupEnd(_, _, _), SEntriesEnd(_, _, _, _, _), SMemEnd(_, _, _, _)
SMemEnd(b, li, e, k) ==
  IF e >= INF(b) \/ k > tab.ng[li] + tab.nd[li] THEN e
  ELSE CHOOSE r \in {SMemEnd(b, li, e2, k + 1) :
         e2 \in {IF k <= tab.ng[li] THEN SGroupEnd(b, LChild[li][k], e)
                 ELSE SDataEnd(b, li, k - tab.ng[li], e)}} : TRUE
SEntriesEnd(b, gli, ea, bl, cnt) ==
  IF cnt = 0 \/ ea >= INF(b) THEN ea
  ELSE CHOOSE r \in {SEntriesEnd(b, gli, e2, bl, cnt - 1) :
                       e2 \in {SMemEnd(b, gli, e1, 1) : e1 \in {SAdd(b, ea, bl)}}} : TRUE
SGroupEnd(b, gli, ga) ==
  IF ga + TDimSize(gli) > Len(b) THEN INF(b)
  ELSE IF tab.flat[gli]
       THEN SAdd(b, ga + TDimSize(gli), SMul(b, TGroupN(b, gli, ga), TGroupBL(b, gli, ga)))
       ELSE SEntriesEnd(b, gli, ga + TDimSize(gli), TGroupBL(b, gli, ga), TGroupN(b, gli, ga))
SMsgEnd(b) ==
  IF V0 + tab.hsize > Len(b) THEN INF(b)
  ELSE CHOOSE r \in {SMemEnd(b, 1, e, 1) : e \in {SAdd(b, V0 + tab.hsize, TRootBL(b))}} : TRUE

StructEnd(b, v) == IF v.kind = "message" THEN SMsgEnd(b) ELSE SGroupEnd(b, v.gli, v.ga)

----------------------------------------------------------------------------
(* Scope: which fields can be overwritten, with what                       *)
\* every blockLength / numInGroup / length field of the image of shape s:
\* [kind, off (absolute), w, orig, li]
HdrFields(s, insts, gis) ==
  (<<[kind |-> "rootbl", off |-> V0 + HBlOff, w |-> HBlW, orig |-> WireBL(MI, s, 1), li |-> 1]>>
   \o ConcatAll([i \in 1 .. Len(gis) |->
        <<[kind |-> "gbl", off |-> V0 + gis[i].ga + LDimOff[gis[i].gli][1], w |-> LDimW[gis[i].gli][1],
           orig |-> WireBL(MI, s, gis[i].gli), li |-> gis[i].gli],
          [kind |-> "gnum", off |-> V0 + gis[i].ga + LDimOff[gis[i].gli][2], w |-> LDimW[gis[i].gli][2],
           orig |-> gis[i].n, li |-> gis[i].gli]>>])
   \o ConcatAll([i \in 1 .. Len(insts) |->
        [d \in 1 .. Len(LDef[insts[i].li].data) |->
           [kind |-> "dlen",
            off |-> V0 + DenDataAddr(MI, s, insts[i].li, insts[i].ip, insts[i].a, d),
            w |-> LLenW[insts[i].li][d], orig |-> DLen(s, insts[i].li, d, insts[i].ip),
            li |-> insts[i].li]]])) \o <<>>

AllOnes(w) == [k \in 1 .. w |-> 255]
\* value digits (little-endian) a field may be overwritten with, and their class
ValDigits(f) ==
  ({FromNat(0, f.w), FromNat(1, f.w), FromNat(f.orig + 1, f.w), AllOnes(f.w)}
   \cup (IF f.orig >= 1 THEN {FromNat(f.orig - 1, f.w)} ELSE {})) \ {FromNat(f.orig, f.w)}
ClassOf(f, d) ==
  IF d = AllOnes(f.w) THEN "max"
  ELSE IF d = FromNat(0, f.w) THEN "0"
  ELSE IF d = FromNat(1, f.w) THEN "1"
  ELSE IF f.orig >= 1 /\ d = FromNat(f.orig - 1, f.w) THEN "fit-1"
  ELSE "fit+1"
Ops(f) == {[kind |-> f.kind, off |-> f.off, w |-> f.w, li |-> f.li, cls |-> ClassOf(f, d),
            bytes |-> Wire(d)] : d \in ValDigits(f)}

\* the views of the image: the message, and every group instance
ViewsOf(s, gis) ==
  {[kind |-> "message", gli |-> 0, lvl |-> <<>>, name |-> "", ip |-> <<>>, ga |-> V0,
    dsize |-> MsgSize(MI, s)]}
  \cup {[kind |-> "group", gli |-> gis[i].gli, lvl |-> LV[gis[i].pli].path, name |-> LDef[gis[i].gli].name,
         ip |-> gis[i].ip, ga |-> V0 + gis[i].ga,
         dsize |-> GroupSize(MI, s, gis[i].gli, gis[i].ip)] : i \in 1 .. Len(gis)}

\* fields inside the extent of view v (a group view is reached by navigating
\* the bytes before it, which therefore stay well-formed)
InView(v, f) == f.off >= v.ga /\ f.off < v.ga + v.dsize
SameHeader(f1, f2) == f1.kind = "gbl" /\ f2.kind = "gnum" /\ f2.off - tab.dimoff[f2.li][2] = f1.off - tab.dimoff[f1.li][1]
                      /\ f1.li = f2.li
PairKept(i, j) == PairMod > 0 /\ (i * 7 + j * 13) % PairMod = 0
CorsOf(v, flds) ==
  {<<>>}
  \cup UNION {{<<o>> : o \in Ops(flds[i])} : i \in {k \in 1 .. Len(flds) : InView(v, flds[k])}}
  \cup (IF ~Pairs THEN {}
        ELSE UNION {{<<o1, o2>> : o1 \in Ops(flds[i]), o2 \in Ops(flds[j])} :
               <<i, j>> \in {p \in (1 .. Len(flds)) \X (1 .. Len(flds)) :
                               /\ p[1] < p[2] /\ InView(v, flds[p[1]]) /\ InView(v, flds[p[2]])
                               /\ (SameHeader(flds[p[1]], flds[p[2]]) \/ PairKept(p[1], p[2]))}})

FirstOff(c) == CHOOSE m \in {c[k].off : k \in 1 .. Len(c)} : \A k \in 1 .. Len(c) : m <= c[k].off

RECURSIVE ApplyCor(_, _, _)
ApplyCor(b, c, k) == IF k > Len(c) THEN b ELSE ApplyCor(Put(b, c[k].off, c[k].bytes), c, k + 1)

----------------------------------------------------------------------------
(* The machine *)
FInit ==
  /\ MemoInit
  /\ TabInit
  /\ mode = "fits" /\ pc = 0
  /\ last = [op |-> "init", li |-> 0, ip |-> <<>>, k |-> 0]
  /\ res = NoRes
  /\ \E s \in Shapes :
      \E img \in {MsgImage(MI, s)}, insts \in {Instances(MI, s)}, gis \in {GroupInstances(MI, s)} :
       \E base \in {Overlay(Background(V0 + Len(img) + Pad), img, V0)},
          flds \in {HdrFields(s, insts, gis)} :
        \E v \in ViewsOf(s, gis) :
         \E c \in CorsOf(v, flds) :
          \E b \in {ApplyCor(base, c, 1)} :
           \* (an overwrite beyond the first n bytes does not change the call:
           \* those n are explored with the image itself)
           \E nn \in (IF c = <<>> THEN 0 ELSE FirstOff(c) - v.ga + 1) .. (Len(b) - v.ga) :
             /\ sh = s /\ vw = v /\ cor = c /\ buf = b /\ n = nn

\* the call size_bytes_checked(view, n)
Check ==
  /\ ~res.done
  /\ res' = IF vw.kind = "message" THEN Fits(buf, n) ELSE FitsGroup(buf, vw.gli, vw.ga, n)
  /\ UNCHANGED <<sh, mode, buf, pc, last, memo, n, cor, vw, tab>>

FNext == Check
FSpec == FInit /\ [][FNext]_fvars

----------------------------------------------------------------------------
(* Properties *)
NGroups == NL - 1
NData == SumSeq([li \in 1 .. NL |-> Len(LDef[li].data)])
KK == 2 * (2 + 2 * NGroups + NData)          \* work per byte of budget, a schema constant

FTypeOK == /\ n \in 0 .. (Len(buf) - vw.ga)
           /\ cor # <<>> => n > FirstOff(cor) - vw.ga
           /\ Len(cor) <= 2
           /\ Len(buf) < 16777216              \* budgets are exact TLC integers

\* reads no byte at offset >= n (and none before the view)
FitsInBounds == res.done => res.hi <= vw.ga + n

\* valid exactly when the structure the buffer describes fits; then the size
\* is the structure's size; on a well-formed image that is the denotational size
FitsExact ==
  res.done =>
    \E e \in {StructEnd(buf, vw)} :
      /\ res.valid <=> (e <= vw.ga + n)
      /\ res.valid => res.size = e - vw.ga
      /\ cor = <<>> => e = vw.ga + vw.dsize

FitsBoundedWork == res.done => res.steps <= KK * (n + 1)

\* the ghost tables are SbeImage's (evaluated once per image, not per n)
TablesAreSbeImage == (n = 0 /\ cor = <<>> /\ ~res.done) => tab = TabDef

\* StructEnd is View.tla's operational size wherever that is defined (all reads
\* inside the buffer, hence no huge operand): OpMsgSize / OpGroupSize.
\* (independent of n: evaluated once per buffer and view)
StructIsOperational ==
  (n = 0 /\ res.done) =>
    \E e \in {StructEnd(buf, vw)} :
      e < INF(buf) => IF vw.kind = "message" THEN OpMsgSize(buf) = e - V0
                      ELSE OpGroupSize(buf, vw.gli, vw.ga) = e - vw.ga

----------------------------------------------------------------------------
(* Vector emission *)
OpName(o) == o.kind \o ToString(8 * o.w) \o "=" \o o.cls
CorClass == IF cor = <<>> THEN "none"
            ELSE IF Len(cor) = 1 THEN OpName(cor[1])
            ELSE OpName(cor[1]) \o "+" \o OpName(cor[2])
\* where n lies relative to the structure
NClass(e) == IF n < (IF vw.kind = "message" THEN tab.hsize ELSE tab.dimsize[vw.gli]) THEN "lt-header"
             ELSE IF e >= INF(buf) THEN "unbounded"
             ELSE IF vw.ga + n < e THEN "lt-size"
             ELSE IF vw.ga + n = e THEN "eq-size"
             ELSE "gt-size"

FitsVector ==
  [kind |-> "fits", msg |-> Msg(MI).name, v0 |-> V0, buf |-> buf,
   view |-> vw.kind, level |-> vw.lvl, name |-> vw.name, ip |-> vw.ip, start |-> vw.ga,
   n |-> n, valid |-> res'.valid, size |-> res'.size, max_steps |-> KK * (n + 1),
   steps |-> res'.steps, why |-> res'.why, at |-> res'.at, short |-> res'.short, zf |-> res'.zf,
   freads |-> res'.fr,
   lenw |-> res'.fw,
   cor |-> CorClass, ncls |-> CHOOSE x \in {NClass(e) : e \in {StructEnd(buf, vw)}} : TRUE,
   ops |-> [k \in 1 .. Len(cor) |-> [kind |-> cor[k].kind, off |-> cor[k].off, cls |-> cor[k].cls,
                                     bytes |-> cor[k].bytes]],
   vs |-> sh.vs, ext |-> sh.ext]

EmitFits == (res'.done /\ ~res.done) => PrintT(ToJson(FitsVector))
=============================================================================
