------------------------------- MODULE Caps -------------------------------
(* C11 - read-only views cannot mutate the buffer: the permission lattice.  *)
(*                                                                          *)
(* Every reference-semantics object of sbepp (message, entry, group,        *)
(* composite, array, data view, cursor) is a template over a byte type.     *)
(* This module states                                                       *)
(*   - which operation kinds exist and which of them write (MutOps),        *)
(*   - how a receiver is reached from a root view (path = receiver kind,    *)
(*     how it was derived, how the operation is invoked),                   *)
(*   - Allowed(op, viewConst, cursorConst, path): the permission table,     *)
(*   - Convertible(from, to): the conversion order,                         *)
(* and a small machine over "handles" whose invariant ConstIsSticky is the  *)
(* design-level result: starting from a const handle no sequence of         *)
(* derivations / conversions / cursor uses reaches a handle on which a      *)
(* mutating operation is allowed; ReadOnlyFrame: non-mutating operations    *)
(* leave the buffer unchanged.                                              *)
(*                                                                          *)
(* Sources of the expectations: the property text of C11 and                *)
(* doc/representation.md ("field accessors": sub-views have the byte type   *)
(* of the enclosing object, setters are not available for const byte types; *)
(* "cursor-based accessors": the cursor byte type can be more const than    *)
(* the enclosing view's, setters are not available for such cursors,        *)
(* views returned by cursor accessors have the CURSOR's byte type), the     *)
(* doc comments of byte_range / cursor ("available if Byte2* is convertible *)
(* to Byte*").  Where those are silent the table says "unspecified" and no  *)
(* probe is generated.                                                      *)
EXTENDS Naturals, Sequences, FiniteSets, TLC, Json

CONSTANTS CursorGuard,  \* TRUE = the design: a cursor accessor needs view byte -> cursor byte convertible
          ConvGuard     \* TRUE = the design: conversions only towards more-const
                        \* (FALSE values are design mutants: TLC must then refute ConstIsSticky)

Byte == {"mut", "const"}
NoCur == "none"
CurByte == Byte \cup {NoCur}

Convertible(from, to) == from = to \/ (from = "mut" /\ to = "const")

\* The byte type may carry any cv-qualification (volatile bytes: memory shared
\* with a device or another process).  For the type-level part of the table
\* (conversions, element types) the whole lattice is used: a byte type is
\* read-only iff it is const-qualified, volatile or not, and a conversion may
\* only add qualifiers.
CvByte == {"mut", "const", "vol", "cvol"}
Quals(b) == CASE b = "mut" -> {} [] b = "const" -> {"c"} [] b = "vol" -> {"v"} [] OTHER -> {"c", "v"}
IsConstByte(b) == "c" \in Quals(b)
ConvertibleCv(from, to) == Quals(from) \subseteq Quals(to)

-----------------------------------------------------------------------------
(* Operation kinds.  Names are shared with tools/capsgen.py, which knows    *)
(* for each the C++ expression that performs it (by name), nothing else.    *)

FieldSetOps  == {"set"}                      \* v.f(value) of a scalar / enum / set field
CursorSetOps == {"cset_plain", "cset_init", "cset_dont_move", "cset_init_dont_move"}
FillOps      == {"fill_message_header", "fill_group_header"}
GroupMutOps  == {"group_resize", "group_clear"}
DataMutOps   == {"da_clear", "da_resize", "da_resize_value", "da_resize_default_init",
                 "da_push_back", "da_pop_back", "da_erase", "da_erase_range",
                 "da_insert", "da_insert_count", "da_insert_range", "da_insert_ilist",
                 "da_assign_count", "da_assign_iter", "da_assign_ilist",
                 "da_assign_string", "da_assign_range"}
ArrayMutOps  == {"sa_assign_string", "sa_assign_string_range", "sa_assign_range", "sa_fill",
                 "sa_assign_count", "sa_assign_iter", "sa_assign_ilist"}
\* element writes through what the container hands out
ElemWriteOps == {"elem_write_index", "elem_write_iter", "elem_write_riter", "elem_write_data",
                 "elem_write_front", "elem_write_back", "elem_write_raw"}

CursorGetOps == {"cget_plain", "cget_init", "cget_dont_move", "cget_init_dont_move", "cget_skip"}
\* cursor-based but neither getter nor setter of a member
CursorMiscOps == {"cursor_range", "cursor_iterate", "visit_cursor", "visit_children_cursor", "size_bytes_cursor"}

ReadOps == {"get", "size_bytes", "size_bytes_checked", "addressof", "get_header",
            "size", "iterate", "index", "elem_read", "elem_iterate", "strlen",
            "visit", "visit_children"}

MutOps    == FieldSetOps \cup CursorSetOps \cup FillOps \cup GroupMutOps \cup DataMutOps
             \cup ArrayMutOps \cup ElemWriteOps
CursorOps == CursorSetOps \cup CursorGetOps \cup CursorMiscOps
Ops       == MutOps \cup CursorGetOps \cup CursorMiscOps \cup ReadOps

\* How the library is documented to reject: "unavailable" = not part of the
\* overload set (detectable; "setters are not available"), "rejected" = some
\* compile-time rejection (the property text says no more than that).
Mechanism(op) == IF op \in FieldSetOps \cup CursorSetOps THEN "unavailable" ELSE "rejected"

-----------------------------------------------------------------------------
(* Paths.  recv: kind of the receiver; how: the receiver is the root view   *)
(* itself ("self"), was derived from the root by named accessors ("name"),  *)
(* by get_by_tag ("tag"), or by a cursor accessor ("cursor": its byte type  *)
(* is then the cursor's); access: the operation is invoked by name, through *)
(* set_by_tag/get_by_tag ("tag"), or through get_by_tag with the value in   *)
(* the cursor position ("tagget": get_by_tag forwards its extra argument).  *)

RecvKinds == {"message", "entry", "composite", "group", "data", "array"}
Hows      == {"self", "name", "tag", "cursor"}
Accesses  == {"named", "tag", "tagget"}

LevelKinds == {"message", "entry"}          \* have fields, cursor accessors, visit

Applicable(op, recv) ==
  CASE op \in FieldSetOps \cup {"get"}              -> recv \in LevelKinds \cup {"composite"}
    [] op \in CursorSetOps \cup CursorGetOps       -> recv \in LevelKinds
    [] op = "fill_message_header"                  -> recv = "message"
    [] op \in {"fill_group_header"} \cup GroupMutOps -> recv = "group"
    [] op \in DataMutOps                            -> recv = "data"
    [] op \in ArrayMutOps \cup {"strlen"}           -> recv = "array"
    [] op \in ElemWriteOps \cup {"elem_read", "elem_iterate"} -> recv \in {"data", "array"}
    [] op \in {"cursor_range", "cursor_iterate", "iterate", "index"} -> recv = "group"
    [] op \in {"visit_cursor", "visit_children_cursor"} -> recv \in LevelKinds \cup {"group"}
    [] op \in {"visit", "visit_children"}           -> recv \in LevelKinds \cup {"group", "composite"}
    [] op = "size_bytes_cursor"                     -> recv = "message"
    [] op = "size_bytes_checked"                    -> recv \in {"message", "group"}
    [] op = "get_header"                            -> recv \in {"message", "group"}
    [] op = "size"                                  -> recv \in {"group", "data", "array"}
    [] op \in {"size_bytes", "addressof"}           -> recv \in RecvKinds
    [] OTHER                                        -> FALSE

HowApplies(recv, how) ==
  CASE how = "self"   -> recv = "message"
    [] how = "name"   -> recv # "message"
    [] how = "tag"    -> recv \in {"composite", "group", "data", "array"}   \* get_by_tag<Tag>(parent)
    [] how = "cursor" -> recv # "message"          \* parent.member(c), *group.cursor_range(c).begin()
    [] OTHER          -> FALSE

AccessApplies(op, access) ==
  CASE access = "named"  -> TRUE
    [] access = "tag"    -> op \in FieldSetOps \cup CursorSetOps \cup CursorGetOps \cup {"get"}
    [] access = "tagget" -> op \in FieldSetOps
    [] OTHER             -> FALSE

Paths == {p \in [recv : RecvKinds, how : Hows, access : Accesses] : HowApplies(p.recv, p.how)}

NeedsCursor(op, p) == op \in CursorOps \/ p.how = "cursor"

PathStr(p) == p.recv \o "." \o p.how \o "." \o p.access

-----------------------------------------------------------------------------
(* The permission table.                                                    *)

\* byte type of the receiver: derived views inherit it, views handed out by a
\* cursor accessor have the cursor's
RecvByte(v, c, p) == IF p.how = "cursor" THEN c ELSE v

\* the receiver can be obtained at all
RecvExists(v, c, p) == p.how = "cursor" => (c # NoCur /\ Convertible(v, c))

AllowedB(op, v, c, p) ==
  /\ RecvExists(v, c, p)
  /\ LET r == RecvByte(v, c, p) IN
       /\ op \in CursorOps => (c # NoCur /\ Convertible(r, c))
       /\ op \in MutOps    => (r = "mut" /\ (op \in CursorOps => c = "mut"))

\* Cases the property and the documentation leave open (no probe):
\*  - non-mutating cursor operations that do not hand out a view or position
\*    the cursor inside the buffer through the member protocol, used with a
\*    cursor LESS const than the view (visit with a visitor that ignores the
\*    cursor is harmless; rejecting it is fine as well);
\*  - walking the entries of a group with a cursor MORE const than the group
\*    view itself (the entry type is the group's, the position is the
\*    cursor's): dereferencing a cursor range, visiting the group's children.
\*    (The documented way - group obtained through the same cursor - gives a
\*    group of the cursor's byte type and is specified.)
Unspecified(op, v, c, p) ==
  /\ RecvExists(v, c, p)
  /\ LET r == RecvByte(v, c, p) IN
       \/ (op \in {"visit_cursor", "visit_children_cursor", "size_bytes_cursor"} /\ c # NoCur /\ ~Convertible(r, c))
       \/ (op \in {"cursor_iterate", "visit_cursor", "visit_children_cursor"} /\ p.recv = "group" /\ r = "mut" /\ c = "const")

Allowed(op, v, c, p) ==
  IF Unspecified(op, v, c, p) THEN "unspecified"
  ELSE IF AllowedB(op, v, c, p) THEN "yes" ELSE "no"

Rows ==
  {r \in [op : Ops, path : Paths, v : Byte, c : CurByte] :
      /\ Applicable(r.op, r.path.recv)
      /\ AccessApplies(r.op, r.path.access)
      /\ (NeedsCursor(r.op, r.path) <=> r.c # NoCur)}

Row(r) == [kind |-> "perm", op |-> r.op, path |-> PathStr(r.path), recv |-> r.path.recv, how |-> r.path.how,
           access |-> r.path.access, viewConst |-> r.v, cursorConst |-> r.c,
           allowed |-> Allowed(r.op, r.v, r.c, r.path),
           recvByte |-> IF RecvExists(r.v, r.c, r.path) THEN RecvByte(r.v, r.c, r.path) ELSE "",
           mutating |-> r.op \in MutOps, mechanism |-> Mechanism(r.op)]

\* conversions: views of every kind, array references and cursors
ConvKinds == {"message", "entry", "composite", "group", "data", "array", "cursor"}
ConvRow(k, f, t) == [kind |-> "conv", what |-> k, from |-> f, to |-> t, allowed |-> ConvertibleCv(f, t)]

\* element access types: what data()/begin()/operator[] hand out is const
\* exactly for a const byte type
ElemRow(k, b) == [kind |-> "elem", what |-> k, byte |-> b, elemConst |-> IsConstByte(b)]

\* cursor / view factories: byte type of the result
InitRow(f, b) == [kind |-> "init", what |-> f, byte |-> b,
                  result |-> IF f \in {"init_const_cursor", "make_const_view"} THEN "const" ELSE b]

EmitTable ==
  /\ \A f \in {"init_cursor", "init_const_cursor", "make_view", "make_const_view"} : \A b \in Byte : PrintT(ToJson(InitRow(f, b)))
  /\ \A r \in Rows : PrintT(ToJson(Row(r)))
  /\ \A k \in ConvKinds : \A f \in CvByte : \A t \in CvByte : PrintT(ToJson(ConvRow(k, f, t)))
  /\ \A k \in {"data", "array"} : \A b \in CvByte : PrintT(ToJson(ElemRow(k, b)))

-----------------------------------------------------------------------------
(* Table laws (checked as invariants on the initial state).                 *)

TableLaws ==
  \* 1. a const receiver admits no mutating operation, whatever the path
  /\ \A r \in Rows : (r.op \in MutOps /\ RecvExists(r.v, r.c, r.path) /\ RecvByte(r.v, r.c, r.path) = "const")
                        => Allowed(r.op, r.v, r.c, r.path) = "no"
  \* 2. a const root view admits no mutating operation on any path
  /\ \A r \in Rows : (r.op \in MutOps /\ r.v = "const") => Allowed(r.op, r.v, r.c, r.path) = "no"
  \* 3. a const cursor admits no cursor setter and hands out const views only
  /\ \A r \in Rows : (r.op \in MutOps /\ r.c = "const" /\ (r.op \in CursorOps \/ r.path.how = "cursor"))
                        => Allowed(r.op, r.v, r.c, r.path) = "no"
  \* 4. everything is allowed on mutable view + mutable (or no) cursor
  /\ \A r \in Rows : (r.v = "mut" /\ r.c # "const") => Allowed(r.op, r.v, r.c, r.path) = "yes"
  \* 5. access style (named / tag) never changes the verdict
  /\ \A r \in Rows :
       Allowed(r.op, r.v, r.c, r.path) = Allowed(r.op, r.v, r.c, [r.path EXCEPT !.access = "named"])
  \* 6. the conversion order is a partial order with mut below const
  /\ \A a \in Byte : Convertible(a, a)
  /\ \A a \in Byte : \A b \in Byte : (Convertible(a, b) /\ Convertible(b, a)) => a = b
  /\ \A a \in Byte : \A b \in Byte : \A d \in Byte : (Convertible(a, b) /\ Convertible(b, d)) => Convertible(a, d)
  /\ ~Convertible("const", "mut")
  \* 7. the cv lattice extends the two-point order; const is never dropped, whatever else is added
  /\ \A a \in Byte : \A b \in Byte : ConvertibleCv(a, b) = Convertible(a, b)
  /\ \A a \in CvByte : \A b \in CvByte : (ConvertibleCv(a, b) /\ IsConstByte(a)) => IsConstByte(b)

-----------------------------------------------------------------------------
(* The handle machine.  One buffer; `origin` is the byte type under which   *)
(* the user was given the buffer (ghost, never changes).  A handle is the   *)
(* view the user currently holds (its byte type) plus the cursor he holds   *)
(* (its byte type, and whether it has been positioned inside the buffer).   *)

VARIABLES origin,   \* ghost: "const" = the user only ever got a const view of the buffer
          vb,       \* byte type of the view handle
          cur,      \* [b : CurByte, bound : BOOLEAN]
          buf,      \* abstract buffer contents (number of writes, saturating)
          last      \* ghost: last action

vars == <<origin, vb, cur, buf, last>>

MaxBuf == 2
NoCursor == [b |-> NoCur, bound |-> FALSE]

TypeOK == /\ origin \in Byte /\ vb \in Byte
          /\ cur \in [b : CurByte, bound : BOOLEAN]
          /\ buf \in 0 .. MaxBuf

Init == /\ origin \in Byte
        /\ vb = origin
        /\ cur = NoCursor
        /\ buf = 0
        /\ last = [a |-> "init", op |-> "", mut |-> FALSE]

\* derive a sub-view by a named / tag accessor (composite member, group,
\* entry through iterator / operator[] / front / back, data, array, header,
\* raw()): same byte type
Derive(k) == /\ UNCHANGED <<origin, vb, cur, buf>>
             /\ last' = [a |-> "derive:" \o k, op |-> "", mut |-> FALSE]

\* declare a fresh cursor of any byte type (always possible in user code)
NewCursor(b) == /\ cur' = [b |-> b, bound |-> FALSE]
                /\ UNCHANGED <<origin, vb, buf>>
                /\ last' = [a |-> "new_cursor", op |-> "", mut |-> FALSE]

\* sbepp::init_cursor(view) / init_const_cursor(view)
InitCursor(constCursor) ==
  /\ cur' = [b |-> IF constCursor THEN "const" ELSE vb, bound |-> TRUE]
  /\ UNCHANGED <<origin, vb, buf>>
  /\ last' = [a |-> "init_cursor", op |-> "", mut |-> FALSE]

\* a cursor accessor that hands out a view: byte type of the result is the
\* cursor's; the cursor now points into the buffer
DeriveViaCursor ==
  /\ cur.b # NoCur
  /\ CursorGuard => Convertible(vb, cur.b)
  /\ vb' = cur.b
  /\ cur' = [cur EXCEPT !.bound = TRUE]
  /\ UNCHANGED <<origin, buf>>
  /\ last' = [a |-> "derive_via_cursor", op |-> "", mut |-> FALSE]

ConvertView(to) == /\ ConvGuard => Convertible(vb, to)
                   /\ vb' = to
                   /\ UNCHANGED <<origin, cur, buf>>
                   /\ last' = [a |-> "convert_view", op |-> "", mut |-> FALSE]

ConvertCursor(to) == /\ cur.b # NoCur
                     /\ ConvGuard => Convertible(cur.b, to)
                     /\ cur' = [cur EXCEPT !.b = to]
                     /\ UNCHANGED <<origin, vb, buf>>
                     /\ last' = [a |-> "convert_cursor", op |-> "", mut |-> FALSE]

SelfPath(recv) == [recv |-> recv, how |-> IF recv = "message" THEN "self" ELSE "name", access |-> "named"]

\* perform an operation on the current handle (receiver kind abstracted: the
\* verdict does not depend on it, TableLaws 5 and the definition of AllowedB)
Apply(op, recv) ==
  /\ Applicable(op, recv)
  /\ LET c == IF op \in CursorOps THEN cur.b ELSE NoCur IN
       /\ (op \in CursorOps => cur.b # NoCur)
       /\ Allowed(op, vb, c, SelfPath(recv)) = "yes"
  /\ buf' = IF op \in MutOps THEN (IF buf < MaxBuf THEN buf + 1 ELSE buf) ELSE buf
  /\ cur' = IF op \in CursorOps THEN [cur EXCEPT !.bound = TRUE] ELSE cur
  /\ UNCHANGED <<origin, vb>>
  /\ last' = [a |-> "apply", op |-> op, mut |-> op \in MutOps]

Next == \/ \E k \in {"composite", "entry", "group", "data", "array", "header", "raw"} : Derive(k)
        \/ \E b \in Byte : NewCursor(b)
        \/ \E cc \in BOOLEAN : InitCursor(cc)
        \/ DeriveViaCursor
        \/ \E t \in Byte : ConvertView(t)
        \/ \E t \in Byte : ConvertCursor(t)
        \/ \E op \in Ops : \E recv \in RecvKinds : Apply(op, recv)

Spec == Init /\ [][Next]_vars

\* the handle's capabilities
CanMutate == \E op \in MutOps : \E recv \in RecvKinds :
               /\ Applicable(op, recv)
               /\ Allowed(op, vb, IF op \in CursorOps THEN cur.b ELSE NoCur, SelfPath(recv)) = "yes"

(* The design-level result. *)
ConstIsSticky ==
  origin = "const" =>
    /\ vb = "const"                          \* no view handle on the buffer is mutable
    /\ (cur.bound => cur.b = "const")        \* no mutable cursor points into the buffer
    /\ ~CanMutate                            \* no mutating operation is allowed on the handle
    /\ buf = 0                               \* and indeed nothing was written

ReadOnlyFrame == [][~last'.mut => buf' = buf]_vars
WritesNeedMutableOrigin == [][buf' # buf => origin = "mut"]_vars

\* VIEW: the ghost `last` does not distinguish states
View == <<origin, vb, cur, buf>>
=============================================================================
