--------------------------- MODULE LiteralMatrix ---------------------------
(* C07 - the second family of schemas: every value-bearing attribute.       *)
(*                                                                           *)
(* The skeletons defined here have no free slots (every candidate list is a *)
(* singleton); they run through the Names machine unchanged, so each yields *)
(* one schema + PublicPaths, and the Names requirements are checked on them  *)
(* as well.  What this module states is the *enumeration* and which          *)
(* combinations are legal SBE (so sbeppc has to accept them):                *)
(*                                                                           *)
(*   LitSk(prim)   11 primitives x {required, optional, constant}            *)
(*                 x {none, sbe, rep, lz, special} explicit min/max/null     *)
(*                 x {public <type>, inline member, <ref>, field of the      *)
(*                    primitive type, field of the public type}              *)
(*   SkEnums       enums over every legal encoding, boundary values,         *)
(*                 char values over the printable edge characters            *)
(*   SkSets        sets over uint8..uint64, choices 0 and width-1            *)
(*   SkStrings     char arrays / char constants, characterEncoding           *)
(*   DescSk(cls)   description / semanticType strings on every entity kind   *)
(*   BlSk(..)      blockLength of a message / group against the width of the *)
(*                 header field that has to hold it                          *)
(* Each instance sits in a container of its own (own public type, own        *)
(* composite, own message) so that one generated header = one instance.      *)
EXTENDS Names

\* ------------------------------------------------------------ value tables --
Prims == <<"char", "int8", "uint8", "int16", "uint16", "int32", "uint32", "int64", "uint64", "float", "double">>
IntPrims == {"int8", "uint8", "int16", "uint16", "int32", "uint32", "int64", "uint64"}
FloatPrims == {"float", "double"}

\* the SBE defaults (FIX SBE 1.0 section "Primitive type ranges"), written out
SbeMin == [char |-> "32", int8 |-> "-127", uint8 |-> "0", int16 |-> "-32767", uint16 |-> "0",
           int32 |-> "-2147483647", uint32 |-> "0", int64 |-> "-9223372036854775807", uint64 |-> "0",
           float |-> "1.17549435e-38", double |-> "2.2250738585072014e-308"]
SbeMax == [char |-> "126", int8 |-> "127", uint8 |-> "254", int16 |-> "32767", uint16 |-> "65534",
           int32 |-> "2147483647", uint32 |-> "4294967294", int64 |-> "9223372036854775807",
           uint64 |-> "18446744073709551614", float |-> "3.4028234e38", double |-> "1.7976931348623157e308"]
SbeNull == [char |-> "0", int8 |-> "-128", uint8 |-> "255", int16 |-> "-32768", uint16 |-> "65535",
            int32 |-> "-2147483648", uint32 |-> "4294967295", int64 |-> "-9223372036854775808",
            uint64 |-> "18446744073709551615", float |-> "NaN", double |-> "NaN"]
\* the extremes the C++ underlying type can represent
RepMin == [char |-> "0", int8 |-> "-128", uint8 |-> "0", int16 |-> "-32768", uint16 |-> "0",
           int32 |-> "-2147483648", uint32 |-> "0", int64 |-> "-9223372036854775808", uint64 |-> "0",
           float |-> "-3.4028234e38", double |-> "-1.7976931348623157e308"]
RepMax == [char |-> "127", int8 |-> "127", uint8 |-> "255", int16 |-> "32767", uint16 |-> "65535",
           int32 |-> "2147483647", uint32 |-> "4294967295", int64 |-> "9223372036854775807",
           uint64 |-> "18446744073709551615", float |-> "3.4028234e38", double |-> "1.7976931348623157e308"]
DefConst == [char |-> "A", int8 |-> "1", uint8 |-> "1", int16 |-> "1", uint16 |-> "1", int32 |-> "1", uint32 |-> "1",
             int64 |-> "1", uint64 |-> "1", float |-> "1.5", double |-> "1.5"]

PresSeq == <<"required", "optional", "constant">>
LitSeq  == <<"none", "sbe", "rep", "lz", "special", "wide">>
PosSeq  == <<"public", "inline", "ref", "field", "tfield">>

\* which combinations are legal SBE
LegalLit(prim, c) ==
  /\ c.lit = "lz" => (prim \in IntPrims \/ prim \in FloatPrims \/ (prim = "char" /\ c.pres # "constant"))
  /\ c.lit = "special" => prim \in FloatPrims
  /\ c.lit = "wide" => prim \in FloatPrims       \* integer-looking lexemes beyond the exactly representable range
  /\ c.pos = "field" => /\ c.lit = "none"                                  \* a <field> has no min/max/null
                        /\ c.pres = "constant" => prim \notin FloatPrims   \* constant field needs an enum valueRef
  /\ (prim = "char" /\ c.pres = "constant") => c.lit \in {"none", "sbe"}  \* char constants are characters

Combos == [k \in 1 .. 90 |-> [pres |-> PresSeq[((k - 1) \div 30) + 1],
                               lit  |-> LitSeq[(((k - 1) \div 5) % 6) + 1],
                               pos  |-> PosSeq[((k - 1) % 5) + 1]]]

MinOf(prim, c) == IF c.pres = "constant" THEN ""
                  ELSE CASE c.lit = "none" -> "" [] c.lit = "sbe" -> SbeMin[prim] [] c.lit = "rep" -> RepMin[prim]
                         [] c.lit = "lz" -> "007" [] c.lit = "wide" -> "-9007199254740993" [] OTHER -> "-INF"
MaxOf(prim, c) == IF c.pres = "constant" THEN ""
                  ELSE CASE c.lit = "none" -> "" [] c.lit = "sbe" -> SbeMax[prim] [] c.lit = "rep" -> RepMax[prim]
                         [] c.lit = "lz" -> "08" [] c.lit = "wide" -> "18446744073709551615" [] OTHER -> "INF"
NullOf(prim, c) == IF c.pres # "optional" THEN ""
                   ELSE CASE c.lit = "none" -> "" [] c.lit = "sbe" -> SbeNull[prim] [] c.lit = "rep" -> SbeNull[prim]
                          [] c.lit = "lz" -> "09" [] c.lit = "wide" -> "16777217" [] OTHER -> "NaN"
ConstOf(prim, c) == IF c.pres # "constant" THEN ""
                    ELSE CASE c.lit = "none" -> DefConst[prim]
                           [] c.lit = "sbe" -> (IF prim = "char" THEN "z" ELSE SbeMax[prim])
                           [] c.lit = "rep" -> RepMin[prim]
                           [] c.lit = "lz" -> "08" [] c.lit = "wide" -> "123456789" [] OTHER -> "-INF"

Lbl(c) == c.pres \o "_" \o c.lit \o "_" \o c.pos
WithVals(e, prim, c) == [e EXCEPT !.min = MinOf(prim, c), !.max = MaxOf(prim, c), !.null = NullOf(prim, c),
                                  !.const = ConstOf(prim, c), !.slot = Lbl(c)]

\* entities of one instance; `b` = number of entities before it, `en` = index
\* of the helper enum (0 if none)
Inst(b, en, prim, c) ==
  LET l == Lbl(c) IN
  CASE c.pos = "public" -> << WithVals(PType(l, <<"p_" \o l>>, prim, c.pres), prim, c) >>
    [] c.pos = "inline" -> << [PComp(l, <<"ci_" \o l>>) EXCEPT !.slot = l],
                              WithVals(IType(b + 1, l, <<"i_" \o l>>, prim, c.pres), prim, c) >>
    [] c.pos = "ref"    -> << WithVals(PType(l, <<"r_" \o l>>, prim, c.pres), prim, c),
                              [PComp(l, <<"cr_" \o l>>) EXCEPT !.slot = l],
                              Ref(b + 2, l, <<"rf">>, b + 1) >>
    [] c.pos = "tfield" -> << WithVals(PType(l, <<"t_" \o l>>, prim, c.pres), prim, c),
                              Msg(l, <<"mt_" \o l>>),
                              [Field(b + 2, l, <<"f">>, b + 1, "") EXCEPT !.pres = ""] >>
    [] OTHER            -> << Msg(l, <<"mf_" \o l>>),
                              [Field(b + 1, l, <<"f">>, 0, prim) EXCEPT !.pres = c.pres,
                                 !.vref = IF c.pres = "constant" THEN "ve.v" ELSE ""] >>

RECURSIVE BuildLit(_, _, _, _, _)
BuildLit(prim, cs, k, en, acc) ==
  IF k > Len(cs) THEN acc ELSE BuildLit(prim, cs, k + 1, en, acc \o Inst(Len(acc), en, prim, cs[k]))

\* `lits`: the explicit-value flavours to include
LitSk(prim, lits) ==
  LET cs == SelectSeq(Combos, LAMBDA c : c.lit \in lits /\ LegalLit(prim, c))
      helper == IF prim \in FloatPrims THEN <<>>
                ELSE << PEnum("helper", <<"ve">>, prim), EVal(1, "helper", <<"v">>, DefConst[prim]) >>
  IN BuildLit(prim, cs, 1, 1, helper)

\* ------------------------------------------------------------------- enums --
EnumEncs == <<"uint8", "uint16", "uint32", "uint64", "int8", "int16", "int32", "int64">>
RECURSIVE BuildEnums(_, _)
BuildEnums(k, acc) ==
  IF k > Len(EnumEncs) THEN acc
  ELSE LET enc == EnumEncs[k]  b == Len(acc) IN
       BuildEnums(k + 1, acc \o << PEnum("int_" \o enc, <<"e_" \o enc>>, enc),
                                   EVal(b + 1, "lo", <<"lo">>, RepMin[enc]),
                                   EVal(b + 1, "hi", <<"hi">>, RepMax[enc]),
                                   Msg("int_" \o enc, <<"me_" \o enc>>),
                                   Field(b + 4, "f", <<"f">>, b + 1, ""),
                                   [Field(b + 4, "k", <<"k">>, b + 1, "") EXCEPT !.pres = "constant", !.vref = "e_" \o enc \o ".hi"],
                                   [Field(b + 4, "kp", <<"kp">>, 0, enc) EXCEPT !.pres = "constant", !.vref = "e_" \o enc \o ".lo"] >>)

CharEnum(b, cls, v1, v2) ==
  << PEnum("char_" \o cls, <<"ec_" \o cls>>, "char"),
     EVal(b + 1, "a", <<"a">>, v1), EVal(b + 1, "b", <<"b">>, v2),
     Msg("char_" \o cls, <<"mec_" \o cls>>),
     Field(b + 4, "f", <<"f">>, b + 1, ""),
     [Field(b + 4, "k", <<"k">>, b + 1, "") EXCEPT !.pres = "constant", !.vref = "ec_" \o cls \o ".b"] >>

SkEnums ==
  LET a0 == BuildEnums(1, <<>>)
      a1 == a0 \o CharEnum(Len(a0), "plain", "A", "z")
      a2 == a1 \o CharEnum(Len(a1), "edge", "!", "~")
      a3 == a2 \o CharEnum(Len(a2), "apos", "x", "'")
      a4 == a3 \o CharEnum(Len(a3), "bslash", "x", "\\")
      a5 == a4 \o CharEnum(Len(a4), "dquote", "x", "\"")
      b  == Len(a5)
      \* encodingType naming a <type>
      VRef(e) == [e EXCEPT !.vref = "e_uint8.hi"]
      \* encodingType naming a <type>; <type presence="constant" valueRef=...> in every position
  IN a5 \o << PType("named", <<"u16t">>, "uint16", "required"),
              PEnum("named", <<"e_named">>, "u16t"), EVal(b + 2, "lo", <<"lo">>, "0"), EVal(b + 2, "hi", <<"hi">>, "65535"),
              PType("namedc", <<"cht">>, "char", "required"),
              PEnum("namedc", <<"ec_named">>, "cht"), EVal(b + 6, "a", <<"a">>, "A"),
              VRef(PType("vref_public", <<"kv">>, "uint8", "constant")),                             \* b+8
              Msg("vref_tfield", <<"m_kv">>), [Field(b + 9, "f", <<"f">>, b + 8, "") EXCEPT !.pres = ""],   \* b+9, b+10
              PComp("vref_inline", <<"c_kvi">>), VRef(IType(b + 11, "vref_inline", <<"ikv">>, "uint8", "constant")),  \* b+11, b+12
              PComp("vref_ref", <<"c_kvr">>), Ref(b + 13, "r", <<"r">>, b + 8) >>                   \* b+13, b+14

\* two names for one value, also spelled differently (1 / 01).  Nothing says whether
\* sbeppc has to accept that (must = FALSE), but an accepted schema must still give
\* a visit / enum_to_string that compiles: the generated switch cannot have two
\* equal case labels.
SkEnumDup ==
  LET all == << PEnum("dupval", <<"e_dupval">>, "uint8"), EVal(1, "one", <<"one">>, "1"), EVal(1, "uno", <<"uno">>, "1"),
                PEnum("dupvalc", <<"ec_dupval">>, "char"), EVal(4, "a", <<"a">>, "A"), EVal(4, "b", <<"b">>, "A"),
                PEnum("dupvallz", <<"e_dupvallz">>, "int16"), EVal(7, "p", <<"p">>, "7"), EVal(7, "q", <<"q">>, "07") >>
  IN [k \in 1 .. Len(all) |-> [all[k] EXCEPT !.must = FALSE]]

\* -------------------------------------------------------------------- sets --
SetEncs == <<"uint8", "uint16", "uint32", "uint64">>
Width == [uint8 |-> 8, uint16 |-> 16, uint32 |-> 32, uint64 |-> 64]
RECURSIVE BuildSets(_, _)
BuildSets(k, acc) ==
  IF k > Len(SetEncs) THEN acc
  ELSE LET enc == SetEncs[k]  b == Len(acc) IN
       BuildSets(k + 1, acc \o << PSet(enc, <<"s_" \o enc>>, enc),
                                  Choice(b + 1, "lo", <<"lo">>, 0), Choice(b + 1, "hi", <<"hi">>, Width[enc] - 1),
                                  PComp(enc, <<"cs_" \o enc>>),
                                  ISet(b + 4, enc, <<"is_" \o enc>>, enc),
                                  Choice(b + 5, "lo", <<"lo">>, 0), Choice(b + 5, "hi", <<"hi">>, Width[enc] - 1),
                                  Msg(enc, <<"ms_" \o enc>>), Field(b + 8, "f", <<"f">>, b + 1, "") >>)
SkSets ==
  LET a == BuildSets(1, <<>>)  b == Len(a) IN
  a \o << PType("named", <<"u32t">>, "uint32", "required"),
          PSet("named", <<"s_named">>, "u32t"), Choice(b + 2, "lo", <<"lo">>, 0), Choice(b + 2, "hi", <<"hi">>, 31) >>

\* ----------------------------------------------------- char arrays / strings --
ArrT(s, n, prim, len, cenc) == [PType(s, <<n>>, prim, "required") EXCEPT !.len = len, !.cenc = cenc]
ConstT(s, n, len, v, cenc)  == [PType(s, <<n>>, "char", "constant") EXCEPT !.len = len, !.const = v, !.cenc = cenc]
\* a string constant in the four positions: public + field of it, inline, ref
StrConst(b, cls, len, v) ==
  << ConstT("const_" \o cls, "k_" \o cls, len, v, ""),
     Msg("const_" \o cls, <<"mk_" \o cls>>), [Field(b + 2, "f", <<"f">>, b + 1, "") EXCEPT !.pres = ""],
     PComp("const_" \o cls, <<"ck_" \o cls>>),
     [IType(b + 4, "const_" \o cls, <<"ik_" \o cls>>, "char", "constant") EXCEPT !.len = len, !.const = v],
     Ref(b + 4, "r", <<"r">>, b + 1) >>

SkStrings ==
  LET a0 == << ArrT("arr", "a_char0", "char", 0, ""), ArrT("arr", "a_char2", "char", 2, "ISO_8859_1"),
               ArrT("arr", "a_char8", "char", 8, "UTF-8"), ArrT("arr", "a_u8", "uint8", 4, ""), ArrT("arr", "a_i8", "int8", 3, ""),
               Msg("arr", <<"m_arr">>), Field(6, "f0", <<"f0">>, 1, ""), Field(6, "f2", <<"f2">>, 2, ""), Field(6, "f8", <<"f8">>, 3, ""),
               Field(6, "fu", <<"fu">>, 4, ""), Field(6, "fi", <<"fi">>, 5, ""),
               PComp("arr", <<"c_arr">>), [IType(12, "arr", <<"ia">>, "char", "required") EXCEPT !.len = 5, !.cenc = "ASCII"], Ref(12, "r", <<"r">>, 3) >>
      a1 == a0 \o StrConst(Len(a0), "single", 1, "A")
      a2 == a1 \o StrConst(Len(a1), "word", 5, "hello")
      a3 == a2 \o StrConst(Len(a2), "padded", 8, "hi")
      a4 == a3 \o StrConst(Len(a3), "apos1", 1, "'")
      a5 == a4 \o StrConst(Len(a4), "bslash1", 1, "\\")
      a6 == a5 \o StrConst(Len(a5), "dquote1", 1, "\"")
      a7 == a6 \o StrConst(Len(a6), "dquote", 3, "a\"b")
      a8 == a7 \o StrConst(Len(a7), "bslash", 3, "a\\b")
      a9 == a8 \o StrConst(Len(a8), "bslashend", 2, "a\\")
      a10 == a9 \o StrConst(Len(a9), "apos", 3, "a'b")
  IN a10

\* ----------------------------------------------------- descriptive strings --
DescText == [plain |-> "plain text", dquote |-> "say \"hi\"", bslash |-> "back\\slash", bslashend |-> "ends with \\",
             percent |-> "100% {} {0}", apos |-> "it's", qmarks |-> "what??/",
             newline |-> "line one\nline two\r\ttabbed"]
DescSk(cls) ==
  LET t == DescText[cls]
      W(e) == [e EXCEPT !.desc = t]
      S(e) == [e EXCEPT !.styp = t]
  IN << W(PType("type", <<"dt">>, "uint32", "required")),                          \* 1
        W(PEnum("enum", <<"de">>, "uint8")), EVal(2, "v", <<"v">>, "1"),           \* 2,3
        PEnum("evalue", <<"dv">>, "uint8"), W(EVal(4, "evalue", <<"v">>, "1")),    \* 4,5
        W(PSet("set", <<"ds">>, "uint8")), Choice(6, "c", <<"c">>, 0),             \* 6,7
        PSet("choice", <<"dc">>, "uint8"), W(Choice(8, "choice", <<"c">>, 0)),     \* 8,9
        W(PComp("composite", <<"dcm">>)), IType(10, "m", <<"m">>, "uint8", "required"),   \* 10,11
        PComp("inline", <<"dci">>), W(IType(12, "inline", <<"m2">>, "uint8", "required")), \* 12,13
        PComp("ref", <<"dcr">>), W(Ref(14, "ref", <<"r">>, 1)),                    \* 14,15
        W(Msg("message", <<"dm">>)), Field(16, "f", <<"f">>, 0, "uint8"),          \* 16,17
        Msg("field", <<"dmf">>), W(Field(18, "field", <<"f">>, 0, "uint8")),       \* 18,19
        Msg("group", <<"dmg">>), W(Group(20, "group", <<"g">>)), Field(21, "x", <<"x">>, 0, "uint8"),  \* 20,21,22
        Msg("data", <<"dmd">>), W(Data(23, "data", <<"d">>)),                      \* 23,24
        S(PType("stype", <<"st">>, "uint32", "required")),                         \* 25
        Msg("sfield", <<"smf">>), S(Field(26, "sfield", <<"f">>, 0, "uint8")),     \* 26,27
        S(Msg("smessage", <<"sm">>)), Field(28, "f", <<"f">>, 0, "uint8") >>       \* 28,29

\* ------------------------------------------------- case-variant references --
\* SBE looks types up case-insensitively: every kind of reference to a type,
\* spelled in another letter case than the declaration (`tname` / `prim` / `dim`
\* / `hdr` / `vref` carry the reference text).  Every reference kind sits in a
\* container of its own.
TRef(e, txt) == [e EXCEPT !.tname = txt]
SkCase ==
  << PEnum("decl", <<"Side">>, "uint8"), EVal(1, "v", <<"Buy">>, "1"), EVal(1, "v", <<"Sell">>, "2"),     \* 1,2,3
     PSet("decl", <<"Flags">>, "uint8"), Choice(4, "c", <<"Hot">>, 0),                                   \* 4,5
     PComp("decl", <<"Px">>), IType(6, "m", <<"mant">>, "int32", "required"),                            \* 6,7
     PType("decl", <<"Qty">>, "uint32", "required"),                                                     \* 8
     [PType("decl", <<"Magic">>, "uint16", "constant") EXCEPT !.const = "777"],                          \* 9
     PType("decl", <<"U16t">>, "uint16", "required"),                                                    \* 10
     PEnum("enum_encodingType", <<"Ecase">>, "u16T"), EVal(11, "v", <<"One">>, "1"),                     \* 11,12
     PSet("set_encodingType", <<"Scase">>, "U16T"), Choice(13, "c", <<"Bit">>, 3),                       \* 13,14
     [PType("type_valueRef", <<"Kside">>, "uint8", "constant") EXCEPT !.vref = "SIDE.Sell"],             \* 15
     PComp("ref_type", <<"Refs">>),                                                                      \* 16
     TRef(Ref(16, "r", <<"r_enum">>, 1), "SIDE"), TRef(Ref(16, "r", <<"r_set">>, 4), "flags"),           \* 17,18
     TRef(Ref(16, "r", <<"r_comp">>, 6), "PX"), TRef(Ref(16, "r", <<"r_scalar">>, 8), "qty"),            \* 19,20
     TRef(Ref(16, "r", <<"r_const">>, 9), "MAGIC"), TRef(Ref(16, "r", <<"r_kside">>, 15), "kside"),      \* 21,22
     [Msg("field_type", <<"m_field">>) EXCEPT !.hdr = "MESSAGEHEADER"],                                  \* 23
     TRef(Field(23, "f", <<"f_enum">>, 1, ""), "SIDE"), TRef(Field(23, "f", <<"f_set">>, 4, ""), "FLAGS"),   \* 24,25
     TRef(Field(23, "f", <<"f_comp">>, 6, ""), "px"), TRef(Field(23, "f", <<"f_scalar">>, 8, ""), "QTY"),    \* 26,27
     Msg("const_field_enum", <<"m_kenum">>),                                                             \* 28
     [TRef(Field(28, "k", <<"k">>, 1, ""), "SIDE") EXCEPT !.pres = "constant", !.vref = "side.Sell"],    \* 29
     Msg("const_field_prim", <<"m_kprim">>),                                                             \* 30
     [Field(30, "k", <<"k">>, 0, "uint8") EXCEPT !.pres = "constant", !.vref = "SIDE.Buy"],              \* 31
     Msg("const_type_field", <<"m_ktype">>),                                                             \* 32
     [TRef(Field(32, "k", <<"k">>, 9, ""), "magic") EXCEPT !.pres = ""],                                 \* 33
     [TRef(Field(32, "k2", <<"k2">>, 15, ""), "KSIDE") EXCEPT !.pres = ""],                              \* 34
     Msg("dimensionType", <<"m_group">>), [Group(35, "g", <<"g">>) EXCEPT !.dim = "GROUPSIZEENCODING"],  \* 35,36
     TRef(Field(36, "f", <<"gf_enum">>, 1, ""), "side"),                                                 \* 37
     [TRef(Field(36, "k", <<"gk">>, 1, ""), "sIDE") EXCEPT !.pres = "constant", !.vref = "Side.Buy"],    \* 38
     Msg("data_type", <<"m_data">>), [Data(39, "d", <<"d">>) EXCEPT !.dim = "VARDATAENCODING"] >>        \* 39,40

\* ------------------------------------------- level header element types --
\* The members sbeppc itself reads or writes in the three support composites
\* (message header, group dimension, <data> length prefix), each declared
\* with every primitive type and presence.  SBE wants unsigned integers there
\* (`must`); for everything else the documentation is silent on whether
\* sbeppc refuses the schema - but what it accepts has to compile, with every
\* accessor, filler, size computation and visitor instantiated.
UnsignedPrims == {"uint8", "uint16", "uint32", "uint64"}
HdrMembers == [header |-> <<"blockLength", "templateId", "schemaId", "version">>,
               dim    |-> <<"blockLength", "numInGroup">>,
               data   |-> <<"length">>]
HdrCompName == [header |-> "messageHeader", dim |-> "groupSizeEncoding", data |-> "varDataEncoding"]
HdrPrimSk(role, member, prim, pres) ==
  LET ms == HdrMembers[role]
      comp == << PComp(role, <<HdrCompName[role]>>) >> \o
              [k \in 1 .. Len(ms) |-> IF ms[k] = member
                                      THEN [IType(1, role \o "_" \o member, <<ms[k]>>, prim, pres)
                                              EXCEPT !.const = IF pres = "constant" THEN DefConst[prim] ELSE ""]
                                      ELSE IType(1, role, <<ms[k]>>, "uint16", "required")] \o
              (IF role = "data" THEN << [IType(1, role, <<"varData">>, "uint8", "required") EXCEPT !.len = 0] >> ELSE <<>>)
      b == Len(comp)
      body == CASE role = "header" -> << Msg("message", <<"m">>), Field(b + 1, "f", <<"f">>, 0, "uint8") >>
                [] role = "dim"    -> << Msg("message", <<"m">>), Group(b + 1, "group", <<"g">>), Field(b + 2, "f", <<"f">>, 0, "uint8") >>
                [] OTHER           -> << Msg("message", <<"m">>), Field(b + 1, "f", <<"f">>, 0, "uint8"), Data(b + 1, "data", <<"d">>) >>
      all == comp \o body
  IN [k \in 1 .. Len(all) |-> [all[k] EXCEPT !.must = (prim \in UnsignedPrims /\ pres = "required")]]

\* -------------------------------------------------------------- blockLength --
\* A message / group whose block is `n` bytes long, with the header field that
\* has to carry that number being `hprim`.  When n does not fit, the schema
\* cannot be encoded; the documentation does not say whether sbeppc rejects it,
\* so `must` (sbeppc has to accept) is FALSE there - but accepted => compiles.
Fits(hprim, n) == n <= (IF hprim = "uint8" THEN 255 ELSE 65535)
Hdr4(b, blprim) == << PComp("hdr", <<"messageHeader">>),
                      IType(b + 1, "hdr", <<"blockLength">>, blprim, "required"),
                      IType(b + 1, "hdr", <<"templateId">>, "uint16", "required"),
                      IType(b + 1, "hdr", <<"schemaId">>, "uint16", "required"),
                      IType(b + 1, "hdr", <<"version">>, "uint16", "required") >>
Dim2(b, blprim) == << PComp("dim", <<"groupSizeEncoding">>),
                      IType(b + 1, "dim", <<"blockLength">>, blprim, "required"),
                      IType(b + 1, "dim", <<"numInGroup">>, "uint16", "required") >>
BlSk(level, hprim, n) ==
  LET h == Hdr4(0, IF level = "message" THEN hprim ELSE "uint16")
      d == Dim2(5, IF level = "group" THEN hprim ELSE "uint16")
      blob == [PType("blob", <<"blob">>, "uint8", "required") EXCEPT !.len = n]
      body == IF level = "message"
              THEN << Msg("message", <<"big">>), Field(10, "f", <<"f">>, 9, "") >>
              ELSE << Msg("message", <<"big">>), Group(10, "group", <<"g">>), Field(11, "f", <<"f">>, 9, "") >>
      all == h \o d \o <<blob>> \o body
  IN [k \in 1 .. Len(all) |-> [all[k] EXCEPT !.must = Fits(hprim, n)]]

\* explicit blockLength attribute larger than the minimum, at the edge of the header type
BlAttrSk(hprim, n) ==
  LET all == Hdr4(0, hprim) \o << [Msg("message", <<"padded">>) EXCEPT !.bl = n], Field(6, "f", <<"f">>, 0, "uint8") >>
  IN [k \in 1 .. Len(all) |-> [all[k] EXCEPT !.must = Fits(hprim, n)]]
=============================================================================
