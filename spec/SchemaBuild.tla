---------------------------- MODULE SchemaBuild ----------------------------
(* The generative scope of schemas: a state machine that BUILDS a schema    *)
(* step by step (DESIGN.md 2.6).  A behaviour picks the byte order, the     *)
(* layouts of the message header / group dimension / <data> length          *)
(* composites, adds composites element by element, messages, fields at the  *)
(* end of a level (with or without a custom offset), groups (nested), data  *)
(* members, and finally seals every level with or without an explicit       *)
(* blockLength.  Every choice is constructive - an offset is the current    *)
(* minimum plus a slack, a blockLength the minimum plus a slack - so the    *)
(* finished schema satisfies the rule set of Rules.tla; that is checked as   *)
(* an invariant (FinishedIsValid), which makes Rules.tla the oracle of "this *)
(* schema has to be accepted", independent of this generator.                *)
(*                                                                          *)
(* TLC runs the machine in simulation mode (random behaviours, seeded); the *)
(* finished schema of every behaviour is printed as JSON (records of        *)
(* Rules.tla; tools/rulesgen.py denormalize is the transliteration to the   *)
(* schema JSON the pipeline uses).  tools/viewpipe.py then runs each through *)
(* the real sbeppc and through the view / cursor / visit machines exactly    *)
(* like a catalogue schema.                                                  *)
EXTENDS Integers, Sequences, FiniteSets, TLC, Json

CONSTANTS Pkg,        \* package (C++ namespace) of the generated schemas; the behaviour number is appended by the driver
          MaxSteps,   \* build steps (composite elements, messages, fields, groups, data)
          MaxMsgs, MaxComps, MaxElems, MaxFields, MaxGroups, MaxData, MaxDepth

R(s) == INSTANCE Rules WITH S <- s

VARIABLES sch,     \* the schema so far (record of Rules.tla)
          phase,   \* "order" "header" "dimA" "dimB" "dataA" "dataB" "build" "seal" "done"
          pend,    \* build phase: the kind of step chosen for the next step ("" = none yet)
          ctr,     \* counter for names and ids
          steps,   \* build steps taken
          seal     \* seal phase: index of the next level to seal
vars == <<sch, phase, pend, ctr, steps, seal>>

----------------------------------------------------------------------------
(* constructors (records of Rules.tla) *)
Ty(n, p) == [kind |-> "type", name |-> n, prim |-> p, length |-> 1, lenx |-> FALSE, presence |-> "required",
             offset |-> -1, min |-> "", max |-> "", null |-> "", const |-> "", valueRef |-> ""]
TyO(n, p) == [Ty(n, p) EXCEPT !.presence = "optional"]
Arr(n, p, len) == [Ty(n, p) EXCEPT !.length = len, !.lenx = TRUE]
Const(n, p, v) == [Ty(n, p) EXCEPT !.presence = "constant", !.const = v]
ConstS(n, len, v) == [Arr(n, "char", len) EXCEPT !.presence = "constant", !.const = v]
At(e, off) == [e EXCEPT !.offset = off]
EV(n, v) == [name |-> n, value |-> v]
CH(n, i) == [name |-> n, index |-> i]
En(n, enc, vals) == [kind |-> "enum", name |-> n, enc |-> enc, offset |-> -1, values |-> vals]
St(n, enc, chs) == [kind |-> "set", name |-> n, enc |-> enc, offset |-> -1, choices |-> chs]
Cm(n, els) == [kind |-> "composite", name |-> n, offset |-> -1, elements |-> els]
Rf(n, t) == [kind |-> "ref", name |-> n, type |-> t, offset |-> -1]
Fld(n, id, t, off, pres, vref) == [name |-> n, id |-> id, type |-> t, offset |-> off, presence |-> pres, valueRef |-> vref]
Dat(n, id, t) == [name |-> n, id |-> id, type |-> t]
Grp(n, id, dim) == [name |-> n, id |-> id, dim |-> dim, blockLength |-> -1, fields |-> <<>>, groups |-> <<>>, data |-> <<>>]
Mes(n, id) == [name |-> n, id |-> id, blockLength |-> -1, fields |-> <<>>, groups |-> <<>>, data |-> <<>>]

Digit(n) == SubSeq("0123456789", n + 1, n + 1)
RECURSIVE NumStr(_)
NumStr(n) == IF n < 10 THEN Digit(n) ELSE NumStr(n \div 10) \o Digit(n % 10)
Nm(prefix) == prefix \o NumStr(ctr)

----------------------------------------------------------------------------
(* the support composites: layouts to pick from *)
U(n, p) == Ty(n, p)
HeaderLayouts ==
  << Cm("messageHeader", <<U("blockLength", "uint16"), U("templateId", "uint16"), U("schemaId", "uint16"), U("version", "uint16")>>),
     Cm("messageHeader", <<U("version", "uint16"), U("schemaId", "uint16"), U("templateId", "uint16"), U("blockLength", "uint16")>>),
     Cm("messageHeader", <<U("blockLength", "uint8"), U("templateId", "uint8"), U("schemaId", "uint8"), U("version", "uint8")>>),
     Cm("messageHeader", <<U("blockLength", "uint32"), U("templateId", "uint16"), U("schemaId", "uint32"), U("version", "uint8")>>),
     Cm("messageHeader", <<U("blockLength", "uint64"), U("templateId", "uint32"), U("schemaId", "uint64"), U("version", "uint64")>>),
     Cm("messageHeader", <<U("blockLength", "uint16"), At(U("templateId", "uint16"), 4), U("schemaId", "uint16"), At(U("version", "uint16"), 12)>>),
     Cm("messageHeader", <<U("blockLength", "uint16"), U("templateId", "uint16"), U("schemaId", "uint16"), U("version", "uint16"),
                           U("numGroups", "uint16"), U("numVarDataFields", "uint16")>>),
     Cm("messageHeader", <<U("reserved", "uint32"), U("blockLength", "uint16"), Const("hk", "uint8", "1"), U("templateId", "uint16"),
                           U("schemaId", "uint16"), U("version", "uint16")>>) >>
DimLayouts(n) ==
  << Cm(n, <<U("blockLength", "uint16"), U("numInGroup", "uint16")>>),
     Cm(n, <<U("numInGroup", "uint16"), U("blockLength", "uint16")>>),
     Cm(n, <<U("blockLength", "uint8"), U("numInGroup", "uint8")>>),
     Cm(n, <<U("blockLength", "uint32"), U("numInGroup", "uint16")>>),
     Cm(n, <<U("blockLength", "uint8"), U("numInGroup", "uint32")>>),
     Cm(n, <<U("blockLength", "uint64"), U("numInGroup", "uint64")>>),
     Cm(n, <<U("blockLength", "uint16"), At(U("numInGroup", "uint16"), 5)>>),
     Cm(n, <<U("blockLength", "uint16"), U("numInGroup", "uint8"), U("numGroups", "uint16"), U("numVarDataFields", "uint16")>>),
     Cm(n, <<U("blockLength", "uint16"), U("pad", "uint16"), U("numInGroup", "uint16")>>) >>
DataLayouts(n) ==
  << Cm(n, <<U("length", "uint32"), Arr("varData", "uint8", 0)>>),
     Cm(n, <<U("length", "uint8"), Arr("varData", "char", 0)>>),
     Cm(n, <<U("length", "uint16"), Arr("varData", "int8", 0)>>),
     Cm(n, <<U("length", "uint64"), Arr("varData", "uint8", 0)>>),
     Cm(n, <<U("length", "uint16"), Arr("varData", "char", 0)>>) >>

\* the pool of public types every schema starts with (all member kinds)
Pool ==
  << [TyO("u32opt", "uint32") EXCEPT !.null = "4294967295"], [Ty("u32req", "uint32") EXCEPT !.min = "0", !.max = "1000"],
     [TyO("i16opt", "int16") EXCEPT !.null = "-32768"], TyO("f32opt", "float"), Ty("dbl", "double"),
     Arr("str4", "char", 4), Arr("bytes3", "uint8", 3), Arr("ch1", "char", 1),
     Const("cconst", "uint8", "7"), ConstS("sconst", 3, "abc"),
     En("e8", "uint8", <<EV("A", "1"), EV("B", "2")>>), En("ec", "char", <<EV("X", "x"), EV("Y", "y")>>),
     En("e16", "uint16", <<EV("P", "300"), EV("Q", "65534")>>), En("e64", "uint64", <<EV("Lo", "5"), EV("Hi", "2000000000")>>),
     St("s8", "uint8", <<CH("a", 0), CH("b", 7)>>), St("s16", "uint16", <<CH("z", 15)>>),
     St("s32", "uint32", <<CH("lo", 0), CH("hi", 31)>>), St("s64", "uint64", <<CH("lo", 1), CH("hi", 63)>>),
     Cm("point", <<Ty("x", "int32"), Ty("y", "int64")>>) >>
PoolNames == [k \in 1 .. Len(Pool) |-> Pool[k].name]

Prims == <<"char", "int8", "uint8", "int16", "uint16", "int32", "uint32", "int64", "uint64", "float", "double">>

----------------------------------------------------------------------------
(* access by path: <<"messages", 2, "groups", 1>> *)
RECURSIVE GetAt(_, _)
GetAt(v, path) == IF path = <<>> THEN v ELSE GetAt(v[Head(path)], Tail(path))
RECURSIVE SetAt(_, _, _)
SetAt(v, path, new) == IF path = <<>> THEN new ELSE [v EXCEPT ![Head(path)] = SetAt(v[Head(path)], Tail(path), new)]

Levels == R(sch)!AllLevels                \* <<[path, def, depth]>> of the schema so far
TypeIdx(n) == CHOOSE i \in 1 .. Len(sch.types) : sch.types[i].name = n
IsGenComp(t) == t.kind = "composite" /\ Len(t.name) >= 2 /\ SubSeq(t.name, 1, 2) = "gc"
GenComps == SelectSeq([i \in 1 .. Len(sch.types) |-> i], LAMBDA i : IsGenComp(sch.types[i]))
\* a generated composite is sealed once something refers to it (its size is then part of other layouts)
RECURSIVE RefsIn(_)
RefsIn(e) == CASE e.kind = "ref" -> {e.type}
               [] e.kind = "composite" -> UNION {RefsIn(e.elements[k]) : k \in 1 .. Len(e.elements)}
               [] OTHER -> {}
UsedNames == UNION {RefsIn(sch.types[i]) : i \in 1 .. Len(sch.types)}
             \cup UNION {{Levels[l].def.fields[k].type : k \in 1 .. Len(Levels[l].def.fields)} : l \in 1 .. Len(Levels)}
OpenComps == SelectSeq(GenComps, LAMBDA i : sch.types[i].name \notin UsedNames /\ Len(sch.types[i].elements) < MaxElems)

----------------------------------------------------------------------------
(* what can be appended *)
Slack == <<-1, 0, 1, 3>>        \* -1: no custom offset; else minimum + slack
OffOf(min, sl) == IF sl < 0 THEN -1 ELSE min + sl

\* element kinds of a composite (name given by the caller)
InlineComps(n) == << Cm(n, <<Ty("q", "uint32"), Arr("r", "char", 2)>>),
                     Cm(n, <<Ty("a", "uint8"), At(Ty("b", "uint16"), 3), Const("k", "uint16", "9")>>),
                     Cm(n, <<Rf("p", "point"), TyO("o", "int8")>>) >>
ElemKinds(n, self) ==
  [k \in 1 .. Len(Prims) |-> Ty(n, Prims[k])] \o [k \in 1 .. Len(Prims) |-> TyO(n, Prims[k])]
  \o << Arr(n, "char", 2), Arr(n, "uint8", 5), Arr(n, "int8", 1), Const(n, "uint16", "9"), Const(n, "char", "Z"), ConstS(n, 3, "abc"),
        En(n, "uint8", <<EV("U", "1")>>), En(n, "char", <<EV("C", "c"), EV("D", "d")>>), St(n, "uint16", <<CH("z", 15)>>),
        St(n, "uint64", <<CH("t", 63), CH("l", 0)>>) >>
  \o InlineComps(n)
  \o [k \in 1 .. Len(PoolNames) |-> Rf(n, PoolNames[k])]
  \o [k \in 1 .. Len(GenComps) |-> Rf(n, sch.types[GenComps[k]].name)]
\* (a composite never refers to itself: `self` is filtered out below)

\* field kinds of a level
FieldKinds(n, id) ==
  [k \in 1 .. Len(Prims) |-> Fld(n, id, Prims[k], -1, "required", "")]
  \o [k \in 1 .. Len(Prims) |-> Fld(n, id, Prims[k], -1, "optional", "")]
  \o << Fld(n, id, "uint8", -1, "constant", "e8.B"), Fld(n, id, "e8", -1, "constant", "e8.A"),
        Fld(n, id, "ec", -1, "constant", "ec.Y"), Fld(n, id, "char", -1, "constant", "ec.X") >>
  \o [k \in 1 .. Len(PoolNames) |-> Fld(n, id, PoolNames[k], -1, "required", "")]
  \o [k \in 1 .. Len(GenComps) |-> Fld(n, id, sch.types[GenComps[k]].name, -1, "required", "")]
IsConstFld(f) == R(sch)!IsConstField(f)

----------------------------------------------------------------------------
Init == /\ sch = [package |-> Pkg, id |-> 77, version |-> 3, byteOrder |-> "littleEndian", headerType |-> "messageHeader",
                  types |-> <<>>, messages |-> <<>>]
        /\ phase = "order" /\ pend = "" /\ ctr = 1 /\ steps = 0 /\ seal = 1

Keep == UNCHANGED <<pend, ctr, steps, seal>>
PickOrder == /\ phase = "order"
             /\ \E bo \in {"littleEndian", "bigEndian"} : sch' = [sch EXCEPT !.byteOrder = bo]
             /\ phase' = "header" /\ Keep
AddType(t, next) == /\ sch' = [sch EXCEPT !.types = Append(@, t)] /\ phase' = next /\ Keep
PickHeader == phase = "header" /\ \E k \in 1 .. Len(HeaderLayouts) : AddType(HeaderLayouts[k], "dimA")
PickDimA == phase = "dimA" /\ \E k \in 1 .. Len(DimLayouts("x")) : AddType(DimLayouts("groupSizeEncoding")[k], "dimB")
PickDimB == phase = "dimB" /\ \E k \in 1 .. Len(DimLayouts("x")) : AddType(DimLayouts("dimB")[k], "dataA")
PickDataA == phase = "dataA" /\ \E k \in 1 .. Len(DataLayouts("x")) : AddType(DataLayouts("varDataEncoding")[k], "dataB")
PickDataB == /\ phase = "dataB"
             /\ \E k \in 1 .. Len(DataLayouts("x")) :
                  sch' = [sch EXCEPT !.types = Append(@, DataLayouts("varB")[k]) \o Pool]
             /\ phase' = "build" /\ Keep

\* ---- build phase: first the kind of step, then its parameters (so that kinds are equally likely)
CanComp  == Len(GenComps) < MaxComps
CanElem  == Len(OpenComps) > 0
CanMsg   == Len(sch.messages) < MaxMsgs
LvWhere(P(_)) == SelectSeq([l \in 1 .. Len(Levels) |-> l], LAMBDA l : P(Levels[l]))
FieldLvs == LvWhere(LAMBDA lv : Len(lv.def.fields) < MaxFields)
GroupLvs == LvWhere(LAMBDA lv : Len(lv.def.groups) < MaxGroups /\ lv.depth < MaxDepth)
DataLvs  == LvWhere(LAMBDA lv : Len(lv.def.data) < MaxData)
Enabled(kind) == CASE kind = "comp" -> CanComp [] kind = "elem" -> CanElem [] kind = "msg" -> CanMsg
                   [] kind = "field" -> Len(FieldLvs) > 0 [] kind = "group" -> Len(GroupLvs) > 0
                   [] kind = "data" -> Len(DataLvs) > 0 [] OTHER -> FALSE
Kinds == {"comp", "elem", "msg", "field", "field2", "field3", "group", "data"}     \* (fields three times as likely)
KindOf(k) == IF k \in {"field2", "field3"} THEN "field" ELSE k

Choose == /\ phase = "build" /\ pend = "" /\ steps < MaxSteps
          /\ \E k \in Kinds : Enabled(KindOf(k)) /\ pend' = KindOf(k)
          /\ UNCHANGED <<sch, phase, ctr, steps, seal>>

Done1 == /\ pend' = "" /\ ctr' = ctr + 1 /\ steps' = steps + 1 /\ UNCHANGED <<phase, seal>>

NewComp == /\ phase = "build" /\ pend = "comp"
           /\ \E e \in {ElemKinds("e1", "")[k] : k \in 1 .. Len(ElemKinds("e1", ""))} :
                sch' = [sch EXCEPT !.types = Append(@, Cm(Nm("gc"), <<e>>))]
           /\ Done1
AddElem == /\ phase = "build" /\ pend = "elem"
           /\ \E i \in {OpenComps[k] : k \in 1 .. Len(OpenComps)} :
                LET c == sch.types[i]
                    nm == "e" \o NumStr(Len(c.elements) + 1)
                    ks == ElemKinds(nm, c.name)
                IN \E k \in 1 .. Len(ks) : \E sl \in {Slack[j] : j \in 1 .. Len(Slack)} :
                     /\ ~(ks[k].kind = "ref" /\ ks[k].type = c.name)
                     /\ (sl >= 0) => ~R(sch)!IsConstEnc(ks[k])
                     /\ sch' = [sch EXCEPT !.types[i].elements = Append(@, At(ks[k], OffOf(R(sch)!Size(c), sl)))]
           /\ Done1
NewMsg == /\ phase = "build" /\ pend = "msg"
          /\ sch' = [sch EXCEPT !.messages = Append(@, Mes(Nm("m"), ctr))]
          /\ Done1
AddField == /\ phase = "build" /\ pend = "field"
            /\ \E l \in {FieldLvs[k] : k \in 1 .. Len(FieldLvs)} :
                 LET lv == Levels[l]
                     ks == FieldKinds(Nm("f"), ctr)
                 IN \E k \in 1 .. Len(ks) : \E sl \in {Slack[j] : j \in 1 .. Len(Slack)} :
                      /\ (sl >= 0) => ~IsConstFld(ks[k])
                      /\ sch' = SetAt(sch, lv.path,
                                      [lv.def EXCEPT !.fields = Append(@, [ks[k] EXCEPT !.offset = OffOf(R(sch)!MinBL(lv.def), sl)])])
            /\ Done1
AddGroup == /\ phase = "build" /\ pend = "group"
            /\ \E l \in {GroupLvs[k] : k \in 1 .. Len(GroupLvs)} : \E dim \in {"groupSizeEncoding", "dimB"} :
                 LET lv == Levels[l]
                 IN sch' = SetAt(sch, lv.path, [lv.def EXCEPT !.groups = Append(@, Grp(Nm("g"), ctr, dim))])
            /\ Done1
AddData == /\ phase = "build" /\ pend = "data"
           /\ \E l \in {DataLvs[k] : k \in 1 .. Len(DataLvs)} : \E t \in {"varDataEncoding", "varB"} :
                LET lv == Levels[l]
                IN sch' = SetAt(sch, lv.path, [lv.def EXCEPT !.data = Append(@, Dat(Nm("d"), ctr, t))])
           /\ Done1

\* ---- sealing: every level gets its blockLength attribute (or none)
ToSeal == /\ phase = "build" /\ pend = ""
          /\ steps = MaxSteps \/ ~ \E k \in Kinds : Enabled(KindOf(k))
          /\ Len(sch.messages) > 0
          /\ phase' = "seal" /\ UNCHANGED <<sch, pend, ctr, steps, seal>>
BlSlack == <<-1, -1, 0, 2, 5>>
SealOne == /\ phase = "seal" /\ seal <= Len(Levels)
           /\ LET lv == Levels[seal]
              IN \E sl \in {BlSlack[j] : j \in 1 .. Len(BlSlack)} :
                   sch' = SetAt(sch, lv.path, [lv.def EXCEPT !.blockLength = OffOf(R(sch)!MinBL(lv.def), sl)])
           /\ seal' = seal + 1 /\ UNCHANGED <<phase, pend, ctr, steps>>
Finish == /\ phase = "seal" /\ seal > Len(Levels)
          /\ phase' = "done" /\ UNCHANGED <<sch, pend, ctr, steps, seal>>

Next == PickOrder \/ PickHeader \/ PickDimA \/ PickDimB \/ PickDataA \/ PickDataB
        \/ Choose \/ NewComp \/ AddElem \/ NewMsg \/ AddField \/ AddGroup \/ AddData
        \/ ToSeal \/ SealOne \/ Finish
Spec == Init /\ [][Next]_vars

----------------------------------------------------------------------------
(* properties of the generator *)
TypeOK == /\ phase \in {"order", "header", "dimA", "dimB", "dataA", "dataB", "build", "seal", "done"}
          /\ steps \in 0 .. MaxSteps /\ ctr >= 1
\* the oracle: what the machine builds is a valid schema by the rule set (which shares nothing with this module)
FinishedIsValid == (phase = "done") => R(sch)!Valid
\* ... and every prefix of the construction is valid as well, from the moment the support composites exist
PrefixIsValid == (phase \in {"build", "seal"} /\ pend = "") => R(sch)!Valid

\* emission: the finished schema of the behaviour
EmitFinished == (phase = "done") => PrintT(ToJson([kind |-> "schema", schema |-> sch]))
=============================================================================
