---------------------------- MODULE StaticArray ----------------------------
(* Fixed-length arrays (C14): sbepp::detail::static_array_ref<Byte, Value,  *)
(* N, Tag>.  The state is a strip of memory: N array cells with one guard   *)
(* cell on each side.  mem is a sequence of length N + 2:                   *)
(*     mem[1]       left guard                                             *)
(*     mem[k + 2]   array element k   (k in 0 .. N-1, the C++ index)        *)
(*     mem[N + 2]   right guard                                            *)
(* One action per public entry point / overload.  What each one must do is  *)
(* written down from the documentation only (doc comments of the class and  *)
(* doc/representation.md, "Fixed-size arrays"):                             *)
(*   assign_string(const char* str, eos)  str is a C string, so its content *)
(*        has no NUL; pre strlen(str) <= size(); copies the content, pads   *)
(*        according to eos; returns iterator past the last string character *)
(*   assign_string(range, eos)  the whole range is the string (it may hold  *)
(*        NULs); pre range_size <= size(); same effect and result           *)
(*   assign_range(range)        copies; returns iterator past last written  *)
(*   assign(count, value)       first count elements; pre count <= size()   *)
(*   assign(first, last), assign(initializer_list)  copy to first elements  *)
(*   fill(value)                all elements, returns nothing               *)
(*   strlen()    index of the first NUL from the left, size() if none       *)
(*   strlen_r()  index after the first non-NUL from the right, 0 if none    *)
(*   eos_null::none    bytes after the last string character not touched    *)
(*   eos_null::single  single byte after the last character set to NUL      *)
(*                     (when there is one: strlen(str) < size())            *)
(*   eos_null::all     all bytes after the last character set to NUL        *)
(* Iterators are reported as element indices (iterator - begin()).          *)
EXTENDS Naturals, Integers, Sequences, FiniteSets, TLC, Json

CONSTANTS N,    \* array length, 0 .. 4
          GL,   \* value stored in the left guard cell
          GR    \* value stored in the right guard cell

VARIABLES mem,  \* the memory strip
          ret,  \* ghost: result of the last call (index; -1 = returns nothing)
          last  \* ghost: last action with its arguments (TLCGet("action")
                \* carries no parameters inside an ACTION_CONSTRAINT)

vars == <<mem, ret, last>>

NUL == 0
Alphabet == {NUL, 97, 98}          \* NUL, 'a', 'b'
NonNul == Alphabet \ {NUL}
EosModes == {"none", "single", "all"}
Idx == 1 .. N                      \* positions of a content sequence

\* all sequences over S of length 0 .. k
SeqsUpTo(S, k) == UNION {[1 .. n -> S] : n \in 0 .. k}
CStrings == SeqsUpTo(NonNul, N)     \* what a const char* can denote
Ranges == SeqsUpTo(Alphabet, N)     \* what a range / iterator pair / list can hold
Contents == [Idx -> Alphabet]

Arr(m) == [i \in Idx |-> m[i + 1]]                 \* the array content of a strip
Strip(a) == <<GL>> \o a \o <<GR>>                   \* strip holding content a

\* ------------------------------------------------- documented results -----
\* content s written to the first Len(s) elements, the rest keeps its value
Written(a, s) == [i \in Idx |-> IF i <= Len(s) THEN s[i] ELSE a[i]]

\* padding after a string that ends before element index pos (0-based)
Pad(a, pos, eos) ==
  CASE eos = "none"   -> a
    [] eos = "single" -> [i \in Idx |-> IF i = pos + 1 THEN NUL ELSE a[i]]
    [] eos = "all"    -> [i \in Idx |-> IF i > pos THEN NUL ELSE a[i]]

Filled(a, count, v) == [i \in Idx |-> IF i <= count THEN v ELSE a[i]]

\* strlen: index of the first NUL, or N
Strlen(a) == IF \E i \in Idx : a[i] = NUL
             THEN (CHOOSE i \in Idx : a[i] = NUL /\ \A j \in 1 .. i - 1 : a[j] # NUL) - 1
             ELSE N
\* strlen_r: index after the last non-NUL, or 0
StrlenR(a) == IF \E i \in Idx : a[i] # NUL
              THEN CHOOSE i \in Idx : a[i] # NUL /\ \A j \in i + 1 .. N : a[j] = NUL
              ELSE 0

\* independent formulations used to cross-check the two above
StrlenAlt(a) == Cardinality({i \in Idx : \A j \in 1 .. i : a[j] # NUL})      \* length of the NUL-free prefix
StrlenRAlt(a) == N - Cardinality({i \in Idx : \A j \in i .. N : a[j] = NUL}) \* N - number of trailing NULs

\* --------------------------------------------------------------- actions --
Act(op, s, eos, count, value) == [op |-> op, s |-> s, eos |-> eos, count |-> count, value |-> value]

Init == /\ mem \in {Strip(a) : a \in Contents}
        /\ ret = -1
        /\ last = Act("init", <<>>, "", -1, -1)

AssignStringPtr(s, e) ==
  /\ mem' = Strip(Pad(Written(Arr(mem), s), Len(s), e))
  /\ ret' = Len(s)
  /\ last' = Act("assign_string_ptr", s, e, -1, -1)

AssignStringRange(s, e) ==
  /\ mem' = Strip(Pad(Written(Arr(mem), s), Len(s), e))
  /\ ret' = Len(s)
  /\ last' = Act("assign_string_range", s, e, -1, -1)

AssignRange(s) ==
  /\ mem' = Strip(Written(Arr(mem), s))
  /\ ret' = Len(s)
  /\ last' = Act("assign_range", s, "", -1, -1)

AssignCount(c, v) ==
  /\ mem' = Strip(Filled(Arr(mem), c, v))
  /\ ret' = c
  /\ last' = Act("assign_count", <<>>, "", c, v)

AssignIters(s) ==
  /\ mem' = Strip(Written(Arr(mem), s))
  /\ ret' = Len(s)
  /\ last' = Act("assign_iters", s, "", -1, -1)

AssignIlist(s) ==
  /\ mem' = Strip(Written(Arr(mem), s))
  /\ ret' = Len(s)
  /\ last' = Act("assign_ilist", s, "", -1, -1)

Fill(v) ==
  /\ mem' = Strip(Filled(Arr(mem), N, v))
  /\ ret' = -1
  /\ last' = Act("fill", <<>>, "", -1, v)

StrlenCall ==
  /\ UNCHANGED mem
  /\ ret' = Strlen(Arr(mem))
  /\ last' = Act("strlen", <<>>, "", -1, -1)

StrlenRCall ==
  /\ UNCHANGED mem
  /\ ret' = StrlenR(Arr(mem))
  /\ last' = Act("strlen_r", <<>>, "", -1, -1)

Next == \/ \E s \in CStrings, e \in EosModes : AssignStringPtr(s, e)
        \/ \E s \in Ranges, e \in EosModes : AssignStringRange(s, e)
        \/ \E s \in Ranges : AssignRange(s)
        \/ \E c \in 0 .. N, v \in Alphabet : AssignCount(c, v)
        \/ \E s \in Ranges : AssignIters(s)
        \/ \E s \in Ranges : AssignIlist(s)
        \/ \E v \in Alphabet : Fill(v)
        \/ StrlenCall
        \/ StrlenRCall

Spec == Init /\ [][Next]_vars

\* The ghosts are not part of the machine's state: two states with the same
\* memory are the same state (all 3^N contents are initial states, so every
\* transition of the machine is generated exactly once).
View == mem

\* ------------------------------------------------------------ invariants --
TypeOK == /\ mem \in Seq(Alphabet \cup {GL, GR})
          /\ Len(mem) = N + 2                  \* nothing exists beyond element N-1 but the guard
          /\ Arr(mem) \in Contents

GuardsIntact == mem[1] = GL /\ mem[N + 2] = GR

StrlenCrossCheck == LET a == Arr(mem) IN
  /\ Strlen(a) = StrlenAlt(a)
  /\ StrlenR(a) = StrlenRAlt(a)
  /\ Strlen(a) \in 0 .. N /\ StrlenR(a) \in 0 .. N
  /\ Strlen(a) <= StrlenR(a)
  /\ (Strlen(a) < N => a[Strlen(a) + 1] = NUL)
  /\ (\A i \in 1 .. Strlen(a) : a[i] # NUL)
  /\ (StrlenR(a) > 0 => a[StrlenR(a)] # NUL)
  /\ (\A i \in StrlenR(a) + 1 .. N : a[i] = NUL)

\* ------------------------------------------------------ action properties --
\* (checked by TLC on every generated transition, also into known states)
IsAssign(op) == op \in {"assign_string_ptr", "assign_string_range", "assign_range", "assign_iters", "assign_ilist"}

\* guards never change, whatever is called
Frame == [][mem'[1] = mem[1] /\ mem'[N + 2] = mem[N + 2] /\ Len(mem') = Len(mem)]_vars

\* the content is written to the first elements, the result is the index after it
ContentExact == [][IsAssign(last'.op) =>
                     /\ SubSeq(Arr(mem'), 1, Len(last'.s)) = last'.s
                     /\ ret' = Len(last'.s)
                     /\ ret' <= N]_vars

\* what follows the content, per overload / eos mode
TailExact == [][IsAssign(last'.op) =>
  LET n == Len(last'.s)  a == Arr(mem)  b == Arr(mem')  e == last'.eos IN
    /\ (e \in {"", "none"} => \A i \in n + 1 .. N : b[i] = a[i])
    /\ (e = "single" => /\ (n < N => b[n + 1] = NUL)
                        /\ \A i \in n + 2 .. N : b[i] = a[i])
    /\ (e = "all" => \A i \in n + 1 .. N : b[i] = NUL)]_vars

CountExact == [][last'.op \in {"assign_count", "fill"} =>
  LET c == IF last'.op = "fill" THEN N ELSE last'.count  a == Arr(mem)  b == Arr(mem') IN
    /\ \A i \in 1 .. c : b[i] = last'.value
    /\ \A i \in c + 1 .. N : b[i] = a[i]
    /\ ret' = (IF last'.op = "fill" THEN -1 ELSE c)]_vars

ReadsArePure == [][last'.op \in {"strlen", "strlen_r"} =>
  /\ mem' = mem
  /\ (last'.op = "strlen" => ret' = StrlenAlt(Arr(mem)))
  /\ (last'.op = "strlen_r" => ret' = StrlenRAlt(Arr(mem)))]_vars

\* what the eos modes are documented to be good for
\*  all:    the SBE padding; both length functions recover a C string's length
\*  single: a decoder looking for the first NUL recovers it
\*  none:   enough when the buffer was zero-filled before
RoundTrip == [][last'.op = "assign_string_ptr" =>
  LET n == Len(last'.s)  b == Arr(mem') IN
    /\ (last'.eos = "all" => Strlen(b) = n /\ StrlenR(b) = n)
    /\ (last'.eos = "single" => Strlen(b) = n)
    /\ ((last'.eos = "none" /\ \A i \in Idx : Arr(mem)[i] = NUL) => Strlen(b) = n /\ StrlenR(b) = n)]_vars

\* ------------------------------------------------------- vector emission --
\* ACTION_CONSTRAINT: evaluated for every generated transition.
Emit == PrintT(ToJson([n |-> N, pre |-> mem, act |-> last', post |-> mem', ret |-> ret']))
=============================================================================
