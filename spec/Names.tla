------------------------------- MODULE Names -------------------------------
(* C07 - the C++ scopes that sbeppc's output populates, and the mangling     *)
(* discipline, as documented in doc/representation.md ("Namespaces",         *)
(* "Schema names", "Names mangling") and doc/traits.md ("Tags"):             *)
(*                                                                           *)
(*   <schema>::types::<type>           <schema>::messages::<message>         *)
(*   <schema>::schema::types::<type>[::<member>...]          (tags)          *)
(*   <schema>::schema::messages::<message>[::<member>...]    (tags)          *)
(*   <schema>::detail::...  implementation; class names are the schema name  *)
(*   or `<name>_<N>`; group entries are `<group>_entry` of the (possibly     *)
(*   mangled) group name; tag types carry the name of their implementation   *)
(*   type; `detail`, `schema`, `messages`, `types` are hard-coded.           *)
(*                                                                           *)
(* A *skeleton* is a schema whose entity names are slots.  TLC assigns to    *)
(* every slot every name of its candidate list (names come from one pool:    *)
(* a clash name A, its derived forms A_0 A_1 A_entry A_0_entry ..., the      *)
(* hard-coded names, names of members the library itself declares, and one   *)
(* neutral name per slot), keeps the assignments the schema-level uniqueness *)
(* rules allow (Legal), and                                                  *)
(*   - emits each as a schema (entity list) + PublicPaths (the C++ paths     *)
(*     under which every entity has to be reachable: computed from schema    *)
(*     names and the hard-coded names only),                                 *)
(*   - runs the mangling discipline (Mangle, for every processing order of   *)
(*     the public types and of the messages: the order is not documented)    *)
(*     and checks the REQUIREMENTS on the resulting set of declarations:     *)
(*       PublicPathIsSchemaName, NoScopeClash, NoSelfNamedMember,            *)
(*       TagPathsUnique.                                                     *)
(* The requirements talk about declarations in scopes only; they do not know *)
(* how implementation names were chosen.                                     *)
EXTENDS Integers, Sequences, FiniteSets, TLC, Json

CONSTANTS Sk,      \* skeleton: sequence of entity records (shape E0)
          SkName,  \* label of the skeleton (string)
          Flaw     \* "none", or the part of the discipline left out (non-vacuity
                   \* runs: TLC has to find a violated requirement for each):
                   \* "member" | "inline" | "entry" | "types"

VARIABLES nm,      \* sequence of identifiers, nm[i] = schema name of entity i
          phase,   \* "pick" -> "named" -> "mangled"
          impl,    \* entity -> identifier of its implementation class / tag struct
          entry,   \* group entity -> identifier of its entry class ("" otherwise)
          cont,    \* [types, messages]: identifiers of the two tag container structs
          fired    \* ghost: which rules of the discipline decided something (coverage)

vars == <<nm, phase, impl, entry, cont, fired>>

\* ------------------------------------------------------------- entities --
\* One record shape for every entity so that sequences of them are uniform.
\* Structural attributes are only carried through to the schema file.
E0 == [kind |-> "", parent |-> 0, slot |-> "", cand |-> <<>>, tie |-> 0,
       prim |-> "", pres |-> "", len |-> 1, min |-> "", max |-> "", null |-> "",
       const |-> "", vref |-> "", cenc |-> "", desc |-> "", styp |-> "",
       target |-> 0, idx |-> 0, bl |-> -1, dim |-> "", must |-> TRUE,
       tname |-> "", vt |-> 0, hdr |-> ""]

PType(s, c, prim, pres)    == [E0 EXCEPT !.kind = "ptype", !.slot = s, !.cand = c, !.prim = prim, !.pres = pres]
IType(p, s, c, prim, pres) == [E0 EXCEPT !.kind = "itype", !.parent = p, !.slot = s, !.cand = c, !.prim = prim, !.pres = pres]
PEnum(s, c, enc)           == [E0 EXCEPT !.kind = "penum", !.slot = s, !.cand = c, !.prim = enc]
IEnum(p, s, c, enc)        == [E0 EXCEPT !.kind = "ienum", !.parent = p, !.slot = s, !.cand = c, !.prim = enc]
EVal(p, s, c, v)           == [E0 EXCEPT !.kind = "evalue", !.parent = p, !.slot = s, !.cand = c, !.const = v]
PSet(s, c, enc)            == [E0 EXCEPT !.kind = "pset", !.slot = s, !.cand = c, !.prim = enc]
ISet(p, s, c, enc)         == [E0 EXCEPT !.kind = "iset", !.parent = p, !.slot = s, !.cand = c, !.prim = enc]
Choice(p, s, c, i)         == [E0 EXCEPT !.kind = "choice", !.parent = p, !.slot = s, !.cand = c, !.idx = i]
PComp(s, c)                == [E0 EXCEPT !.kind = "pcomp", !.slot = s, !.cand = c]
IComp(p, s, c)             == [E0 EXCEPT !.kind = "icomp", !.parent = p, !.slot = s, !.cand = c]
Ref(p, s, c, t)            == [E0 EXCEPT !.kind = "ref", !.parent = p, !.slot = s, !.cand = c, !.target = t]
Msg(s, c)                  == [E0 EXCEPT !.kind = "message", !.slot = s, !.cand = c]
Field(p, s, c, t, prim)    == [E0 EXCEPT !.kind = "field", !.parent = p, !.slot = s, !.cand = c, !.target = t, !.prim = prim, !.pres = "required"]
Group(p, s, c)             == [E0 EXCEPT !.kind = "group", !.parent = p, !.slot = s, !.cand = c]
Data(p, s, c)              == [E0 EXCEPT !.kind = "data", !.parent = p, !.slot = s, !.cand = c]
Tie(e, k)                  == [e EXCEPT !.tie = k, !.cand = <<>>]
\* constant field of enum type t (or of the enum's encoding type) whose value is the enumerator entity v
KField(p, s, c, t, prim, v) == [Field(p, s, c, t, prim) EXCEPT !.pres = "constant", !.vt = v]

\* (TLC re-evaluates an overridden CONSTANT at every use; a zero-arity
\* definition is evaluated once)
SK == Sk
N == Len(SK)
Ids == 1 .. N
Kind(i) == SK[i].kind
Par(i) == SK[i].parent

PubKinds    == {"ptype", "penum", "pset", "pcomp"}
InlineKinds == {"itype", "ienum", "iset", "icomp"}
TypeKinds   == PubKinds \cup InlineKinds
LevelKinds  == {"message", "group"}

PubTypes == {i \in Ids : Kind(i) \in PubKinds}
Msgs     == {i \in Ids : Kind(i) = "message"}

IdSeq == [k \in 1 .. N |-> k]
Kids == [p \in 0 .. N |-> SelectSeq(IdSeq, LAMBDA j : SK[j].parent = p)]
KidSet == [p \in 0 .. N |-> {j \in Ids : SK[j].parent = p}]

ASSUME \A i \in Ids : Par(i) < i /\ SK[i].tie < i
ASSUME \A i \in Ids : SK[i].tie = 0 => Len(SK[i].cand) >= 1

\* ------------------------------------------------- the pool of identifiers --
\* Names the generated code / the library declares itself (documentation:
\* namespaces section, required_base/optional_base reference, group and array
\* reference, template parameter and argument names shown in the documented
\* signatures) plus macros of the C headers sbepp.hpp includes.
FixedPool == <<"types", "messages", "schema", "detail", "sbepp", "std",
               "min_value", "max_value", "null_value", "value", "has_value", "in_range", "value_or", "value_type",
               "size", "begin", "end", "front", "back", "resize", "clear", "empty", "data", "cursor_range",
               "header", "blockLength", "numInGroup", "Byte", "Cursor", "Visitor", "T", "Args", "Tag",
               "c", "v", "args", "visitor", "last", "block_length", "num_in_group",
               "tag_invoke", "NULL", "assert", "operator_call",
               \* the schema's own name (tools/namesgen.py PKG): generated code that names
               \* <schema>::detail::... without the leading :: finds the entity instead
               "c07s">>

\* C++ keywords (C++11 .. C++20): "standard C++ naming rules are still applied",
\* sbeppc is expected to refuse them; if it ever accepts one the output has to compile
KeywordPool == <<"class", "default", "operator", "new", "int", "template", "this", "alignas", "xor", "typename",
                 "requires", "concept", "char8_t", "co_await", "constinit", "consteval">>

\* case-insensitive comparison of type names: table for the pool names that
\* differ from their lower-case form (every other pool name is its own image)
LowerTab == [A |-> "a", A_0 |-> "a_0", A_1 |-> "a_1", M1 |-> "m1", M2 |-> "m2", A_entry |-> "a_entry", B |-> "b",
             Side |-> "side", Flags |-> "flags", Px |-> "px", Qty |-> "qty", Magic |-> "magic", U16t |-> "u16t",
             Ecase |-> "ecase", Scase |-> "scase", Kside |-> "kside", Refs |-> "refs",
             Byte |-> "byte", Cursor |-> "cursor", Visitor |-> "visitor", T |-> "t", Args |-> "args", Tag |-> "tag",
             NULL |-> "null", blockLength |-> "blocklength", numInGroup |-> "numingroup"]
Lower(s) == IF s \in DOMAIN LowerTab THEN LowerTab[s] ELSE s

\* --------------------------------------------- schema-level name rules ----
\* What sbeppc / SBE demand of names before any C++ is involved:
\*   members of one composite / enum / set / message level have distinct names;
\*   public types are unique case-insensitively; messages are unique.
Legal(n) ==
  /\ \A i, j \in Ids : (i < j /\ Par(i) = Par(j) /\ Par(i) # 0) => n[i] # n[j]
  /\ \A i, j \in PubTypes : i < j => Lower(n[i]) # Lower(n[j])
  /\ \A i, j \in Msgs : i < j => n[i] # n[j]

\* ------------------------------------------------ the mangling discipline --
\* "sbepp tries to preserve schema names for everything but when it's not
\*  possible, class name is mangled like <original_name>_<N>" - the least free N.
MaxSuffix == 8
Sfx(base, k) == base \o "_" \o ToString(k)
Fresh(base, used) ==
  Sfx(base, CHOOSE k \in 0 .. MaxSuffix : /\ Sfx(base, k) \notin used
                                           /\ \A j \in 0 .. k - 1 : Sfx(base, j) \in used)
EntryOf(g) == g \o "_entry"
FreshGroup(base, used) ==
  Sfx(base, CHOOSE k \in 0 .. MaxSuffix :
              /\ Sfx(base, k) \notin used /\ EntryOf(Sfx(base, k)) \notin used
              /\ \A j \in 0 .. k - 1 : Sfx(base, j) \in used \/ EntryOf(Sfx(base, j)) \in used)

\* names an entity's own class declares (documented representation)
ScalarMembers(i) ==
  IF SK[i].len # 1 \/ SK[i].pres = "constant" THEN {}
  ELSE IF SK[i].pres = "optional" THEN {"min_value", "max_value", "null_value"}
  ELSE {"min_value", "max_value"}
Members(i, n) == IF Kind(i) \in {"ptype", "itype"} THEN ScalarMembers(i) ELSE {n[j] : j \in KidSet[i]}

RECURSIVE PreInline(_)
PreInline(ks) == IF ks = <<>> THEN <<>>
                 ELSE (IF Kind(Head(ks)) \in InlineKinds THEN <<Head(ks)>> \o PreInline(Kids[Head(ks)]) ELSE <<>>)
                      \o PreInline(Tail(ks))
RECURSIVE PreGroups(_)
PreGroups(ks) == IF ks = <<>> THEN <<>>
                 ELSE (IF Kind(Head(ks)) = "group" THEN <<Head(ks)>> \o PreGroups(Kids[Head(ks)]) ELSE <<>>)
                      \o PreGroups(Tail(ks))
InlinePre == [p \in Ids |-> PreInline(Kids[p])]
GroupPre  == [p \in Ids |-> PreGroups(Kids[p])]

RECURSIVE Flat(_, _, _)
Flat(ord, tab, k) == IF k > Len(ord) THEN <<>> ELSE <<ord[k]>> \o tab[ord[k]] \o Flat(ord, tab, k + 1)

NonMangledT(n) == {n[i] : i \in PubTypes}
NonMangledM(n) == {n[i] : i \in Msgs}

StepT(n, acc, e) ==
  LET mem   == Members(e, n)
      pub   == Kind(e) \in PubKinds
      clash == (Flaw # "member" /\ n[e] \in mem) \/ (~pub /\ Flaw # "inline" /\ n[e] \in acc.M)
      new   == IF clash THEN Fresh(n[e], mem \cup acc.M \cup NonMangledT(n)) ELSE n[e]
  IN [M |-> IF clash \/ ~pub THEN acc.M \cup {new} ELSE acc.M,
      impl |-> [acc.impl EXCEPT ![e] = new], entry |-> acc.entry,
      fired |-> acc.fired \cup (IF n[e] \in mem THEN {"type.member." \o Kind(e)} ELSE {})
                          \cup (IF ~pub /\ n[e] \in acc.M THEN {"type.inline_taken"} ELSE {})
                          \cup (IF clash /\ new # Sfx(n[e], 0) THEN {"fresh.skip"} ELSE {})]

StepM(n, acc, e) ==
  LET mem == Members(e, n) IN
  IF Kind(e) = "message"
  THEN LET clash == n[e] \in mem
           new   == IF clash THEN Fresh(n[e], mem \cup acc.M \cup NonMangledM(n)) ELSE n[e]
       IN [M |-> IF clash THEN acc.M \cup {new} ELSE acc.M,
           impl |-> [acc.impl EXCEPT ![e] = new], entry |-> acc.entry,
           fired |-> acc.fired \cup (IF clash THEN {"msg.member"} ELSE {})
                               \cup (IF clash /\ new # Sfx(n[e], 0) THEN {"fresh.skip"} ELSE {})]
  ELSE LET en    == EntryOf(n[e])
           clash == n[e] \in acc.M \/ en \in acc.M \/ (Flaw # "entry" /\ en \in mem) \/ n[e] \in mem
           g     == IF clash THEN FreshGroup(n[e], mem \cup acc.M \cup NonMangledM(n)) ELSE n[e]
       IN [M |-> acc.M \cup {g, EntryOf(g)},
           impl |-> [acc.impl EXCEPT ![e] = g], entry |-> [acc.entry EXCEPT ![e] = EntryOf(g)],
           fired |-> acc.fired \cup (IF n[e] \in acc.M THEN {"group.taken"} ELSE {})
                               \cup (IF en \in acc.M THEN {"group.entry_taken"} ELSE {})
                               \cup (IF en \in mem THEN {"group.entry_member"} ELSE {})
                               \cup (IF n[e] \in mem THEN {"group.member"} ELSE {})
                               \cup (IF clash /\ g # Sfx(n[e], 0) THEN {"fresh.skip"} ELSE {})]

RECURSIVE FoldT(_, _, _, _)
FoldT(n, seq, k, acc) == IF k > Len(seq) THEN acc ELSE FoldT(n, seq, k + 1, StepT(n, acc, seq[k]))
RECURSIVE FoldM(_, _, _, _)
FoldM(n, seq, k, acc) == IF k > Len(seq) THEN acc ELSE FoldM(n, seq, k + 1, StepM(n, acc, seq[k]))

Mangled(n, ot, om) ==
  LET a0 == [M |-> {}, impl |-> [i \in Ids |-> n[i]], entry |-> [i \in Ids |-> ""], fired |-> {}]
      a1 == FoldT(n, Flat(ot, InlinePre, 1), 1, a0)
      a2 == FoldM(n, Flat(om, GroupPre, 1), 1, [a1 EXCEPT !.M = {}])
  IN [impl |-> a2.impl, entry |-> a2.entry,
      fired |-> a2.fired \cup (IF "types" \in NonMangledT(n) THEN {"container.types"} ELSE {})
                         \cup (IF "messages" \in NonMangledM(n) THEN {"container.messages"} ELSE {}),
      cont |-> [types    |-> IF Flaw # "types" /\ "types" \in NonMangledT(n) THEN Fresh("types", NonMangledT(n)) ELSE "types",
                messages |-> IF "messages" \in NonMangledM(n) THEN Fresh("messages", NonMangledM(n)) ELSE "messages"]]

\* processing orders: every permutation for up to 4 elements, the rotations of
\* the ascending and of the descending order for 5-6, both directions beyond
Perms(S) == {f \in [1 .. Cardinality(S) -> S] : \A i, j \in 1 .. Cardinality(S) : i # j => f[i] # f[j]}
Asc(S) == SelectSeq(IdSeq, LAMBDA j : j \in S)
Rot(a, r) == [k \in 1 .. Len(a) |-> a[((k + r - 1) % Len(a)) + 1]]
Rev(a) == [k \in 1 .. Len(a) |-> a[Len(a) + 1 - k]]
Orders(S) == IF Cardinality(S) <= 4 THEN Perms(S)
             ELSE IF Cardinality(S) <= 6
             THEN {Rot(Asc(S), r) : r \in 0 .. Cardinality(S) - 1} \cup {Rot(Rev(Asc(S)), r) : r \in 0 .. Cardinality(S) - 1}
             ELSE {Asc(S), Rev(Asc(S))}
PermsT == Orders(PubTypes)
PermsM == Orders(Msgs)

\* ------------------------------------------------------------ the machine --
Init == /\ nm = <<>> /\ phase = "pick"
        /\ impl = <<>> /\ entry = <<>> /\ cont = [types |-> "types", messages |-> "messages"] /\ fired = {}

Pick == /\ phase = "pick" /\ Len(nm) < N
        /\ LET i == Len(nm) + 1 IN
             IF SK[i].tie > 0 THEN nm' = Append(nm, nm[SK[i].tie])
             ELSE \E k \in 1 .. Len(SK[i].cand) : nm' = Append(nm, SK[i].cand[k])
        /\ UNCHANGED <<phase, impl, entry, cont, fired>>

Name == /\ phase = "pick" /\ Len(nm) = N /\ Legal(nm)
        /\ phase' = "named"
        /\ UNCHANGED <<nm, impl, entry, cont, fired>>

Mangle == /\ phase = "named"
          /\ \E ot \in PermsT, om \in PermsM :
               LET r == Mangled(nm, ot, om) IN
                 /\ impl' = r.impl /\ entry' = r.entry /\ cont' = r.cont /\ fired' = r.fired
          /\ phase' = "mangled"
          /\ UNCHANGED nm

Next == Pick \/ Name \/ Mangle
Spec == Init /\ [][Next]_vars

\* -------------------------------------------------- declarations in scopes --
CS(e) == "class:" \o ToString(e)
TS(e) == "tag:" \o ToString(e)
ES(g) == "entry:" \o ToString(g)
LevelScope(p) == IF Kind(p) = "group" THEN ES(p) ELSE CS(p)
D(scope, id, role, ent, tgt) == [scope |-> scope, id |-> id, role |-> role, ent |-> ent, tgt |-> tgt]

ScalarDecls(e) == IF Kind(e) \in {"ptype", "itype"} THEN {D(CS(e), m, "member", 0, "") : m \in ScalarMembers(e)} ELSE {}

TagDecls(e, parentScope, detailScope) ==
  IF impl[e] = nm[e] THEN {D(parentScope, nm[e], "tag", e, TS(e))}
  ELSE {D(detailScope, impl[e], "tag", e, TS(e)), D(parentScope, nm[e], "tagalias", e, TS(e))}

DeclsOf(e) ==
  LET k == Kind(e)  p == Par(e) IN
  IF k \in PubKinds THEN
      (IF impl[e] = nm[e] THEN {D("ns:types", nm[e], "class", e, CS(e))}
       ELSE {D("ns:detail:types", impl[e], "class", e, CS(e)), D("ns:types", nm[e], "alias", e, CS(e))})
      \cup {D("ns:detail:schema:types", impl[e], "tag", e, TS(e)), D("tagc:types", nm[e], "tagalias", e, TS(e))}
      \cup ScalarDecls(e)
  ELSE IF k \in InlineKinds THEN
      {D("ns:detail:types", impl[e], "class", e, CS(e)), D(CS(p), nm[e], "member", e, CS(e))}
      \cup TagDecls(e, TS(p), "ns:detail:schema:types") \cup ScalarDecls(e)
  ELSE IF k = "ref" THEN
      {D(CS(p), nm[e], "member", e, CS(SK[e].target)), D(TS(p), nm[e], "tag", e, TS(SK[e].target))}
  ELSE IF k = "evalue" THEN
      {D(CS(p), nm[e], "enumerator", e, ""), D(TS(p), nm[e], "tag", e, "")}
  ELSE IF k = "choice" THEN
      {D(CS(p), nm[e], "member", e, ""), D(TS(p), nm[e], "tag", e, "")}
  ELSE IF k = "message" THEN
      (IF impl[e] = nm[e] THEN {D("ns:messages", nm[e], "class", e, CS(e))}
       ELSE {D("ns:detail:messages", impl[e], "class", e, CS(e)), D("ns:messages", nm[e], "alias", e, CS(e))})
      \cup TagDecls(e, "tagc:messages", "ns:detail:schema:messages")
  ELSE IF k = "group" THEN
      {D("ns:detail:messages", impl[e], "class", e, CS(e)),
       D("ns:detail:messages", entry[e], "entryclass", e, ES(e)),
       D(LevelScope(p), nm[e], "member", e, ES(e))}
      \cup TagDecls(e, TS(p), "ns:detail:schema:messages")
  ELSE \* field, data
      {D(LevelScope(p), nm[e], "member", e, IF SK[e].target > 0 THEN CS(SK[e].target) ELSE ""),
       D(TS(p), nm[e], "tag", e, IF SK[e].target > 0 THEN TS(SK[e].target) ELSE "")}

ContDecls(which, scope) ==
  IF cont[which] = which THEN {D("tag:schema", which, "tag", 0, scope)}
  ELSE {D("ns:detail:schema", cont[which], "tag", 0, scope), D("tag:schema", which, "tagalias", 0, scope)}

FixedDecls ==
  {D("ns:", "types", "ns", 0, "ns:types"), D("ns:", "messages", "ns", 0, "ns:messages"),
   D("ns:", "detail", "ns", 0, "ns:detail"), D("ns:", "schema", "tag", 0, "tag:schema"),
   D("ns:detail", "types", "ns", 0, "ns:detail:types"), D("ns:detail", "messages", "ns", 0, "ns:detail:messages"),
   D("ns:detail", "schema", "ns", 0, "ns:detail:schema"),
   D("ns:detail:schema", "types", "ns", 0, "ns:detail:schema:types"),
   D("ns:detail:schema", "messages", "ns", 0, "ns:detail:schema:messages")}
  \cup ContDecls("types", "tagc:types") \cup ContDecls("messages", "tagc:messages")

Decls == FixedDecls \cup UNION {DeclsOf(e) : e \in Ids}

\* the identifier of the class / struct that owns a class-like scope.  Scoped
\* enumerations are left out: an enumerator may carry the name of its enum.
HasTagStruct(e) == Kind(e) \in {"penum", "ienum", "pset", "iset", "pcomp", "icomp", "message", "group"}
ClassNames ==
  {<<CS(e), impl[e]>> : e \in {i \in Ids : Kind(i) \in (TypeKinds \cup {"message", "group"}) \ {"penum", "ienum"}}}
  \cup {<<ES(g), entry[g]>> : g \in {i \in Ids : Kind(i) = "group"}}
  \cup {<<TS(e), impl[e]>> : e \in {i \in Ids : HasTagStruct(i)}}
  \cup {<<"tagc:types", cont.types>>, <<"tagc:messages", cont.messages>>, <<"tag:schema", "schema">>}

\* ------------------------------------------------------------ public paths --
\* Built from schema names and hard-coded names only.
RECURSIVE AccPath(_, _)
AccPath(n, e) == IF Kind(e) \in PubKinds THEN <<"types", n[e]>>
                 ELSE IF Kind(e) = "message" THEN <<"messages", n[e]>>
                 ELSE AccPath(n, Par(e)) \o <<n[e]>>
RECURSIVE TagPath(_, _)
TagPath(n, e) == IF Kind(e) \in PubKinds THEN <<"schema", "types", n[e]>>
                 ELSE IF Kind(e) = "message" THEN <<"schema", "messages", n[e]>>
                 ELSE TagPath(n, Par(e)) \o <<n[e]>>

PathRole(e) == IF Kind(e) \in PubKinds \cup {"message"} THEN "class"
               ELSE IF Kind(e) = "evalue" THEN "enumerator"
               ELSE IF Kind(e) = "choice" THEN "choice" ELSE "accessor"

PathsOf(n, e) == {[ent |-> e, role |-> PathRole(e), path |-> AccPath(n, e)],
                  [ent |-> e, role |-> "tag", path |-> TagPath(n, e)]}
PublicPaths(n) == UNION {PathsOf(n, e) : e \in Ids}

\* resolution of a path by walking declarations
RECURSIVE Res(_, _, _, _)
Res(ds, scope, path, k) ==
  LET c == {d \in ds : d.scope = scope /\ d.id = path[k]} IN
  IF Cardinality(c) # 1 THEN [ok |-> FALSE, ent |-> 0, role |-> ""]
  ELSE LET d == CHOOSE x \in c : TRUE IN
       IF k = Len(path) THEN [ok |-> TRUE, ent |-> d.ent, role |-> d.role]
       ELSE Res(ds, d.tgt, path, k + 1)

RoleOK(want, got) == CASE want = "class"      -> got \in {"class", "alias"}
                       [] want = "tag"        -> got \in {"tag", "tagalias"}
                       [] want = "enumerator" -> got = "enumerator"
                       [] OTHER               -> got = "member"

\* ------------------------------------------------------------ requirements --
Done == phase = "mangled"

\* (i) every entity is reachable under its unmodified schema name in the
\*     documented namespace / tag path, and that path denotes this entity
PublicPathIsSchemaName ==
  Done => LET ds == Decls IN
          \A p \in PublicPaths(nm) :
            /\ p.path[Len(p.path)] = nm[p.ent]
            /\ LET r == Res(ds, "ns:", p.path, 1) IN r.ok /\ r.ent = p.ent /\ RoleOK(p.role, r.role)

\* (ii) no two declarations of one scope share an identifier
NoScopeClash ==
  Done => LET ds == Decls IN \A d1, d2 \in ds : (d1.scope = d2.scope /\ d1.id = d2.id) => d1 = d2

\* (iii) no class / struct declares a member named like itself
NoSelfNamedMember ==
  Done => LET ds == Decls IN \A cn \in ClassNames : \A d \in ds : d.scope = cn[1] => d.id # cn[2]

\* (iv) tag paths identify entities
TagPathsUnique ==
  phase # "pick" => \A e1, e2 \in Ids : e1 # e2 => TagPath(nm, e1) # TagPath(nm, e2)

\* the discipline only ever appends `_<N>` / `_entry`
ManglingShape ==
  Done => /\ \A e \in Ids : impl[e] = nm[e] \/ \E k \in 0 .. MaxSuffix : impl[e] = Sfx(nm[e], k)
          /\ \A g \in Ids : Kind(g) = "group" => entry[g] = EntryOf(impl[g])
          /\ \A e \in Ids : Kind(e) \notin (TypeKinds \cup {"message", "group"}) => impl[e] = nm[e]

TypeOK == /\ phase \in {"pick", "named", "mangled"}
          /\ Len(nm) <= N

\* ---------------------------------------------------------------- emission --
RECURSIVE Pat(_, _)
Pat(n, k) == IF k > N THEN ""
             ELSE IF SK[k].tie > 0 \/ n[k] = SK[k].cand[1] THEN Pat(n, k + 1)
             ELSE LET rest == Pat(n, k + 1) IN
                  SK[k].slot \o "=" \o n[k] \o (IF rest = "" THEN "" ELSE "," \o rest)

EntOut(n, i) == [id |-> i, name |-> n[i], kind |-> SK[i].kind, parent |-> SK[i].parent, slot |-> SK[i].slot,
                 prim |-> SK[i].prim, pres |-> SK[i].pres, len |-> SK[i].len, min |-> SK[i].min, max |-> SK[i].max,
                 null |-> SK[i].null, const |-> SK[i].const, cenc |-> SK[i].cenc,
                 vref |-> IF SK[i].vt > 0 THEN n[Par(SK[i].vt)] \o "." \o n[SK[i].vt] ELSE SK[i].vref,
                 desc |-> SK[i].desc, styp |-> SK[i].styp, target |-> SK[i].target, idx |-> SK[i].idx,
                 bl |-> SK[i].bl, dim |-> SK[i].dim, must |-> SK[i].must, tname |-> SK[i].tname, hdr |-> SK[i].hdr]

Vector(n) == [sk |-> SkName, pat |-> Pat(n, 1), names |-> n,
              ents |-> [i \in 1 .. N |-> EntOut(n, i)],
              paths |-> PublicPaths(n)]

\* CONSTRAINT: one record per legal assignment ...
Emit == phase = "named" => PrintT(ToJson(Vector(nm)))
\* ... and, per processing order, which rules of the discipline it exercised
\* (used to make sure a sample of the assignments still covers every rule)
EmitFired == phase = "mangled" => PrintT(ToJson([fired_names |-> nm, fired |-> fired]))

\* ---------------------------------------------------------------- skeletons --
\* T1: public types and the members their classes / tag structs declare
SkT1 == << PType("pt", <<"t1", "min_value", "A_0", "types", "a">>, "uint32", "required"),
           PEnum("pe", <<"e1", "A">>, "uint8"),
           EVal(2, "ev", <<"v1", "A", "A_0">>, "1"),
           PSet("ps", <<"s1", "A_0", "types_0">>, "uint8"),
           Choice(4, "ch", <<"c1", "A_0", "value">>, 0) >>

\* T2: inline types of two composites share detail::types; inline enum and its value
SkT2 == << PComp("pc", <<"c1", "A">>),
           IType(1, "im", <<"m1", "A", "min_value", "A_0">>, "uint32", "required"),
           IEnum(1, "ie", <<"e1", "A", "A_0">>, "uint8"),
           EVal(3, "iv", <<"v1", "A">>, "1"),
           PComp("qc", <<"c2">>),
           IType(5, "qm", <<"m2", "A", "A_0">>, "uint16", "optional") >>

\* T3: nested composite, ref member, public optional type
SkT3 == << PType("pt", <<"t1", "A", "null_value">>, "int32", "optional"),
           PComp("pc", <<"c1", "A">>),
           IComp(2, "ic", <<"i1", "A", "c1">>),
           IType(3, "nm", <<"m1", "A", "A_0">>, "char", "required"),
           Ref(2, "rf", <<"r1", "A", "t1">>, 1) >>

\* T4: public set mangled next to inline sets
SkT4 == << PSet("ps", <<"s1", "A">>, "uint32"),
           Choice(1, "pch", <<"k1", "A">>, 31),
           PComp("pc", <<"c1", "A_0">>),
           ISet(3, "is", <<"s2", "A", "A_0", "A_1">>, "uint8"),
           Choice(4, "ich", <<"k2", "A", "A_0">>, 7) >>

\* M1: message / field / group / entry members
SkM1 == << Msg("m", <<"M1", "A">>),
           Field(1, "f", <<"f1", "A", "A_0", "messages">>, 0, "uint32"),
           Group(1, "g", <<"g1", "A", "A_0">>),
           Field(3, "gf", <<"x1", "A", "A_entry", "A_0_entry">>, 0, "uint16"),
           Data(3, "gd", <<"d1", "A_entry">>) >>

\* M2: nested groups and a second message named like entries
SkM2 == << Msg("m1", <<"M1", "A_0", "A_entry", "A_0_entry">>),
           Msg("m2", <<"M2">>),
           Group(2, "g", <<"g1", "A">>),
           Field(3, "gf", <<"x1", "A", "A_entry">>, 0, "uint32"),
           Group(3, "gg", <<"h1", "A", "A_entry", "A_0", "A_1_entry">>),
           Field(5, "ggf", <<"y1">>, 0, "uint8") >>

\* M3: groups of different messages share detail::messages; the `messages` container
SkM3 == << Msg("m1", <<"M1", "A", "messages">>),
           Field(1, "f", <<"f1", "A">>, 0, "uint32"),
           Group(1, "g", <<"g1", "A", "A_0", "A_entry">>),
           Msg("m2", <<"M2", "A_0", "messages_0">>),
           Group(4, "g2", <<"g2", "A", "A_entry">>) >>

\* M4: sibling groups and a nested one, in both declaration orders: a group named like the entry class of a
\* LATER group (`A_entry` before `A`) shares detail::messages with it just as well
SkM4 == << Msg("m", <<"M1">>),
           Group(1, "g", <<"g1", "A", "A_entry">>),
           Field(2, "gf", <<"x1">>, 0, "uint16"),
           Group(1, "h", <<"h1", "A", "A_entry", "A_0">>),
           Group(4, "hh", <<"k1", "A", "A_entry", "A_0_entry">>),
           Field(5, "hf", <<"y1">>, 0, "uint8") >>

\* X1: types against messages and fields of those types
SkX1 == << PType("pt", <<"t1", "A", "M1">>, "uint32", "required"),
           PEnum("pe", <<"e1", "messages">>, "uint8"),
           EVal(2, "ev", <<"v1">>, "1"),
           Msg("m", <<"M1", "A", "types">>),
           Field(4, "f", <<"f1", "A", "t1">>, 1, ""),
           Field(4, "fe", <<"f2", "e1">>, 2, "") >>

\* U1 / U2: every public type that gets mangled (member clash, `types` clash) is also USED: as the type of a
\* message field and of a group-entry field, as the type of a constant field, and as a <ref> target
SkU1 == << PEnum("pe", <<"e1", "A">>, "uint8"), EVal(1, "ev", <<"v1", "A">>, "1"),                 \* 1,2
           PType("pt", <<"t1", "min_value", "types">>, "uint32", "required"),                      \* 3
           Msg("m", <<"M1">>),                                                                      \* 4
           Field(4, "f", <<"f1", "A">>, 1, ""), Field(4, "f2", <<"f2">>, 3, ""),                   \* 5,6
           KField(4, "k", <<"k1">>, 1, "", 2), KField(4, "kp", <<"k2">>, 0, "uint8", 2),           \* 7,8
           Group(4, "g", <<"g1">>),                                                                 \* 9
           Field(9, "gf", <<"x1">>, 1, ""), Field(9, "gf2", <<"x2">>, 3, ""), KField(9, "gk", <<"k3">>, 1, "", 2),  \* 10,11,12
           PComp("rc", <<"rc">>), Ref(13, "r1", <<"r1">>, 1), Ref(13, "r2", <<"r2">>, 3) >>        \* 13,14,15

SkU2 == << PSet("ps", <<"s1", "A">>, "uint16"), Choice(1, "ch", <<"c1", "A">>, 9),                 \* 1,2
           PComp("pc", <<"c2", "B">>), IType(3, "cm", <<"m1", "B">>, "int32", "required"),         \* 3,4
           Msg("m", <<"M1", "messages">>),                                                          \* 5
           Field(5, "f", <<"f1">>, 1, ""), Field(5, "f2", <<"f2", "B">>, 3, ""),                   \* 6,7
           Group(5, "g", <<"g1">>),                                                                 \* 8
           Field(8, "gf", <<"x1">>, 1, ""), Field(8, "gf2", <<"x2">>, 3, ""),                      \* 9,10
           PComp("rc", <<"rc">>), Ref(11, "r1", <<"r1">>, 1), Ref(11, "r2", <<"r2">>, 3) >>        \* 11,12,13

\* F: one identifier of FixedPool in every kind of slot at once, each slot in
\* a container of its own (so that every generated header has one such name)
SkF0 == << PType("id", <<"fx">> \o FixedPool, "uint32", "required"),                                \* 1  types::<id>
          PComp("fc", <<"fc">>), Tie(IType(2, "im", <<>>, "uint16", "optional"), 1),     \* 2,3  inline member
          PComp("fr", <<"fr">>), Tie(Ref(4, "rf", <<>>, 1), 1),                           \* 4,5  ref member
          PEnum("fen", <<"fen">>, "uint8"), Tie(EVal(6, "ev", <<>>, "1"), 1),            \* 6,7  enum value
          PSet("fse", <<"fse">>, "uint8"), Tie(Choice(8, "ch", <<>>, 3), 1),             \* 8,9  choice
          Msg("fm1", <<"fm1">>), Tie(Field(10, "f", <<>>, 0, "uint32"), 1),              \* 10,11 field
          Msg("fm2", <<"fm2">>), Tie(Group(12, "g", <<>>), 1),                            \* 12,13 group
          Field(13, "gx", <<"gx">>, 0, "uint32"),                                         \* 14
          Msg("fm3", <<"fm3">>), Group(15, "fg", <<"fg">>),                               \* 15,16
          Tie(Field(16, "gf", <<>>, 0, "uint32"), 1),                                     \* 17 field in group
          Msg("fm4", <<"fm4">>), Tie(Data(18, "d", <<>>), 1),                             \* 18,19 data
          Tie(Msg("m", <<>>), 1), Field(20, "mx", <<"mx">>, 0, "uint32") >>               \* 20,21 message
\* "standard C++ naming rules are still applied and usually you'll get an error
\* from sbeppc if schema uses wrong name": sbeppc may reject these (must = FALSE),
\* but what it accepts has to compile
SkF == [k \in 1 .. Len(SkF0) |-> [SkF0[k] EXCEPT !.must = FALSE]]
\* K: the same skeleton over the keyword pool
SkK == [k \in 1 .. Len(SkF0) |-> IF k = 1 THEN [SkF0[k] EXCEPT !.must = FALSE, !.cand = KeywordPool]
                                          ELSE [SkF0[k] EXCEPT !.must = FALSE]]
=============================================================================
