-------------------------- MODULE SbeppcTraceC09 --------------------------
(* Trace validation for C09 (sbeppc is total): SbeppcTrace, plus what a    *)
(* run may do when NO emission plan is known for it.                        *)
(*                                                                          *)
(* C20 validates runs of known-valid schemas against the plan of their      *)
(* fault-free reference run.  C09 runs garbled inputs: a run that exits 0   *)
(* is validated against the plan formed by its own output calls (all of     *)
(* SbeppcTrace applies: well-formed emission, carried out completely after  *)
(* the `named` marker, every file complete).  A run that does NOT exit 0    *)
(* has no plan (the empty plan, Len(plan) = 0).  For such a run:            *)
(*   - output calls are still only allowed once the schema has been         *)
(*     accepted and named (hook) - a rejected input makes none at all;      *)
(*   - an output call that fails (mkdir / open / write; not mkdir-EEXIST)   *)
(*     is a failure of the environment (name too long, not a directory,     *)
(*     permission denied, ...): FaultReported then demands status # 0 and   *)
(*     a diagnostic, and - as in Sbeppc - partial output may remain;        *)
(*   - a run that made output calls and ends with status # 0 must have      *)
(*     seen such a failure (it was not the input that was rejected);        *)
(*   - files may be left behind only in that case.                          *)
(* Everything else - signals, sanitizer reports (`ub` events), time-outs,   *)
(* status # 0 without diagnostic, phases out of order - is, as in           *)
(* SbeppcTrace, simply not a behaviour.                                     *)
EXTENDS SbeppcTrace

NoPlan == Len(plan) = 0

CallFailed(e) == e.res < 0 /\ ~(e.call = "mkdir" /\ e.errno = 17)

\* an output call of a run without a plan
TrSysOutFree ==
  /\ IsEvent("sys") /\ stage = "run" /\ Tr[l].cls = "out"
  /\ NoPlan
  /\ LET e == Tr[l] IN
       /\ e.k = nio + 1
       /\ e.inj = ""
       /\ Running
       /\ IF hooked THEN phase \in {"Named", "Emitting"} ELSE phase \in {"Start", "Emitting"}
       /\ nio' = nio + 1
       /\ phase' = "Emitting"
       /\ failed' = (failed \/ (CallFailed(e) /\ e.call \in {"mkdir", "open", "write"}))
       /\ soft' = (soft \/ (CallFailed(e) /\ e.call \notin {"mkdir", "open", "write"}))
       /\ offplan' = TRUE
  /\ UNCHANGED <<plan, pc, nin, inopens, fault, disk, disk0, diag, exit, pend, cur, bad, thrown, gen, mayreject,
                 run, plans, nopen, hooked, okplans, stage>>

\* a rejected input leaves nothing behind: status # 0 after output calls only if one of them failed
ExitGuardC09 == (NoPlan /\ Tr[l].status # 0 /\ nio > 0) => failed

\* what is on the disk after a run without a plan
TrDiskFree ==
  /\ IsEvent("disk") /\ stage = "exited"
  /\ NoPlan
  /\ Len(Tr[l].files) > 0
  /\ failed /\ nio > 0
  /\ stage' = "checked"
  /\ UNCHANGED <<vars, run, plans, nopen, hooked, okplans>>

MatchC09 == \/ TrPlan \/ TrReset \/ TrPhase
            \/ (TrSysOut /\ ~NoPlan) \/ TrSysOutFree
            \/ TrSysIn \/ TrDiag
            \/ (TrExit /\ ExitGuardC09)
            \/ TrDisk \/ TrDiskFree

SkipC09 ==
  /\ l <= Len(Tr)
  /\ ~ENABLED MatchC09
  /\ PrintT(ToJson([rejected |-> run, line |-> l, stage |-> stage, phase |-> phase, pc |-> pc, nio |-> nio,
                    failed |-> failed, soft |-> soft, offplan |-> offplan, diag |-> diag,
                    event |-> Tr[l]]))
  /\ l' = NextReset(l + 1)
  /\ stage' = "skipped"
  /\ UNCHANGED <<vars, run, plans, nopen, hooked, okplans>>

NextC09 == MatchC09 \/ SkipC09
SpecC09 == TraceInit /\ [][NextC09]_tvars
=============================================================================
