----------------------------- MODULE GroupIter -----------------------------
(* Repeating groups as ranges (C12).                                        *)
(*                                                                          *)
(* A group on the wire is a dimension header (blockLength, numInGroup; the  *)
(* two are unsigned integers of BW and NW bytes) followed by numInGroup     *)
(* entries.  Offsets in this module are relative to the first byte of the   *)
(* group.  Data start D = Hdr = BW + NW.                                    *)
(*                                                                          *)
(*   ideal model   cfg = [n, bl]; an iterator is an index i in 0..n; entry  *)
(*                 i of a flat group starts at Addr(i) = D + i * bl         *)
(*                 (exact arithmetic).                                      *)
(*   byte level    mem = the group's bytes (little-endian digits of the     *)
(*                 header members, then the entries).  Every operation is   *)
(*                 defined by what a view can know: its own position and    *)
(*                 values read from mem.  An iterator register is a pair    *)
(*                 [i, a] (index, address) that the operations advance.     *)
(*                                                                          *)
(* TLC checks that the byte-level algebra and the ideal model agree (the    *)
(* laws below), and emits every explored iterator expression with the       *)
(* expected indices/addresses; harness/c12_groups.cpp runs them on the      *)
(* sbeppc-generated group classes.                                          *)
(*                                                                          *)
(* Three machines share the definitions:                                    *)
(*   Flat    small scope, exact integer addresses (InitFlat / NextFlat)     *)
(*   Huge    header values at the limits of the header types, written as    *)
(*           little-endian base-256 digits because TLC integers are 32-bit; *)
(*           header-only operations and addresses by digit arithmetic       *)
(*           (InitHuge / NextHuge)                                          *)
(*   Nested  groups whose entries contain a group and a data member:        *)
(*           forward ranges, entry i starts where entry i-1 ends            *)
(*           (InitNested / NextNested)                                      *)
EXTENDS Integers, Sequences, FiniteSets, TLC, Json

CONSTANTS NW,      \* bytes of numInGroup: 1, 2, 4, 8
          BW,      \* bytes of blockLength: 1, 2, 4, 8
          Ns,      \* small scope: set of group sizes
          BLs,     \* small scope: set of wire block lengths
          Depth,   \* iterator expressions: at most Depth moves after begin()/end()
          MaxOff   \* n of it+n, it-n, it+=n, it-=n, it[n] ranges over -MaxOff..MaxOff

VARIABLES cfg,     \* the ideal group (shape depends on the machine)
          mem,     \* bytes of the group, little-endian digits for header members
          it,      \* the iterator register: [i, a], or NoIt
          chain,   \* how `it` was obtained (sequence of steps with their expected results)
          fresh,   \* FALSE after resize/clear (no iterator walks afterwards)
          ret,     \* what the last call returned
          last     \* ghost: the last call and its arguments

vars == <<cfg, mem, it, chain, fresh, ret, last>>
view == <<cfg, mem, it, chain, fresh>>

Hdr == BW + NW
NoIt == [i |-> -1, a |-> -1]
Offs == (-MaxOff) .. MaxOff
OffSeq == [k \in 1 .. (2 * MaxOff + 1) |-> k - MaxOff - 1]

\* ------------------------------------------------------------- digits ----
\* little-endian base-256 numbers of arbitrary width
Zeros(w) == [k \in 1 .. w |-> 0]
Pad(x, w) == IF Len(x) >= w THEN x ELSE x \o Zeros(w - Len(x))
RECURSIVE ToDigits(_, _)
ToDigits(n, w) == IF w = 0 THEN <<>> ELSE <<n % 256>> \o ToDigits(n \div 256, w - 1)
IsZero(x) == \A k \in 1 .. Len(x) : x[k] = 0
\* value of a digit sequence; only for values < 2^24 (it becomes a TLC integer)
IsSmall(x) == \A k \in 4 .. Len(x) : x[k] = 0
RECURSIVE ToNatR(_)
ToNatR(x) == IF x = <<>> THEN 0 ELSE x[1] + 256 * ToNatR(Tail(x))
ToNat(x) == IF IsSmall(x) THEN ToNatR(SubSeq(x, 1, IF Len(x) < 3 THEN Len(x) ELSE 3))
            ELSE Assert(FALSE, "ToNat of a value >= 2^24")
RECURSIVE AddC(_, _, _)
AddC(x, y, c) == IF x = <<>> THEN <<c>>
                 ELSE LET s == x[1] + y[1] + c
                      IN  <<s % 256>> \o AddC(Tail(x), Tail(y), s \div 256)
\* sum, one digit longer than the longer argument
Add(x, y) == LET w == IF Len(x) > Len(y) THEN Len(x) ELSE Len(y)
             IN  AddC(Pad(x, w), Pad(y, w), 0)
RECURSIVE MulDigit(_, _, _)
MulDigit(x, d, c) == IF x = <<>> THEN <<c>>
                     ELSE LET p == x[1] * d + c
                          IN  <<p % 256>> \o MulDigit(Tail(x), d, p \div 256)
\* product, schoolbook; result padded/truncated by the caller with Fit
RECURSIVE Mul(_, _)
Mul(x, y) == IF y = <<>> THEN Zeros(Len(x))
             ELSE Add(MulDigit(x, y[1], 0), <<0>> \o Mul(x, Tail(y)))
Fits(x, w) == \A k \in (w + 1) .. Len(x) : x[k] = 0
Fit(x, w) == SubSeq(Pad(x, w), 1, w)
RECURSIVE LessR(_, _, _)     \* compare from the most significant digit
LessR(x, y, k) == IF k = 0 THEN FALSE
                  ELSE IF x[k] # y[k] THEN x[k] < y[k] ELSE LessR(x, y, k - 1)
Less(x, y) == LET w == IF Len(x) > Len(y) THEN Len(x) ELSE Len(y)
              IN  LessR(Pad(x, w), Pad(y, w), w)
RECURSIVE DecR(_)            \* x - 1 for x > 0
DecR(x) == IF x[1] > 0 THEN <<x[1] - 1>> \o Tail(x) ELSE <<255>> \o DecR(Tail(x))
Dec(x) == DecR(x)
Rev(x) == [k \in 1 .. Len(x) |-> x[Len(x) + 1 - k]]
Pow2(k) == [j \in 1 .. 9 |-> IF j = (k \div 8) + 1 THEN 2 ^ (k % 8) ELSE 0]   \* 2^k as 9 digits, k <= 71

\* ------------------------------------------------ reading the header -----
ReadD(m, off, w) == SubSeq(m, off + 1, off + w)        \* off is 0-based
BLd(m) == ReadD(m, 0, BW)
Nd(m) == ReadD(m, BW, NW)
HBL(m) == ToNat(BLd(m))
HN(m) == ToNat(Nd(m))
\* the header in wire order: byte order is sequence reversal, not arithmetic
HdrWire(m) == [le |-> BLd(m) \o Nd(m), be |-> Rev(BLd(m)) \o Rev(Nd(m))]
Fill(k) == (k * 37 + 11) % 251                          \* entry bytes: any pattern

\* resize(count)/clear(): numInGroup := count, nothing else
ResizeRes(m, d) == [k \in 1 .. Len(m) |-> IF BW < k /\ k <= BW + NW THEN d[k - BW] ELSE m[k]]
SizeRes(m) == Nd(m)
EmptyRes(m) == IsZero(Nd(m))

\* ====================================================== Flat, small scope ==
Addr(c, i) == Hdr + i * c.bl                            \* the ideal: D + i x BL
FlatImage(c) == ToDigits(c.bl, BW) \o ToDigits(c.n, NW) \o [k \in 1 .. c.n * c.bl |-> Fill(k)]

\* What a view knows: the header members read from the buffer.  (h is passed
\* around so that TLC decodes the header once per evaluation.)
HdrOf(m) == [n |-> HN(m), bl |-> HBL(m)]

BeginIt == [i |-> 0, a |-> Hdr]
SizeBytes(h) == Hdr + h.n * h.bl
EndIt(h) == [i |-> h.n, a |-> SizeBytes(h)]
Adv(h, x, n) == [i |-> x.i + n, a |-> x.a + n * h.bl]

MoveOps == {"add", "radd", "sub", "add_assign", "sub_assign",
            "pre_inc", "post_inc", "pre_dec", "post_dec"}
HasArg(op) == op \in {"add", "radd", "sub", "add_assign", "sub_assign"}
Eff(op, n) == CASE op \in {"add", "radd", "add_assign"} -> n
                [] op \in {"sub", "sub_assign"} -> -n
                [] op \in {"pre_inc", "post_inc"} -> 1
                [] op \in {"pre_dec", "post_dec"} -> -1
\* reg: the register afterwards (it = it + n; it = n + it; it = it - n;
\* it += n; it -= n; ++it; it++; --it; it--), val: the value of the expression
StepRes(h, x, op, n) ==
  LET y == Adv(h, x, Eff(op, n))
  IN  [reg |-> y, val |-> IF op \in {"post_inc", "post_dec"} THEN x ELSE y]
Legal(h, x, op, n) == LET t == x.i + Eff(op, n) IN 0 <= t /\ t <= h.n

\* pure operations on an iterator
CanDeref(h, x) == 0 <= x.i /\ x.i < h.n
DerefRes(h, x) == x.a                                           \* address of *it / it->
CanIndex(h, x, n) == CanDeref(h, Adv(h, x, n))
IndexRes(h, x, n) == Adv(h, x, n).a                             \* address of it[n]
RECURSIVE WalkIt(_, _)
WalkIt(h, j) == IF j = 0 THEN BeginIt ELSE Adv(h, WalkIt(h, j - 1), 1)   \* begin(), ++ j times
CmpRes(x, y) == [eq |-> x.i = y.i, ne |-> x.i # y.i, lt |-> x.i < y.i, le |-> x.i <= y.i,
                 gt |-> x.i > y.i, ge |-> x.i >= y.i, d |-> x.i - y.i]
\* pure operations on the group
AtRes(h, k) == DerefRes(h, Adv(h, BeginIt, k))                  \* g[k]: *(begin() + k)
FrontRes(h) == DerefRes(h, BeginIt)
BackRes(h) == DerefRes(h, Adv(h, EndIt(h), -1))                 \* *(--end())
IterRes(h) == [k \in 1 .. h.n |-> WalkIt(h, k - 1).a]           \* for(auto e : g)

InitFlat == /\ cfg \in [n : Ns, bl : BLs]
            /\ mem = FlatImage(cfg)
            /\ it = NoIt /\ chain = <<>> /\ fresh = TRUE
            /\ ret = 0 /\ last = [op |-> "init"]

Step(op, n, r) == [op |-> op, n |-> n, i |-> r.reg.i, a |-> r.reg.a, ri |-> r.val.i, ra |-> r.val.a]

StartCore(which) == /\ it' = IF which = "begin" THEN BeginIt ELSE EndIt(HdrOf(mem))
                    /\ ret' = it'
                    /\ last' = [op |-> which]
                    /\ UNCHANGED <<cfg, mem, fresh>>
Start(which) == /\ chain = <<>> /\ fresh
                /\ StartCore(which)
                /\ chain' = <<Step(which, 0, [reg |-> it', val |-> it'])>>

MoveCore(op, n) == /\ it # NoIt
                   /\ LET h == HdrOf(mem)
                      IN  /\ Legal(h, it, op, n)
                          /\ LET r == StepRes(h, it, op, n)
                             IN  it' = r.reg /\ ret' = r.val
                   /\ last' = [op |-> op, n |-> n]
                   /\ UNCHANGED <<cfg, mem, fresh>>
Move(op, n) == /\ chain # <<>> /\ Len(chain) <= Depth
               /\ MoveCore(op, n)
               /\ chain' = Append(chain, Step(op, n, [reg |-> it', val |-> ret']))

Pure(l, r) == ret' = r /\ last' = l /\ UNCHANGED <<cfg, mem, it, chain, fresh>>
Deref == it # NoIt /\ LET h == HdrOf(mem) IN CanDeref(h, it) /\ Pure([op |-> "deref"], DerefRes(h, it))
Index(n) == it # NoIt /\ LET h == HdrOf(mem) IN CanIndex(h, it, n) /\ Pure([op |-> "index", n |-> n], IndexRes(h, it, n))
Compare(j) == it # NoIt /\ Pure([op |-> "cmp", n |-> j], CmpRes(it, WalkIt(HdrOf(mem), j)))
Size == Pure([op |-> "size"], SizeRes(mem))
Empty == Pure([op |-> "empty"], EmptyRes(mem))
At(k) == LET h == HdrOf(mem) IN k < h.n /\ Pure([op |-> "at", n |-> k], AtRes(h, k))
Front == LET h == HdrOf(mem) IN h.n > 0 /\ Pure([op |-> "front"], FrontRes(h))
Back == LET h == HdrOf(mem) IN h.n > 0 /\ Pure([op |-> "back"], BackRes(h))

ResizeCore(d) == /\ mem' = ResizeRes(mem, d)
                 /\ fresh' = FALSE /\ it' = NoIt
                 /\ ret' = SizeRes(mem')
                 /\ UNCHANGED chain
Resize(n) == /\ fresh /\ chain = <<>>
             /\ ResizeCore(ToDigits(n, NW))
             /\ cfg' = [cfg EXCEPT !.n = n]
             /\ last' = [op |-> "resize", d |-> ToDigits(n, NW)]
Clear == /\ fresh /\ chain = <<>>
         /\ ResizeCore(Zeros(NW))
         /\ cfg' = [cfg EXCEPT !.n = 0]
         /\ last' = [op |-> "clear", d |-> Zeros(NW)]

\* Pure calls do not depend on how the iterator was obtained: the model
\* explores them on every iterator reachable by at most PureDepth - 1 moves
\* (their expected results are part of every emitted vector regardless).
PureDepth == 2
NextFlat == \/ Start("begin") \/ Start("end")
            \/ \E op \in MoveOps : \E n \in (IF HasArg(op) THEN Offs ELSE {0}) : Move(op, n)
            \/ /\ Len(chain) <= PureDepth
               /\ \/ Deref \/ (\E n \in Offs : Index(n)) \/ (\E j \in 0 .. cfg.n : Compare(j))
                  \/ Size \/ Empty \/ (\E k \in 0 .. MaxOff : At(k)) \/ Front \/ Back
            \/ (\E n \in Ns : Resize(n)) \/ Clear

\* ---------------------------------------------------------- laws (Flat) --
HeaderDenotes == HN(mem) = cfg.n /\ HBL(mem) = cfg.bl
\* every reachable iterator: address = D + index x BL, index inside [begin,end]
AddrLaw == it # NoIt => it.a = Addr(cfg, it.i) /\ 0 <= it.i /\ it.i <= cfg.n
BeginPlusSizeIsEnd == LET h == HdrOf(mem) IN Adv(h, BeginIt, h.n) = EndIt(h)
IndexIsDerefOfSum ==
  it # NoIt => LET h == HdrOf(mem) IN \A n \in Offs : CanIndex(h, it, n) =>
     IndexRes(h, it, n) = DerefRes(h, StepRes(h, it, "add", n).val)
AddSubRoundTrip ==
  it # NoIt => LET h == HdrOf(mem) IN \A n \in Offs : Legal(h, it, "add", n) =>
     /\ StepRes(h, StepRes(h, it, "add", n).val, "sub", n).val = it
     /\ StepRes(h, StepRes(h, it, "add_assign", n).reg, "sub_assign", n).reg = it
     /\ StepRes(h, it, "radd", n) = StepRes(h, it, "add", n)
IncDecAreUnitMoves ==
  it # NoIt => LET h == HdrOf(mem) IN
     /\ StepRes(h, it, "pre_inc", 0).reg = StepRes(h, it, "add", 1).reg
     /\ StepRes(h, it, "post_inc", 0).reg = StepRes(h, it, "add", 1).reg
     /\ StepRes(h, it, "post_inc", 0).val = it
     /\ StepRes(h, it, "pre_dec", 0).reg = StepRes(h, it, "sub", 1).reg
     /\ StepRes(h, it, "post_dec", 0).val = it
DistanceIsIndexDifference ==
  it # NoIt => LET h == HdrOf(mem) IN \A j \in 0 .. cfg.n :
     LET w == WalkIt(h, j)
         c == CmpRes(it, w)
     IN  /\ c.d = it.i - j
         /\ Adv(h, w, c.d) = it                           \* b + (a - b) = a
         /\ CmpRes(w, it).d = -c.d
OrderingIsIndexOrdering ==
  it # NoIt => LET h == HdrOf(mem) IN \A j \in 0 .. cfg.n :
     LET c == CmpRes(it, WalkIt(h, j))
     IN  /\ c.lt = (it.i < j) /\ c.gt = (it.i > j) /\ c.eq = (it.i = j)
         /\ c.ne = ~c.eq /\ c.le = ~c.gt /\ c.ge = ~c.lt
         /\ c.lt = (c.d < 0) /\ c.eq = (c.d = 0)
\* a law of the group only: checked where the group is first seen
EntryAddresses ==
  it = NoIt =>
  LET h == HdrOf(mem) IN
  /\ \A k \in 0 .. cfg.n - 1 : AtRes(h, k) = Addr(cfg, k) /\ IterRes(h)[k + 1] = Addr(cfg, k)
  /\ Len(IterRes(h)) = cfg.n
  /\ cfg.n > 0 => FrontRes(h) = Addr(cfg, 0) /\ BackRes(h) = Addr(cfg, cfg.n - 1)
  /\ CmpRes(EndIt(h), BeginIt).d = cfg.n
ResizeFrame ==
  [][last'.op \in {"resize", "clear"} =>
       /\ Len(mem') = Len(mem)
       /\ \A k \in 1 .. Len(mem) : ~(BW < k /\ k <= BW + NW) => mem'[k] = mem[k]
       /\ Nd(mem') = last'.d
       /\ (last'.op = "clear" => EmptyRes(mem'))]_vars
OthersArePure == [][~(last'.op \in {"resize", "clear"}) => mem' = mem /\ cfg' = cfg]_vars

\* ------------------------------------------------------ vectors (Flat) ---
ItVector ==
  LET h == HdrOf(mem)
      vo == SelectSeq(OffSeq, LAMBDA n : CanIndex(h, it, n))
  IN
  [k |-> "it", nw |-> NW, bw |-> BW, n |-> cfg.n, bl |-> cfg.bl, n_pos |-> cfg.n > 0, hdr |-> HdrWire(mem),
   len |-> Len(mem),
   \* steps as <<op, n, register index, register address, value index, value address>>
   chain |-> [k \in 1 .. Len(chain) |-> <<chain[k].op, chain[k].n, chain[k].i, chain[k].a, chain[k].ri, chain[k].ra>>],
   deref |-> IF CanDeref(h, it) THEN DerefRes(h, it) ELSE -1,
   at |-> [k \in 1 .. Len(vo) |-> <<vo[k], IndexRes(h, it, vo[k])>>],
   \* against begin() advanced j times by ++: <<eq, ne, lt, le, gt, ge, it - other, other - it>>
   cmp |-> [j \in 1 .. h.n + 1 |->
              LET w == WalkIt(h, j - 1)
                  c == CmpRes(it, w)
              IN  <<c.eq, c.ne, c.lt, c.le, c.gt, c.ge, c.d, CmpRes(w, it).d>>]]
GrpVector ==
  LET h == HdrOf(mem) IN
  [k |-> "grp", nw |-> NW, bw |-> BW, n |-> cfg.n, bl |-> cfg.bl, n_pos |-> cfg.n > 0, hdr |-> HdrWire(mem),
   len |-> Len(mem),
   size |-> SizeRes(mem), empty |-> EmptyRes(mem),
   at |-> [k \in 1 .. h.n |-> AtRes(h, k - 1)],
   front |-> IF h.n > 0 THEN FrontRes(h) ELSE -1,
   back |-> IF h.n > 0 THEN BackRes(h) ELSE -1,
   iter |-> IterRes(h),
   bpse |-> (Adv(h, BeginIt, h.n) = EndIt(h)),
   dist |-> CmpRes(EndIt(h), BeginIt).d,
   resize |-> [k \in 1 .. MaxOff + 1 |->
                 [d |-> ToDigits(k - 1, NW), hdr |-> HdrWire(ResizeRes(mem, ToDigits(k - 1, NW)))]],
   clear |-> HdrWire(ResizeRes(mem, Zeros(NW)))]
\* one vector per distinct group / iterator expression: states entered by a
\* pure call repeat the state they came from
IsPureOp(op) == op \in {"deref", "index", "cmp", "size", "empty", "at", "front", "back"}
EmitFlat == IF ~fresh \/ IsPureOp(last.op) THEN TRUE
            ELSE IF chain = <<>> THEN PrintT(ToJson(GrpVector)) ELSE PrintT(ToJson(ItVector))

\* ================================================ Huge: boundary headers ==
\* cfg = [nd, bd] (digits); mem = the header only.  Only operations that do
\* not touch an entry: sizes, distances, comparisons and ADDRESSES.
SignedMaxD(w) == Dec(Pow2(8 * w - 1))                        \* 2^(8w-1) - 1
\* candidate header values: 0..3 and 2^k - 1, 2^k around every type limit
Exps == <<7, 8, 15, 16, 31, 32, 63, 64>>
CandSeq == [k \in 1 .. 4 |-> ToDigits(k - 1, 9)] \o
           [k \in 1 .. 2 * Len(Exps) |-> IF k % 2 = 1 THEN Dec(Pow2(Exps[(k + 1) \div 2])) ELSE Pow2(Exps[k \div 2])]
BoundSeq(w) == LET s == SelectSeq(CandSeq, LAMBDA c : Fits(c, w)) IN [k \in 1 .. Len(s) |-> Fit(s[k], w)]
Bound(w) == {BoundSeq(w)[k] : k \in 1 .. Len(BoundSeq(w))}
NBoundSeq == BoundSeq(NW)

\* address of entry number id (digits): D + id x BL, exact; <<>> when it does
\* not fit a 63-bit offset (no such object can exist in a 64-bit address space)
HAddr(c, id) == LET p == Add(Mul(id, c.bd), ToDigits(Hdr, 1))
                IN  IF Fits(p, 8) /\ Fit(p, 8)[8] < 128 THEN Fit(p, 8) ELSE <<>>
FitsDiff(x, w) == ~Less(SignedMaxD(w), x)                    \* x <= max of the signed type of w bytes
HGe(c, k) == ~Less(c.nd, ToDigits(k, 9))                     \* n >= k
\* Classes used to NAME a failing case (they do not enter any expectation):
\* where the expression starts, the sign of its integer operands, whether an
\* operand magnitude k exceeds the maximum of the signed counterpart of the
\* numInGroup type, the size class of k x BL, and of n x BL (the byte size of
\* all entries, which end() has to know).
Cls3(p) == IF Less(p, Pow2(31)) THEN "<2^31" ELSE IF Less(p, Pow2(32)) THEN "<2^32" ELSE ">=2^32"
NCls(c) == IF FitsDiff(c.nd, NW) THEN "n<=diffmax" ELSE "n>diffmax"
BCls(c) == "bl" \o Cls3(c.bd)
PCls(c) == "n*bl" \o Cls3(Mul(c.nd, c.bd))
RECURSIVE MaxProd(_, _)
MaxProd(c, ks) == IF ks = <<>> THEN Zeros(1)
                  ELSE LET p == Mul(ks[1], c.bd) q == MaxProd(c, Tail(ks)) IN IF Less(p, q) THEN q ELSE p
OpCls(c, org, sgn, ks) ==
  "from=" \o org \o "/" \o sgn \o "/"
  \o (IF \E j \in 1 .. Len(ks) : ~FitsDiff(ks[j], NW) THEN "k>diffmax" ELSE "k<=diffmax")
  \o "/k*bl" \o Cls3(MaxProd(c, ks))
  \o (IF org = "end" THEN "/" \o PCls(c) ELSE "")

\* org: begin | end | group;  sgn: sign of the operands ("pos", "neg", "mixed",
\* "step" for ++/--, "none");  ks: operand magnitudes
HExpr(c, name, id, deref, org, sgn, ks) ==
  [e |-> name, id |-> Fit(id, 9), addr |-> IF deref THEN HAddr(c, id) ELSE <<>>, deref |-> deref,
   is_begin |-> IsZero(id), is_end |-> (Fit(id, 9) = Pad(c.nd, 9)), cls |-> OpCls(c, org, sgn, ks)]
One == ToDigits(1, 9)
Two == ToDigits(2, 9)
HExprs(c) ==
  LET N == Pad(c.nd, 9) Nm1 == Dec(Pad(c.nd, 9))
  IN  (IF HGe(c, 1) THEN <<HExpr(c, "begin", Zeros(9), TRUE, "begin", "none", <<>>),
                           HExpr(c, "front", Zeros(9), TRUE, "group", "none", <<>>),
                           HExpr(c, "begin_p1", One, HGe(c, 2), "begin", "pos", <<One>>),
                           HExpr(c, "end_m1", Nm1, TRUE, "end", "neg", <<One>>),
                           HExpr(c, "pre_dec_end", Nm1, TRUE, "end", "step", <<>>),
                           HExpr(c, "back", Nm1, TRUE, "end", "step", <<>>),
                           HExpr(c, "end_idx_m1", Nm1, TRUE, "end", "neg", <<One>>),
                           HExpr(c, "end_m_size", Zeros(9), TRUE, "end", "neg", <<N>>),
                           HExpr(c, "at_size_m1", Nm1, TRUE, "begin", "pos", <<Nm1>>),
                           HExpr(c, "begin_p_size_m1", Nm1, TRUE, "begin", "pos", <<Nm1>>)>> ELSE <<>>)
      \o (IF HGe(c, 2) THEN <<HExpr(c, "begin_p2", Two, HGe(c, 3), "begin", "pos", <<Two>>),
                              HExpr(c, "begin_p2_m1", One, TRUE, "begin", "mixed", <<Two, One>>),
                              HExpr(c, "begin_idx1", One, TRUE, "begin", "pos", <<One>>),
                              HExpr(c, "at1", One, TRUE, "begin", "pos", <<One>>),
                              HExpr(c, "pre_inc_begin", One, TRUE, "begin", "step", <<>>),
                              HExpr(c, "end_m2_p1", Nm1, TRUE, "end", "mixed", <<Two, One>>)>> ELSE <<>>)
      \o <<HExpr(c, "begin_p_size", N, FALSE, "begin", "pos", <<N>>), HExpr(c, "end", N, FALSE, "end", "none", <<>>)>>
\* g[k] for the interesting indices below n: the largest index the signed
\* counterpart of the numInGroup type can hold, and the first it cannot
HAts(c) == LET M == Pad(SignedMaxD(NW), 9) M1 == Fit(Add(Pad(SignedMaxD(NW), 9), One), 9)
               ks == <<M, M1>>
           IN  SelectSeq(ks, LAMBDA k : Less(k, Pad(c.nd, 9)))
HugeVector(c, m) ==
  [k |-> "huge", nw |-> NW, bw |-> BW, nd |-> c.nd, bd |-> c.bd, n_pos |-> ~IsZero(c.nd), hdr |-> HdrWire(m),
   ncls |-> NCls(c), bcls |-> BCls(c), pcls |-> PCls(c),
   size |-> SizeRes(m), empty |-> EmptyRes(m),
   \* end() - begin(): exact n as 9 digits (sign digit last); <<>> when no
   \* signed 64-bit integer can represent it
   dist |-> IF NW = 8 /\ c.nd[8] >= 128 THEN <<>> ELSE Pad(c.nd, 9),
   bpse |-> TRUE,                                 \* begin() + size() == end()
   begin_lt_end |-> ~IsZero(c.nd), begin_eq_end |-> IsZero(c.nd),
   exprs |-> HExprs(c),
   at |-> [k \in 1 .. Len(HAts(c)) |->
             [kd |-> Fit(HAts(c)[k], NW), cls |-> OpCls(c, "begin", "pos", <<HAts(c)[k]>>),
              addr |-> HAddr(c, HAts(c)[k])]],
   resize |-> [k \in 1 .. Len(NBoundSeq) |-> [d |-> NBoundSeq[k], hdr |-> HdrWire(ResizeRes(m, NBoundSeq[k]))]],
   clear |-> HdrWire(ResizeRes(m, Zeros(NW)))]

InitHuge == /\ cfg \in [nd : Bound(NW), bd : Bound(BW)]
            /\ mem = cfg.bd \o cfg.nd
            /\ it = NoIt /\ chain = <<>> /\ fresh = TRUE
            /\ ret = 0 /\ last = [op |-> "init"]
HResize(d) == /\ fresh
              /\ ResizeCore(d)
              /\ cfg' = [cfg EXCEPT !.nd = d]
              /\ last' = [op |-> "resize", d |-> d]
NextHuge == \E d \in Bound(NW) : HResize(d)
HugeHeaderDenotes == Nd(mem) = cfg.nd /\ BLd(mem) = cfg.bd
\* digit arithmetic agrees with integer arithmetic wherever both exist
DigitsAgree ==
  \A x, y \in 0 .. 3 : \A z \in {5, 255, 256, 65535} :
     /\ Fit(Mul(ToDigits(x * 255 + y, 4), ToDigits(z, 4)), 9) = ToDigits((x * 255 + y) * z, 9)
     /\ Fit(Add(ToDigits(x * 255 + y, 4), ToDigits(z, 4)), 9) = ToDigits(x * 255 + y + z, 9)
     /\ Less(ToDigits(x * 255 + y, 4), ToDigits(z, 4)) = (x * 255 + y < z)
\* on small headers the digit address is the integer address
HugeAddrAgrees ==
  (IsSmall(cfg.nd) /\ IsSmall(cfg.bd) /\ ToNat(cfg.nd) < 4 /\ ToNat(cfg.bd) < 65536) =>
     \A i \in 0 .. 3 : HAddr(cfg, ToDigits(i, 9)) = ToDigits(Hdr + i * ToNat(cfg.bd), 8)
EmitHuge == IF fresh THEN PrintT(ToJson(HugeVector(cfg, mem))) ELSE TRUE

\* =========================================== Nested groups: forward ranges ==
\* cfg = [n, bl, ents]; ents[k] = [sn, sbl, dl]: entry k holds bl block
\* bytes, a flat sub-group (same dimension type) of sn entries of wire block
\* length sbl, and a data member with a 1-byte length dl.
CONSTANTS NNs, NBLs, SNs, SBLs, DLs

EntImage(c, k, be) ==
  LET e == c.ents[k]
      w(x) == IF be THEN Rev(x) ELSE x
  IN  [j \in 1 .. c.bl |-> Fill(j + k)] \o w(ToDigits(e.sbl, BW)) \o w(ToDigits(e.sn, NW))
      \o [j \in 1 .. e.sn * e.sbl |-> Fill(j + 3 * k)] \o <<e.dl>> \o [j \in 1 .. e.dl |-> Fill(j + 5 * k)]
RECURSIVE EntsImage(_, _, _)
EntsImage(c, k, be) == IF k > c.n THEN <<>> ELSE EntImage(c, k, be) \o EntsImage(c, k + 1, be)
NestedImage(c, be) == (IF be THEN Rev(ToDigits(c.bl, BW)) \o Rev(ToDigits(c.n, NW))
                       ELSE ToDigits(c.bl, BW) \o ToDigits(c.n, NW)) \o EntsImage(c, 1, be)
\* ideal: entry sizes from the contents
EntSize(c, k) == c.bl + Hdr + c.ents[k].sn * c.ents[k].sbl + 1 + c.ents[k].dl
RECURSIVE NStart(_, _)
NStart(c, k) == IF k = 0 THEN Hdr ELSE NStart(c, k - 1) + EntSize(c, k)   \* start of entry k (0-based); k = n: end of group
\* byte level: the size of the entry at offset off, read from mem
MemEntSize(m, off) ==
  LET sub == off + HBL(m)                                  \* sub-group: after the block
      sbl == ToNat(ReadD(m, sub, BW))
      sn  == ToNat(ReadD(m, sub + BW, NW))
      dat == sub + Hdr + sn * sbl                          \* data member: after the sub-group
  IN  dat + 1 + m[dat + 1] - off
NBeginIt(m) == [i |-> 0, a |-> Hdr]
NIncRes(m, x) == [i |-> x.i + 1, a |-> x.a + MemEntSize(m, x.a)]
\* end() carries no address; forward iterators compare by position only
NAtEnd(m, x) == x.i = HN(m)

InitNested == /\ \E n \in NNs, bl \in NBLs :
                   cfg \in [n : {n}, bl : {bl}, ents : [1 .. n -> [sn : SNs, sbl : SBLs, dl : DLs]]]
              /\ mem = NestedImage(cfg, FALSE)
              /\ it = NoIt /\ chain = <<>> /\ fresh = TRUE
              /\ ret = 0 /\ last = [op |-> "init"]
NBegin == /\ it = NoIt /\ fresh
          /\ it' = NBeginIt(mem) /\ ret' = it' /\ last' = [op |-> "begin"]
          /\ UNCHANGED <<cfg, mem, chain, fresh>>
NInc == /\ it # NoIt /\ ~NAtEnd(mem, it)
        /\ it' = NIncRes(mem, it) /\ ret' = it' /\ last' = [op |-> "pre_inc"]
        /\ UNCHANGED <<cfg, mem, chain, fresh>>
NResize(n) == /\ fresh /\ it = NoIt
              /\ ResizeCore(ToDigits(n, NW))
              /\ UNCHANGED cfg                      \* the entries stay where they are
              /\ last' = [op |-> "resize", d |-> ToDigits(n, NW)]
NextNested == NBegin \/ NInc \/ \E n \in 0 .. MaxOff : NResize(n)

NestedHeaderDenotes == fresh => HN(mem) = cfg.n /\ HBL(mem) = cfg.bl
\* entry i starts where entry i-1 ends
NestedAddrLaw == (fresh /\ it # NoIt) => it.a = NStart(cfg, it.i) /\ it.i <= cfg.n
RECURSIVE NWalk(_, _)
NWalk(m, k) == IF k = 0 THEN NBeginIt(m) ELSE NIncRes(m, NWalk(m, k - 1))
NestedEndIsEnd == fresh => NWalk(mem, HN(mem)).a = Len(mem) /\ NAtEnd(mem, NWalk(mem, HN(mem)))
NestedVector ==
  [k |-> "nested", nw |-> NW, bw |-> BW, n |-> cfg.n, bl |-> cfg.bl, n_pos |-> cfg.n > 0,
   ents |-> [k \in 1 .. cfg.n |-> <<cfg.ents[k].sn, cfg.ents[k].sbl, cfg.ents[k].dl>>],
   mem |-> [le |-> mem, be |-> NestedImage(cfg, TRUE)],
   size |-> SizeRes(mem), empty |-> EmptyRes(mem),
   starts |-> [k \in 1 .. HN(mem) |-> NWalk(mem, k - 1).a],
   total |-> NWalk(mem, HN(mem)).a,
   resize |-> [k \in 1 .. MaxOff + 1 |-> ToDigits(k - 1, NW)]]
EmitNested == IF fresh /\ it = NoIt THEN PrintT(ToJson(NestedVector)) ELSE TRUE
=============================================================================
