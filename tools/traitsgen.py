"""C18 (traits and tags mirror the schema): schema JSON ->

  (a) the TLA+ record spec/Traits.tla evaluates (Sbe.tla's record plus the
      descriptive attributes: description, semanticType, sinceVersion,
      deprecated, min/max/null, characterEncoding, semanticVersion ...;
      absent = "" / -1 so that records of one kind have one shape),
  (b) the C++ TU that prints the trait table of the *real* generated headers:
      pass 1 by explicit named tag paths, pass 2 by walking the children tag
      lists generically from <schema>::schema,
  (c) the schemas only C18 uses.

This module knows names, kinds and attribute spelling only.  It never computes
an offset, a size, a presence or any other trait value: those come from TLC
(spec/Traits.tla) on one side and from sbeppc's output on the other.
"""
import schema as sch
from catalogue import T, F, G, D, header, dim, vardata

PRIMS = ("char", "int8", "uint8", "int16", "uint16", "int32", "uint32", "int64", "uint64", "float", "double")


# ------------------------------------------------------------------ TLA+ ---

def _i(v):
    return -1 if v is None else int(v)


def _s(v):
    return "" if v is None else str(v)


def _common(e):
    return {"desc": _s(e.get("description")), "sem": _s(e.get("semanticType")),
            "since": _i(e.get("sinceVersion")), "depr": _i(e.get("deprecated"))}


def norm_enc(e):
    k = e["kind"]
    d = {"kind": k, "name": e["name"], "offset": _i(e.get("offset"))}
    d.update(_common(e))
    if k == "type":
        ln = e.get("length")
        d.update({"prim": e["prim"], "length": 1 if ln is None else ln, "lengthGiven": ln is not None, "presence": e.get("presence") or "required",
                  "min": _s(e.get("min")), "max": _s(e.get("max")), "null": _s(e.get("null")),
                  "charEnc": _s(e.get("charEnc")), "const": _s(e.get("const")), "valueRef": _s(e.get("valueRef"))})
    elif k == "composite":
        d["elements"] = [norm_enc(x) for x in e["elements"]]
    elif k == "enum":
        d["enc"] = e["enc"]
        d["values"] = [dict({"name": v["name"], "value": str(v["value"])}, **_common(v)) for v in e["values"]]
    elif k == "set":
        d["enc"] = e["enc"]
        d["choices"] = [dict({"name": c["name"], "index": int(c["index"])}, **_common(c)) for c in e["choices"]]
    elif k == "ref":
        d["type"] = e["type"]
    else:
        raise ValueError(k)
    return d


def norm_level(lv, is_group):
    d = {"name": lv["name"], "id": lv["id"]}
    d.update(_common(lv))
    if is_group:
        d["dim"] = lv.get("dimensionType") or "groupSizeEncoding"
    d["blockLength"] = _i(lv.get("blockLength"))
    d["fields"] = [dict({"name": f["name"], "id": f["id"], "type": f["type"], "offset": _i(f.get("offset")),
                         "presence": f.get("presence") or "required", "valueRef": _s(f.get("valueRef"))}, **_common(f))
                   for f in lv.get("fields", [])]
    d["groups"] = [norm_level(g, True) for g in lv.get("groups", [])]
    d["data"] = [dict({"name": x["name"], "id": x["id"], "type": x["type"]}, **_common(x)) for x in lv.get("data", [])]
    return d


def normalize(S):
    return {"package": S["package"], "id": S["id"], "version": S["version"],
            "semVer": _s(S.get("semanticVersion")), "desc": _s(S.get("description")),
            "byteOrder": S.get("byteOrder") or "littleEndian",
            "headerType": S.get("headerType") or "messageHeader",
            "types": [norm_enc(t) for t in S["types"]],
            "messages": [norm_level(m, False) for m in S["messages"]]}


def schema_tla(S):
    return sch.tla(normalize(S))


# -------------------------------------------------------------- schemas ----

def c18_schema():
    """Exercises every descriptive attribute on every entity kind, explicit
    min/max/null, characterEncoding, explicit blockLength, custom offsets,
    refs to every kind, inline enums/sets/composites at depth, an enum over a
    named type, presence mismatches between field and type."""
    hdr = header()
    hdr.update(description="message header", semanticType="Header", sinceVersion=0)
    hdr["elements"][0]["description"] = "root block length"
    hdr["elements"][3].update(sinceVersion=1, deprecated=4)
    dimx = dim("dimX", bl="uint8", num="uint16", offsets={"numInGroup": 2})
    dimx.update(description="wide dimension", sinceVersion=2)
    vstr = vardata("varStr", "uint16", "char")
    vstr["elements"][0]["description"] = "string length"
    vstr["elements"][1]["charEnc"] = "UTF-8"
    vstr.update(description="utf-8 text", semanticType="String", sinceVersion=1, deprecated=5)
    types = [
        hdr, dim(), dimx, vardata(), vstr,
        T("u8t", "uint8", description="raw byte", sinceVersion=1),
        T("qty", "uint32", min="1", max="1000000", description="order quantity", semanticType="Qty",
          sinceVersion=2, deprecated=4),
        T("optq", "int16", presence="optional", min="-100", max="100", null="-1", description="small optional"),
        T("i64ext", "int64", presence="optional", min="-9223372036854775807", max="9223372036854775807",
          null="-9223372036854775808", sinceVersion=5),
        T("u64big", "uint64", max="18446744073709551614", min="0"),
        T("u64opt", "uint64", presence="optional"),
        T("i8opt", "int8", presence="optional", deprecated=0),
        T("fl", "float", presence="optional", min="-2.5", max="1024", null="-1", description="bounded float"),
        T("dbl", "double"),
        T("dblopt", "double", presence="optional"),
        T("sym", "char", length=6, charEnc="ASCII", description="ticker symbol", semanticType="String"),
        T("ch", "char", description="one char"),
        T("chopt", "char", presence="optional"),
        T("blob", "uint8", length=5, presence="optional", sinceVersion=3),
        T("kver", "uint16", presence="constant", const="42", description="constant version", sinceVersion=1),
        T("kneg", "int8", presence="constant", const="-2"),
        T("kstr", "char", presence="constant", length=5, const="HELLO", description="constant text", deprecated=5),
        {"kind": "enum", "name": "Side", "enc": "char", "description": "order side", "sinceVersion": 1, "deprecated": 5,
         "values": [{"name": "Buy", "value": "B", "description": "buy side"},
                    {"name": "Sell", "value": "S", "sinceVersion": 2},
                    {"name": "Cross", "value": "X", "description": "crossed", "sinceVersion": 3, "deprecated": 4}]},
        {"kind": "enum", "name": "Status", "enc": "u8t", "description": "enum over a named type",
         "values": [{"name": "New", "value": "0"}, {"name": "Done", "value": "200", "deprecated": 5},
                    {"name": "Zed", "value": "7", "description": "out of numeric order"}]},
        {"kind": "enum", "name": "Wide", "enc": "uint32",
         "values": [{"name": "Max", "value": "4294967294"}, {"name": "Min", "value": "0", "sinceVersion": 5}]},
        {"kind": "set", "name": "Flags", "enc": "uint16", "description": "order flags", "sinceVersion": 2, "deprecated": 3,
         "choices": [{"name": "Hidden", "index": 9, "description": "not displayed"},
                     {"name": "AON", "index": 0, "sinceVersion": 3},
                     {"name": "Late", "index": 15, "sinceVersion": 4, "deprecated": 5, "description": "last bit"}]},
        {"kind": "set", "name": "Bits64", "enc": "uint64", "choices": [{"name": "top", "index": 63}, {"name": "low", "index": 0}]},
        {"kind": "composite", "name": "Decimal", "description": "price", "semanticType": "Price", "sinceVersion": 1,
         "elements": [T("mantissa", "int64", description="scaled value"),
                      T("exponent", "int8", presence="constant", const="-2", description="fixed exponent", sinceVersion=1)]},
        {"kind": "composite", "name": "big", "description": "everything inline", "semanticType": "Blob",
         "sinceVersion": 1, "deprecated": 5,
         "elements": [
             T("lead", "uint16", description="first member", sinceVersion=1, deprecated=2, min="5", max="500"),
             T("gap", "uint32", offset=4, presence="optional", null="0", semanticType="Gap"),
             T("kin", "uint8", presence="constant", const="3"),
             T("txt", "char", length=3, offset=9, charEnc="ISO-8859-1", description="inline string"),
             {"kind": "enum", "name": "ien", "enc": "uint8", "description": "inline enum", "sinceVersion": 2, "deprecated": 3,
              "values": [{"name": "P", "value": "1", "description": "first"}, {"name": "Q", "value": "255", "sinceVersion": 2}]},
             {"kind": "set", "name": "ist", "enc": "uint32", "offset": 16, "description": "inline set", "sinceVersion": 1,
              "choices": [{"name": "s31", "index": 31, "description": "msb", "deprecated": 4}, {"name": "s0", "index": 0}]},
             {"kind": "ref", "name": "rt", "type": "qty", "sinceVersion": 3, "deprecated": 5},
             {"kind": "ref", "name": "re", "type": "Side", "offset": 26},
             {"kind": "ref", "name": "rs", "type": "Flags", "sinceVersion": 2},
             {"kind": "ref", "name": "rc", "type": "Decimal", "offset": 32, "deprecated": 4},
             {"kind": "ref", "name": "rk", "type": "kver"},
             {"kind": "ref", "name": "ro", "type": "optq"},
             {"kind": "composite", "name": "mid", "description": "nested once", "semanticType": "Mid", "sinceVersion": 2,
              "offset": 44, "elements": [
                  T("m0", "uint8"),
                  {"kind": "composite", "name": "deep", "description": "nested twice", "deprecated": 5, "elements": [
                      T("d0", "int32", offset=2, description="deep int"),
                      {"kind": "enum", "name": "den", "enc": "char", "values": [{"name": "Y", "value": "y"}, {"name": "N", "value": "n"}]},
                      {"kind": "ref", "name": "dr", "type": "sym", "sinceVersion": 4},
                      {"kind": "set", "name": "dst", "enc": "uint8", "choices": [{"name": "b7", "index": 7}]}]},
                  T("m1", "uint16", sinceVersion=5)]},
             T("tail", "int64", deprecated=1),
         ]},
    ]
    m1 = G("Order", 10, blockLength=176, description="new order", semanticType="D", sinceVersion=1, deprecated=5, fields=[
        F("qty", 1, "qty", description="quantity field", sinceVersion=2, deprecated=3),
        F("px", 2, "Decimal", offset=8, description="limit price"),
        F("side", 3, "Side", presence="optional", description="enum declared optional"),
        F("flags", 4, "Flags", presence="optional", sinceVersion=2),
        F("optOfReq", 5, "qty", presence="optional", description="field optional, type required"),
        F("reqOfOpt", 6, "optq", presence="required", description="field required, type optional"),
        F("kv", 7, "kver", description="constant type"),
        F("ks", 8, "kstr"),
        F("kside", 9, "Side", presence="constant", valueRef="Side.Sell", sinceVersion=1),
        F("kprim", 10, "uint8", presence="constant", valueRef="Status.Done", description="primitive constant"),
        F("p_opt", 11, "uint64", presence="optional", offset=40, description="optional primitive"),
        F("p_req", 12, "double", deprecated=2),
        F("sym", 13, "sym", sinceVersion=3),
        F("blob", 14, "blob"),
        F("big", 15, "big", offset=80, description="composite with everything", sinceVersion=1, deprecated=4),
        F("st", 16, "Status"),
        F("w", 17, "Wide", sinceVersion=5),
        F("b64", 18, "Bits64"),
        F("chf", 19, "char", presence="optional"),
        F("fl", 20, "fl"),
    ], groups=[
        G("legs", 30, dimensionType="dimX", blockLength=24, description="order legs", semanticType="Legs", sinceVersion=2, deprecated=5,
          fields=[F("lq", 1, "qty", offset=4), F("lside", 2, "Side", presence="constant", valueRef="Side.Buy"),
                  F("lpx", 3, "Decimal", description="leg price", sinceVersion=3)],
          groups=[G("fills", 31, description="nested group", sinceVersion=4,
                    fields=[F("fq", 1, "uint32", presence="optional"), F("ff", 2, "Flags")],
                    data=[D("note", 32, "varStr")])],
          data=[D("legText", 33)]),
        G("parties", 34, fields=[F("id", 1, "sym"), F("role", 2, "Status", presence="optional")]),
        G("hollow", 35, sinceVersion=5, fields=[]),
    ], data=[D("text", 40, "varStr"), D("raw", 41)])
    m1["fields"].append(F("optbig", 21, "Decimal", presence="optional", description="optional composite at the root"))
    m1["data"][0].update(description="free text", sinceVersion=3, deprecated=4)
    m1["data"][1].update(sinceVersion=5)
    m1["groups"][0]["groups"][0]["data"][0].update(description="fill note", deprecated=5)
    m2 = G("Empty", 11, fields=[])
    m3 = G("Only", 12, description="only constants and data", fields=[F("k", 1, "kneg"), F("ke", 2, "Status", presence="constant", valueRef="Status.Zed")],
           data=[D("d", 3)])
    # group paths whose size_bytes() parameter names collide (`a`/`b` and a top-level `a_b`, `a`/`b`/`c` and `a_b`/`c`):
    # every level has a different block length / header / data header so that a mixed-up count shows
    m4 = G("Clash", 13, fields=[F("f", 1, "uint32")], groups=[
        G("a", 2, fields=[F("x", 1, "uint32")], groups=[
            G("b", 3, dimensionType="dimX", fields=[F("y", 1, "uint64")], groups=[
                G("c", 4, fields=[F("w", 1, "uint8")], data=[D("cd", 5, "varStr")])])]),
        G("a_b", 6, fields=[F("z", 1, "uint16")], groups=[
            G("c", 7, dimensionType="dimX", fields=[F("v", 1, "uint32"), F("v2", 2, "uint8")])], data=[D("abd", 8)]),
        G("a_b_c", 9, fields=[F("q", 1, "sym"), F("optpx", 2, "Decimal", presence="optional", description="optional composite"),
                              F("reqpx", 3, "Decimal", presence="required"), F("u64", 4, "uint64"), F("i64o", 5, "int64", presence="optional")]),
    ])
    # three paths with one parameter name, two of them at the SAME depth (`x_y_z`, `x`/`y_z`, `x_y`/`z`)
    m5 = G("Clash3", 14, fields=[F("f", 1, "uint8")], groups=[
        G("x_y_z", 2, fields=[F("p", 1, "uint16")]),
        G("x", 3, fields=[F("q", 1, "uint32")], groups=[G("y_z", 4, dimensionType="dimX", fields=[F("r", 1, "uint64")])]),
        G("x_y", 5, fields=[F("s", 1, "uint8")], groups=[G("z", 6, fields=[F("t", 1, "uint16"), F("t2", 2, "uint8")])]),
    ])
    return {"package": "c18x", "id": 901, "version": 5, "semanticVersion": "5.2.1", "description": "C18 trait schema",
            "byteOrder": "bigEndian", "types": types, "messages": [m1, m2, m3, m4, m5]}


def c18_text_schema():
    """Descriptions / semantic types containing characters that are special in
    a C++ string literal (kept apart so that a defect in their handling does
    not mask the rest)."""
    types = [header(), dim(), vardata(),
             T("bs", "uint8", description="path C:\\temp\\new", semanticType="a\\tb"),
             T("pct", "uint16", description="100% {ok} 'single' <tag> & more")]
    m = G("M", 1, description="back\\slash", fields=[F("f", 1, "bs", description="tab\\there")])
    return {"package": "c18t", "id": 902, "version": 1, "semanticVersion": "1.0\\n", "description": "d\\x41",
            "byteOrder": "littleEndian", "types": types, "messages": [m]}


def c18_quote_schema():
    """A double quote inside a description."""
    types = [header(), dim(), vardata(), T("q", "uint8", description='say "hi"')]
    m = G("M", 1, fields=[F("f", 1, "q")])
    return {"package": "c18q", "id": 903, "version": 1, "byteOrder": "littleEndian", "types": types, "messages": [m]}


def c18_ctrl_schema():
    """Control characters (given as character references in the XML) inside
    descriptive attributes: line feed, carriage return, tab."""
    types = [header(), dim(), vardata(), T("nl", "uint8", description="line one\nline two", semanticType="tab\there"),
             {"kind": "enum", "name": "E", "enc": "uint8", "description": "cr\rlf\n", "values": [{"name": "A", "value": "1", "description": "v\n"}]}]
    m = G("M", 1, description="m\n\tx", fields=[F("f", 1, "nl", description="f\r\n")], data=[D("d", 2)])
    m["data"][0].update(description="d\nd")
    return {"package": "c18c", "id": 904, "version": 1, "description": "schema\ndescription", "byteOrder": "littleEndian",
            "types": types, "messages": [m]}


FP_LEXEMES = ["-INF", "INF", "+INF", "NaN", "-0.0", "0", "1e-3", "-1.5E+10", "3", "-2.5", "1024", "-1", "+1.25", ".5", "5.", "0.1",
              "010", "007.50", "-0012", "08", "00.125", "16777217", "123456789", "-9007199254740993", "18446744073709551615"]
FP_ONLY = {"float": ["3.4028234663852886e+38", "-3.4028234663852886e+38", "1.17549435e-38"],
           "double": ["1.7976931348623157e+308", "-1.7976931348623157e+308", "2.2250738585072014e-308",
                      "3.4028234663852886e+38", "1.17549435e-38"]}


def c18_fp_schema(prim):
    """(one schema per primitive type: c18ff float, c18fd double)  float and double types with explicit special and boundary lexemes: every
    lexeme occurs as minValue, as maxValue, as nullValue and as a constant, for
    both primitive types; public, inline in a composite, through refs and as
    message fields.  Only XML Schema float lexemes (no hex, no signed NaN)."""
    types = [header(), dim(), vardata()]
    msgs = []
    fid = [0]

    def nid():
        fid[0] += 1
        return fid[0]

    for p in (prim,):
        L = FP_LEXEMES + FP_ONLY[p]
        n = len(L)
        tnames, knames = [], []
        for i, lx in enumerate(L):
            tn = "%s_t%d" % (p[0], i)
            types.append(T(tn, p, presence="optional", min=lx, max=L[(i + 1) % n], null=L[(i + 2) % n]))
            tnames.append(tn)
            kn = "%s_k%d" % (p[0], i)
            types.append(T(kn, p, presence="constant", const=lx))
            knames.append(kn)
        types.append(T("%s_req" % p[0], p, min=L[0], max=L[1]))          # required: min/max only
        types.append({"kind": "composite", "name": "%s_comp" % p[0], "elements": [
            T("in_a", p, presence="optional", min="-INF", max="INF", null="NaN"),
            T("in_b", p, min="-0.0", max="+INF"),
            {"kind": "ref", "name": "r0", "type": tnames[0]},
            {"kind": "ref", "name": "r1", "type": "%s_req" % p[0]},
            T("in_k", p, presence="constant", const="-INF"),
            {"kind": "ref", "name": "rk", "type": knames[0]}]})
        # message fields: at most 12 per level
        chunks = [(tnames + ["%s_req" % p[0], "%s_comp" % p[0]])[i:i + 11] for i in range(0, n + 2, 11)]
        for ci, ch in enumerate(chunks):
            msgs.append(G("%s_vals%d" % (p[0], ci), 100 + len(msgs), fields=[F("v_" + t, nid(), t) for t in ch]))
        for ci in range(0, n, 11):
            msgs.append(G("%s_consts%d" % (p[0], ci // 11), 100 + len(msgs), fields=[F("c_" + k, nid(), k) for k in knames[ci:ci + 11]],
                          groups=[G("g", 1, fields=[F("gk", 1, knames[0]), F("gv", 2, tnames[0])])] if ci == 0 else []))
    return {"package": "c18f" + prim[0], "id": 904, "version": 1, "byteOrder": "littleEndian", "types": types, "messages": msgs}


# ------------------------------------------------------------------- C++ ---

TRAITS_CLASS = {"type": "type_traits", "enum": "enum_traits", "set": "set_traits", "composite": "composite_traits"}


class Gen:
    """Emits calls by *name*: `c18::emit_<kind>< ::ns::schema::...::tag >("path")`.
    The templates in harness/c18_traits.hpp call every documented member of the
    corresponding sbepp::*_traits<Tag>."""

    def __init__(self, S):
        self.S = S
        self.ns = S["package"]
        self.types = {t["name"]: t for t in S["types"]}
        self.reg = []      # tag-name registrations
        self.calls = []    # pass 1

    def tag(self, path):
        return "::%s::schema%s" % (self.ns, "".join("::" + p for p in path))

    def ent(self, path, kind, extra=""):
        p = "/".join(path)
        self.reg.append('C18_TAGNAME(%s, "%s");' % (self.tag(path), p))
        self.calls.append('c18::emit_%s< %s >("%s"%s);' % (kind, self.tag(path), p, extra))

    def public_check(self, path, e):
        """representation type of a public type by its documented public name"""
        k = e["kind"]
        tag = self.tag(path)
        pub = "::%s::types::%s" % (self.ns, e["name"])
        if k == "type":
            if e.get("presence") == "constant":
                return
            ln = e.get("length")
            if (1 if ln is None else ln) != 1:
                a = "::sbepp::type_traits< %s >::value_type<char>" % tag
                pub += "<char>"
            else:
                a = "::sbepp::type_traits< %s >::value_type" % tag
        elif k == "composite":
            a = "::sbepp::composite_traits< %s >::value_type<char>" % tag
            pub += "<char>"
        else:
            a = "::sbepp::%s< %s >::value_type" % (TRAITS_CLASS[k], tag)
        self.calls.append('c18::emit_extra("%s", "value_type_public", std::is_same< %s, %s >::value);' % ("/".join(path), a, pub))

    def enc(self, e, path, public):
        k = e["kind"]
        if k == "ref":
            tk = self.types[e["type"]]["kind"]
            self.ent(path, tk)
            return
        self.ent(path, k)
        if public:
            self.public_check(path, e)
        if k == "enum":
            for v in e["values"]:
                self.ent(path + [v["name"]], "enum_value")
        elif k == "set":
            for c in e["choices"]:
                self.ent(path + [c["name"]], "set_choice")
        elif k == "composite":
            for m in e["elements"]:
                self.enc(m, path + [m["name"]], False)

    @staticmethod
    def ngroups(lv):
        return sum(1 + Gen.ngroups(g) for g in lv.get("groups", []))

    @staticmethod
    def has_data(lv):
        return bool(lv.get("data")) or any(Gen.has_data(g) for g in lv.get("groups", []))

    def size_args(self, n, data, fill):
        """argument list of size_bytes: one count per group (depth first) and
        the total payload size if there is any <data>"""
        # fill "d": pairwise distinct counts, the k-th count parameter is k + 2 (Traits.tla DCnt)
        a = [str(k + 2) for k in range(1, n + 1)] if fill == "d" else [fill] * n
        if data:
            a.append("0" if fill == "0" else "C18_DATA_TOTAL")
        return ", ".join(a)

    def fp_constant(self, f):
        t = self.types.get(f["type"])
        ln = None if t is None else t.get("length")
        return bool(t) and t["kind"] == "type" and t.get("presence") == "constant" and t["prim"] in ("float", "double") and (1 if ln is None else ln) == 1

    def level(self, lv, path, view=None):
        """view: C++ name of the representation type of this level (message
        view or group entry), used for the static constant accessors"""
        for f in lv.get("fields", []):
            self.ent(path + [f["name"]], "field")
            if view and self.fp_constant(f):
                self.calls.append('c18::emit_extra("%s", "constant_value", %s::%s());' % ("/".join(path + [f["name"]]), view, f["name"]))
        for g in lv.get("groups", []):
            gp = path + [g["name"]]
            n, dat = self.ngroups(g), self.has_data(g)
            t = "::sbepp::group_traits< %s >" % self.tag(gp)
            self.ent(gp, "group")
            # the group's own count comes first, then the nested ones
            self.calls.append('c18::emit_extra("%s", "size_bytes_0", %s::size_bytes(%s));' % ("/".join(gp), t, self.size_args(n + 1, dat, "0")))
            self.calls.append('c18::emit_extra("%s", "size_bytes_1", %s::size_bytes(%s));' % ("/".join(gp), t, self.size_args(n + 1, dat, "1")))
            self.calls.append('c18::emit_extra("%s", "size_bytes_d", %s::size_bytes(%s));' % ("/".join(gp), t, self.size_args(n + 1, dat, "d")))
            self.level(g, gp, "%s::entry_type<char>" % t)
        for d in lv.get("data", []):
            self.ent(path + [d["name"]], "data")

    def generate(self):
        S = self.S
        self.ent([], "schema")
        self.reg[-1] = 'C18_TAGNAME(::%s::schema, "schema");' % self.ns
        self.calls[-1] = 'c18::emit_schema< ::%s::schema >("schema");' % self.ns
        for t in S["types"]:
            self.enc(t, ["types", t["name"]], True)
        for m in S["messages"]:
            mp = ["messages", m["name"]]
            self.ent(mp, "message")
            n, dat = self.ngroups(m), self.has_data(m)
            t = "::sbepp::message_traits< %s >" % self.tag(mp)
            self.calls.append('c18::emit_extra("%s", "size_bytes_0", %s::size_bytes(%s));' % ("/".join(mp), t, self.size_args(n, dat, "0")))
            self.calls.append('c18::emit_extra("%s", "size_bytes_1", %s::size_bytes(%s));' % ("/".join(mp), t, self.size_args(n, dat, "1")))
            self.calls.append('c18::emit_extra("%s", "size_bytes_d", %s::size_bytes(%s));' % ("/".join(mp), t, self.size_args(n, dat, "d")))
            self.calls.append('c18::emit_extra("%s", "value_type_public", std::is_same< %s::value_type<char>, ::%s::messages::%s<char> >::value);' % (
                "/".join(mp), t, self.ns, m["name"]))
            self.level(m, mp, "::%s::messages::%s<char>" % (self.ns, m["name"]))
        L = ["// generated by tools/traitsgen.py - names and kinds only, never a trait value",
             "#include <%s/%s.hpp>" % (self.ns, self.ns),
             '#include "c18_traits.hpp"', ""]
        L += self.reg
        L += ["", "int main()", "{", "    // pass 1: every entity by its explicit tag path"]
        L += ["    " + c for c in self.calls]
        L += ["    // pass 2: walk the children tag lists from the schema tag",
              "    c18::walk< ::%s::schema >();" % self.ns,
              '    std::printf("DONE {\\"entities\\":%d}\\n");' % len(self.reg),
              "    return 0;", "}"]
        return "\n".join(L) + "\n"


def traits_cpp(S):
    return Gen(S).generate()
