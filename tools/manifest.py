#!/usr/bin/env python3
"""Regenerates MANIFEST.json from the table below (single source of truth)."""
import json
import os

ROOT = os.path.dirname(os.path.dirname(os.path.abspath(__file__)))

CHECKS = {
    "C15": dict(
        category="model_checking",
        technique="TLC model checking of BitSet.tla + replay of every TLC-computed vector into the generated set classes + trace validation (BitSetTrace.tla) + vectors as static_asserts",
        text="BitSet.tla is model-checked (complete machine for 8-bit, and 16-bit in thorough; one step from pattern/random values for 32/64-bit) and "
             "every explored pre-state is replayed with all getters/setters/by-tag/visit/equality against sbeppc-generated set classes of all four widths "
             "under several standards/compilers, at run time and in constant evaluation; random call logs of the real classes are validated against the spec.",
        note="Trusts TLC, the installed compilers, nlohmann::json in the harness; little-endian host; 32/64-bit value space sampled (patterns + seeded random), index space complete.",
        design="5/C15"),
}

NOT_YET = "check not built yet (construction in progress, DESIGN.md section 10)"


def main():
    props = [json.loads(l) for l in open(os.path.join(ROOT, "properties.jsonl"))]
    checks = []
    na = []
    for p in props:
        pid = p["id"]
        c = CHECKS.get(pid)
        if not c:
            na.append({"property_id": pid, "reason": NOT_YET})
            continue
        checks.append({
            "property_id": pid,
            "quick_cmd": "./verif check %s --tier quick" % pid,
            "thorough_cmd": "./verif check %s --tier thorough" % pid,
            "evidence_file": "/verif/evidence/%s.json" % pid,
            "replay_cmd_template": "./verif replay {path}",
            "engine": "tlc+harness",
            "level_claimed": {"category": c["category"], "text": c["text"], "design_ref": c["design"]},
            "level_note": c["note"],
            "technique": c["technique"],
        })
    m = {
        "version": 1,
        "setup_cmd": "./verif setup",
        "hooks": {"guard": "SBEPP_VERIF",
                  "enable": "every compile done by ./verif (harness TUs and sbeppc) passes -DSBEPP_VERIF",
                  "baseline_off_cmd": "cmake --build /repo/_build && ctest --test-dir /repo/_build -j8 --timeout 900",
                  "source_commits": [],
                  "add_only": True},
        "engines": [{"name": "tlc+harness", "path": "/verif/verif",
                     "serves_properties": sorted(CHECKS),
                     "kind_free_text": "TLA+ specs in /verif/spec checked by TLC; TLC-emitted vectors replayed into the real code by C++ harnesses in /verif/harness; recorded traces validated by *Trace.tla"}],
        "checks": checks,
        "notes": "see DESIGN.md; known_findings.json lists fixed/known defects",
        "not_applicable": na,
    }
    json.dump(m, open(os.path.join(ROOT, "MANIFEST.json"), "w"), indent=1)


if __name__ == "__main__":
    main()
