#!/usr/bin/env python3
"""Regenerates MANIFEST.json from the table below (single source of truth)."""
import json
import os

ROOT = os.path.dirname(os.path.dirname(os.path.abspath(__file__)))

CHECKS = {
    "C15": dict(
        category="model_checking",
        technique="TLC model checking of BitSet.tla + replay of every TLC-computed vector into the generated set classes + trace validation (BitSetTrace.tla) + vectors as static_asserts",
        text="BitSet.tla is model-checked (complete machine for 8-bit; one step from pattern / seeded random values for 16-bit - 1024 quick, 8192 thorough - and for 32/64-bit) and "
             "every explored pre-state is replayed with all getters/setters/by-tag/visit/equality against sbeppc-generated set classes of all four widths "
             "under several standards/compilers, at run time and in constant evaluation; random call logs of the real classes are validated against the spec.",
        note="Trusts TLC, the installed compilers, nlohmann::json in the harness; little-endian host; 32/64-bit value space sampled (patterns + seeded random), index space complete.",
        design="5/C15"),
    "C01": dict(
        category="model_checking",
        technique="TLC model checking of View.tla against SbeImage.tla (StepRefines, EncodeRefines, MarginsIntact) + replay of every encode transition into sbeppc-generated accessors",
        text="The operational layer (addresses derived from bytes read in the buffer) is model-checked against the denotational SBE image for every explored (schema, message, shape); "
             "every transition of the in-order encoding script is replayed on the real generated classes: pre-buffer injected, real header filler / setter / group header / data assignment (through every API form ViewEmit.tla DataForms lists: assign_range, assign, resize+set, push_back, insert, clear, assign_string, ...) called, whole region incl. margins compared.",
        note="Scope: schema catalogue (tools/catalogue.py: all primitives, named/optional/array/enum/set/composite/ref/constant members, custom offsets, explicit blockLength, nested groups, data, 9 header layouts, LE+BE) + schemas BUILT by SchemaBuild.tla in TLC simulation (seeded; judged valid by Rules.tla) + the repository's OWN schemas (test/schemas, benchmark, naming_test read by tools/xmlimport.py; quick: seeded sample of messages, thorough: all) x seeded shapes; group headers also with counts at the limits of the numInGroup type (ViewEmit.tla BigFills); trusts TLC, compilers, little-endian host.",
        design="5/C01"),
    "C02": dict(
        category="model_checking",
        technique="TLC model checking of DecodeRefines (View.tla vs SbeImage.tla) + replay of every image through every generated getter",
        text="SbeImage.tla is an independent encoder; every explored image is decoded by every getter (fields, composite members at any depth, arrays, enums, sets and every declared set choice, group sizes, entries, data) of the real generated classes on a read-only, exact-size, guard-paged buffer and compared bit-exactly; replayed against the checked flavour of the library and against the unchecked one (SBEPP_DISABLE_ASSERTS).",
        note="Same scope as C01. Float/double values are opaque byte patterns (all-zero, all-ones, asymmetric), which covers NaN payload bit-exactness as byte equality.",
        design="5/C02"),
    "C03": dict(
        category="model_checking",
        technique="TLC model checking of DecodeRefines/SizesAgree over per-level wire blockLength extensions + replay on inflated images",
        text="Shapes extend the wire blockLength of every level independently (0/1/3 bytes); values, entry/group/data addresses and size_bytes of every view must match the image.",
        note="Same scope as C01; cursor/visit traversal on inflated images is covered by C04/C19 when built.",
        design="5/C03"),
    "C05": dict(
        category="model_checking",
        technique="TLC model checking of SizesAgree/ImageSizes + replay of size_bytes of every view",
        text="size_bytes of message, every group, entry and data member equals the length of the corresponding SBE image part for every explored shape.",
        note="Small counts only here (0..2); type-maximum header values are exercised by C12's boundary vectors.",
        design="5/C05"),
    "C17": dict(
        category="model_checking",
        technique="TLC-emitted header-fill transitions over a header layout catalogue replayed into fill_message_header / fill_group_header",
        text="fill_message_header / fill_group_header are steps of the encode script: for 9 header/dimension layouts (reordered, gaps, extra members, refs, uint8..64, counters) x 2 byte orders, the view catalogue and the schemas built by SchemaBuild.tla, the bytes written (whole region incl. margins) and the returned header view are compared with the spec; every group header additionally with numInGroup arguments at the limits of the numInGroup type (200, 255, 256, 300, 32767, 65536, 2^31, 2^32, 2^63+1, all-ones), through fill_group_header and through resize.",
        note="Same trusted base as C01.",
        design="5/C17"),
    "C04": dict(
        category="model_checking",
        technique="TLC model checking of Cursor.tla (legality/landing table laws, level walk) + replay of every cursor-accessor transition into generated accessors with the assertion handler installed",
        text="Every (level instance, cursor position, member, wrapper in plain/init/dont_move/init_dont_move/skip, get|set) transition on images incl. inflated block lengths is emitted by TLC with its legality, documented landing position and random-access result, and replayed: "
             "returned value/view, cursor position, buffer bytes compared; calls the property lists as illegal must reach the assertion handler.",
        note="Scope: view catalogue x seeded shapes; cursor positions = required position, +1, member start/end, level start/end, unset. Cursor ranges over groups are exercised by C19 (visit_children uses cursor_range) when built.",
        design="5/C04, Appendix A"),
    "C19": dict(
        category="model_checking",
        technique="TLC model checking of Visit.tla (operational cursor walk = denotational member order; lands at message end) + replay of every stop point with a real recursive visitor on generated classes",
        text="For every explored (schema, message, shape incl. inflated block lengths) and every stop point k, the expected callback log prefix (kind, tag key, value/view, entry index, cursor position at the callback) is emitted by TLC and replayed with a recursive visitor built on visit_children; "
             "tag identity is observed through one specialisation per generated tag; complete visits must leave the cursor at the message end.",
        note="Cursor position at on_entry for entries without cursor-accessible members is admitted at both block start and block end (undocumented). Enum/set visiting is covered by C15 (sets) and the composite-member events here; get_by_tag/set_by_tag on sets by C15.",
        design="5/C19"),
    "C12": dict(
        category="model_checking",
        technique="TLC model checking of GroupIter.tla (iterator/container laws, digit arithmetic for type-boundary headers) + replay of every expression chain x 16 dimension type pairs + trace validation of random iterator walks (GroupIterTrace.tla)",
        text="All 16 (numInGroup, blockLength) type pairs x N in 0..3 x wire BL in {0,1,4,6} x iterator expression chains of depth 2 (quick) / 3 (thorough), nested forward ranges, resize/clear frame, and header-only boundary vectors near 2^8..2^64; random iterator walks validated by the trace spec.",
        note="Huge-header vectors form addresses beyond the buffer (never dereferenced; compared as integers). One known finding: difference_type = make_signed<size_type> (public typedef, not fixed).",
        design="5/C12"),
    "C06": dict(
        category="model_checking",
        technique="TLC model checking of Fits.tla (budgeted reference walk vs independent structure size; in-bounds reads; bounded work) + replay of every (shape, view, corruption, n) vector into size_bytes_checked on guard-paged buffers with a step-counter hook",
        text="Every truncation point n of every explored image, every single overwrite of a blockLength/numInGroup/length field with {0,1,fit-1,fit+1,type max} (pairs in thorough), message and group views: returned (valid,size), no read at offset >= n (PROT_NONE page at n), no assertion, step count <= K(n+1).",
        note="All six finding classes were repaired in /repo (three fix commits). Trusts TLC, compilers, the guard-page harness; work bound K(n+1) observed through the guarded step-counter hook.",
        design="5/C06"),
    "C09": dict(
        category="exploration",
        technique="TLC enumerates Garble.tla's structured garbling actions (depth <= 2) over base schemas; every case is run through the sanitized and the plain sbeppc under the I/O shim and every recorded run is validated against SbeppcTraceC09.tla",
        text="Ten action groups (attribute deletion, number/name garbling, element moves, reference retargeting, level-header variants, constant variants, include graphs, document damage, argv variants) at every applicable position, plus the repository's own ~340 schemas; "
             "alarms: signal/abort/uncaught exception/sanitizer report/timeout, non-zero exit without diagnostic, files left after rejection, trace rejected by the process spec.",
        note="Not all byte strings: the spec's structured mutation space, two edits deep. Two finding classes recorded, not repaired: 10000-deep element nesting (stack overflow) and char constants with length 2^32-1/2^64-1 (memory/time exhaustion).",
        design="5/C09"),
    "C10": dict(
        category="model_checking",
        technique="TLC model checking of Checked.tla (Touched/Req/Pre footprints from the operational layer, outcome relation) + replay of every (image, view length n, operation) vector in checked builds with guard pages on both sides",
        text="Every accessor kind (leaf get/set, composite/array views and 11 array ops, header access/fill, group size/resize/begin/end/[]/front/back/iterator steps, nested iteration, 25 data operations incl. element counts beyond the length type, size_bytes, visit, five cursor wrappers) x view lengths n x hostile header variants: "
             "must_assert / must_ok / either from the spec; violations are silent out-of-view access (guard fault without handler) and spurious handler calls. Hostile values include the maxima of 8..64-bit <data> length prefixes; schemas: view catalogue, schemas built by SchemaBuild.tla, the repository's own schemas.",
        note="Where the documentation is silent about whole-object checks the spec allows both outcomes. Observation (not alarmed): assign_range/assign(first,last) of <data> copy before the size check fires.",
        design="5/C10, Appendix B"),
    "C11": dict(
        category="exploration",
        technique="TLC model checking of Caps.tla (permission lattice, ConstIsSticky) + its permission table compiled into detection-idiom static_asserts and must-fail TUs against generated headers + read-only (PROT_READ) walks of every decode image through const views",
        text="930 permission rows (operation x access path x view/cursor constness) x schemas x compilers/standards as static_asserts, explicit instantiation of every allowed row, negative compile tests for hard-error rejections, conversions/element constness; every getter, size query, iterator, cursor getter and visit call on read-only mappings.",
        note="'Rejected at compile time' is decided by the installed compilers; rows the documentation leaves open are marked unspecified.",
        design="5/C11"),
    "C07": dict(
        category="exploration",
        technique="TLC model checking of Names.tla / LiteralMatrix.tla (mangling discipline clash-free, public path = schema name) + every TLC-enumerated schema compiled by the real sbeppc, every generated header compiled alone, and a generated touch-everything TU naming every public path",
        text="All assignments of a pool of clash-prone identifiers to the slots of small schema skeletons (1149 legal assignments; seeded sample in quick) plus the literal matrix (11 primitives x presence x explicit/boundary values x positions, enums/sets over every encoding, strings); "
             "compilers' exit status is the observation (quick: g++ c++11, clang++ c++20; thorough: g++/clang++14/clang++16 x c++11..2b).",
        note="'Compiles' is decided by the installed compilers (no MSVC). Known findings: schema names equal to identifiers the generated code uses itself (template parameters, unqualified internals, C macros, value/value_type) - recorded, not repaired.",
        design="5/C07"),
    "C08": dict(
        category="model_checking",
        technique="TLC model checking of Rules.tla/SchemaGen.tla (Break breaks the named rule, Boundary stays valid, Valid => NoOverlap /\\ MembersInsideBlock) + every TLC-generated schema mutant run through the real sbeppc",
        text="27 named rules (incl. R_DataLayout: a data header is `length` immediately followed by `varData`; R_Unique.valuenum: the values of one enum are pairwise different as numbers); every single rule-breaking edit and nearest valid edit at every applicable position of 6 (quick) / 21 (thorough) base schemas; verdict from TLC evaluating Valid on the mutated record vs exit status, located diagnostic, empty output dir of the real sbeppc; the states about names and references are additionally distributed over files (Files.tla: 11 xi:include plans, SplitKeepsVerdict model-checked) and must get the same verdict; plus the repository's error corpus.",
        note="Trusts TLC; decimal-string representability; references written in the exact case of the definition.",
        design="5/C08"),
    "C18": dict(
        category="translation_validation",
        technique="TLC evaluates ExpectedTraits(S) (Traits.tla over Sbe.tla layout); a generated TU prints the real trait table by named paths and by walking tag lists; per-(entity, trait) diff",
        text="Every documented trait of every entity (835 entities quick / 1683 thorough), children tag lists in schema order, tag-kind predicates, value_type/traits_tag round trips, across schemas (catalogue, header layouts, literal / text / control-character schemas, schemas built by SchemaBuild.tla, the repository's own test / benchmark / naming schemas) x compilers/standards.",
        note="Traits on which the documentation is silent are left out (listed in DESIGN.md).",
        design="5/C18"),
    "C20": dict(
        category="fault_enumeration",
        technique="TLC model checking of Sbeppc.tla (process + I/O plan + single fault) + fault enumeration of the real sbeppc under an LD_PRELOAD shim, every run validated by SbeppcTrace.tla",
        text="Every k-th mkdir/open/write/rename/unlink (thorough: also close and input-file calls) of 3 schemas failing with ENOSPC/EACCES/EIO or writing short; trace (phase markers, syscalls, exit, diagnostic, on-disk state vs fault-free reference) validated against the spec; re-runs into fresh/populated/stale directories and from differently spelled / differently long paths byte-identical (incl. a schema with many cross references). The model admits files written in place and files written under a temporary name and renamed into place (both strategies model-checked). What 'every generated file' is comes from OutTree.tla (the tree doc/sbeppc.md promises as a function of the schema's names, --schema-name and --inject-include), compared by TLC with what every reference run and three command-line variants left behind.",
        note="close() failures recorded, not alarmed (property does not list them). Shim interposes the libc calls libstdc++ makes on this system.",
        design="5/C20"),
    "C13": dict(
        category="model_checking",
        technique="TLC model checking of DynArray.tla (vector semantics vs byte effect) + replay of every transition x 24 instantiations + trace validation of long random op sequences (DynArrayTrace.tla)",
        text="Exhaustive closure for capacity 3 (quick) / 4 (thorough) with every overload and every legal argument; each transition replayed on dynamic_array_ref directly and through generated <data> members for 4 length types x 2 byte orders x 3 element types; 400-op random logs validated by the trace spec.",
        note="Don't-care zone between new and old end is nondeterministic in the spec (docs silent). Trusts TLC, compilers.",
        design="5/C13"),
    "C14": dict(
        category="model_checking",
        technique="TLC model checking of StaticArray.tla + replay of every transition into static_array_ref (direct and generated) + static_assert vectors + trace validation",
        text="All N in 0..3 (quick) / 0..4 (thorough), all contents over {NUL,a,b}, every overload and eos mode; whole buffer incl. guard cells and returned iterator compared; constant evaluation via static_asserts.",
        note="Trusts TLC, compilers.",
        design="5/C14"),
    "C16": dict(
        category="model_checking",
        technique="TLC model checking of Optional.tla (symbolic boundary tokens, reference comparison rules) + replay of every token pair into built-in and generated optional/required types + static_asserts",
        text="11 primitives x 10 flavours x all ordered token pairs x all predicates (has_value, bool, value_or, in_range, six comparisons, <=>), default/nullopt construction, and the SBE default min/max/null table vs what built-in and generated types expose.",
        note="FP default minValue: both readings (lowest / smallest positive normal) admitted because no normative source is available offline (see DESIGN.md).",
        design="5/C16"),
}

NOT_YET = "check not built yet (construction in progress, DESIGN.md section 10)"


def main():
    props = [json.loads(l) for l in open(os.path.join(ROOT, "properties.jsonl"))]
    checks = []
    na = []
    for p in props:
        pid = p["id"]
        c = CHECKS.get(pid)
        if not c:
            na.append({"property_id": pid, "reason": NOT_YET})
            continue
        checks.append({
            "property_id": pid,
            "quick_cmd": "./verif check %s --tier quick" % pid,
            "thorough_cmd": "./verif check %s --tier thorough" % pid,
            "evidence_file": "/verif/evidence/%s.json" % pid,
            "replay_cmd_template": "./verif replay {path}",
            "engine": "tlc+harness",
            "level_claimed": {"category": c["category"], "text": c["text"], "design_ref": c["design"]},
            "level_note": c["note"],
            "technique": c["technique"],
        })
    m = {
        "version": 1,
        "setup_cmd": "./verif setup",
        "hooks": {"guard": "SBEPP_VERIF",
                  "enable": "every compile done by ./verif (harness TUs and sbeppc) passes -DSBEPP_VERIF",
                  "baseline_off_cmd": "cmake --build /repo/_build && ctest --test-dir /repo/_build -j8 --timeout 900",
                  "source_commits": ["ff7f16f", "24ac99a"],
                  "add_only": True},
        "engines": [{"name": "tlc+harness", "path": "/verif/verif",
                     "serves_properties": sorted(CHECKS),
                     "kind_free_text": "TLA+ specs in /verif/spec checked by TLC; TLC-emitted vectors replayed into the real code by C++ harnesses in /verif/harness; recorded traces validated by *Trace.tla"}],
        "checks": checks,
        "notes": "see DESIGN.md; known_findings.json lists fixed/known defects",
        "not_applicable": na,
    }
    json.dump(m, open(os.path.join(ROOT, "MANIFEST.json"), "w"), indent=1)


if __name__ == "__main__":
    main()
