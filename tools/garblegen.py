"""C09 input layer: XML document <-> the flat element table of spec/Garble.tla,
and the application of the edits TLC emits.

Pure transliteration, both ways.  Nothing in here decides what sbeppc should do
with an input (the spec's verdict on every case is `graceful` and is judged by
SbeppcTrace on the recorded run), which inputs are generated (TLC enumerates
action x position x lexeme), or what class a case belongs to (labels are fields
of the TLC record).

Document model
--------------
`to_xml(base)` (tools/schema.py) is parsed once into a tree of `El` nodes; the
nodes are numbered in document (pre-)order from 1 and these numbers are the
element ids the spec's edits refer to (`Doc[i]` in Garble.tla).  Ids stay
attached to their node while edits move nodes around; nodes created by an edit
(fragments, copies) have no id and cannot be addressed.

Edits (fields not used by an op are "" / 0 / <<>>; see Garble.tla `Ed`)
    dropattr  el attr            remove the attribute
    setattr   el attr val        set (or add) the attribute
    settext   el val             replace the element's character content
    retag     el val             rename the element
    delete    el                 remove the subtree
    dup       el                 insert a copy of the subtree after it
    move      el dst at          re-attach the subtree: at = first|last (child of
                                 dst) | before|after (sibling of dst)
    insert    dst at frag        attach a new subtree (frag: flat table like Doc)
    replace   el frag            put a new subtree in the element's place
    nest      dst val k frag     k nested <val> elements (attributes of frag[1])
                                 as last child of dst (dst = 0: around the roots)
  on the serialized text (applied after all tree edits, in order)
    truncate  k                  keep the first k lexical tokens
    truncmid  k                  keep k tokens and half of the next one
    textins   k val              insert val after the k-th token
    textset   val                the whole file is val
    prepend / append  val
    setdecl   val                replace the <?xml ...?> declaration by val
    reencode  val                encode the file in charset val (default UTF-8)

Strings coming from the spec may contain the escapes \\uXXXX (a code point) and
\\xHH (a raw byte); `to_bytes` resolves them when the file / argument is
written.  A document without escapes is written as UTF-8.
"""
import copy
import re
from xml.dom import minidom
from xml.sax.saxutils import escape, quoteattr

import catalogue
import schema as sch
from catalogue import T, F, G, D


# ------------------------------------------------------------- document ---

class El:
    __slots__ = ("tag", "attrs", "text", "children", "parent", "id")

    def __init__(self, tag, attrs=None, text="", eid=0):
        self.tag, self.attrs, self.text, self.children, self.parent, self.id = tag, list(attrs or []), text, [], None, eid

    def add(self, child, index=None):
        child.parent = self
        if index is None:
            self.children.append(child)
        else:
            self.children.insert(index, child)
        return child


class Document:
    """decl + a list of top-level elements (normally one)."""

    def __init__(self, decl, roots):
        self.decl, self.roots = decl, list(roots)
        self.byid = {}
        for r in self.roots:
            for e in walk(r):
                if e.id:
                    self.byid[e.id] = e


def walk(e):
    yield e
    for c in e.children:
        for x in walk(c):
            yield x


def parse(xml_text):
    """XML text (as produced by schema.to_xml) -> Document with ids 1..n in
    document order.  Namespace prefixes are kept as written."""
    dom = minidom.parseString(xml_text.encode("utf-8"))
    n = [0]

    def conv(node):
        n[0] += 1
        e = El(node.tagName, eid=n[0])
        # attribute order as written is not kept by minidom: re-read it from the source order of to_xml
        e.attrs = [[a.name, a.value] for a in sorted((node.attributes.item(i) for i in range(node.attributes.length)),
                                                     key=lambda a: _attr_rank(a.name))]
        txt = []
        for c in node.childNodes:
            if c.nodeType == c.ELEMENT_NODE:
                e.add(conv(c))
            elif c.nodeType in (c.TEXT_NODE, c.CDATA_SECTION_NODE):
                txt.append(c.data)
        t = "".join(txt)
        # (indentation between / instead of child elements is not content)
        e.text = t.strip() if (e.children or (t.strip() == "" and "\n" in t)) else t
        return e
    m = re.match(r"\s*(<\?xml[^>]*\?>)", xml_text)
    return Document(m.group(1) if m else "", [conv(dom.documentElement)])


_ATTR_ORDER = ["xmlns:sbe", "xmlns:xi", "package", "name", "id", "version", "semanticVersion", "description", "byteOrder", "headerType",
               "primitiveType", "encodingType", "type", "dimensionType", "blockLength", "length", "presence", "minValue", "maxValue",
               "nullValue", "offset", "valueRef", "characterEncoding", "semanticType", "sinceVersion", "deprecated", "href"]


def _attr_rank(name):
    return _ATTR_ORDER.index(name) if name in _ATTR_ORDER else len(_ATTR_ORDER)


def local(tag):
    return tag.split(":", 1)[1] if ":" in tag else tag


def doc_table(doc):
    """Document -> the flat table Garble.tla takes as CONSTANT Doc."""
    rows = []
    for r in doc.roots:
        for e in walk(r):
            rows.append({"tag": e.tag, "lt": local(e.tag), "parent": e.parent.id if e.parent else 0,
                         "attrs": [{"n": n, "v": v} for n, v in e.attrs], "text": e.text})
    return rows


def serialize(doc):
    """Document -> text; one element per line (diagnostics are line-based).
    Iterative (documents nested 10000 deep); indentation stops at 40 columns."""
    out = [doc.decl + "\n"] if doc.decl else []
    stack = [(r, 0, False) for r in reversed(doc.roots)]
    while stack:
        e, ind, closing = stack.pop()
        sp = " " * min(ind, 40)
        if closing:
            out.append("%s</%s>\n" % (sp, e.tag))
            continue
        a = "".join(" %s=%s" % (n, quoteattr(v)) for n, v in e.attrs)
        if not e.children and e.text == "":
            out.append("%s<%s%s/>\n" % (sp, e.tag, a))
        elif not e.children:
            out.append("%s<%s%s>%s</%s>\n" % (sp, e.tag, a, escape(e.text), e.tag))
        else:
            out.append("%s<%s%s>%s\n" % (sp, e.tag, a, escape(e.text)))
            stack.append((e, ind, True))
            for c in reversed(e.children):
                stack.append((c, ind + 4, False))
    return "".join(out)


def serialize_deep(doc):
    return serialize(doc)


_TOKEN = re.compile(r'<\?|\?>|</|/>|<|>|=|"[^"]*"|\s+|[^\s<>="/?]+|.', re.S)


def tokens(text):
    """Lexical tokens of an XML text (markup delimiters, names, quoted values,
    white space, character data words).  Concatenated they give the text."""
    return _TOKEN.findall(text)


# ---------------------------------------------------------------- edits ---

def frag_tree(frag):
    """flat fragment table [{tag,parent,attrs,text}] (parent 0 = fragment root,
    else 1-based index into the table) -> El"""
    els = []
    for row in frag:
        e = El(row["tag"], [[a["n"], a["v"]] for a in row["attrs"]], row["text"])
        els.append(e)
        if row["parent"]:
            els[row["parent"] - 1].add(e)
    return els[0]


def clone(e):
    c = El(e.tag, [list(a) for a in e.attrs], e.text)
    for ch in e.children:
        c.add(clone(ch))
    return c


class Vacuous(Exception):
    """the edit addresses something that is no longer there (removed by an
    earlier edit of the same case) or a position beyond the text"""


def _detach(doc, e):
    if e.parent is None:
        doc.roots.remove(e)
    else:
        e.parent.children.remove(e)
        e.parent = None


def _siblings(doc, e):
    return doc.roots if e.parent is None else e.parent.children


def _attached(doc, e):
    while e.parent is not None:
        e = e.parent
    return e in doc.roots


def apply_tree_edit(doc, ed):
    op = ed["op"]

    def el(k):
        e = doc.byid.get(ed[k])
        if e is None or not _attached(doc, e):
            raise Vacuous("element %s is gone" % ed[k])
        return e
    if op == "dropattr":
        e = el("el")
        if not any(a[0] == ed["attr"] for a in e.attrs):
            raise Vacuous("no attribute " + ed["attr"])
        e.attrs = [a for a in e.attrs if a[0] != ed["attr"]]
    elif op == "setattr":
        e = el("el")
        for a in e.attrs:
            if a[0] == ed["attr"]:
                a[1] = ed["val"]
                break
        else:
            e.attrs.append([ed["attr"], ed["val"]])
    elif op == "settext":
        el("el").text = ed["val"]
    elif op == "retag":
        el("el").tag = ed["val"]
    elif op == "delete":
        _detach(doc, el("el"))
    elif op == "dup":
        e = el("el")
        sib = _siblings(doc, e)
        c = clone(e)
        c.parent = e.parent
        sib.insert(sib.index(e) + 1, c)
    elif op == "move":
        e, d = el("el"), el("dst")
        x = d
        while x is not None:
            if x is e:
                raise Vacuous("move into own subtree")
            x = x.parent
        _detach(doc, e)
        if ed["at"] == "first":
            d.add(e, 0)
        elif ed["at"] == "last":
            d.add(e)
        else:
            sib = _siblings(doc, d)
            e.parent = d.parent
            sib.insert(sib.index(d) + (1 if ed["at"] == "after" else 0), e)
    elif op == "insert":
        d, f = el("dst"), frag_tree(ed["frag"])
        if ed["at"] == "first":
            d.add(f, 0)
        elif ed["at"] == "last":
            d.add(f)
        else:
            sib = _siblings(doc, d)
            f.parent = d.parent
            sib.insert(sib.index(d) + (1 if ed["at"] == "after" else 0), f)
    elif op == "replace":
        e, f = el("el"), frag_tree(ed["frag"])
        sib = _siblings(doc, e)
        i = sib.index(e)
        f.parent = e.parent
        e.parent = None
        sib[i] = f
    elif op == "nest":
        attrs = [[a["n"], a["v"]] for a in ed["frag"][0]["attrs"]] if ed["frag"] else []
        top = cur = El(ed["val"], attrs)
        for _ in range(ed["k"] - 1):
            cur = cur.add(El(ed["val"], attrs))
        if ed["dst"] == 0:       # around the whole document
            for r in list(doc.roots):
                cur.add(r)
            doc.roots = [top]
        else:
            el("dst").add(top)
    else:
        raise ValueError("unknown tree edit " + op)


TREE_OPS = ("dropattr", "setattr", "settext", "retag", "delete", "dup", "move", "insert", "replace", "nest")
TEXT_OPS = ("truncate", "truncmid", "textins", "textset", "prepend", "append", "setdecl", "reencode")


def apply_text_edit(text, ed, state):
    op = ed["op"]
    if op in ("truncate", "truncmid", "textins"):
        tk = tokens(text)
        k = ed["k"]
        if k > len(tk) or (op == "truncmid" and k >= len(tk)):
            raise Vacuous("token %d beyond the text (%d tokens)" % (k, len(tk)))
        head = "".join(tk[:k])
        if op == "truncate":
            return head
        if op == "truncmid":
            return head + tk[k][:max(1, len(tk[k]) // 2)]
        return head + ed["val"] + "".join(tk[k:])
    if op == "textset":
        return ed["val"]
    if op == "prepend":
        return ed["val"] + text
    if op == "append":
        return text + ed["val"]
    if op == "setdecl":
        return re.sub(r"^\s*<\?xml[^>]*\?>", lambda m: ed["val"], text, count=1) if re.match(r"\s*<\?xml", text) else ed["val"] + text
    if op == "reencode":
        state["charset"] = ed["val"]
        return text
    raise ValueError("unknown text edit " + op)


_ESC = re.compile(r"\\x([0-9a-fA-F]{2})|\\u([0-9a-fA-F]{4})")


def to_bytes(s, charset="utf-8"):
    """resolve \\xHH (raw byte) and \\uXXXX (code point) and encode"""
    out = []
    pos = 0
    for m in _ESC.finditer(s):
        out.append(s[pos:m.start()].encode(charset, "surrogatepass"))
        if m.group(1) is not None:
            out.append(bytes([int(m.group(1), 16)]))
        else:
            out.append(chr(int(m.group(2), 16)).encode(charset, "surrogatepass"))
        pos = m.end()
    out.append(s[pos:].encode(charset, "surrogatepass"))
    return b"".join(out)


def render_file(spec, main_name, main_bytes):
    """one extra file of an include graph, from its description
    {name, kind, includes:[href], types:[name], msgs:[{name,id}], k}; a fragment holds its includes, then one
    <types> block, then its messages, as top-level nodes"""
    kind = spec["kind"]
    if kind == "garbage":
        return to_bytes("\\x00\\x01\\xfe\\xff this is not XML <<<&&& \\x80")
    if kind == "empty":
        return b""
    if kind == "copy-of-main":
        return main_bytes
    if kind == "frag":
        s = ""
        for h in spec["includes"]:
            s += '<xi:include xmlns:xi="http://www.w3.org/2001/XInclude" href=%s/>\n' % quoteattr(h)
        if spec["types"]:
            s += "<types>\n" + "".join('    <type name=%s primitiveType="uint8"/>\n' % quoteattr(t) for t in spec["types"]) + "</types>\n"
        for m in spec["msgs"]:
            s += '<sbe:message xmlns:sbe="http://fixprotocol.io/2016/sbe" name=%s id=%s/>\n' % (quoteattr(m["name"]), quoteattr(str(m["id"])))
        if not s:
            s = "<types/>\n"       # a fragment that defines nothing (an empty FILE is kind "empty")
        return to_bytes(s)
    raise ValueError("unknown file kind " + kind)


def expand_files(specs):
    """a `chain` description stands for k files name1 -> name2 -> ... -> namek"""
    out = []
    for sp in specs:
        if sp["kind"] == "chain":
            stem = sp["name"]
            for i in range(1, sp["k"] + 1):
                out.append({"name": "%s%d.xml" % (stem, i), "kind": "frag",
                            "includes": ["%s%d.xml" % (stem, i + 1)] if i < sp["k"] else [], "types": [], "msgs": [], "k": 0})
        elif sp["kind"] == "chain2":       # the same chain, every file including a small valid fragment first
            stem = sp["name"]
            out.append({"name": stem + "leaf.xml", "kind": "frag", "includes": [], "types": [], "msgs": [], "k": 0})
            for i in range(1, sp["k"] + 1):
                out.append({"name": "%s%d.xml" % (stem, i), "kind": "frag",
                            "includes": [stem + "leaf.xml"] + (["%s%d.xml" % (stem, i + 1)] if i < sp["k"] else []),
                            "types": [], "msgs": [], "k": 0})
        else:
            out.append(sp)
    return out


def clone_doc(doc):
    """a copy of a parsed document that keeps the element ids"""
    def cl(e):
        c = El(e.tag, [list(a) for a in e.attrs], e.text, e.id)
        for ch in e.children:
            c.add(cl(ch))
        return c
    return Document(doc.decl, [cl(r) for r in doc.roots])


def build_case(base, actions, main_name="main.xml"):
    """Apply the actions of one case (in order) to the base document (XML text
    or a parsed Document, which is left untouched).
    Returns (files: {name: bytes}, argv tokens or None, env label, vacuous: list of reasons)."""
    doc = parse(base) if isinstance(base, str) else clone_doc(base)
    vac = []
    text_edits, files, argv, asuser = [], [], None, ""
    for a in actions:
        for ed in a["edits"]:
            if ed["op"] in TREE_OPS:
                try:
                    apply_tree_edit(doc, ed)
                except Vacuous as ex:
                    vac.append(str(ex))
            else:
                text_edits.append(ed)
        files += a["files"]
        if a["argv"]:
            argv = list(a["argv"]) if a["argv"] != ["@none"] else []
        if a["env"]:
            asuser = a["env"]
    text = serialize_deep(doc)
    st = {"charset": "utf-8"}
    for ed in text_edits:
        try:
            text = apply_text_edit(text, ed, st)
        except Vacuous as ex:
            vac.append(str(ex))
    main_bytes = to_bytes(text, st["charset"])
    out = {main_name: main_bytes}
    for sp in expand_files(files):
        out[sp["name"]] = render_file(sp, main_name, main_bytes)
    return out, argv, asuser, vac


# ---------------------------------------------------------------- TLA+ ---

def tla(v):
    return sch.tla(v)


def doc_tla(rows):
    return "<<" + ",\n  ".join(
        "[tag |-> %s, lt |-> %s, parent |-> %d, attrs |-> <<%s>>, text |-> %s]" % (
            sch.tla_str(r["tag"]), sch.tla_str(r["lt"]), r["parent"],
            ", ".join("[n |-> %s, v |-> %s]" % (sch.tla_str(a["n"]), sch.tla_str(a["v"])) for a in r["attrs"]),
            sch.tla_str(r["text"])) for r in rows) + ">>"


# ----------------------------------------------------------- base schemas ---

def compact_schema():
    """A small schema that has one of everything the garbling actions address:
    the three level-header composites (plus a second dimension type), scalar /
    ranged / optional / array / constant (value, string, valueRef) types, enums
    over a primitive, over char and over a named type, a set, a composite with
    ref / inline enum / inline set / inline composite members, messages with
    fields of every kind (incl. a constant valueRef field and custom offsets),
    groups (nested, with another dimension type, empty) and data members."""
    types = [
        catalogue.header(),
        catalogue.dim(),
        catalogue.dim("dim2", bl="uint8", num="uint8", order=("numInGroup", "blockLength")),
        catalogue.vardata(),
        T("u16t", "uint16"),
        T("r8", "int8", min="-100", max="100"),
        T("o32", "uint32", presence="optional", null="4294967295"),
        T("str4", "char", length=4),
        T("k7", "uint8", presence="constant", const="7"),
        T("kc", "char", presence="constant", length=3, const="abc"),
        T("kv", "uint16", presence="constant", valueRef="e16.Q"),
        {"kind": "enum", "name": "e8", "enc": "uint8", "values": [{"name": "A", "value": "1"}, {"name": "B", "value": "2"}]},
        {"kind": "enum", "name": "ec", "enc": "char", "values": [{"name": "X", "value": "x"}]},
        {"kind": "enum", "name": "e16", "enc": "u16t", "values": [{"name": "P", "value": "300"}, {"name": "Q", "value": "65534"}]},
        {"kind": "set", "name": "s8", "enc": "uint8", "choices": [{"name": "a", "index": 0}, {"name": "b", "index": 7}]},
        {"kind": "composite", "name": "point", "elements": [T("x", "int32"), T("y", "int64")]},
        {"kind": "composite", "name": "mixed", "elements": [
            T("a", "uint8"),
            {"kind": "ref", "name": "p", "type": "point"},
            T("b", "uint16", offset=16),
            {"kind": "enum", "name": "ie", "enc": "uint8", "values": [{"name": "U", "value": "1"}]},
            {"kind": "set", "name": "is", "enc": "uint8", "choices": [{"name": "z", "index": 7}]},
            {"kind": "composite", "name": "inner", "elements": [T("q", "uint32")]},
            {"kind": "ref", "name": "rc", "type": "k7"}]},
    ]
    msgs = [
        G("m1", 1, blockLength=64, fields=[
            F("a", 1, "r8"), F("b", 2, "o32", offset=4), F("s", 3, "str4"), F("k1", 4, "k7"),
            F("k2", 5, "e8", presence="constant", valueRef="e8.B"), F("e", 6, "ec"), F("st", 7, "s8"),
            F("pt", 8, "point"), F("mx", 9, "mixed", offset=32)],
          groups=[G("g", 10, fields=[F("u", 1, "uint16"), F("v", 2, "e16")],
                    groups=[G("h", 11, dimensionType="dim2", fields=[F("w", 1, "uint8")], data=[D("hd", 12)])]),
                  G("g2", 13, fields=[])],
          data=[D("d1", 20)]),
        G("m2", 2, fields=[F("only", 1, "uint64"), F("f64", 2, "double")]),
    ]
    return {"package": "c09", "id": 9, "version": 1, "byteOrder": "littleEndian", "types": types, "messages": msgs}


def bases(tier):
    import rulesgen
    out = [("compact", compact_schema())]
    if tier == "thorough":
        out.append(("rules", rulesgen.denormalize(rulesgen.normalize(rulesgen.rules_schema()))))
        out += [(S["package"], S) for S in catalogue.header_schemas() if S["package"] in ("h_refs",)]
    return [(n, copy.deepcopy(S)) for n, S in out]
