"""The schema catalogue (the generative scope's fixed part).  Pure data: which
schemas are in play.  Everything derived from them (offsets, sizes, images,
expected values) is computed by TLC from the spec."""
import copy

U = {"uint8": 1, "uint16": 2, "uint32": 4, "uint64": 8}


def T(name, prim, **kw):
    d = {"kind": "type", "name": name, "prim": prim}
    d.update(kw)
    return d


def header(types=("uint16", "uint16", "uint16", "uint16"), order=("blockLength", "templateId", "schemaId", "version"),
           extra=(), offsets=None, name="messageHeader", counters=()):
    tmap = dict(zip(("blockLength", "templateId", "schemaId", "version"), types))
    els = []
    for n in order:
        if n in tmap:
            els.append(T(n, tmap[n]))
        else:
            els.append(dict(n))  # extra element given in place
    for c in counters:
        els.append(T(c, "uint16"))
    els += [dict(e) for e in extra]
    if offsets:
        for e in els:
            if e["name"] in offsets:
                e["offset"] = offsets[e["name"]]
    return {"kind": "composite", "name": name, "elements": els}


def dim(name="groupSizeEncoding", bl="uint16", num="uint16", order=("blockLength", "numInGroup"), counters=(), extra=(), offsets=None):
    tm = {"blockLength": bl, "numInGroup": num}
    els = [T(n, tm[n]) for n in order]
    for c in counters:
        els.append(T(c, "uint16"))
    els += [dict(e) for e in extra]
    if offsets:
        for e in els:
            if e["name"] in offsets:
                e["offset"] = offsets[e["name"]]
    return {"kind": "composite", "name": name, "elements": els}


def vardata(name="varDataEncoding", length="uint32", elem="uint8"):
    return {"kind": "composite", "name": name, "elements": [T("length", length), T("varData", elem, length=0)]}


def F(name, fid, typ, **kw):
    d = {"name": name, "id": fid, "type": typ}
    d.update(kw)
    return d


def G(name, gid, fields=(), groups=(), data=(), **kw):
    d = {"name": name, "id": gid, "fields": list(fields), "groups": list(groups), "data": list(data)}
    d.update(kw)
    return d


def D(name, did, typ="varDataEncoding"):
    return {"name": name, "id": did, "type": typ}


COMMON_TYPES = [
    T("u32req", "uint32", min="0", max="1000"),
    T("u32opt", "uint32", presence="optional", null="4294967295"),
    T("i16opt", "int16", presence="optional", null="-32768"),
    T("str4", "char", length=4),
    T("bytes3", "uint8", length=3),
    T("cconst", "uint8", presence="constant", const="7"),
    T("sconst", "char", presence="constant", length=3, const="abc"),
    {"kind": "enum", "name": "e8", "enc": "uint8", "values": [{"name": "A", "value": "1"}, {"name": "B", "value": "2"}]},
    {"kind": "enum", "name": "ec", "enc": "char", "values": [{"name": "X", "value": "x"}, {"name": "Y", "value": "y"}]},
    {"kind": "enum", "name": "e16", "enc": "uint16", "values": [{"name": "P", "value": "300"}, {"name": "Q", "value": "65534"}]},
    {"kind": "set", "name": "s8", "enc": "uint8", "choices": [{"name": "a", "index": 0}, {"name": "b", "index": 7}]},
    {"kind": "set", "name": "s32", "enc": "uint32", "choices": [{"name": "lo", "index": 0}, {"name": "hi", "index": 31}]},
    {"kind": "set", "name": "s64", "enc": "uint64", "choices": [{"name": "lo", "index": 1}, {"name": "hi", "index": 63}]},
    {"kind": "composite", "name": "point", "elements": [T("x", "int32"), T("y", "int64")]},
    {"kind": "composite", "name": "mixed", "elements": [
        T("a", "uint8"),
        T("k", "uint16", presence="constant", const="9"),
        {"kind": "ref", "name": "p", "type": "point"},
        T("b", "uint16", offset=16),
        {"kind": "enum", "name": "ie", "enc": "uint8", "values": [{"name": "U", "value": "1"}]},
        {"kind": "set", "name": "is", "enc": "uint16", "choices": [{"name": "z", "index": 15}]},
        {"kind": "composite", "name": "inner", "elements": [T("q", "uint32"), T("r", "char", length=2)]},
        {"kind": "ref", "name": "rc", "type": "cconst"},
        {"kind": "ref", "name": "ro", "type": "u32opt"},
    ]},
    # constants that take their value from an enum (valueRef), inline and through a <ref>,
    # followed by members that occupy space: constants occupy none, however they get their value
    T("vrconst", "uint8", presence="constant", valueRef="e8.B"),
    {"kind": "composite", "name": "vrmix", "elements": [
        T("kv", "uint8", presence="constant", valueRef="e8.A"),
        T("a", "uint16"),
        {"kind": "ref", "name": "rv", "type": "vrconst"},
        T("b", "uint32"),
    ]},
]

PRIM_FIELDS = ["char", "int8", "uint8", "int16", "uint16", "int32", "uint32", "int64", "uint64", "float", "double"]


def base_schema(package, byte_order="littleEndian", hdr=None, dims=None, datas=None):
    types = [hdr or header()] + (dims or [dim()]) + (datas or [vardata(), vardata("varStr8", "uint8", "char")]) + copy.deepcopy(COMMON_TYPES)
    return {"package": package, "id": 77, "version": 3, "byteOrder": byte_order, "types": types, "messages": []}


def view_schema(package, byte_order):
    S = base_schema(package, byte_order,
                    dims=[dim(), dim("dim8x32", bl="uint8", num="uint32", order=("numInGroup", "blockLength")),
                          dim("dimCnt", bl="uint16", num="uint8", counters=("numGroups", "numVarDataFields"))],
                    datas=[vardata(), vardata("varStr8", "uint8", "char"), vardata("var16", "uint16", "int8"),
                           vardata("var64", "uint64", "uint8")])
    m = S["messages"]
    # m1: every primitive as a root field, required
    m.append(G("prims", 1, fields=[F("f_" + p, i + 1, p) for i, p in enumerate(PRIM_FIELDS)]
               + [F("o_" + p, 20 + i, p, presence="optional") for i, p in enumerate(("float", "double", "char", "uint64"))]))
    # m2: named types, optionals, arrays, enums, sets, composites, constants, custom offsets, explicit blockLength
    m.append(G("kinds", 2, blockLength=96, fields=[
        F("a", 1, "u32req"), F("b", 2, "u32opt"), F("c", 3, "i16opt"), F("s", 4, "str4"),
        F("k1", 5, "cconst"), F("by", 6, "bytes3", offset=20), F("e", 7, "e8"), F("ec", 8, "ec"), F("e16", 9, "e16"),
        F("k2", 10, "e8", presence="constant", valueRef="e8.B"),
        F("s8", 11, "s8"), F("s32", 12, "s32"), F("s64", 13, "s64"), F("pt", 14, "point"), F("mx", 15, "mixed", offset=56),
        # the last field of the level is a constant: the last NON-constant one must still end the block
        F("opt_prim", 16, "int64", presence="optional"), F("k3", 17, "sconst")]))
    # m3: flat group + data
    m.append(G("flat", 3, fields=[F("x", 1, "uint16")],
               groups=[G("g", 10, fields=[F("a", 1, "uint32"), F("b", 2, "e8"), F("c", 3, "str4", offset=6), F("kz", 4, "cconst")],
                         blockLength=13)],
               data=[D("d1", 20), D("d2", 21, "varStr8")]))
    # m4: nested groups with data, second sibling group with another dimension type, empty-entry group
    m.append(G("nested", 4, fields=[F("x", 1, "uint8"), F("y", 2, "uint32", offset=4)], blockLength=10,
               groups=[G("outer", 10, fields=[F("p", 1, "point"), F("q", 2, "uint8")], blockLength=16,
                         groups=[G("inner", 11, dimensionType="dim8x32", fields=[F("v", 1, "uint16")])],
                         data=[D("od", 12, "var16")]),
                       G("side", 13, dimensionType="dimCnt", fields=[F("w", 1, "int32")]),
                       G("empty", 14, fields=[])],
               data=[D("tail", 20, "varStr8")]))
    # m5: only variable-length members, no fields at all
    m.append(G("novals", 5, fields=[], groups=[G("g", 1, fields=[F("k", 1, "cconst")], groups=[G("h", 2, fields=[F("z", 1, "uint8")])])],
               data=[D("d", 3)]))
    # m6: a group whose entries hold only a constant field (nothing on the wire
    # but the block), explicit blockLength, followed by data
    m.append(G("constgrp", 6, fields=[F("x", 1, "uint8")],
               groups=[G("cg", 10, fields=[F("k", 1, "cconst")], blockLength=2),
                       G("cg0", 11, fields=[F("k", 1, "cconst")])],
               data=[D("d", 20, "varStr8")]))
    # m7: a flat group with an 8-bit numInGroup whose entries occupy more than
    # 255 bytes (wide explicit blockLength), followed by further members: sizes
    # must not be computed in the width of the numInGroup type
    m.append(G("wide", 7, fields=[F("x", 1, "uint8")],
               groups=[G("w", 10, dimensionType="dimCnt", fields=[F("a", 1, "uint16")], blockLength=130),
                       G("after", 11, fields=[F("b", 1, "uint8")])],
               data=[D("d", 20, "varStr8")]))
    # m8: levels whose LAST non-constant field is of each kind (the last field
    # has its own generated cursor accessors), m9: data without groups (the
    # first-data accessor path)
    m.append(G("lasts", 8, fields=[F("x", 1, "uint8"), F("e", 2, "e8")],
               groups=[G("ge", 10, fields=[F("a", 1, "uint8"), F("z", 2, "e16")]),
                       G("gs", 11, fields=[F("a", 1, "uint8"), F("z", 2, "s32")]),
                       G("gc", 12, fields=[F("a", 1, "uint8"), F("z", 2, "point")], blockLength=15),
                       G("gn", 13, fields=[F("a", 1, "uint8"), F("z", 2, "u32opt"), F("k", 3, "cconst")])]))
    m.append(G("dataonly", 9, fields=[F("x", 1, "uint16")], blockLength=3,
               data=[D("d1", 1, "varStr8"), D("d2", 2), D("d3", 3, "var16")]))
    # m10-m12: messages without any cursor-accessible member: nothing at all,
    # only constant fields, reserved space only (explicit blockLength) - the root
    # block still has its wire length (the repository's test_schema Msg1 is of
    # this kind; found when its own schemas were run through Visit.tla)
    m.append(G("nomembers", 10, fields=[]))
    m.append(G("constonly", 11, fields=[F("k", 1, "cconst"), F("k2", 2, "e8", presence="constant", valueRef="e8.B")]))
    m.append(G("reserved", 12, fields=[], blockLength=6))
    # m14: levels made of <data> only (no fields, no groups: compiled blockLength 0) - the
    # first-data accessors still have to honour a longer wire block
    m.append(G("puredata", 14, fields=[], data=[D("a", 1, "varStr8"), D("b", 2, "var16")],
               ))
    m.append(G("puredatagrp", 15, fields=[F("x", 1, "uint8")],
               groups=[G("g", 10, fields=[], data=[D("p", 1, "varStr8"), D("q", 2)])]))
    # m16: composites holding valueRef constants, as a field followed by more fields and as entry content
    m.append(G("vrconsts", 16, fields=[F("v", 1, "vrmix"), F("after", 2, "uint16"), F("kf", 3, "vrconst")],
               groups=[G("g", 10, fields=[F("w", 1, "vrmix"), F("z", 2, "uint8")])]))
    # m13: <data> with a 64-bit length prefix (prefix size + length can exceed size_t)
    m.append(G("wide64", 13, fields=[F("x", 1, "uint8")], data=[D("d64", 1, "var64"), D("d32", 2)]))
    return S


def header_schemas():
    """C17: header / dimension layout catalogue."""
    out = []
    variants = [
        ("h_plain", header(), dim()),
        ("h_reorder", header(order=("version", "schemaId", "templateId", "blockLength")), dim(order=("numInGroup", "blockLength"))),
        ("h_types8", header(types=("uint8", "uint8", "uint8", "uint8")), dim(bl="uint8", num="uint8")),
        ("h_types32", header(types=("uint32", "uint16", "uint32", "uint8")), dim(bl="uint32", num="uint16")),
        ("h_types64", header(types=("uint64", "uint32", "uint64", "uint64")), dim(bl="uint64", num="uint64")),
        ("h_gaps", header(offsets={"templateId": 4, "version": 12}), dim(offsets={"numInGroup": 5})),
        ("h_counters", header(counters=("numGroups", "numVarDataFields")), dim(counters=("numGroups", "numVarDataFields"))),
        ("h_extra", header(extra=[T("reserved", "uint32"), T("hk", "uint8", presence="constant", const="1")]),
         dim(extra=[T("pad", "uint16")])),
        ("h_refcnt", {"kind": "composite", "name": "messageHeader", "elements": [
            T("blockLength", "uint16"), T("templateId", "uint16"), T("schemaId", "uint16"), T("version", "uint16"),
            {"kind": "ref", "name": "numGroups", "type": "u16t"}, {"kind": "ref", "name": "numVarDataFields", "type": "u8t"}]},
         {"kind": "composite", "name": "groupSizeEncoding", "elements": [
             T("blockLength", "uint16"), T("numInGroup", "uint16"),
             {"kind": "ref", "name": "numGroups", "type": "u8t"}, {"kind": "ref", "name": "numVarDataFields", "type": "u16t"}]}),
        ("h_refs", {"kind": "composite", "name": "messageHeader", "elements": [
            {"kind": "ref", "name": "blockLength", "type": "u16t"}, T("templateId", "uint16"),
            {"kind": "ref", "name": "schemaId", "type": "u16t"}, T("version", "uint16")]},
         {"kind": "composite", "name": "groupSizeEncoding", "elements": [
             {"kind": "ref", "name": "blockLength", "type": "u16t"}, T("numInGroup", "uint16")]}),
    ]
    for name, h, d in variants:
        for bo in ("littleEndian", "bigEndian"):
            S = base_schema(name + ("_be" if bo == "bigEndian" else ""), bo, hdr=h, dims=[d])
            if name in ("h_refs", "h_refcnt"):
                S["types"].insert(0, T("u16t", "uint16"))
                S["types"].insert(0, T("u8t", "uint8"))
            S["messages"].append(G("m0", 1, fields=[F("x", 1, "uint16")]))
            S["messages"].append(G("m1", 2, blockLength=12, fields=[F("x", 1, "uint16"), F("y", 2, "uint32")],
                                   # member counts differ per kind at every level (2 groups / 1 data at the root,
                                   # 1 group / 2 data inside g), so swapped counters are visible
                                   groups=[G("g", 10, fields=[F("a", 1, "uint32")], groups=[G("h", 11, fields=[F("b", 1, "uint8")], blockLength=3)],
                                             data=[D("gd", 12), D("gd2", 14, "varStr8")]),
                                           G("g2", 13, fields=[])],
                                   data=[D("d", 20)]))
            out.append(S)
    return out


def extra_schema(package, byte_order):
    """More shapes (thorough tier): 64-bit dimension/length types, last field a
    composite / array / followed by constants, levels with only data or only
    groups, deeper composites, named encodings, three nesting levels."""
    S = base_schema(package, byte_order,
                    hdr=header(types=("uint32", "uint16", "uint8", "uint64"), order=("templateId", "blockLength", "version", "schemaId")),
                    dims=[dim(), dim("dim64", bl="uint64", num="uint64"), dim("dim32x8", bl="uint32", num="uint8", offsets={"numInGroup": 6}),
                          dim("dim8", bl="uint8", num="uint8")],
                    datas=[vardata(), vardata("var8", "uint8", "uint8"), vardata("var64", "uint64", "char"), vardata("var16i", "uint16", "int8")])
    S["types"] += [
        T("u8t", "uint8"), T("u16t", "uint16"),
        {"kind": "enum", "name": "e_named", "enc": "u16t", "values": [{"name": "N1", "value": "513"}]},
        {"kind": "set", "name": "s_named", "enc": "u8t", "choices": [{"name": "n0", "index": 3}]},
        {"kind": "composite", "name": "konly", "elements": [T("k1", "uint32", presence="constant", const="5"), T("k2", "char", presence="constant", length=2, const="zz")]},
        {"kind": "composite", "name": "deep", "elements": [
            T("a", "int8"),
            {"kind": "composite", "name": "l1", "offset": 4, "elements": [
                {"kind": "ref", "name": "pt", "type": "point"},
                {"kind": "composite", "name": "l2", "elements": [T("z", "double"), {"kind": "ref", "name": "en", "type": "e_named"}]}]},
            {"kind": "ref", "name": "st", "type": "s_named"}]},
    ]
    m = S["messages"]
    m.append(G("lastcomp", 1, fields=[F("a", 1, "uint8"), F("k", 2, "cconst"), F("d", 3, "deep", offset=3)]))
    m.append(G("lastarr", 2, fields=[F("a", 1, "e_named"), F("s", 2, "str4"), F("k", 3, "sconst")], blockLength=9,
               groups=[G("g", 10, dimensionType="dim8", fields=[F("b", 1, "bytes3"), F("k", 2, "cconst")])]))
    m.append(G("onlydata", 3, fields=[], data=[D("d1", 1, "var8"), D("d2", 2, "var64"), D("d3", 3, "var16i")]))
    m.append(G("onlygroups", 4, fields=[],
               groups=[G("a", 1, dimensionType="dim64", fields=[F("x", 1, "uint64")]),
                       G("b", 2, dimensionType="dim32x8", fields=[F("y", 1, "s_named"), F("z", 2, "float", offset=3)], blockLength=8)]))
    m.append(G("deep3", 5, fields=[F("x", 1, "int16")],
               groups=[G("l1", 1, fields=[F("f1", 1, "uint8")],
                         groups=[G("l2", 2, dimensionType="dim8", fields=[F("f2", 1, "u16t")],
                                   groups=[G("l3", 3, fields=[F("f3", 1, "konly"), F("f3b", 2, "uint8")])],
                                   data=[D("d2", 4, "var8")])],
                         data=[D("d1", 5, "var16i")])],
               data=[D("d0", 6)]))
    return S


def enum_schema():
    """enums over the wide encodings (visiting an enum value compares in the width of the
    encoding: values that differ only above bit 31, negative values)"""
    S = base_schema("ev64", "littleEndian")
    S["types"] += [
        {"kind": "enum", "name": "eu64", "enc": "uint64", "values": [{"name": "One", "value": "1"}, {"name": "Big", "value": "1099511627776"},
                                                                     {"name": "Top", "value": "18446744073709551614"}]},
        {"kind": "enum", "name": "ei64", "enc": "int64", "values": [{"name": "Neg", "value": "-1"}, {"name": "Pos", "value": "1"},
                                                                    {"name": "Low", "value": "-9223372036854775807"}]},
        {"kind": "enum", "name": "eu32", "enc": "uint32", "values": [{"name": "A", "value": "1"}, {"name": "B", "value": "4294967294"}]},
        {"kind": "enum", "name": "ei32", "enc": "int32", "values": [{"name": "N", "value": "-2"}, {"name": "P", "value": "65536"}]},
        {"kind": "enum", "name": "ei8", "enc": "int8", "values": [{"name": "M", "value": "-1"}, {"name": "Z", "value": "0"}]},
    ]
    S["messages"].append(G("em", 1, fields=[F("a", 1, "eu64"), F("b", 2, "ei64"), F("c", 3, "eu32"), F("d", 4, "ei32"), F("e", 5, "ei8")]))
    return S


def view_schemas(tier="quick"):
    base = [view_schema("vle", "littleEndian"), view_schema("vbe", "bigEndian")]
    if tier == "thorough":
        base += [extra_schema("xle", "littleEndian"), extra_schema("xbe", "bigEndian")]
    return base
