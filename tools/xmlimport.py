"""SBE XML -> schema JSON (the inverse transliteration of schema.py).

Lets the specification's machines (View / Cursor / Visit / Traits ...) run on
schemas that were NOT written for them: the repository's own test schemas and
any schema a user hands in (`./verif schema <file.xml>`).

Like schema.py this module knows element / attribute spelling only: it never
computes an offset, a size or a default.  Messages, groups, fields keep their
document order *per kind* (the JSON shape has fields, groups, data as three
lists; SBE requires that order, and sbeppc rejects documents that break it).
"""
import os
import xml.etree.ElementTree as ET

XI = "{http://www.w3.org/2001/XInclude}include"


def _local(tag):
    return tag.split("}", 1)[1] if "}" in tag else tag


def _int(v):
    if v is None:
        return None
    try:
        return int(v)
    except ValueError:
        return v


def _common(el, d):
    for a in ("description", "semanticType", "sinceVersion", "deprecated"):
        if el.get(a) is not None:
            d[a] = _int(el.get(a)) if a in ("sinceVersion", "deprecated") else el.get(a)
    return d


def _enc(el):
    k = _local(el.tag)
    if k == "type":
        d = {"kind": "type", "name": el.get("name"), "prim": el.get("primitiveType")}
        for x, j in (("length", "length"), ("offset", "offset")):
            if el.get(x) is not None:
                d[j] = _int(el.get(x))
        for x, j in (("presence", "presence"), ("minValue", "min"), ("maxValue", "max"), ("nullValue", "null"),
                     ("valueRef", "valueRef"), ("characterEncoding", "charEnc")):
            if el.get(x) is not None:
                d[j] = el.get(x)
        txt = (el.text or "")
        if txt.strip() != "" and el.get("presence") == "constant":
            d["const"] = txt.strip()
        return _common(el, d)
    if k == "composite":
        d = {"kind": "composite", "name": el.get("name"), "elements": [_enc(c) for c in el]}
        if el.get("offset") is not None:
            d["offset"] = _int(el.get("offset"))
        return _common(el, d)
    if k == "enum":
        d = {"kind": "enum", "name": el.get("name"), "enc": el.get("encodingType"),
             "values": [_common(c, {"name": c.get("name"), "value": (c.text or "").strip()}) for c in el]}
        if el.get("offset") is not None:
            d["offset"] = _int(el.get("offset"))
        return _common(el, d)
    if k == "set":
        d = {"kind": "set", "name": el.get("name"), "enc": el.get("encodingType"),
             "choices": [_common(c, {"name": c.get("name"), "index": (c.text or "").strip()}) for c in el]}
        if el.get("offset") is not None:
            d["offset"] = _int(el.get("offset"))
        return _common(el, d)
    if k == "ref":
        d = {"kind": "ref", "name": el.get("name"), "type": el.get("type")}
        if el.get("offset") is not None:
            d["offset"] = _int(el.get("offset"))
        return _common(el, d)
    raise ValueError("unknown encoding element <%s>" % k)


def _level(el, is_group):
    d = {"name": el.get("name"), "id": _int(el.get("id")), "fields": [], "groups": [], "data": []}
    if el.get("blockLength") is not None:
        d["blockLength"] = _int(el.get("blockLength"))
    if is_group and el.get("dimensionType") is not None:
        d["dimensionType"] = el.get("dimensionType")
    _common(el, d)
    for c in el:
        k = _local(c.tag)
        if k == "field":
            f = {"name": c.get("name"), "id": _int(c.get("id")), "type": c.get("type")}
            if c.get("offset") is not None:
                f["offset"] = _int(c.get("offset"))
            for a in ("presence", "valueRef"):
                if c.get(a) is not None:
                    f[a] = c.get(a)
            if (c.text or "").strip() != "" and c.get("presence") == "constant":
                f["const"] = c.text.strip()
            d["fields"].append(_common(c, f))
        elif k == "group":
            d["groups"].append(_level(c, True))
        elif k == "data":
            d["data"].append(_common(c, {"name": c.get("name"), "id": _int(c.get("id")), "type": c.get("type")}))
        else:
            raise ValueError("unknown level member <%s>" % k)
    return d


def _children(el, base):
    """children with xi:include replaced by the children of the included document's root
    (the flattening spec/Files.tla describes)"""
    for c in el:
        if c.tag == XI:
            p = os.path.join(base, c.get("href"))
            root = ET.parse(p).getroot()
            if _local(root.tag) in ("types", "message"):
                yield root, os.path.dirname(p)
            else:
                yield from _children(root, os.path.dirname(p))
        else:
            yield c, base


def load(path, package=None):
    root = ET.parse(path).getroot()
    S = {"package": package or root.get("package"), "id": _int(root.get("id")), "version": _int(root.get("version") or "0"),
         "types": [], "messages": []}
    for a, j in (("semanticVersion", "semanticVersion"), ("description", "description"), ("byteOrder", "byteOrder"),
                 ("headerType", "headerType")):
        if root.get(a) is not None:
            S[j] = root.get(a)
    for c, base in _children(root, os.path.dirname(os.path.abspath(path))):
        k = _local(c.tag)
        if k == "types":
            for t, _ in _children(c, base):
                S["types"].append(_enc(t))
        elif k == "message":
            S["messages"].append(_level(c, False))
    return S


def restrict(S, names):
    """the same schema with only the named messages (scope selection)"""
    T = dict(S)
    T["messages"] = [m for m in S["messages"] if m["name"] in names]
    return T
