"""Schema JSON -> (a) normalised TLA+ record for spec/Sbe.tla,
                 (b) C++ dispatch tables calling the real generated accessors
                     *by name*.

This module knows names and kinds only.  It never computes an offset, a size
or a value: those exist only in the TLA+ spec and in sbeppc.
"""
import schema as sch

PRIMS = {"char", "int8", "uint8", "int16", "uint16", "int32", "uint32", "int64", "uint64", "float", "double"}


# ------------------------------------------------------------------ TLA+ ---

def norm_enc(e):
    k = e["kind"]
    off = e.get("offset")
    off = -1 if off is None else off
    if k == "type":
        return {"kind": "type", "name": e["name"], "prim": e["prim"], "length": e.get("length", 1) if e.get("length") is not None else 1,
                "presence": e.get("presence") or "required", "offset": off}
    if k == "composite":
        return {"kind": "composite", "name": e["name"], "offset": off, "elements": [norm_enc(x) for x in e["elements"]]}
    if k in ("enum", "set"):
        return {"kind": k, "name": e["name"], "enc": e["enc"], "offset": off}
    if k == "ref":
        return {"kind": "ref", "name": e["name"], "type": e["type"], "offset": off}
    raise ValueError(k)


def norm_level(lv, is_group):
    d = {"name": lv["name"], "id": lv["id"]}
    if is_group:
        d["dim"] = lv.get("dimensionType") or "groupSizeEncoding"
    bl = lv.get("blockLength")
    d["blockLength"] = -1 if bl is None else bl
    d["fields"] = [{"name": f["name"], "id": f["id"], "type": f["type"],
                    "offset": -1 if f.get("offset") is None else f["offset"],
                    "presence": f.get("presence") or "required"} for f in lv.get("fields", [])]
    d["groups"] = [norm_level(g, True) for g in lv.get("groups", [])]
    d["data"] = [{"name": x["name"], "id": x["id"], "type": x["type"]} for x in lv.get("data", [])]
    return d


def normalize(S):
    return {"package": S["package"], "id": S["id"], "version": S["version"],
            "byteOrder": S.get("byteOrder") or "littleEndian",
            "headerType": S.get("headerType") or "messageHeader",
            "types": [norm_enc(t) for t in S["types"]],
            "messages": [norm_level(m, False) for m in S["messages"]]}


def schema_tla(S):
    return sch.tla(normalize(S))


# ------------------------------------------------------------------- C++ ---

def lvname(mname, path):
    """name of the navigation function of a level: injective in (message, path)
    (a plain join made msg/g_1/g_2 and msg/g_1_g_2 collide - the repository's
    traits_test_schema has both)"""
    return "lv_%d%s_%s" % (len(mname), mname, "_".join("%d%s" % (len(x), x) for x in path) if path else "root")


class Gen:
    def __init__(self, S, byte="char"):
        self.S = S
        self.ns = S["package"]
        self.types = {t["name"]: t for t in S["types"]}
        self.out = []
        self.byte = byte
        self.set_choices = {}     # (level, leaf path) -> [(choice name, index)] as the schema declares them
        self.cur_lv = None

    def is_const_enc(self, e):
        if e["kind"] == "type":
            return e.get("presence") == "constant"
        if e["kind"] == "ref":
            return self.is_const_enc(self.types[e["type"]])
        return False

    def field_enc(self, f):
        if f["type"] in PRIMS:
            return {"kind": "type", "name": f["type"], "prim": f["type"], "presence": f.get("presence") or "required", "length": 1}
        return self.types[f["type"]]

    def is_const_field(self, f):
        if f["type"] in PRIMS:
            return f.get("presence") == "constant"
        t = self.types[f["type"]]
        if t["kind"] == "type":
            return t.get("presence") == "constant"
        if t["kind"] == "enum":
            return f.get("presence") == "constant"
        return False

    def leaves(self, e, chain, path):
        """yield (path names, accessor chain up to the parent view, leaf accessor name, kind)"""
        k = e["kind"]
        if k == "ref":
            yield from self.leaves(self.types[e["type"]], chain, path)
        elif k == "type":
            if e.get("presence") == "constant":
                return
            ln = e.get("length", 1)
            ln = 1 if ln is None else ln
            yield (path, chain[:-1], chain[-1], "array" if ln != 1 else "scalar")
        elif k in ("enum", "set"):
            if k == "set":
                self.set_choices[id(self.cur_lv), tuple(path)] = [(c["name"], int(c["index"])) for c in e["choices"]]
            yield (path, chain[:-1], chain[-1], k)
        elif k == "composite":
            for m in e["elements"]:
                if self.is_const_enc(m):
                    continue
                yield from self.leaves(m, chain + [m["name"]], path + [m["name"]])

    def level_leaves(self, lv):
        self.cur_lv = lv
        for f in lv.get("fields", []):
            if self.is_const_field(f):
                continue
            yield from self.leaves(self.field_enc(f), [f["name"]], [f["name"]])

    def emit_level(self, mname, lv, path, nav, depth, M, tagpath=None):
        """nav: C++ expression (using m and ip) evaluating to this level's view"""
        L = self.out
        key = "%s:%s" % (mname, "/".join(path))
        fn = lvname(mname, path)
        L.append("static auto %s(%s m, const int* ip) -> decltype(%s) { (void)ip; return %s; }" % (fn, M, nav, nav))
        L.append('VH_REG_LEVEL("%s", %s, %s);' % (key, M, fn))
        cl = lambda xs: "{" + ", ".join('"%s"' % x for x in xs) + "}"
        L.append('VH_REG_STRUCT("%s", {%s, %s, %s});' % (
            key, cl("/".join(lp) for (lp, _, _, _) in self.level_leaves(lv)),
            cl(g["name"] for g in lv.get("groups", [])), cl(d["name"] for d in lv.get("data", []))))
        for (lp, chain, acc, kind) in self.level_leaves(lv):
            parent = "".join(".%s()" % c for c in chain)
            L.append('VH_REG_LEAF("%s:%s", %s, %s, %s, %s, VH_KIND_%s);' % (
                key, "/".join(lp), M, fn, "VH_P(%s)" % parent if parent else "VH_P()", acc, kind))
            if kind == "set":
                # every declared choice read through its named getter (the index is the schema's)
                L.append('VH_REG_SETBITS("%s:%s", %s, %s, %s, %s, %s);' % (
                    key, "/".join(lp), M, fn, "VH_P(%s)" % parent if parent else "VH_P()", acc,
                    " ".join("VH_CH(%s, %d)" % c for c in self.set_choices[id(lv), tuple(lp)])))
        for f in lv.get("fields", []):
            L.append('VH_REG_FIELD("%s:%s", %s, %s, %s, %s);' % (key, f["name"], M, fn, f["name"],
                                                             "true" if self.is_const_field(f) else "false"))
        for f in lv.get("fields", []):
            if self.is_const_field(f):
                continue
            e = self.field_enc(f)
            while e["kind"] == "ref":
                e = self.types[e["type"]]
            ln = e.get("length", 1) if e["kind"] == "type" else 1
            ln = 1 if ln is None else ln
            scalar = (e["kind"] == "type" and ln == 1) or e["kind"] in ("enum", "set")
            L.append('VH_REG_CMEMBER_%s("%s:%s", %s, %s, %s);' % ("scalar" if scalar else "view", key, f["name"], M, fn, f["name"]))
            L.append('VH_REG_TAGGED_%s("%s:%s", %s, %s, %s, %s::%s);' % ("scalar" if scalar else "view", key, f["name"], M, fn, f["name"], tagpath, f["name"]))
        for g in lv.get("groups", []):
            L.append('VH_REG_CMEMBER_view("%s:%s", %s, %s, %s);' % (key, g["name"], M, fn, g["name"]))
            L.append('VH_REG_TAGGED_view("%s:%s", %s, %s, %s, %s::%s);' % (key, g["name"], M, fn, g["name"], tagpath, g["name"]))
        for d in lv.get("data", []):
            L.append('VH_REG_CMEMBER_view("%s:%s", %s, %s, %s);' % (key, d["name"], M, fn, d["name"]))
            L.append('VH_REG_TAGGED_view("%s:%s", %s, %s, %s, %s::%s);' % (key, d["name"], M, fn, d["name"], tagpath, d["name"]))
        for g in lv.get("groups", []):
            L.append('VH_REG_GROUP("%s:%s", %s, %s, %s);' % (key, g["name"], M, fn, g["name"]))
        for d in lv.get("data", []):
            L.append('VH_REG_DATA("%s:%s", %s, %s, %s);' % (key, d["name"], M, fn, d["name"]))
        for g in lv.get("groups", []):
            gnav = "vh::nth(%s.%s(), ip[%d])" % (nav, g["name"], depth)
            self.emit_level(mname, g, path + [g["name"]], gnav, depth + 1, M, "%s::%s" % (tagpath, g["name"]))

    def emit_tagkeys(self, lv, path, tagpath):
        """one specialisation per level-member tag: tag type -> key relative to the message"""
        L = self.out
        for f in lv.get("fields", []):
            if not self.is_const_field(f):
                L.append('VH_TAGKEY(%s::%s, "%s")' % (tagpath, f["name"], "/".join(path + [f["name"]])))
        for d in lv.get("data", []):
            L.append('VH_TAGKEY(%s::%s, "%s")' % (tagpath, d["name"], "/".join(path + [d["name"]])))
        for g in lv.get("groups", []):
            L.append('VH_TAGKEY(%s::%s, "%s")' % (tagpath, g["name"], "/".join(path + [g["name"]])))
            self.emit_tagkeys(g, path + [g["name"]], "%s::%s" % (tagpath, g["name"]))

    def generate(self):
        L = self.out
        L.append("// generated by tools/viewgen.py - names and kinds only")
        L.append("#include <%s/%s.hpp>" % (self.ns, self.ns))
        for m in self.S["messages"]:
            self.emit_tagkeys(m, [], "::%s::schema::messages::%s" % (self.ns, m["name"]))
        L.append("namespace {")
        for i, t in enumerate(self.S["types"]):
            if t["kind"] == "enum":
                E = "::%s::types::%s" % (self.ns, t["name"])
                L.append("VH_ENUM_BEGIN(%d, %s)" % (i, E))
                for val in t["values"]:
                    L.append('VH_ENUM_VALUE(%s, ::%s::schema::types::%s::%s, "%s")' % (E, self.ns, t["name"], val["name"], val["name"]))
                L.append('VH_ENUM_END(%d, "%s", %s)' % (i, t["name"], E))
        for m in self.S["messages"]:
            M = "::%s::messages::%s<VH_BYTE>" % (self.ns, m["name"])
            L.append("// ---- message %s" % m["name"])
            L.append('VH_REG_MESSAGE("%s", %s);' % (m["name"], M))
            L.append('VH_REG_VISIT("%s", %s);' % (m["name"], M))
            self.emit_level(m["name"], m, [], "m", 0, M, "::%s::schema::messages::%s" % (self.ns, m["name"]))
        L.append("} // namespace")
        return "\n".join(L) + "\n"


def dispatch_cpp(S):
    return Gen(S).generate()


def enums_tla(S):
    """public enums of the schema as the Enums constant of spec/EnumVisit.tla;
    values become their underlying code (characters by character code)"""
    types = {t["name"]: t for t in S["types"]}
    out = []
    for t in S["types"]:
        if t["kind"] != "enum":
            continue
        prim = t["enc"] if t["enc"] in PRIMS else types[t["enc"]]["prim"]
        w = {"char": 1, "int8": 1, "uint8": 1, "int16": 2, "uint16": 2, "int32": 4, "uint32": 4}.get(prim, 8)
        # representation only: the value's w little-endian bytes (two's complement)
        vals = [{"name": v["name"], "code": list((ord(v["value"]) if prim == "char" else int(v["value"])).to_bytes(w, "little", signed=prim.startswith("int")))}
                for v in t["values"]]
        out.append({"name": t["name"], "w": w, "values": vals})
    return sch.tla(out)


# ------------------------------------------------- constant evaluation (C02) --

CX_PRELUDE = r"""
// generated by tools/viewgen.py: TLC's decode vectors as static_asserts
// (replay at compile time; C++20: accessors are constexpr)
#include <bit>
#include <cstdint>
#include <type_traits>
namespace vh_cx
{
template<typename G, typename I>
constexpr auto nth(G g, I i)
{
    auto it = g.begin();
    for(I k = 0; k < i; ++k)
        ++it;
    return *it;
}
template<typename T>
constexpr std::uint64_t bits_of(T v)
{
    if constexpr(std::is_same_v<T, float>)
        return std::bit_cast<std::uint32_t>(v);
    else if constexpr(std::is_same_v<T, double>)
        return std::bit_cast<std::uint64_t>(v);
    else
        return static_cast<std::uint64_t>(static_cast<std::make_unsigned_t<T>>(v));
}
template<typename T>
constexpr std::uint64_t bits(T v)
{
    if constexpr(std::is_enum_v<T>)
        return bits_of(static_cast<std::underlying_type_t<T>>(v));
    else if constexpr(sbepp::is_set_v<T>)
        return bits_of(*v);
    else
        return bits_of(v.value());
}
} // namespace vh_cx
"""


class CxGen(Gen):
    """decode vectors -> static_asserts over constexpr buffers (names only;
    every expected value is taken from the vector, i.e. from TLC)"""

    def __init__(self, S):
        Gen.__init__(self, S)
        self.leafexpr = {}   # (msg, level path, leaf path) -> (accessor chain, kind)
        for m in S["messages"]:
            self._index(m["name"], m, [])

    def _index(self, mname, lv, path):
        for (lp, chain, acc, kind) in self.level_leaves(lv):
            self.leafexpr[(mname, "/".join(path), "/".join(lp))] = (chain + [acc], kind)
        for g in lv.get("groups", []):
            self._index(mname, g, path + [g["name"]])

    def nav(self, level, ip):
        e = "m"
        for name, i in zip(level, ip):
            e = "vh_cx::nth(%s.%s(), %d)" % (e, name, i - 1)
        return e

    def source(self, vectors, limit=60000):
        L = ["#include <%s/%s.hpp>" % (self.ns, self.ns), CX_PRELUDE]
        n = 0
        for vi, v in enumerate(vectors):
            if v.get("kind") != "decode" or n >= limit:
                continue
            size, v0 = v["size"], v["v0"]
            img = v["buf"][v0:v0 + size]
            L.append("constexpr char cxbuf_%d[] = {%s};" % (vi, ",".join("(char)%d" % b for b in img) or "0"))
            M = "::%s::messages::%s<const char>" % (self.ns, v["msg"])
            for inst in v["insts"]:
                lvl = "/".join(inst["level"])
                for leaf in inst["leaves"]:
                    key = (v["msg"], lvl, "/".join(leaf["path"]))
                    chain, kind = self.leafexpr[key]
                    expr = self.nav(inst["level"], inst["ip"]) + "".join(".%s()" % c for c in chain)
                    tag = "cx %s:%s:%s ip=%s vec=%d" % (v["msg"], lvl, "/".join(leaf["path"]), inst["ip"], vi)
                    if kind == "array":
                        conds = " && ".join("static_cast<unsigned char>(a[%d]) == %d" % (i, b) for i, b in enumerate(leaf["val"])) or "true"
                        L.append("static_assert([]{ constexpr %s m{cxbuf_%d, %d}; auto a = (%s).raw(); return %s; }(), \"%s\");" % (M, vi, size, expr, conds, tag))
                    else:
                        lit = "0x" + "".join("%02x" % b for b in reversed(leaf["val"])) + "ull"
                        L.append("static_assert([]{ constexpr %s m{cxbuf_%d, %d}; return vh_cx::bits(%s) == %s; }(), \"%s\");" % (M, vi, size, expr, lit, tag))
                    n += 1
            L.append("static_assert([]{ constexpr %s m{cxbuf_%d, %d}; return sbepp::size_bytes(m) == %d; }(), \"cx %s:size vec=%d\");" % (M, vi, size, size, v["msg"], vi))
            n += 1
        L.append("int main(){}")
        return "\n".join(L) + "\n", n
