#!/usr/bin/env python3
"""Prints the brief for an independent 'seeding' sub-agent: only the property
text and a scratch worktree, nothing about /verif's machinery."""
import json
import sys

pid = sys.argv[1]
n = sys.argv[2] if len(sys.argv) > 2 else "2"
rnd = sys.argv[3] if len(sys.argv) > 3 else ""
import glob, os
avoid = []
if rnd:
    for f in sorted(glob.glob("/verif/seeded/%s_*/meta.json" % pid)):
        avoid.append("- " + (json.load(open(f)).get("summary") or "")[:300])
p = [json.loads(l) for l in open("/verif/properties.jsonl") if json.loads(l)["id"] == pid][0]
wt = "/tmp/seed-%s%s" % (pid, rnd)
print("""You are helping to evaluate a verification effort for the C++ project OleksandrKvl/sbepp (a header-only implementation of FIX Simple Binary Encoding: the runtime library sbepp/src/sbepp/sbepp.hpp and the XML schema compiler `sbeppc` under sbeppc/src/sbepp/sbeppc/, which generates view classes). You have your own scratch git worktree of the repository at %(wt)s (work ONLY there; never touch /repo; do NOT read anything under /verif — your work must be independent of it).

Here is a semantic property the project should satisfy:

  id: %(id)s — %(title)s
  statement: %(statement)s
  quantified over: %(qtext)s
  code anchors: %(files)s

%(avoid)sYour task: produce %(n)s DIFFERENT, realistic changes (the kind of slip a maintainer could plausibly make in a refactoring or "optimisation"; each a small diff, ideally touching different mechanisms) to the sources under %(wt)s (library header and/or sbeppc) such that each change
  (a) still compiles, and the repository's existing test suite still passes with it, and
  (b) BREAKS the property above, and
  (c) needs something specific to manifest — a particular schema shape, an unusual input or value, a particular multi-step sequence of operations, a particular configuration (language standard / type width / byte order), or two cooperating sites that each look fine alone — NOT something ordinary use would expose at once (if the existing tests fail with it, it is too blunt: refine it).
For each change also write a small demonstration (a stand-alone C++ program plus, if needed, an XML schema compiled with the worktree's sbeppc; or a shell script for sbeppc behaviour) that FAILS (non-zero exit or visibly wrong output checked by the script) with the change applied and PASSES on the unchanged worktree.

How to build and test in the worktree (offline machine, 16 cores shared with others: use at most -j6):
  cmake -G Ninja -S %(wt)s -B %(wt)s/_build -DCMAKE_BUILD_TYPE=RelWithDebInfo -DSBEPP_BUILD_TESTS=ON -DSBEPP_BUILD_SBEPPC=ON -DSBEPP_DEV_MODE=ON -DSBEPP_SEPARATE_TESTS=ON -Dfmt_DIR=/root/miniconda/lib/cmake/fmt -DGTest_DIR=/root/miniconda/lib/cmake/GTest -Dpugixml_DIR=/usr/lib/x86_64-linux-gnu/cmake/pugixml
  cmake --build %(wt)s/_build -j6        (a full build takes a long time — tens of minutes; build once with your change applied, fix, rebuild incrementally; wrap long commands in `timeout`)
  ctest --test-dir %(wt)s/_build -j6 --timeout 900      (all tests must pass)
sbeppc after the build: %(wt)s/_build/sbeppc/sbeppc --output-dir <dir> <schema.xml>; generated headers need -I<dir> -I%(wt)s/sbepp/src; compilers: g++ (12), clang++ (14); standards c++11..c++2b. To save time you may first prototype each change and its demonstration with hand compilation (g++ directly against the header / a hand-built sbeppc: g++ -std=c++17 -O1 -DFMT_SHARED -I%(wt)s/sbeppc/src -I%(wt)s/sbepp/src -isystem /root/miniconda/include %(wt)s/sbeppc/src/sbepp/sbeppc/main.cpp <a build_info.cpp defining sbepp::sbeppc::build_info::get_version()> -Wl,-rpath,/root/miniconda/lib /root/miniconda/lib/libfmt.so /usr/lib/x86_64-linux-gnu/libpugixml.so), and only then run the full suite ONCE per change (or once with both changes applied together if they are independent, then confirm).

Deliverables, all under %(wt)s/_seed/ (create it):
  change1.diff, change2.diff ...   unified diffs against the worktree's HEAD (`git -C %(wt)s diff > ...`; make sure `git apply` works on a clean checkout; the diff must NOT include your _seed directory or build outputs)
  demo1/, demo2/ ...               the demonstration (sources, schema, a run.sh that takes the repository root as $1, builds what it needs in a temp dir, exits 0 = property holds / non-zero = broken)
  meta1.json, meta2.json ...       {"property": "%(id)s", "summary": "...what the change does...", "needs": "...what it needs in order to manifest...", "tests": "...what you ran and the result (number of tests passed)...", "demo": "how to run"}
Leave the worktree's tracked files clean (git checkout -- .) when done; keep _build if you like. In your final message list the changes, how each manifests, and confirm the test-suite result for each.""" % dict(
    wt=wt, id=p["id"], title=p["title"], statement=p["statement"], qtext=p["quantifier"]["text"],
    files=", ".join(p["anchors"]["files"]), n=n,
    avoid=("An earlier round already produced the following changes; yours must use DIFFERENT mechanisms, code sites and triggering conditions (do not repeat or lightly vary these):\n" + "\n".join(avoid) + "\n\n") if avoid else ""))
