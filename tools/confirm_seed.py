#!/usr/bin/env python3
"""Confirm seeded changes written by an independent sub-agent and record them
under /verif/seeded/.  usage: confirm_seed.py <PID> <seed dir> <check> [<check>...]

For every changeN.diff: (1) the demonstration passes on the unchanged tree and
fails with the change; (2) the given checks are run against a scratch worktree
with the change applied (VERIF_REPO) - caught = exit 1; then, with ALL changes
of the batch applied together, the repository's test suite is rebuilt and run
(must pass).  Nothing is ever applied to /repo."""
import glob
import json
import os
import shutil
import subprocess
import sys
import time

pid, sdir, checks = sys.argv[1], sys.argv[2], sys.argv[3:]
WT = "/tmp/seed-confirm-%s" % pid
ROOT = os.path.dirname(os.path.dirname(os.path.abspath(__file__)))
# the checks are run from a snapshot of the COMMITTED /verif (so that edits in
# progress cannot disturb a confirmation); it shares the content-addressed cache
SNAP = "/tmp/verif-snap-%s" % pid


def sh(cmd, **kw):
    return subprocess.run(cmd, shell=isinstance(cmd, str), stdout=subprocess.PIPE, stderr=subprocess.STDOUT, text=True, **kw)


sh("git -C %s worktree remove --force %s" % (ROOT, SNAP))
sh("git -C %s worktree add --detach %s HEAD" % (ROOT, SNAP))
os.makedirs(os.path.join(ROOT, ".cache"), exist_ok=True)
os.symlink(os.path.join(ROOT, ".cache"), os.path.join(SNAP, ".cache"))
head = sh("git -C /repo rev-parse HEAD").stdout.strip()
if not os.path.exists(WT):
    sh("git -C /repo worktree add --detach %s %s" % (WT, head))
else:
    sh("git -C %s checkout -f --detach %s" % (WT, head))
    sh("git -C %s checkout -- ." % WT)
# sdir == "seeded": re-confirm what is already recorded under /verif/seeded/<PID>_*/
if sdir == "seeded":
    stage = "/tmp/seed-restage-%s" % pid
    shutil.rmtree(stage, ignore_errors=True)
    os.makedirs(stage)
    for d in sorted(glob.glob(os.path.join(ROOT, "seeded", pid + "_*"))):
        n = os.path.basename(d).split("_", 1)[1]
        shutil.copy(os.path.join(d, "patch.diff"), os.path.join(stage, "change%s.diff" % n))
        if os.path.isdir(os.path.join(d, "demo")):
            shutil.copytree(os.path.join(d, "demo"), os.path.join(stage, "demo%s" % n))
        m = json.load(open(os.path.join(d, "meta.json")))
        json.dump({"summary": m.get("summary"), "needs": m.get("needs"), "tests": m.get("agent_tests")}, open(os.path.join(stage, "meta%s.json" % n), "w"))
    sdir = stage
diffs = sorted(glob.glob(os.path.join(sdir, "change*.diff")))
report = []
for d in diffs:
    n = os.path.basename(d)[len("change"):-len(".diff")]
    demo = os.path.join(sdir, "demo%s" % n, "run.sh")
    meta = json.load(open(os.path.join(sdir, "meta%s.json" % n))) if os.path.exists(os.path.join(sdir, "meta%s.json" % n)) else {}
    rec = {"id": "%s_%s" % (pid, n), "property": pid, "repo_head_at_confirmation": head[:7], "summary": meta.get("summary"), "needs": meta.get("needs"), "agent_tests": meta.get("tests")}
    # head of /repo may have moved since the agent's worktree was created
    ap = sh("git -C %s apply --check %s" % (WT, d))
    if ap.returncode != 0:
        ap3 = sh("git -C %s apply --3way %s" % (WT, d))
        rec["applies"] = ap3.returncode == 0
        sh("git -C %s checkout -- ." % WT)
        if not rec["applies"]:
            rec["note"] = "patch does not apply to current HEAD: " + ap.stdout[-300:]
            report.append(rec)
            continue
    p0 = sh(["bash", demo, WT], timeout=1200) if os.path.exists(demo) else None
    rec["demo_unchanged_exit"] = p0.returncode if p0 else None
    sh("git -C %s apply %s || git -C %s apply --3way %s" % (WT, d, WT, d))
    p1 = sh(["bash", demo, WT], timeout=1200) if os.path.exists(demo) else None
    rec["demo_changed_exit"] = p1.returncode if p1 else None
    rec["checks"] = {}
    for c in checks:
        t0 = time.time()
        env = dict(os.environ, VERIF_REPO=WT)
        p = subprocess.run(["timeout", "2400", os.path.join(SNAP, "verif"), "check", c, "--tier", "quick"], env=env,
                           stdout=subprocess.PIPE, stderr=subprocess.STDOUT, text=True)
        sigs = [l.strip() for l in p.stdout.splitlines() if l.strip().startswith("signature:")]
        rec["checks"][c] = {"exit": p.returncode, "caught": p.returncode == 1, "signatures": sorted(set(sigs))[:6], "wall_s": round(time.time() - t0)}
        if p.returncode not in (0, 1):
            rec["checks"][c]["tail"] = p.stdout[-800:]
    sh("git -C %s checkout -- ." % WT)
    report.append(rec)
    out = os.path.join(ROOT, "seeded", rec["id"])
    os.makedirs(out, exist_ok=True)
    if os.path.exists(os.path.join(out, "meta.json")):
        old = json.load(open(os.path.join(out, "meta.json")))
        if "existing_suite_with_batch_applied" in old:
            rec["existing_suite_with_batch_applied"] = old["existing_suite_with_batch_applied"]
        # keep the history of earlier confirmations (before the checks were strengthened)
        rec["earlier_runs"] = old.get("earlier_runs", []) + [{"checks": {c: v.get("caught") for c, v in old.get("checks", {}).items()}}]
    shutil.copy(d, os.path.join(out, "patch.diff"))
    if os.path.isdir(os.path.join(sdir, "demo%s" % n)):
        shutil.copytree(os.path.join(sdir, "demo%s" % n), os.path.join(out, "demo"), dirs_exist_ok=True)
    json.dump(rec, open(os.path.join(out, "meta.json"), "w"), indent=1)
    print(json.dumps(rec)[:1500], flush=True)
# the existing suite with all changes of the batch applied
ok_all = True
for d in diffs:
    r = sh("git -C %s apply %s || git -C %s apply --3way %s" % (WT, d, WT, d))
    ok_all = ok_all and r.returncode == 0
if os.environ.get("SEED_SKIP_SUITE") != "1":
    if not os.path.exists(os.path.join(WT, "_build")):
        sh("cmake -G Ninja -S %s -B %s/_build -DCMAKE_BUILD_TYPE=RelWithDebInfo -DSBEPP_BUILD_TESTS=ON -DSBEPP_BUILD_SBEPPC=ON -DSBEPP_DEV_MODE=ON -DSBEPP_SEPARATE_TESTS=ON -Dfmt_DIR=/root/miniconda/lib/cmake/fmt -DGTest_DIR=/root/miniconda/lib/cmake/GTest -Dpugixml_DIR=/usr/lib/x86_64-linux-gnu/cmake/pugixml" % (WT, WT))
    b = sh("cmake --build %s/_build -j6" % WT, timeout=7200)
    t = sh("ctest --test-dir %s/_build -j6 --timeout 900" % WT, timeout=7200)
    tail = [l for l in t.stdout.splitlines() if "tests passed" in l or "tests failed" in l]
    suite = {"build_exit": b.returncode, "ctest_exit": t.returncode, "summary": tail[-1] if tail else t.stdout[-300:]}
    print("SUITE (all changes of the batch applied):", json.dumps(suite), flush=True)
    for rec in report:
        out = os.path.join(ROOT, "seeded", rec["id"], "meta.json")
        if os.path.exists(out):
            m = json.load(open(out))
            m["existing_suite_with_batch_applied"] = suite
            json.dump(m, open(out, "w"), indent=1)
sh("git -C %s checkout -- ." % WT)
sh("git -C %s worktree remove --force %s" % (ROOT, SNAP))
if os.environ.get("SEED_KEEP_WT") != "1":
    sh("git -C /repo worktree remove --force %s" % WT)
