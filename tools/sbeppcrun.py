"""Run the real sbeppc under the LD_PRELOAD shim (harness/ioshim.c) and turn the
run into the event list that spec/SbeppcTrace.tla validates (C20, C09).

Nothing here decides whether a run is right: exit status, diagnostics and the
state of every output file are *observed* and written down; TLC judges them.

Typical use
-----------
    import sbeppcrun as sr
    inp   = sr.Input("tiny", {"tiny.xml": xml_text}, "tiny.xml")
    ref   = sr.reference(sbeppc_binary, inp, workdir)       # fault-free run: plan + file hashes
    run   = sr.run_sbeppc(sbeppc_binary, inp, workdir, "r1", ref=ref,
                          fault=("out", 7, "ENOSPC"), init="fresh")
    rej, stats = sr.validate_runs(v, [ref.run, run], {inp.name: ref}, workdir)   # [] = all accepted

Event formats: see the header of spec/SbeppcTrace.tla.
"""
import hashlib
import json
import os
import re
import shutil
import signal as _signal
import subprocess

import vlib

SHIM_SRC = os.path.join(vlib.HARNESS, "ioshim.c")
KINDS = ("ENOSPC", "EACCES", "EIO", "SHORT")
ERRNOS = ("ENOSPC", "EACCES", "EIO")
NOFAULT = {"cls": "none", "k": 0, "kind": ""}

TRACE_CONSTS = ("CONSTANT Plans = {}\nCONSTANT InFiles = 0\nCONSTANT InitKinds = {}\n"
                "CONSTANT CheckStream = TRUE\nCONSTANT FaultsOf <- NoFaultsOf\n")
TRACE_BODY = "NoFaultsOf(p) == {}\n"


# ------------------------------------------------------------------ shim ---

def build_shim():
    """Compile harness/ioshim.c into a shared object (content-addressed cache
    under /verif/.cache/shim). Returns the path of the .so."""
    src = vlib.read(SHIM_SRC)
    cmd = ["gcc", "-O1", "-shared", "-fPIC"]
    out = os.path.join(vlib.ensure_dir(os.path.join(vlib.CACHE, "shim")), "ioshim-%s.so" % vlib.sha(" ".join(cmd), src))
    if os.path.exists(out):
        return out
    tmp = out + ".tmp%d" % os.getpid()
    p = subprocess.run(cmd + [SHIM_SRC, "-o", tmp, "-ldl"], stdout=subprocess.PIPE, stderr=subprocess.STDOUT, text=True)
    if p.returncode != 0:
        raise vlib.InfraError("ioshim.c does not compile:\n" + p.stdout[-3000:])
    os.replace(tmp, out)
    return out


# ----------------------------------------------------------------- input ---

class Input:
    """One compiler input: `files` (relative name -> text) are put into the
    run's input directory, `main` is the schema given on the command line.
    xi:include hrefs are resolved by sbeppc against the current directory, so
    runs use the input directory as cwd unless `cwd_free` says the input has no
    relative references."""

    def __init__(self, name, files, main, cwd_free=None, extra_args=()):
        self.name, self.files, self.main = name, dict(files), main
        self.cwd_free = (len(files) == 1) if cwd_free is None else cwd_free
        self.extra_args = list(extra_args)


class Reference:
    """What the fault-free run of an input did: the plan (sequence of output
    calls), the number of input files opened, and size/sha256 of every file."""

    def __init__(self, inp, run, ops, nin, files, content):
        self.inp, self.run, self.ops, self.nin, self.files, self.content = inp, run, ops, nin, files, content

    def plan_event(self):
        return {"ev": "Plan", "schema": self.inp.name, "ops": self.ops, "nin": self.nin}

    def positions(self, calls=("mkdir", "open", "write", "close", "rename", "unlink")):
        """1-based fault positions k whose reference call is one of `calls`."""
        return [i + 1 for i, op in enumerate(self.ops) if op["call"] in calls]


class Run:
    def __init__(self):
        self.id = ""
        self.schema = ""
        self.events = []       # Reset ... disk
        self.status = -1
        self.signal = 0
        self.stdout = self.stderr = ""
        self.fault = dict(NOFAULT)
        self.init = "fresh"
        self.argv = []
        self.cwd = ""
        self.tree = {}         # rel path -> (size, sha256) as left on disk
        self.env = {}

    def sys_events(self, cls="out"):
        return [e for e in self.events if e.get("ev") == "sys" and e.get("cls") == cls]

    def injected(self):
        """The call the fault really hit (observed), or None."""
        for e in self.events:
            if e.get("ev") == "sys" and e.get("inj"):
                return e
        return None

    def event(self, name):
        for e in self.events:
            if e.get("ev") == name:
                return e
        return None

    def command_line(self):
        """A shell line that repeats this run by hand."""
        env = " ".join("%s=%s" % (k, self.env[k]) for k in sorted(self.env))
        return "cd %s && %s %s" % (self.cwd, env, " ".join(self.argv))


# ------------------------------------------------------------ observation ---

_ANSI = re.compile(r"\x1b\[[0-9;]*m")
_LOC = re.compile(r"[^\s:]+:\d+(:\d+)?|`[^`]+`")


def diag_event(stdout, stderr):
    """{"ev":"diag","present","located"}: a line in sbeppc's reporter format
    ("Error: ..." - reporter.hpp prints it bold on stdout) or any line starting
    with error/Error on either stream. `located` = it names a file, a
    file:line or a back-quoted entity."""
    present = located = False
    for line in (stdout + "\n" + stderr).splitlines():
        t = _ANSI.sub("", line).strip()
        if re.match(r"(?i)error\b", t):
            present = True
            if _LOC.search(t[5:]):
                located = True
    return {"ev": "diag", "present": present, "located": located}


def tree_state(root):
    """rel path -> (size, sha256) of every regular file under root."""
    out = {}
    for dp, _, fs in os.walk(root):
        for f in fs:
            p = os.path.join(dp, f)
            with open(p, "rb") as fh:
                b = fh.read()
            out[os.path.relpath(p, root)] = (len(b), hashlib.sha256(b).hexdigest())
    return out


def stale_content(b):
    """What the 'stale' initial disk holds under a planned name: different from
    and LONGER than what sbeppc writes."""
    return b"// stale leftover\n" + b + b"\n// stale tail\n" * 40


def disk_event(tree, ref_files, stale_files=None):
    """{"ev":"disk","files":[{"path","state"}]}: every planned file and every
    other file found, classified by comparing size+sha256 with the reference
    run (and with the stale pre-population)."""
    stale_files = stale_files or {}
    files = []
    for path in sorted(set(ref_files) | set(tree)):
        if path not in ref_files:
            st = "extra"
        elif path not in tree:
            st = "absent"
        elif tree[path] == ref_files[path]:
            st = "complete"
        elif tree[path] == stale_files.get(path):
            st = "stale"
        else:
            st = "partial"
        files.append({"path": path, "state": st})
    return {"ev": "disk", "files": files}


def plan_from_events(events):
    """Transliterate the output-class calls of a fault-free run into plan ops
    [{"call","path","dir","len","src"}] and count the input files opened."""
    ops = []
    for e in events:
        if e.get("ev") != "sys" or e.get("cls") != "out":
            continue
        path = e["path"]
        d = ""
        if e["call"] in ("mkdir", "open"):
            d = "" if path == "." else (os.path.dirname(path) or ".")
        ops.append({"call": e["call"], "path": path, "dir": d, "len": e["len"] if e["call"] == "write" else 0,
                    "src": e.get("src", "") if e["call"] == "rename" else ""})
    nin = sum(1 for e in events if e.get("ev") == "sys" and e.get("cls") == "in" and e["call"] == "open" and e["res"] >= 0)
    return ops, nin


# ------------------------------------------------------------------- run ---

ARGV_STYLES = ("rel", "abs", "dotted", "parent")


def run_sbeppc(sbeppc, inp, workdir, run_id, ref=None, fault=None, init="fresh", style="rel",
               expect="accept", timeout=60, keep=False, extra_env=None):
    """Run `sbeppc` on `inp` in workdir/<run_id>/ under the shim.

    fault  None | (cls, k, kind): cls "out" (k-th mkdir/open/write/close below
           the output directory) or "in" (k-th open/read/close of an input file)
    init   "fresh" (output directory absent) | "populated" (the reference tree
           is already there) | "stale" (every planned file exists with other,
           longer content); the latter two need `ref`
    style  spelling of the command line / cwd: "rel" (cwd = input dir,
           `--output-dir ../out main.xml`), "abs" (absolute paths), "dotted"
           (`--output-dir ./../out/ -- ./main.xml`), "parent" (cwd = run dir,
           `--output-dir out in/main.xml`; only for inputs without includes)
    Returns a Run whose .events is the complete episode (Reset ... disk)."""
    shim = build_shim()
    rd = vlib.fresh_dir(os.path.join(workdir, run_id))
    ind, outd, logp = os.path.join(rd, "in"), os.path.join(rd, "out"), os.path.join(rd, "log.nd")
    for fn, txt in inp.files.items():
        vlib.write(os.path.join(ind, fn), txt)
    stale_files = {}
    if init in ("populated", "stale"):
        if ref is None:
            raise vlib.InfraError("init=%s needs the reference run" % init)
        for path, b in ref.content.items():
            if init == "stale":
                b = stale_content(b)
                stale_files[path] = (len(b), hashlib.sha256(b).hexdigest())
            vlib.write(os.path.join(outd, path), b, "wb")
    elif init != "fresh":
        raise vlib.InfraError("unknown init " + init)
    if style == "parent" and not inp.cwd_free:
        style = "rel"
    if style == "rel":
        cwd, args = ind, ["--output-dir", "../out", inp.main]
    elif style == "abs":
        cwd, args = ind, ["--output-dir", outd, os.path.join(ind, inp.main)]
    elif style == "dotted":
        cwd, args = ind, ["--output-dir", "./../out/", "--", "./" + inp.main]
    elif style == "parent":
        cwd, args = rd, ["--output-dir", "out", os.path.join("in", inp.main)]
    else:
        raise vlib.InfraError("unknown style " + style)
    argv = [sbeppc] + inp.extra_args + args
    r = Run()
    r.id, r.schema, r.init, r.argv, r.cwd = run_id, inp.name, init, argv, cwd
    r.env = {"LD_PRELOAD": shim, "VERIF_IO_ROOT": outd, "VERIF_IO_INROOT": ind, "VERIF_IO_LOG": logp,
             "SBEPPC_VERIF_TRACE": logp}
    if fault:
        cls, k, kind = fault
        r.fault = {"cls": cls, "k": int(k), "kind": kind}
        r.env["VERIF_IO_FAIL" if cls == "out" else "VERIF_IO_FAIL_IN"] = "%d:%s" % (k, kind)
    if extra_env:
        r.env.update(extra_env)
    env = dict(os.environ)
    for k_ in ("VERIF_IO_FAIL", "VERIF_IO_FAIL_IN"):
        env.pop(k_, None)
    env.update(r.env)
    try:
        p = subprocess.run(argv, cwd=cwd, env=env, stdout=subprocess.PIPE, stderr=subprocess.PIPE, timeout=timeout)
        rc, out, err = p.returncode, p.stdout, p.stderr
    except subprocess.TimeoutExpired as ex:
        rc, out, err = None, ex.stdout or b"", ex.stderr or b""
    r.stdout, r.stderr = out.decode(errors="replace"), err.decode(errors="replace")
    if rc is None:
        r.status, r.signal = -1, -1          # hang: not a state of the spec either
    elif rc < 0:
        r.status, r.signal = -1, -rc
    else:
        r.status, r.signal = rc, 0
    logged = []
    if os.path.exists(logp):
        for line in vlib.read(logp).splitlines():
            if line.strip():
                try:
                    logged.append(json.loads(line))
                except ValueError:
                    raise vlib.InfraError("unparsable shim/hook line in %s: %r" % (logp, line))
    r.tree = tree_state(outd) if os.path.isdir(outd) else {}
    r.events = [{"ev": "Reset", "run": run_id, "schema": inp.name, "init": init, "fault": r.fault, "expect": expect}]
    r.events += logged
    r.events.append(diag_event(r.stdout, r.stderr))
    r.events.append({"ev": "exit", "status": r.status, "signal": r.signal})
    if ref is not None:
        r.events.append(disk_event(r.tree, ref.files, stale_files))
    r._outd, r._stale = outd, stale_files
    if not keep and ref is not None:
        shutil.rmtree(rd, ignore_errors=True)
    return r


def reference(sbeppc, inp, workdir, run_id=None, style="rel"):
    """The fault-free run of `inp` into a fresh directory: its output calls
    become the plan, its files the reference content. The run's own disk event
    is derived against itself (so it only says 'these files exist'); what ties
    the plan to the code is that SbeppcTrace must accept this run and every
    other fault-free run against it."""
    run_id = run_id or ("ref-" + inp.name)
    r = run_sbeppc(sbeppc, inp, workdir, run_id, ref=None, init="fresh", style=style, keep=True)
    if r.signal != 0 or r.status != 0:
        raise vlib.SbeppcRejected(inp.name, r.status if r.signal == 0 else -r.signal, r.stdout + r.stderr,
                                  os.path.join(workdir, run_id, "in", inp.main))
    ops, nin = plan_from_events(r.events)
    content = {}
    for path in r.tree:
        with open(os.path.join(r._outd, path), "rb") as fh:
            content[path] = fh.read()
    ref = Reference(inp, r, ops, nin, dict(r.tree), content)
    r.events.append(disk_event(r.tree, ref.files))
    shutil.rmtree(os.path.join(workdir, run_id), ignore_errors=True)
    return ref


# -------------------------------------------------------------- validate ---

def trace_lines(runs, refs):
    """Plan events of the schemas used, then the runs' episodes."""
    used = []
    for r in runs:
        if r.schema not in used:
            used.append(r.schema)
    lines = [refs[s].plan_event() for s in used]
    for r in runs:
        lines += r.events
    return lines


def validate_runs(v, runs, refs, workdir, tag="tv", timeout=900):
    """Validate the episodes of `runs` (one TLC run) against SbeppcTrace.
    refs: schema name -> Reference.  Returns (rejections, TLCResult):
    rejections = list of records {"rejected": run id, "line", "event", ...} -
    one per run that is not a behaviour of the machine; empty = all accepted.
    Raises InfraError if TLC neither accepts nor names a run."""
    d = vlib.ensure_dir(os.path.join(workdir, tag))
    tp = os.path.join(d, "trace.ndjson")
    lines = trace_lines(runs, refs)
    vlib.write_ndjson(tp, lines)
    # same set-up as vlib.validate_trace, without its second attempt: the trace is a
    # file (nothing to be flaky about) and callers re-validate rejected runs one by one
    name = "TV_SbeppcTrace"
    vlib.mc(d, name, "SbeppcTrace", TRACE_BODY,
            "SPECIFICATION TraceSpec\nPOSTCONDITION TraceAccepted\nCHECK_DEADLOCK FALSE\n" + TRACE_CONSTS)
    r = vlib.tlc(name, cwd=d, workers=1, env={"TRACE": tp}, timeout=timeout, xmx="3g")
    acc = r.exit == 0 and "TraceAccepted" not in r.raw.split("Starting...")[-1]
    rej = [x for x in r.records if "rejected" in x]
    # (a run rejected at its very last line is skipped by one line only: the chain keeps its length, the
    # postcondition holds and the printed rejection is what counts)
    if not acc and not rej:
        raise vlib.InfraError("SbeppcTrace did not consume %s and named no run (exit %s):\n%s" % (tp, r.exit, r.raw[-2500:]))
    ids = {x.id for x in runs}
    for x in rej:
        if x["rejected"] not in ids:
            raise vlib.InfraError("rejection of unknown run %r (malformed trace?): %s" % (x["rejected"], json.dumps(x)[:500]))
    return rej, r


def signal_name(n):
    try:
        return _signal.Signals(n).name
    except ValueError:
        return str(n)
