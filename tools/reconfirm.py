#!/usr/bin/env python3
"""Re-run checks of the CURRENT /verif tree against one recorded seed
(seeded/<id>/patch.diff applied to a scratch worktree of /repo's HEAD, never to
/repo) and record the outcome in its meta.json (the previous outcome is kept
under earlier_runs).   usage: reconfirm.py <seed id> <Cxx> [<Cxx>...]"""
import json
import os
import subprocess
import sys
import time

ROOT = os.path.dirname(os.path.dirname(os.path.abspath(__file__)))
sid, checks = sys.argv[1], sys.argv[2:]
d = os.path.join(ROOT, "seeded", sid)
wt = "/tmp/wt-reconf-%s-%d" % (sid, os.getpid())


def sh(cmd):
    return subprocess.run(cmd, shell=True, stdout=subprocess.PIPE, stderr=subprocess.STDOUT, text=True)


sh("git -C /repo worktree add --detach -f %s HEAD" % wt)
try:
    p = os.path.join(d, "patch.diff")
    r = sh("git -C %s apply %s || git -C %s apply --3way %s" % (wt, p, wt, p))
    if r.returncode != 0:
        print("patch does not apply:", r.stdout[-400:])
        sys.exit(3)
    m = json.load(open(os.path.join(d, "meta.json")))
    head = sh("git -C /repo rev-parse --short HEAD").stdout.strip()
    m.setdefault("earlier_runs", []).append({"checks": {c: v.get("caught") for c, v in m.get("checks", {}).items()},
                                             "repo_head": m.get("repo_head_at_confirmation")})
    for c in checks:
        t0 = time.time()
        # the check writes evidence/<id>.json: keep the committed one (evidence must describe /repo itself)
        ev = os.path.join(ROOT, "evidence", c + ".json")
        keep = open(ev).read() if os.path.exists(ev) else None
        q = subprocess.run(["timeout", "3000", os.path.join(ROOT, "verif"), "check", c, "--tier", "quick"],
                           env=dict(os.environ, VERIF_REPO=wt), stdout=subprocess.PIPE, stderr=subprocess.STDOUT, text=True)
        if keep is not None:
            open(ev, "w").write(keep)
        sigs = sorted(set(l.strip() for l in q.stdout.splitlines() if l.strip().startswith("signature:")))
        m.setdefault("checks", {})[c] = {"exit": q.returncode, "caught": q.returncode == 1, "signatures": sigs[:6], "wall_s": round(time.time() - t0)}
        print("%s on %s: exit %d %s" % (c, sid, q.returncode, sigs[:3]), flush=True)
        if q.returncode not in (0, 1):
            print(q.stdout[-800:])
    m["repo_head_at_confirmation"] = head
    json.dump(m, open(os.path.join(d, "meta.json"), "w"), indent=1)
finally:
    sh("git -C /repo worktree remove --force %s" % wt)
