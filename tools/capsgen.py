"""C11: the permission table of spec/Caps.tla -> C++ probes against the real
generated headers, and the read-only walker for the dynamic half.

This module knows NAMES and KINDS only (which member is a scalar / array /
composite / group / data, how an operation is spelled in C++).  Whether a probe
must compile comes from the TLC-emitted table (`allowed`, `recvByte`,
`mechanism`); nothing in here decides an expectation.

Probe shapes (C++11):
  detection   template<class V, class C, class = void> struct pN : false_type {};
              template<class V, class C> struct pN<V, C, void_t<decltype(EXPR)>> : true_type {};
              static_assert(pN<View, Cursor>::value == <allowed>, "C11[id] <signature> ...");
  positive    template<class V, class C> void uN(V v, C& c) { (void)(EXPR); }  + explicit instantiation
              (every `allowed = yes` row must also instantiate, bodies included)
  negative    one TU per probe: the explicit instantiation for a rejected combination
              must FAIL to compile (used where the detector cannot see the rejection)
"""
import viewgen

BYTE = {"mut": "char", "const": "const char", "vol": "volatile char", "cvol": "const volatile char"}
CUR = {"mut": "::sbepp::cursor<char>", "const": "::sbepp::cursor<const char>", "none": "::c11::nocursor",
       "vol": "::sbepp::cursor<volatile char>", "cvol": "::sbepp::cursor<const volatile char>"}

WRAP = {"plain": "$C", "init": "::sbepp::cursor_ops::init($C)", "dont_move": "::sbepp::cursor_ops::dont_move($C)",
        "init_dont_move": "::sbepp::cursor_ops::init_dont_move($C)", "skip": "::sbepp::cursor_ops::skip($C)"}

PRELUDE = r'''
#include <array>
#include <cstddef>
#include <initializer_list>
#include <iterator>
#include <type_traits>
#include <utility>
namespace c11
{
template<typename...> struct mkvoid { typedef void type; };
template<typename... T> using void_t = typename mkvoid<T...>::type;
struct nocursor {};
template<class T> T mk() { return T{}; }
template<class A> typename A::size_type sz(A) { return typename A::size_type{}; }
template<class A> typename A::value_type el(A) { return typename A::value_type{}; }
template<class A> const typename A::value_type* src(A) { return nullptr; }
template<class A> std::initializer_list<typename A::value_type> il(A) { return std::initializer_list<typename A::value_type>{}; }
template<class A> std::array<typename A::value_type, 1> rng(A) { return std::array<typename A::value_type, 1>{}; }
// iterate a group: begin / end / compare / ++ / deref
template<class G> auto walk(G g) -> decltype(*g.begin())
{
    auto it = g.begin();
    (void)(it != g.end());
    (void)(it == g.end());
    ++it;
    it++;
    (void)it.operator->();
    return *it;
}
// element iteration of array / data views
template<class A> auto ewalk(A a) -> decltype(*a.begin() == *a.rbegin())
{
    (void)(a.begin() != a.end());
    (void)a.rend();
    (void)a.data();
    (void)a.front();
    (void)a.back();
    return *a.begin() == *a.rbegin();
}
// a visitor that descends everywhere and changes nothing
struct visitor
{
    template<class T, class C, class... Tag> void on_message(T m, C& c, Tag...) { ::sbepp::visit_children(m, c, *this); }
    template<class T, class C, class... Tag> bool on_group(T g, C& c, Tag...) { ::sbepp::visit_children(g, c, *this); return false; }
    template<class T, class C, class... Tag> bool on_entry(T e, C& c, Tag...) { ::sbepp::visit_children(e, c, *this); return false; }
    template<class T, class... Tag> bool on_composite(T c, Tag...) { ::sbepp::visit_children(c, *this); return false; }
    template<class T, class... Tag> bool on_data(T, Tag...) { return false; }
    template<class T, class... Tag> bool on_field(T, Tag...) { return false; }
    template<class T, class... Tag> bool on_type(T, Tag...) { return false; }
    template<class T, class... Tag> bool on_enum(T, Tag...) { return false; }
    template<class T, class... Tag> bool on_set(T, Tag...) { return false; }
    template<class T, class... Tag> bool on_array(T, Tag...) { return false; }
};
} // namespace c11
'''


def load_table(records):
    """TLC records -> {"perm": {(op, path): [row...]}, "conv": [...], "elem": [...], "init": [...], "byte": {(recv, how): {(v,c): recvByte}}}"""
    t = {"perm": {}, "conv": [], "elem": [], "init": [], "byte": {}, "rows": 0}
    for r in records:
        k = r.get("kind")
        if k == "perm":
            t["perm"].setdefault((r["op"], r["path"]), []).append(r)
            t["byte"].setdefault((r["recv"], r["how"]), {})[(r["viewConst"], r["cursorConst"])] = r["recvByte"]
            t["rows"] += 1
        elif k in ("conv", "elem", "init"):
            t[k].append(r)
    return t


class Site:
    """One receiver reached from the root message view.  exprs: how -> C++
    expression template ($V root view, $C cursor lvalue)."""

    def __init__(self, where, recv, exprs, tagbase=None):
        self.where, self.recv, self.exprs, self.tagbase = where, recv, exprs, tagbase


class CapsGen(viewgen.Gen):
    def __init__(self, S, table):
        viewgen.Gen.__init__(self, S)
        self.t = table
        self.probes = []       # dicts: id, sig, site, expr, v, c, expected(bool), mechanism, kind
        self.det = []          # C++ lines of the detection TU
        self.pos = []          # C++ lines of the positive-instantiation TU
        self.exprs = {}        # expression id -> (expr, msg) for negative TUs
        self._eid = 0
        self.stats = {"sites": 0, "members": 0}

    # ------------------------------------------------------------ names ----
    def resolve(self, e, defpath):
        """follow refs; returns (definition, definition path for tags)"""
        while e["kind"] == "ref":
            e = self.types[e["type"]]
            defpath = [e["name"]]
        return e, defpath

    def classify(self, e, field=None):
        k = e["kind"]
        if k == "type":
            if e.get("presence") == "constant" or (field is not None and field.get("presence") == "constant"):
                return "const"
            ln = e.get("length", 1)
            ln = 1 if ln is None else ln
            return "array" if ln != 1 else "scalar"
        if k in ("enum", "set"):
            if field is not None and field.get("presence") == "constant":
                return "const"
            return "scalar"
        return "composite"

    def ttag(self, defpath, name):
        return "::%s::schema::types::%s::%s" % (self.ns, "::".join(defpath), name)

    def mtag(self, path, name):
        return "::%s::schema::messages::%s::%s" % (self.ns, "::".join(path), name)

    # ------------------------------------------------------------ probes ---
    def add_expr(self, expr, msg):
        self._eid += 1
        eid = self._eid
        self.exprs[eid] = (expr, msg)
        d = expr.replace("$V", "std::declval<V>()").replace("$C", "std::declval<C&>()")
        self.det.append("template<class V, class C, class = void> struct p%d : std::false_type {};" % eid)
        self.det.append("template<class V, class C> struct p%d<V, C, ::c11::void_t<decltype(%s)>> : std::true_type {};" % (eid, d))
        return eid

    def M(self, msg, v):
        return "::%s::messages::%s<%s>" % (self.ns, msg, BYTE[v])

    def rows(self, op, recv, how, access):
        return self.t["perm"].get((op, "%s.%s.%s" % (recv, how, access)), [])

    def probe_rows(self, op, site, how, access, expr, msg, where):
        rows = self.rows(op, site.recv, how, access)
        rows = [r for r in rows if r["allowed"] != "unspecified"]
        if not rows:
            return
        eid = self.add_expr(expr, msg)
        used_pos = False
        for r in rows:
            v, c = r["viewConst"], r["cursorConst"]
            exp = r["allowed"] == "yes"
            pid = len(self.probes) + 1
            sig = "caps/%s/%s/view=%s/cursor=%s/expected=%s" % (op, r["path"], v, c, "true" if exp else "false")
            self.probes.append({"id": pid, "eid": eid, "sig": sig, "site": "%s:%s" % (self.ns, where), "expr": expr, "msg": msg,
                                "v": v, "c": c, "expected": exp, "mechanism": r["mechanism"], "kind": "perm", "op": op, "path": r["path"]})
            self.det.append('static_assert(p%d<%s, %s>::value == %s, "C11[%d] %s @ %s:%s");' % (
                eid, self.M(msg, v), CUR[c], "true" if exp else "false", pid, sig, self.ns, where))
            if exp:
                if not used_pos:
                    b = expr.replace("$V", "v").replace("$C", "c")
                    self.pos.append("template<class V, class C> void u%d(V v, C& c) { (void)v; (void)c; (void)(%s); }" % (eid, b))
                    used_pos = True
                self.pos.append("template void u%d<%s, %s>(%s, %s&); // C11[%d]" % (eid, self.M(msg, v), CUR[c], self.M(msg, v), CUR[c], pid))

    def byte_probes(self, site, msg):
        for how, R in site.exprs.items():
            m = self.t["byte"].get((site.recv, how))
            if not m:
                continue
            eid = self.add_expr(R, msg)
            self.det.append("template<class V, class C, bool = p%d<V, C>::value> struct b%d { static const int value = -1; };" % (eid, eid))
            d = R.replace("$V", "std::declval<V>()").replace("$C", "std::declval<C&>()")
            self.det.append("template<class V, class C> struct b%d<V, C, true> { static const int value = "
                            "std::is_const< ::sbepp::byte_type_t<decltype(%s)>>::value ? 1 : 0; };" % (eid, d))
            for (v, c), rb in sorted(m.items()):
                pid = len(self.probes) + 1
                want = {"": -1, "mut": 0, "const": 1}[rb]
                sig = "caps/byte/%s.%s/view=%s/cursor=%s/expected=%s" % (site.recv, how, v, c, rb or "none")
                self.probes.append({"id": pid, "eid": eid, "sig": sig, "site": "%s:%s" % (self.ns, site.where), "expr": R, "msg": msg,
                                    "v": v, "c": c, "expected": want, "mechanism": "unavailable", "kind": "byte", "op": "byte",
                                    "path": "%s.%s" % (site.recv, how)})
                self.det.append('static_assert(b%d<%s, %s>::value == %d, "C11[%d] %s @ %s:%s");' % (
                    eid, self.M(msg, v), CUR[c], want, pid, sig, self.ns, site.where))

    # ----------------------------------------------- operations on a site --
    def field_ops(self, site, msg, name, kind, tag):
        """member `name` of a level / composite receiver"""
        level = site.recv in ("message", "entry")
        for how, R in site.exprs.items():
            w = "%s.%s" % (site.where, name)
            val = "::c11::mk<decltype(%s.%s())>()" % (R, name)
            # getters (all member kinds)
            self.probe_rows("get", site, how, "named", "%s.%s()" % (R, name), msg, w)
            self.probe_rows("get", site, how, "tag", "::sbepp::get_by_tag<%s>(%s)" % (tag, R), msg, w)
            if kind == "scalar":
                self.probe_rows("set", site, how, "named", "%s.%s(%s)" % (R, name, val), msg, w)
                self.probe_rows("set", site, how, "tag", "::sbepp::set_by_tag<%s>(%s, %s)" % (tag, R, val), msg, w)
                self.probe_rows("set", site, how, "tagget", "::sbepp::get_by_tag<%s>(%s, %s)" % (tag, R, val), msg, w)
            if not level or kind == "const":
                continue
            for wn, W in WRAP.items():
                self.probe_rows("cget_" + wn, site, how, "named", "%s.%s(%s)" % (R, name, W), msg, w)
                self.probe_rows("cget_" + wn, site, how, "tag", "::sbepp::get_by_tag<%s>(%s, %s)" % (tag, R, W), msg, w)
                if kind == "scalar" and wn != "skip":
                    self.probe_rows("cset_" + wn, site, how, "named", "%s.%s(%s, %s)" % (R, name, val, W), msg, w)
                    self.probe_rows("cset_" + wn, site, how, "tag", "::sbepp::set_by_tag<%s>(%s, %s, %s)" % (tag, R, val, W), msg, w)

    def receiver_ops(self, site, msg, flat=False):
        """operations on the receiver itself (no member name involved)"""
        self.stats["sites"] += 1
        self.byte_probes(site, msg)
        for how, R in site.exprs.items():
            ops = {"size_bytes": "::sbepp::size_bytes(%s)" % R, "addressof": "::sbepp::addressof(%s)" % R}
            k = site.recv
            if k in ("message", "entry", "group", "composite"):
                ops["visit"] = "::sbepp::visit(%s, ::c11::visitor{})" % R
                ops["visit_children"] = "::sbepp::visit_children(%s, ::c11::visitor{})" % R
            if k in ("message", "entry", "group"):
                ops["visit_cursor"] = "::sbepp::visit(%s, $C, ::c11::visitor{})" % R
                ops["visit_children_cursor"] = "::sbepp::visit_children(%s, $C, ::c11::visitor{})" % R
            if k in ("message", "group"):
                ops["get_header"] = "::sbepp::get_header(%s)" % R
                ops["size_bytes_checked"] = "::sbepp::size_bytes_checked(%s, std::size_t(64))" % R
            if k == "message":
                ops["fill_message_header"] = "::sbepp::fill_message_header(%s)" % R
                ops["size_bytes_cursor"] = "::sbepp::size_bytes(%s, $C)" % R
            if k == "group":
                ops.update({
                    "fill_group_header": "::sbepp::fill_group_header(%s, ::c11::sz(%s))" % (R, R),
                    "group_resize": "%s.resize(::c11::sz(%s))" % (R, R),
                    "group_clear": "%s.clear()" % R,
                    "size": "(%s.size(), %s.sbe_size(), %s.max_size())" % (R, R, R),   # not .empty(): a group may be NAMED empty (C07 matter)
                    "iterate": "::c11::walk(%s)" % R,
                    "cursor_range": "(%s.cursor_range($C), %s.cursor_begin($C), %s.cursor_end($C), %s.cursor_subrange($C, ::c11::sz(%s)))" % (R, R, R, R, R),
                    "cursor_iterate": "*%s.cursor_range($C).begin()" % R,
                })
                if flat:
                    ops["index"] = "(%s[::c11::sz(%s)], %s.front(), %s.back())" % (R, R, R, R)
            if k in ("data", "array"):
                ops.update({
                    "size": "(%s.size(), %s.empty(), %s.max_size())" % (R, R, R),
                    "elem_read": "(%s[0] == %s.front())" % (R, R),
                    "elem_iterate": "::c11::ewalk(%s)" % R,
                    "elem_write_index": "%s[0] = ::c11::el(%s)" % (R, R),
                    "elem_write_iter": "*%s.begin() = ::c11::el(%s)" % (R, R),
                    "elem_write_riter": "*%s.rbegin() = ::c11::el(%s)" % (R, R),
                    "elem_write_data": "*%s.data() = ::c11::el(%s)" % (R, R),
                    "elem_write_front": "%s.front() = ::c11::el(%s)" % (R, R),
                    "elem_write_back": "%s.back() = ::c11::el(%s)" % (R, R),
                    "elem_write_raw": "%s.raw()[0] = char()" % R,
                })
            if k == "data":
                a = (R, R)
                ops.update({
                    "da_clear": "%s.clear()" % R,
                    "da_resize": "%s.resize(::c11::sz(%s))" % a,
                    "da_resize_value": "%s.resize(::c11::sz(%s), ::c11::el(%s))" % (R, R, R),
                    "da_resize_default_init": "%s.resize(::c11::sz(%s), ::sbepp::default_init)" % a,
                    "da_push_back": "%s.push_back(::c11::el(%s))" % a,
                    "da_pop_back": "%s.pop_back()" % R,
                    "da_erase": "%s.erase(%s.begin())" % a,
                    "da_erase_range": "%s.erase(%s.begin(), %s.end())" % (R, R, R),
                    "da_insert": "%s.insert(%s.begin(), ::c11::el(%s))" % (R, R, R),
                    "da_insert_count": "%s.insert(%s.begin(), ::c11::sz(%s), ::c11::el(%s))" % (R, R, R, R),
                    "da_insert_range": "%s.insert(%s.begin(), ::c11::src(%s), ::c11::src(%s))" % (R, R, R, R),
                    "da_insert_ilist": "%s.insert(%s.begin(), ::c11::il(%s))" % (R, R, R),
                    "da_assign_count": "%s.assign(::c11::sz(%s), ::c11::el(%s))" % (R, R, R),
                    "da_assign_iter": "%s.assign(::c11::src(%s), ::c11::src(%s))" % (R, R, R),
                    "da_assign_ilist": "%s.assign(::c11::il(%s))" % a,
                    "da_assign_string": "%s.assign_string(\"\")" % R,
                    "da_assign_range": "%s.assign_range(::c11::rng(%s))" % a,
                })
            if k == "array":
                a = (R, R)
                ops.update({
                    "strlen": "(%s.strlen() + %s.strlen_r())" % a,
                    "sa_assign_string": "%s.assign_string(\"\")" % R,
                    "sa_assign_string_range": "%s.assign_string(::c11::rng(%s))" % a,
                    "sa_assign_range": "%s.assign_range(::c11::rng(%s))" % a,
                    "sa_fill": "%s.fill(::c11::el(%s))" % a,
                    "sa_assign_count": "%s.assign(std::size_t(1), ::c11::el(%s))" % a,
                    "sa_assign_iter": "%s.assign(::c11::src(%s), ::c11::src(%s))" % (R, R, R),
                    "sa_assign_ilist": "%s.assign(::c11::il(%s))" % a,
                })
            for op, expr in sorted(ops.items()):
                self.probe_rows(op, site, how, "named", expr, msg, site.where)

    # ------------------------------------------------------------- walk ----
    def composite_site(self, site, msg, e, defpath):
        """site: a composite receiver; recurse into its members"""
        self.receiver_ops(site, msg)
        for m in e["elements"]:
            self.stats["members"] += 1
            d, dp = self.resolve(m, defpath + [m["name"]])
            kind = self.classify(d)
            tag = self.ttag(defpath, m["name"])
            self.field_ops(site, msg, m["name"], kind, tag)
            self.derived(site, msg, m["name"], kind, d, dp, tag)

    def derived(self, parent, msg, name, kind, d, dp, tag):
        """derived receiver `parent.name` (array / composite)"""
        if kind not in ("array", "composite"):
            return
        ex = {}
        for how, R in parent.exprs.items():
            # a receiver derived by name from a cursor-derived parent keeps the parent's byte type
            h = "cursor" if how == "cursor" else "name"
            ex.setdefault(h, "%s.%s()" % (R, name))
            if how in ("self", "name"):
                ex["tag"] = "::sbepp::get_by_tag<%s>(%s)" % (tag, R)
                if parent.recv in ("message", "entry"):
                    ex["cursor"] = "%s.%s($C)" % (R, name)
        s = Site("%s.%s" % (parent.where, name), kind, ex)
        if kind == "array":
            self.receiver_ops(s, msg)
        else:
            self.composite_site(s, msg, d, dp)

    def header_site(self, msg, where, exprs, tname):
        """the header of a message / the dimension of a group: a composite derived through get_header"""
        d = self.types.get(tname)
        if d is None or d["kind"] != "composite":
            return
        self.composite_site(Site(where + ".<header>", "composite", {h: "::sbepp::get_header(%s)" % R for h, R in exprs.items()}), msg, d, [tname])

    def level(self, msg, lv, path, site):
        self.receiver_ops(site, msg)
        base = next(iter(R for h, R in site.exprs.items() if h in ("self", "name")))
        if site.recv == "message":
            self.header_site(msg, site.where, {"name": base}, self.S.get("headerType") or "messageHeader")
        for f in lv.get("fields", []):
            self.stats["members"] += 1
            d, dp = self.resolve(self.field_enc(f), [f["type"]])
            kind = self.classify(d, f)
            tag = self.mtag(path, f["name"])
            self.field_ops(site, msg, f["name"], kind, tag)
            self.derived(site, msg, f["name"], kind, d, dp, tag)
        for g in lv.get("groups", []):
            self.stats["members"] += 1
            tag = self.mtag(path, g["name"])
            self.field_ops(site, msg, g["name"], "group", tag)
            ex = {"name": "%s.%s()" % (base, g["name"]), "tag": "::sbepp::get_by_tag<%s>(%s)" % (tag, base),
                  "cursor": "%s.%s($C)" % (base, g["name"])}
            gs = Site("%s.%s" % (site.where, g["name"]), "group", ex)
            flat = not g.get("groups") and not g.get("data")
            self.receiver_ops(gs, msg, flat=flat)
            self.header_site(msg, gs.where, {"name": ex["name"], "cursor": ex["cursor"]}, g.get("dimensionType") or "groupSizeEncoding")
            es = Site("%s.%s[]" % (site.where, g["name"]), "entry",
                      {"name": "(*%s.begin())" % ex["name"], "cursor": "(*%s.cursor_range($C).begin())" % ex["cursor"]})
            self.level(msg, g, path + [g["name"]], es)
        for d in lv.get("data", []):
            self.stats["members"] += 1
            tag = self.mtag(path, d["name"])
            self.field_ops(site, msg, d["name"], "data", tag)
            ex = {"name": "%s.%s()" % (base, d["name"]), "tag": "::sbepp::get_by_tag<%s>(%s)" % (tag, base),
                  "cursor": "%s.%s($C)" % (base, d["name"])}
            self.receiver_ops(Site("%s.%s" % (site.where, d["name"]), "data", ex), msg)

    # ------------------------------------------------- conversions etc. ----
    def conv_probes(self):
        """is_convertible / is_constructible / is_assignable between the byte
        flavours of every class template met; element types; factories"""
        ents = []     # (kind, label, msg, expr)

        def lv(msg, l, path, R):
            for f in l.get("fields", []):
                d, dp = self.resolve(self.field_enc(f), [f["type"]])
                k = self.classify(d, f)
                if k in ("array", "composite"):
                    ents.append((k, "%s.%s" % (".".join(path), f["name"]), msg, "%s.%s()" % (R, f["name"])))
            for g in l.get("groups", []):
                G = "%s.%s()" % (R, g["name"])
                ents.append(("group", "%s.%s" % (".".join(path), g["name"]), msg, G))
                ents.append(("entry", "%s.%s[]" % (".".join(path), g["name"]), msg, "(*%s.begin())" % G))
                lv(msg, g, path + [g["name"]], "(*%s.begin())" % G)
            for d in l.get("data", []):
                ents.append(("data", "%s.%s" % (".".join(path), d["name"]), msg, "%s.%s()" % (R, d["name"])))

        for m in self.S["messages"]:
            ents.append(("message", m["name"], m["name"], "$V"))
            ents.append(("composite", m["name"] + ".<header>", m["name"], "::sbepp::get_header($V)"))
            lv(m["name"], m, [m["name"]], "$V")
        L = self.det
        for kind, label, msg, R in ents:
            X = {b: "decltype(%s)" % R.replace("$V", "std::declval<%s>()" % self.M(msg, b)) for b in BYTE}
            for r in self.t["conv"]:
                if r["what"] != kind:
                    continue
                f, t = r["from"], r["to"]
                exp = "true" if r["allowed"] else "false"
                for trait, a, b in (("is_convertible", X[f], X[t]), ("is_constructible", X[t], X[f]),
                                    ("is_assignable", X[t] + "&", X[f])):
                    pid = len(self.probes) + 1
                    sig = "caps/conv_%s/%s/from=%s/to=%s/expected=%s" % (trait[3:], kind, f, t, exp)
                    self.probes.append({"id": pid, "sig": sig, "site": "%s:%s" % (self.ns, label), "expr": "std::%s<%s, %s>" % (trait, a, b),
                                        "msg": msg, "v": f, "c": "none", "expected": r["allowed"], "mechanism": "unavailable",
                                        "kind": "conv", "op": "conv_" + trait[3:], "path": kind})
                    L.append('static_assert(std::%s<%s, %s>::value == %s, "C11[%d] %s @ %s:%s");' % (trait, a, b, exp, pid, sig, self.ns, label))
            for r in self.t["elem"]:
                if r["what"] != kind:
                    continue
                b = r["byte"]
                exp = "true" if r["elemConst"] else "false"
                A = R.replace("$V", "std::declval<%s>()" % self.M(msg, b))
                forms = {"index": "std::remove_reference<decltype(%s[0])>::type" % A,
                         "data": "std::remove_pointer<decltype(%s.data())>::type" % A,
                         "begin": "std::remove_reference<decltype(*%s.begin())>::type" % A,
                         "rbegin": "std::remove_reference<decltype(*%s.rbegin())>::type" % A,
                         "front": "std::remove_reference<decltype(%s.front())>::type" % A,
                         "back": "std::remove_reference<decltype(%s.back())>::type" % A,
                         "raw_index": "std::remove_reference<decltype(%s.raw()[0])>::type" % A,
                         "element_type": "%s::element_type" % X[b],
                         "reference": "std::remove_reference<%s::reference>::type" % X[b],
                         "pointer": "std::remove_pointer<%s::pointer>::type" % X[b],
                         "iterator": "std::remove_pointer<%s::iterator>::type" % X[b]}
                for fn, ty in sorted(forms.items()):
                    pid = len(self.probes) + 1
                    sig = "caps/elem_%s/%s/byte=%s/expected_const=%s" % (fn, kind, b, exp)
                    self.probes.append({"id": pid, "sig": sig, "site": "%s:%s" % (self.ns, label), "expr": ty, "msg": msg, "v": b, "c": "none",
                                        "expected": r["elemConst"], "mechanism": "unavailable", "kind": "elem", "op": "elem_" + fn, "path": kind})
                    L.append('static_assert(std::is_const<%s>::value == %s, "C11[%d] %s @ %s:%s");' % (ty, exp, pid, sig, self.ns, label))
        # cursors convert like views
        for r in self.t["conv"]:
            if r["what"] != "cursor":
                continue
            f, t = r["from"], r["to"]
            exp = "true" if r["allowed"] else "false"
            for trait, a, b in (("is_convertible", CUR[f], CUR[t]), ("is_constructible", CUR[t], CUR[f]), ("is_assignable", CUR[t] + "&", CUR[f])):
                pid = len(self.probes) + 1
                sig = "caps/conv_%s/cursor/from=%s/to=%s/expected=%s" % (trait[3:], f, t, exp)
                self.probes.append({"id": pid, "sig": sig, "site": self.ns, "expr": "std::%s<%s, %s>" % (trait, a, b), "msg": None, "v": f, "c": t,
                                    "expected": r["allowed"], "mechanism": "unavailable", "kind": "conv", "op": "conv_" + trait[3:], "path": "cursor"})
                L.append('static_assert(std::%s<%s, %s>::value == %s, "C11[%d] %s @ %s");' % (trait, a, b, exp, pid, sig, self.ns))
        # factories
        for m in self.S["messages"]:
            for r in self.t["init"]:
                b, res, fn = r["byte"], r["result"], r["what"]
                if fn in ("init_cursor", "init_const_cursor"):
                    e = "std::is_same<decltype(::sbepp::%s(std::declval<%s>())), %s>" % (fn, self.M(m["name"], b), CUR[res])
                else:
                    e = "std::is_same<decltype(::sbepp::%s< ::%s::messages::%s>(std::declval<%s*>(), std::size_t(0))), %s>" % (
                        fn, self.ns, m["name"], BYTE[b], self.M(m["name"], res))
                pid = len(self.probes) + 1
                sig = "caps/factory/%s/byte=%s/expected=%s" % (fn, b, res)
                self.probes.append({"id": pid, "sig": sig, "site": "%s:%s" % (self.ns, m["name"]), "expr": e, "msg": m["name"], "v": b, "c": "none",
                                    "expected": True, "mechanism": "unavailable", "kind": "init", "op": "factory", "path": fn})
                L.append('static_assert(%s::value, "C11[%d] %s @ %s:%s");' % (e, pid, sig, self.ns, m["name"]))

    # --------------------------------------------------------- assemble ----
    def generate(self):
        for m in self.S["messages"]:
            self.level(m["name"], m, [m["name"]], Site(m["name"], "message", {"self": "$V"}))
        self.conv_probes()
        head = "// generated by tools/capsgen.py from the TLC table of spec/Caps.tla - names only\n#include <%s/%s.hpp>\n%s\n" % (self.ns, self.ns, PRELUDE)
        det = head + "\n".join(self.det) + "\nint main() { return 0; }\n"
        pos = head + "\n".join(self.pos) + "\nint main() { return 0; }\n"
        return det, pos

    def negative_tu(self, p):
        """one TU whose only questionable construct is the rejected call"""
        expr, msg = self.exprs[p["eid"]]
        b = expr.replace("$V", "v").replace("$C", "c")
        return ("// negative compile test C11[%d] %s @ %s\n#include <%s/messages/%s.hpp>\n%s\n"
                "template<class V, class C> void u(V v, C& c) { (void)v; (void)c; (void)(%s); }\n"
                "#ifdef C11_POSITIVE_TWIN\ntemplate void u<%s, %s>(%s, %s&);\n#else\ntemplate void u<%s, %s>(%s, %s&);\n#endif\nint main() { return 0; }\n" % (
                    p["id"], p["sig"], p["site"], self.ns, msg, PRELUDE, b,
                    self.M(msg, "mut"), CUR["none" if p["c"] == "none" else "mut"], self.M(msg, "mut"), CUR["none" if p["c"] == "none" else "mut"],
                    self.M(msg, p["v"]), CUR[p["c"]], self.M(msg, p["v"]), CUR[p["c"]]))


# ======================================================================
# dynamic half: a walker that performs every non-mutating call on a
# `message<const char>` over a read-only mapping
# ======================================================================

class WalkGen(viewgen.Gen):
    def __init__(self, S):
        viewgen.Gen.__init__(self, S)
        self.cg = CapsGen(S, {"perm": {}, "byte": {}, "conv": [], "elem": [], "init": []})
        self.L = []
        self.n = 0

    def var(self):
        self.n += 1
        return "x%d" % self.n

    def stage(self, s):
        self.L.append('C11_STAGE("%s");' % s)

    def composite(self, R, e, defpath, where):
        L = self.L
        L.append("::c11h::view_common(%s);" % R)
        L.append("::c11h::visit_both(%s);" % R)
        for m in e["elements"]:
            d, dp = self.cg.resolve(m, defpath + [m["name"]])
            k = self.cg.classify(d)
            tag = self.cg.ttag(defpath, m["name"])
            self.member_named(R, m["name"], k, d, dp, tag, where)

    def member_named(self, R, name, k, d, dp, tag, where):
        L = self.L
        w = "%s.%s" % (where, name)
        if k in ("scalar", "const"):
            L.append("C11_SINK(%s.%s());" % (R, name))
            L.append("C11_SINK(::sbepp::get_by_tag<%s>(%s));" % (tag, R))
        elif k == "array":
            L.append("::c11h::array_all(%s.%s());" % (R, name))
            L.append("::c11h::array_all(::sbepp::get_by_tag<%s>(%s));" % (tag, R))
        elif k == "composite":
            x = self.var()
            L.append("{ auto %s = %s.%s();" % (x, R, name))
            self.composite(x, d, dp, w)
            L.append("C11_SINKV(::sbepp::get_by_tag<%s>(%s)); }" % (tag, R))

    def level_named(self, R, lv, path, where):
        L = self.L
        self.stage("named:" + where)
        L.append("::c11h::view_common(%s);" % R)
        for f in lv.get("fields", []):
            d, dp = self.cg.resolve(self.field_enc(f), [f["type"]])
            k = self.cg.classify(d, f)
            self.member_named(R, f["name"], k, d, dp, self.cg.mtag(path, f["name"]), where)
        for g in lv.get("groups", []):
            flat = not g.get("groups") and not g.get("data")
            x, e = self.var(), self.var()
            tag = self.cg.mtag(path, g["name"])
            self.stage("named:%s.%s" % (where, g["name"]))
            L.append("{ auto %s = %s.%s();" % (x, R, g["name"]))
            L.append("C11_SINKV(::sbepp::get_by_tag<%s>(%s));" % (tag, R))
            L.append("::c11h::group_all(%s);" % x)
            if flat:
                L.append("::c11h::flat_group_all(%s);" % x)
            L.append("for(auto it = %s.begin(); it != %s.end(); ++it) { auto %s = *it;" % (x, x, e))
            self.level_named(e, g, path + [g["name"]], "%s.%s[]" % (where, g["name"]))
            L.append("} }")
        for d in lv.get("data", []):
            self.stage("named:%s.%s" % (where, d["name"]))
            L.append("::c11h::data_all(%s.%s());" % (R, d["name"]))
            L.append("::c11h::data_all(::sbepp::get_by_tag<%s>(%s));" % (self.cg.mtag(path, d["name"]), R))

    def level_cursor(self, R, lv, path, where, mode):
        """members in schema order with cursor c (declared by the caller)"""
        L = self.L
        self.stage("cursor-%s:%s" % (mode, where))
        members = [("field", f) for f in lv.get("fields", [])] + [("group", g) for g in lv.get("groups", [])] + [("data", d) for d in lv.get("data", [])]
        for kind, m in members:
            name = m["name"]
            tag = self.cg.mtag(path, name)
            if kind == "field":
                d, dp = self.cg.resolve(self.field_enc(m), [m["type"]])
                if self.cg.classify(d, m) == "const":
                    continue
            # peek without moving (twice), then advance according to the mode
            L.append("C11_SINKV(%s.%s(::sbepp::cursor_ops::dont_move(c)));" % (R, name))
            L.append("{ ::sbepp::cursor<const char> c2; C11_SINKV(%s.%s(::sbepp::cursor_ops::init_dont_move(c2))); "
                     "C11_SINKV(::sbepp::get_by_tag<%s>(%s, ::sbepp::cursor_ops::init_dont_move(c2))); }" % (R, name, tag, R))
            adv = {"plain": "c", "init": "::sbepp::cursor_ops::init(c)", "skip": "::sbepp::cursor_ops::skip(c)",
                   "tag": "c"}[mode]
            call = "%s.%s(%s)" % (R, name, adv) if mode != "tag" else "::sbepp::get_by_tag<%s>(%s, c)" % (tag, R)
            if kind == "group" and mode != "skip":
                x, e = self.var(), self.var()
                L.append("{ auto %s = %s; C11_COUNT();" % (x, call))
                L.append("for(const auto %s : %s.cursor_range(c)) {" % (e, x))
                self.level_cursor(e, m, path + [name], "%s.%s[]" % (where, name), mode)
                L.append("} }")
                self.stage("cursor-%s:%s" % (mode, where))
            elif mode == "skip":
                L.append("%s; C11_COUNT();" % call)
            else:
                L.append("C11_SINKV(%s);" % call)

    def generate(self):
        L = self.L
        L.append("// generated by tools/capsgen.py (WalkGen) - names and kinds only")
        L.append("#include <%s/%s.hpp>" % (self.ns, self.ns))
        L.append("namespace {")
        for m in self.S["messages"]:
            M = "::%s::messages::%s<const char>" % (self.ns, m["name"])
            L.append("static void ro_named_%s(const char* p, std::size_t n) { %s m(p, n);" % (m["name"], M))
            self.stage("message:" + m["name"])
            L.append("::c11h::message_all(m, n);")
            self.level_named("m", m, [m["name"]], m["name"])
            L.append("}")
            for mode in ("plain", "init", "skip", "tag"):
                L.append("static void ro_cursor_%s_%s(const char* p, std::size_t n) { %s m(p, n);" % (mode, m["name"], M))
                L.append("auto c = ::sbepp::init_const_cursor(m);")
                self.level_cursor("m", m, [m["name"]], m["name"], mode)
                L.append("C11_SINK(::sbepp::size_bytes(m, c)); }")
            L.append('C11_REG("%s", ro_named_%s, ro_cursor_plain_%s, ro_cursor_init_%s, ro_cursor_skip_%s, ro_cursor_tag_%s);' % ((m["name"],) * 6))
        L.append("} // namespace")
        return "\n".join(L) + "\n"


def walker_cpp(S):
    return WalkGen(S).generate()
