"""Shared infrastructure for the sbepp verification framework.

Nothing in here computes an expected value: it runs TLC, builds/executes the
C++ harnesses against /repo's working tree, moves JSON between the two,
matches violations against known_findings.json and writes evidence.
"""
import contextlib
import fcntl
import hashlib
import json
import os
import re
import shutil
import subprocess
import sys
import time

ROOT = os.path.dirname(os.path.dirname(os.path.abspath(__file__)))
REPO = os.environ.get("VERIF_REPO", "/repo")
CACHE = os.path.join(ROOT, ".cache")
WORK = os.path.join(ROOT, "work")
SPEC = os.path.join(ROOT, "spec")
HARNESS = os.path.join(ROOT, "harness")
EVIDENCE = os.path.join(ROOT, "evidence")
REPLAYS = os.path.join(ROOT, "replays")
TLA_JAR = "/opt/veriftools/tla/tla2tools.jar"
GUARD = "SBEPP_VERIF"
NCPU = os.cpu_count() or 4

SBEPP_INC = os.path.join(REPO, "sbepp", "src")
SBEPP_HPP = os.path.join(SBEPP_INC, "sbepp", "sbepp.hpp")
SBEPPC_SRC = os.path.join(REPO, "sbeppc", "src")


class InfraError(Exception):
    """Infrastructure failure (TLC parse error, compile error of our own
    harness, timeout): exit 2, never a VIOLATION."""


def log(*a):
    print(*a, file=sys.stderr, flush=True)


def ensure_dir(p):
    os.makedirs(p, exist_ok=True)
    return p


def fresh_dir(p):
    if os.path.exists(p):
        shutil.rmtree(p)
    os.makedirs(p)
    return p


def sha(*parts):
    h = hashlib.sha256()
    for p in parts:
        if isinstance(p, str):
            p = p.encode()
        h.update(p)
        h.update(b"\0")
    return h.hexdigest()[:24]


def read(p, mode="r"):
    with open(p, mode) as f:
        return f.read()


def write(p, s, mode="w"):
    ensure_dir(os.path.dirname(p))
    with open(p, mode) as f:
        f.write(s)


# ---------------------------------------------------------------- TLC ------

class TLCResult:
    def __init__(self):
        self.exit = None
        self.raw = ""
        self.records = []      # JSON records printed by the spec (PrintT(ToJson))
        self.generated = 0
        self.distinct = 0
        self.depth = 0
        self.coverage = {}     # action name -> (taken/generated) when -coverage
        self.violated = None   # name of violated invariant / property
        self.wall = 0.0

    @property
    def ok(self):
        return self.exit == 0


_REC = re.compile(r'^"(\{.*\})"$')


def _unquote_tla_string(line):
    # TLC prints a TLA+ string value: quotes and backslashes escaped with '\'
    return json.loads(line)


def tlc(module, cfg=None, workers=None, simulate=None, depth=None, env=None,
        timeout=1500, coverage=False, seed=None, cwd=None, deadlock=False,
        xmx="8g", extra=None, dfs=False, keep_raw=True, on_record=None):
    """Run TLC on SPEC/<module>.tla with SPEC/<cfg>. Returns TLCResult.
    JSON records the spec prints through PrintT(ToJson(...)) are collected."""
    cwd = cwd or SPEC
    cfg = cfg or module + ".cfg"
    md = fresh_dir(os.path.join(WORK, "tlc", "%s-%d-%s" % (module, os.getpid(), os.urandom(6).hex())))
    jopts = ["-Xmx" + xmx, "-XX:+UseParallelGC", "-XX:ParallelGCThreads=2", "-DTLA-Library=" + SPEC]
    if os.environ.get("VERIF_TLC_STRICT", "0") == "1":
        jopts.append("-Dtlc2.value.impl.LazyValue.off=true")   # call-by-value: every operator argument / LET evaluated once
    if dfs:
        jopts.append("-Dtlc2.tool.queue.IStateQueue=StateDeque")
    cmd = ["tlc"]   # wrapper on PATH: has the CommunityModules on its classpath
    e = dict(os.environ)
    e["JAVA_TOOL_OPTIONS"] = " ".join(jopts)
    if env:
        e.update({k: str(v) for k, v in env.items()})
    # TLC creates an (empty) tlc-<n> directory under java.io.tmpdir per run: keep it inside the metadir, which is removed
    e["JAVA_TOOL_OPTIONS"] = (e.get("JAVA_TOOL_OPTIONS", "") + " -Djava.io.tmpdir=" + md).strip()
    cmd += ["-metadir", md, "-config", cfg]
    cmd += ["-workers", str(workers or 1)]
    if not deadlock:
        cmd += ["-deadlock"]
    if simulate:
        cmd += ["-simulate", "num=%d" % simulate]
        if depth:
            cmd += ["-depth", str(depth)]
    if seed is not None:
        cmd += ["-seed", str(seed)]
    if coverage:
        cmd += ["-coverage", "1"]
    if extra:
        cmd += extra
    cmd += [module + ".tla"]
    r = TLCResult()
    t0 = time.time()
    try:
        p = subprocess.Popen(cmd, cwd=cwd, env=e, stdout=subprocess.PIPE,
                             stderr=subprocess.STDOUT, text=True, errors="replace")
    except OSError as ex:
        raise InfraError("cannot start tlc: %s" % ex)
    raw = []
    deadline = t0 + timeout
    import threading
    killer = threading.Timer(timeout, p.kill)
    killer.daemon = True
    killer.start()
    try:
        for line in p.stdout:
            line = line.rstrip("\n")
            if line.startswith('"{') and line.endswith('}"'):
                try:
                    rec = json.loads(json.loads(line))
                except Exception:
                    raw.append(line)
                    continue
                if on_record:
                    on_record(rec)
                else:
                    r.records.append(rec)
                continue
            raw.append(line)
            if time.time() > deadline:
                p.kill()
                raise InfraError("tlc timeout on %s" % module)
        p.wait(timeout=max(1, deadline - time.time()))
    except subprocess.TimeoutExpired:
        p.kill()
        raise InfraError("tlc timeout on %s" % module)
    finally:
        killer.cancel()
        shutil.rmtree(md, ignore_errors=True)
    if p.returncode in (-9, 137):
        raise InfraError("tlc timeout (%ss) on %s" % (timeout, module))
    r.exit = p.returncode
    r.wall = time.time() - t0
    r.raw = "\n".join(raw)
    for line in raw:
        m = re.match(r"^(\d+) states generated, (\d+) distinct states found", line)
        if m:
            r.generated, r.distinct = int(m.group(1)), int(m.group(2))
        m = re.match(r"^The depth of the complete state graph search is (\d+)", line)
        if m:
            r.depth = int(m.group(1))
        m = re.match(r"^Error: Invariant (\S+) is violated", line)
        if m:
            r.violated = m.group(1)
        m = re.match(r"^Error: Action property (\S+) is violated", line)
        if m:
            r.violated = m.group(1)
        m = re.match(r"^<(\w+) line .* of module \w+>: (\d+):(\d+)", line)
        if m:
            r.coverage[m.group(1)] = (int(m.group(2)), int(m.group(3)))
    if r.exit not in (0, 10, 11, 12, 13):
        raise InfraError("tlc failed on %s (exit %s):\n%s" % (module, r.exit, "\n".join(raw[-40:])))
    return r


def mc(workdir, name, extends, body, cfg):
    """Write a model module + cfg into workdir (the spec proper stays in
    SPEC and is found through TLA-Library)."""
    ensure_dir(workdir)
    write(os.path.join(workdir, name + ".tla"),
          "---- MODULE %s ----\nEXTENDS %s\n%s\n====\n" % (name, extends, body))
    write(os.path.join(workdir, name + ".cfg"), cfg)
    return name


# -------------------------------------------------------------- C++ build --

def file_hash(paths):
    h = hashlib.sha256()
    for p in sorted(paths):
        h.update(p.encode())
        with open(p, "rb") as f:
            h.update(f.read())
    return h.hexdigest()[:24]


def tree_files(d, exts=(".hpp", ".cpp", ".h", ".in")):
    out = []
    for dp, _, fs in os.walk(d):
        for f in fs:
            if f.endswith(exts):
                out.append(os.path.join(dp, f))
    return out


def cxx(src, flags=(), compiler="g++", deps=(), name=None, includes=(), link=(), timeout=900, syntax_only=False):
    """Compile one harness TU against /repo's working tree. Cached by content
    of source + sbepp.hpp + deps + flags. Returns path of the binary (or True
    for syntax_only). Raises InfraError with compiler output on failure;
    callers that *expect* possible failure use try_cxx."""
    ok, out = try_cxx(src, flags, compiler, deps, name, includes, link, timeout, syntax_only)
    if not ok:
        raise InfraError("compile failed: %s\n%s" % (src, out[-6000:]))
    return out


def try_cxx(src, flags=(), compiler="g++", deps=(), name=None, includes=(), link=(), timeout=900, syntax_only=False):
    deps = list(deps) + [SBEPP_HPP] + [os.path.join(HARNESS, f) for f in os.listdir(HARNESS) if f.endswith(".hpp")]
    key = sha(compiler, " ".join(flags), " ".join(includes), " ".join(link), file_hash([src] + deps), "syn" if syntax_only else "bin")
    bdir = ensure_dir(os.path.join(CACHE, "bin"))
    out = os.path.join(bdir, (name or os.path.basename(src).split(".")[0]) + "-" + key)
    if os.path.exists(out):
        if syntax_only:
            return (read(out) == "ok", read(out + ".log") if os.path.exists(out + ".log") else "")
        return True, out
    cmd = [compiler, "-D" + GUARD, "-I" + SBEPP_INC, "-I" + HARNESS, "-isystem", "/root/miniconda/include"]
    for i in includes:
        cmd += ["-I" + i]
    cmd += list(flags)
    if syntax_only:
        cmd += ["-fsyntax-only", src]
    else:
        tmp_bin = out + ".tmp-" + os.urandom(6).hex()
        cmd += [src, "-o", tmp_bin] + list(link)
    def once():
        try:
            return subprocess.run(cmd, stdout=subprocess.PIPE, stderr=subprocess.STDOUT, text=True, timeout=timeout, errors="replace")
        except subprocess.TimeoutExpired:
            raise InfraError("compiler timeout: %s" % src)
    p = once()
    # A failure that the compiler locates in an installed system header (or a compiler that died) may be the
    # environment and not the code (seen once under heavy load: "source file is not valid UTF-8" for an intact
    # /usr/include/c++/12/array): such a failure only counts if a second run repeats it.
    if p.returncode != 0 and (p.returncode < 0 or re.search(r"^/usr/[^\n]*: (fatal )?error:|internal compiler error|PLEASE submit a bug report",
                                                            p.stdout, re.M)):
        log("compile failure involving a system header - compiling once more: %s" % " ".join(cmd[:3] + cmd[-2:]))
        time.sleep(1.0)
        p = once()
    if syntax_only:
        # a failure caused by a missing file is an infrastructure glitch, not a
        # property of the source: never remembered
        if p.returncode == 0 or not re.search(r"fatal error: .*(No such file or directory|file not found)", p.stdout):
            write(out + ".log", p.stdout)
            write(out, "ok" if p.returncode == 0 else "fail")
        return p.returncode == 0, p.stdout
    if p.returncode != 0:
        return False, p.stdout
    os.replace(tmp_bin, out)
    return True, out


import threading
_sbeppc_lock = threading.Lock()


def build_sbeppc(kind="plain"):
    """Build sbeppc from /repo's working tree (content-addressed cache)."""
    with _sbeppc_lock:
        return _build_sbeppc(kind)


def _build_sbeppc(kind="plain"):
    srcs = tree_files(os.path.join(SBEPPC_SRC, "sbepp", "sbeppc"))
    flagsets = {
        "plain": ["-O1", "-g0", "-DNDEBUG"],
        "san": ["-O1", "-g", "-fsanitize=address,undefined", "-fno-sanitize-recover=undefined",
                "-D_GLIBCXX_ASSERTIONS", "-fno-omit-frame-pointer"],
    }
    # development aid (tools/coverage.py): VERIF_SBEPPC_COV=1 builds the `plain`
    # flavour with gcov instrumentation, so that a run of the checks shows which
    # lines of sbeppc no explored schema reaches.  Never set by a check.
    if kind == "plain" and os.environ.get("VERIF_SBEPPC_COV") == "1":
        kind = "cov"
        flagsets["cov"] = ["-O0", "-g0", "-DNDEBUG", "--coverage", "-fprofile-update=atomic"]
    flags = flagsets[kind]
    key = sha(kind, " ".join(flags), file_hash(srcs))
    bdir = ensure_dir(os.path.join(CACHE, "sbeppc"))
    out = os.path.join(bdir, "sbeppc-%s-%s" % (kind, key))
    if os.path.exists(out):
        return out
    tmp_out = out + ".tmp-" + os.urandom(6).hex()
    bi = os.path.join(bdir, "build_info-%s.cpp" % key)
    tmpl = read(os.path.join(SBEPPC_SRC, "sbepp", "sbeppc", "build_info.cpp.in"))
    write(bi, re.sub(r"@[A-Za-z_]+@", "1.7.0", tmpl))
    cmd = ["g++", "-std=c++17", "-D" + GUARD, "-DFMT_SHARED", "-I" + SBEPPC_SRC, "-I" + SBEPP_INC,
           "-isystem", "/root/miniconda/include"] + flags + [
        os.path.join(SBEPPC_SRC, "sbepp", "sbeppc", "main.cpp"), bi, "-o", tmp_out,
        "-Wl,-rpath,/root/miniconda/lib", "/root/miniconda/lib/libfmt.so", "/usr/lib/x86_64-linux-gnu/libpugixml.so"]
    t0 = time.time()
    p = subprocess.run(cmd, stdout=subprocess.PIPE, stderr=subprocess.STDOUT, text=True, errors="replace")
    if p.returncode != 0:
        raise InfraError("sbeppc (%s) does not build from the working tree:\n%s" % (kind, p.stdout[-4000:]))
    os.replace(tmp_out, out)
    log("built sbeppc[%s] in %.0fs" % (kind, time.time() - t0))
    return out


def run(cmd, timeout=600, env=None, cwd=None, stdin=None):
    e = dict(os.environ)
    if env:
        e.update({k: str(v) for k, v in env.items()})
    try:
        p = subprocess.run([str(c) for c in cmd], stdout=subprocess.PIPE, stderr=subprocess.PIPE, text=True, errors="replace",
                           timeout=timeout, env=e, cwd=cwd, input=stdin)
    except subprocess.TimeoutExpired as ex:
        class R:
            returncode = -999
            stdout = (ex.stdout or b"").decode(errors="replace") if isinstance(ex.stdout, bytes) else (ex.stdout or "")
            stderr = "TIMEOUT"
        return R()
    return p


# ------------------------------------------------------ findings/evidence --

def load_known():
    p = os.path.join(ROOT, "known_findings.json")
    if not os.path.exists(p):
        return {"known": [], "fixed": []}
    return json.load(open(p))


class Verdict:
    """Collects violations for one check run, downgrading exactly the listed
    known findings (matched by signature) to KNOWN-FINDING lines."""

    def __init__(self, pid, tier, seed):
        self.pid, self.tier, self.seed = pid, tier, seed
        self.t0 = time.time()
        self.violations = []     # (signature, description, replay path)
        self.known_hit = {}
        self.known = [k for k in load_known().get("known", []) if k["property"] == pid]
        self.cov = {"evaluations": 0, "distinct_nontrivial": 0, "states": 0, "transitions": 0,
                    "traces_validated_against_impl": 0, "samples": [], "rule": "", "parts": {}}
        self.assumptions = []
        self._nv = 0

    def violation(self, signature, desc, replay_obj=None):
        """signature: stable string naming the class of failing case (action,
        configuration, argument class) - matched against known_findings."""
        for k in self.known:
            if re.fullmatch(k["signature"], signature):
                self.known_hit.setdefault(k["signature"], [k, 0])[1] += 1
                return False
        self._nv += 1
        path = None
        if len(self.violations) < 50:
            d = ensure_dir(os.path.join(REPLAYS, self.pid))
            path = os.path.join(d, "%d.json" % self._nv)
            write(path, json.dumps({"property": self.pid, "signature": signature, "desc": desc, "case": replay_obj}, indent=1))
            self.violations.append((signature, desc, path))
        return True

    def add(self, **kw):
        for k, v in kw.items():
            if k == "samples":
                for s in v:
                    if len(self.cov["samples"]) < 8:
                        self.cov["samples"].append(s)
            elif isinstance(v, (int, float)) and k in self.cov and isinstance(self.cov[k], (int, float)):
                self.cov[k] += v
            else:
                self.cov[k] = v

    def part(self, name, **kw):
        self.cov["parts"].setdefault(name, {}).update(kw)

    def finish(self, level, explanation=""):
        for sig, (k, n) in sorted(self.known_hit.items()):
            print("KNOWN-FINDING: property=%s %s [signature %s, %d case(s) this run]" % (self.pid, k["what"], sig, n))
        for sig, desc, path in self.violations[:20]:
            print("VIOLATION property=%s replay=%s" % (self.pid, path))
            print("  signature: %s" % sig)
            print("  %s" % desc[:1500])
        if self._nv > 20:
            print("(%d violations in total)" % self._nv)
        cov = dict(self.cov)
        if explanation:
            cov["explanation"] = explanation
        cov["known_findings_matched"] = {s: n for s, (k, n) in self.known_hit.items()}
        if not cov["samples"]:
            cov["samples"] = ["(no sample recorded)"]
        ev = {"property_id": self.pid, "tier": self.tier, "seed": self.seed, "level": level,
              "coverage": cov, "assumptions": self.assumptions,
              "wall_s": round(time.time() - self.t0, 2), "violations": self._nv}
        write(os.path.join(EVIDENCE, self.pid + ".json"), json.dumps(ev, indent=1))
        return 1 if self._nv else 0


class SubVerdict(Verdict):
    """Verdict for running another property's check as a sub-step: collects its
    violations (after that property's own known-finding matching) without
    writing its evidence file; the caller folds what belongs to it."""

    def finish(self, level, explanation=""):
        self.level = level
        return 1 if self._nv else 0


def chunks(xs, n):
    for i in range(0, len(xs), n):
        yield xs[i:i + n]


def parallel(jobs, fn, nproc=None):
    """Run fn(job) for each job in a thread pool (jobs are subprocess-bound)."""
    from concurrent.futures import ThreadPoolExecutor
    with ThreadPoolExecutor(max_workers=nproc or NCPU) as ex:
        return list(ex.map(fn, jobs))


# ---------------------------------------------------------- code generation --

_gen_lock = threading.Lock()


def gen_headers(xml_text, name, sbeppc=None, extra_files=None):
    """Run the real sbeppc (plain build of the working tree) on xml_text.
    Returns (include_dir, result) - cached by sbeppc binary identity + input."""
    sbeppc = sbeppc or build_sbeppc("plain")
    with _gen_lock:
        return _gen_headers(xml_text, name, sbeppc, extra_files)


@contextlib.contextmanager
def file_lock(path):
    """Cross-process exclusive lock (checks may run concurrently and share the
    content-addressed caches)."""
    ensure_dir(os.path.dirname(path))
    f = open(path, "a")
    try:
        fcntl.flock(f, fcntl.LOCK_EX)
        yield
    finally:
        try:
            fcntl.flock(f, fcntl.LOCK_UN)
        finally:
            f.close()


def _gen_headers(xml_text, name, sbeppc, extra_files):
    key = sha(os.path.basename(sbeppc), xml_text, json.dumps(extra_files or {}, sort_keys=True))
    d = os.path.join(CACHE, "gen", name + "-" + key)
    if os.path.exists(os.path.join(d, ".ok")):
        return os.path.join(d, "out")
    with file_lock(os.path.join(CACHE, "gen", ".lock-" + name + "-" + key)):
        if os.path.exists(os.path.join(d, ".ok")):
            return os.path.join(d, "out")
        # a directory without .ok is the debris of an interrupted run; nobody
        # else can be writing it while we hold the lock
        fresh_dir(d)
        write(os.path.join(d, name + ".xml"), xml_text)
        for fn, txt in (extra_files or {}).items():
            write(os.path.join(d, fn), txt)
        p = run([sbeppc, "--output-dir", os.path.join(d, "out"), os.path.join(d, name + ".xml")], timeout=120)
        if p.returncode != 0:
            raise SbeppcRejected(name, p.returncode, p.stdout + p.stderr, os.path.join(d, name + ".xml"))
        write(os.path.join(d, ".ok"), "")
        return os.path.join(d, "out")


class SbeppcRejected(Exception):
    def __init__(self, name, rc, out, xml):
        Exception.__init__(self, "sbeppc rejected %s (rc=%s): %s" % (name, rc, out[-2000:]))
        self.name, self.rc, self.out, self.xml = name, rc, out, xml


def run_harness(binary, args, timeout=900, env=None):
    """Run a harness; parse MISMATCH / STAT lines. Returns (mismatches, stat, proc)."""
    p = run([binary] + [str(a) for a in args], timeout=timeout, env=env)
    mism, counts, stat = [], [], None
    for line in p.stdout.splitlines():
        if line.startswith("MISMATCH_COUNT "):
            counts.append(json.loads(line[15:]))
        elif line.startswith("MISMATCH "):
            mism.append(json.loads(line[9:]))
        elif line.startswith("STAT "):
            stat = json.loads(line[5:])
    if stat is None:
        raise InfraError("harness %s %s gave no STAT (rc=%s)\nstdout: %s\nstderr: %s" % (
            binary, args, p.returncode, p.stdout[-2000:], p.stderr[-3000:]))
    return mism, stat, p


def write_ndjson(path, recs):
    ensure_dir(os.path.dirname(path))
    with open(path, "w") as f:
        for r in recs:
            f.write(json.dumps(r, separators=(",", ":")) + "\n")


def validate_trace(v, trace_module, trace_path, workdir, consts_cfg="", body="", extra_env=None, dfs=False, timeout=900):
    """Validate one recorded ndjson trace against SPEC/<trace_module>.tla.
    Accepted <=> TLC explores a behaviour that consumes every line
    (POSTCONDITION TraceAccepted). A rejection is re-run once before it is
    reported. Returns (accepted, TLCResult)."""
    name = "TV_" + trace_module
    cfg = "SPECIFICATION TraceSpec\nPOSTCONDITION TraceAccepted\nCHECK_DEADLOCK FALSE\n" + consts_cfg
    mc(workdir, name, trace_module, body, cfg)
    env = {"TRACE": trace_path}
    env.update(extra_env or {})
    for attempt in (1, 2):
        r = tlc(name, cwd=workdir, workers=1, env=env, dfs=dfs, timeout=timeout)
        accepted = r.exit == 0 and "TraceAccepted" not in r.raw.split("Starting...")[-1].replace("POSTCONDITION TraceAccepted", "")
        if accepted:
            return True, r
    return False, r
