"""Generated schemas: runs spec/SchemaBuild.tla in TLC's simulation mode and
transliterates the finished schema of every behaviour into the schema JSON of
the pipeline.  Python chooses the scope (how many behaviours, which seed, the
bounds of the machine); the schemas themselves - and that they are valid - come
from TLC (SchemaBuild.tla builds them, Rules.tla FinishedIsValid judges them)."""
import json
import os

import rulesgen
import vlib

BOUNDS = {"MaxSteps": 44, "MaxMsgs": 3, "MaxComps": 2, "MaxElems": 4, "MaxFields": 5, "MaxGroups": 2, "MaxData": 2, "MaxDepth": 2}


def generated_schemas(n, seed, prefix="gn"):
    """n schemas (packages <prefix>1 .. <prefix>n), deterministic in (n, seed, spec text)."""
    spec_files = [os.path.join(vlib.SPEC, f) for f in ("SchemaBuild.tla", "Rules.tla", "Sbe.tla")]
    key = vlib.sha("schemabuild", str(n), str(seed), prefix, json.dumps(BOUNDS, sort_keys=True), vlib.file_hash(spec_files))
    cpath = os.path.join(vlib.CACHE, "schemabuild", key + ".json")
    if os.path.exists(cpath):
        return json.load(open(cpath))
    with vlib.file_lock(os.path.join(vlib.CACHE, "schemabuild", ".lock-" + key)):
        if os.path.exists(cpath):
            return json.load(open(cpath))
        d = os.path.join(vlib.WORK, "schemabuild", key)
        cfg = "CONSTANT Pkg = \"%s\"\n" % prefix + "".join("CONSTANT %s = %d\n" % kv for kv in sorted(BOUNDS.items()))
        cfg += "INIT Init\nNEXT Next\nINVARIANT TypeOK\nINVARIANT FinishedIsValid\nINVARIANT EmitFinished\n"
        vlib.mc(d, "MC_SchemaBuild", "SchemaBuild", "", cfg)
        r = vlib.tlc("MC_SchemaBuild", cwd=d, workers=1, simulate=n, depth=200, seed=seed, xmx="3g", timeout=900,
                     env={"JAVA_TOOL_OPTIONS_EXTRA": ""})
        if r.violated:
            raise vlib.InfraError("SchemaBuild.tla: %s violated - the generator built a schema Rules.tla does not accept:\n%s" % (
                r.violated, r.raw[-3000:]))
        recs = [x["schema"] for x in r.records if x.get("kind") == "schema"]
        if len(recs) < n:
            raise vlib.InfraError("SchemaBuild.tla produced %d schemas, %d wanted:\n%s" % (len(recs), n, r.raw[-2000:]))
        out = []
        for i, N in enumerate(recs[:n]):
            S = rulesgen.denormalize(N)
            S["package"] = "%s%d" % (prefix, i + 1)
            out.append(S)
        vlib.write(cpath + ".tmp%d" % os.getpid(), json.dumps(out))
        os.replace(cpath + ".tmp%d" % os.getpid(), cpath)
        return out
