"""C07: TLC vector (entity list + PublicPaths)  ->  (a) JSON schema for
schema.to_xml, (b) the "touch everything" translation unit.

This module knows names, kinds and attribute spelling only.  Every C++ path it
writes is a path TLC put into `paths` (PublicPaths of spec/Names.tla); every
string it compares a trait against is a schema name of the vector.  It never
decides whether something has to compile - the compilers do.
"""
import catalogue as cat

PKG = "c07s"

TYPE_KINDS = ("ptype", "itype")
ENUM_KINDS = ("penum", "ienum")
SET_KINDS = ("pset", "iset")
COMP_KINDS = ("pcomp", "icomp")
PUBLIC = ("ptype", "penum", "pset", "pcomp")


class Rec:
    def __init__(self, rec):
        self.rec = rec
        self.ents = {e["id"]: e for e in rec["ents"]}
        self.order = [e["id"] for e in rec["ents"]]
        self.kids = {}
        for i in self.order:
            self.kids.setdefault(self.ents[i]["parent"], []).append(i)

    def children(self, i, kinds=None):
        return [self.ents[j] for j in self.kids.get(i, []) if kinds is None or self.ents[j]["kind"] in kinds]

    def roots(self):
        return [self.ents[j] for j in self.kids.get(0, [])]


# ----------------------------------------------------------------- schema --

def _opt(d, key, val):
    if val not in ("", None):
        d[key] = val


def _common(d, e):
    _opt(d, "description", e["desc"])
    _opt(d, "semanticType", e["styp"])
    return d


def enc_json(R, e):
    k = e["kind"]
    if k in TYPE_KINDS:
        d = {"kind": "type", "name": e["name"], "prim": e["prim"]}
        if e["len"] != 1:
            d["length"] = e["len"]
        if e["pres"] in ("optional", "constant"):
            d["presence"] = e["pres"]
        _opt(d, "min", e["min"])
        _opt(d, "max", e["max"])
        _opt(d, "null", e["null"])
        if e["pres"] == "constant" and e["vref"] == "":
            d["const"] = e["const"]
        _opt(d, "valueRef", e["vref"])
        _opt(d, "charEnc", e["cenc"])
        return _common(d, e)
    if k in ENUM_KINDS:
        return _common({"kind": "enum", "name": e["name"], "enc": e["prim"],
                        "values": [_common({"name": v["name"], "value": v["const"]}, v) for v in R.children(e["id"], ("evalue",))]}, e)
    if k in SET_KINDS:
        return _common({"kind": "set", "name": e["name"], "enc": e["prim"],
                        "choices": [_common({"name": c["name"], "index": c["idx"]}, c) for c in R.children(e["id"], ("choice",))]}, e)
    if k in COMP_KINDS:
        return _common({"kind": "composite", "name": e["name"],
                        "elements": [enc_json(R, m) for m in R.children(e["id"])]}, e)
    if k == "ref":
        return _common({"kind": "ref", "name": e["name"], "type": e.get("tname") or R.ents[e["target"]]["name"]}, e)
    raise ValueError(k)


def level_json(R, e):
    d = {"name": e["name"], "id": e["id"], "fields": [], "groups": [], "data": []}
    if e["bl"] >= 0:
        d["blockLength"] = e["bl"]
    _common(d, e)
    for m in R.children(e["id"]):
        if m["kind"] == "field":
            f = {"name": m["name"], "id": m["id"],
                 "type": m.get("tname") or (R.ents[m["target"]]["name"] if m["target"] else m["prim"])}
            if m["pres"] in ("optional", "constant"):
                f["presence"] = m["pres"]
            _opt(f, "valueRef", m["vref"])
            d["fields"].append(_common(f, m))
        elif m["kind"] == "group":
            g = level_json(R, m)
            _opt(g, "dimensionType", m["dim"])
            d["groups"].append(g)
        elif m["kind"] == "data":
            d["data"].append(_common({"name": m["name"], "id": m["id"], "type": m["dim"] or "varDataEncoding"}, m))
    return d


def build_schema(rec, pkg=PKG):
    """entity list -> JSON schema (Appendix C shape).  The three conventional
    support composites are added when the vector does not define them."""
    R = Rec(rec)
    types = [enc_json(R, e) for e in R.roots() if e["kind"] in PUBLIC]
    msgs = [level_json(R, e) for e in R.roots() if e["kind"] == "message"]
    have = {t["name"] for t in types}
    kinds = {e["kind"] for e in rec["ents"]}
    support = []
    if "messageHeader" not in have:
        support.append(cat.header())
    if "group" in kinds and "groupSizeEncoding" not in have:
        support.append(cat.dim())
    if "data" in kinds and "varDataEncoding" not in have:
        support.append(cat.vardata())
    S = {"package": pkg, "id": 7, "version": 1, "byteOrder": "littleEndian", "types": support + types, "messages": msgs}
    hdr = [e["hdr"] for e in rec["ents"] if e.get("hdr")]
    if hdr:
        S["headerType"] = hdr[0]       # the reference text, as spelled by the vector
    return S


def header_owner(rec):
    """file stem -> (directory, slot label) for the public types and messages of
    the vector (names only: sbeppc documents `types/<name>.hpp`, `messages/<name>.hpp`)."""
    out = {}
    for e in rec["ents"]:
        if e["parent"] == 0 and e["kind"] in PUBLIC:
            out[("types", e["name"])] = e["slot"] or e["name"]
        elif e["parent"] == 0 and e["kind"] == "message":
            out[("messages", e["name"])] = e["slot"] or e["name"]
    return out


# ------------------------------------------------------------------- touch --

PRELUDE = r'''// generated by tools/namesgen.py from a TLC vector - names and kinds only
#include <%(inc)s>
#include <type_traits>
#include <cstddef>
namespace c07 {
template<class T> inline void use(T&&) {}
constexpr bool streq(const char* a, const char* b) { return *a == *b && (*a == '\0' || streq(a + 1, b + 1)); }
static char buf[4096];
struct sink { template<class... A> void operator()(A&&...) const {} };
// recursive visitor: every visit()/visit_children() entry point and every traits class, reached by tag
struct rv {
    template<class T, class C, class Tag> void on_message(T m, C& c, Tag) {
        use(::sbepp::message_traits<Tag>::name()); ::sbepp::visit(::sbepp::get_header(m), *this); ::sbepp::visit_children(m, c, *this); }
    template<class T, class C, class Tag> bool on_group(T g, C& c, Tag) {
        use(::sbepp::group_traits<Tag>::name()); ::sbepp::visit_children(g, c, *this); return false; }
    template<class T, class C> bool on_group(T g, C& c, const char* n) { use(n); ::sbepp::visit_children(g, c, *this); return false; }
    template<class T, class C, class... R> bool on_entry(T e, C& c, R...) { ::sbepp::visit_children(e, c, *this); return false; }
    template<class T, class Tag> bool on_data(T d, Tag) { use(::sbepp::data_traits<Tag>::name()); use(d.size()); return false; }
    template<class T, class Tag> bool on_field(T f, Tag) { use(::sbepp::field_traits<Tag>::name()); enc(f, 0); return false; }
    template<class T, class Tag> bool on_type(T t, Tag) { use(::sbepp::type_traits<Tag>::name()); enc(t, 0); return false; }
    template<class T, class Tag> bool on_enum(T e, Tag) { use(::sbepp::enum_traits<Tag>::name()); enc(e, 0); return false; }
    template<class T, class Tag> bool on_set(T s, Tag) { use(::sbepp::set_traits<Tag>::name()); enc(s, 0); return false; }
    template<class T, class Tag> bool on_composite(T c, Tag) { use(::sbepp::composite_traits<Tag>::name()); enc(c, 0); return false; }
    template<class T, class Tag> void on_enum_value(T, Tag) { use(::sbepp::enum_value_traits<Tag>::name()); }
    template<class T> void on_enum_value(T, ::sbepp::unknown_enum_value_tag) {}
    template<class Tag> void on_set_choice(bool, Tag) { use(::sbepp::set_choice_traits<Tag>::name()); }
    template<class T> typename std::enable_if< ::sbepp::is_enum<T>::value>::type enc(T e, int) { ::sbepp::visit(e, *this); use(::sbepp::to_underlying(e)); }
    template<class T> typename std::enable_if< ::sbepp::is_set<T>::value>::type enc(T s, int) { ::sbepp::visit(s, *this); }
    template<class T> typename std::enable_if< ::sbepp::is_composite<T>::value>::type enc(T c, int) { ::sbepp::visit_children(c, *this); use(::sbepp::size_bytes(c)); }
    template<class T> typename std::enable_if< ::sbepp::is_array_type<T>::value>::type enc(T a, int) { use(a.size()); }
    template<class T> typename std::enable_if< ::sbepp::is_non_array_type<T>::value>::type enc(T t, int) { use(t.value()); }
    template<class T> void enc(T, long) {}
};
}  // namespace c07
'''


class Touch:
    def __init__(self, rec, pkg=PKG):
        self.R = Rec(rec)
        self.pkg = pkg
        self.p = {}
        for q in rec["paths"]:
            self.p[(q["ent"], "tag" if q["role"] == "tag" else "pub")] = q["path"]
        self.n = 0

    # ---- paths (all from the vector)
    def pub(self, e):
        return "::%s::%s" % (self.pkg, "::".join(self.p[(e["id"], "pub")]))

    def tag(self, e):
        return "::%s::%s" % (self.pkg, "::".join(self.p[(e["id"], "tag")]))

    def acc(self, e):
        return self.p[(e["id"], "pub")][-1]

    def var(self, stem):
        self.n += 1
        return "%s%d" % (stem, self.n)

    # ---- kinds
    def vk(self, e):
        k = e["kind"]
        if k in TYPE_KINDS:
            return "const" if e["pres"] == "constant" else ("array" if e["len"] != 1 else "scalar")
        if k in ENUM_KINDS:
            return "enum"
        if k in SET_KINDS:
            return "set"
        if k in COMP_KINDS:
            return "composite"
        if k == "ref":
            return self.vk(self.R.ents[e["target"]])
        if k == "field":
            if e["pres"] == "constant":
                return "const"
            return self.vk(self.R.ents[e["target"]]) if e["target"] else "scalar"
        return k

    def traits(self, e):
        k = e["kind"]
        if k in TYPE_KINDS:
            return "type_traits"
        if k in ENUM_KINDS:
            return "enum_traits"
        if k in SET_KINDS:
            return "set_traits"
        if k in COMP_KINDS:
            return "composite_traits"
        if k == "ref":
            return self.traits(self.R.ents[e["target"]])
        return {"evalue": "enum_value_traits", "choice": "set_choice_traits", "message": "message_traits",
                "field": "field_traits", "group": "group_traits", "data": "data_traits"}[k]

    def tr(self, e):
        return "::sbepp::%s< %s >" % (self.traits(e), self.tag(e))

    def named(self, e, L):
        """the tag path denotes the entity with this schema name"""
        T = self.tr(e)
        L.append('static_assert(c07::streq(%s::name(), "%s"), "tag path names entity %s");' % (T, e["name"], e["name"]))
        L.append("c07::use(%s::description()); c07::use(%s::since_version());" % (T, T))

    # ---- value-semantics type roots
    def scalar_type(self, e, L):
        X, G = self.pub(e), self.tag(e)
        T = self.tr(e)
        L.append("{ typedef %s X; typedef %s G; X x{}; c07::use(x.value()); c07::use(*x); c07::use(X::min_value()); c07::use(X::max_value());" % (X, G))
        if e["pres"] == "optional":
            L.append("  c07::use(X::null_value()); c07::use(x.has_value()); c07::use(%s::null_value());" % T)
        L.append("  c07::use(%s::min_value()); c07::use(%s::max_value()); c07::use(%s::presence()); c07::use(%s::length());" % (T, T, T, T))
        L.append("  c07::use(%s::semantic_type()); c07::use(%s::character_encoding()); c07::use(sizeof(%s::primitive_type));" % (T, T, T))
        L.append('  static_assert(std::is_same< %s::value_type, X>::value, "value_type of tag is types::%s");' % (T, e["name"]))
        L.append('  static_assert(std::is_same< ::sbepp::traits_tag_t<X>, G>::value, "traits_tag of types::%s"); }' % e["name"])

    def array_type(self, e, L):
        X, G, T = self.pub(e), self.tag(e), self.tr(e)
        L.append("{ %s<char> a{c07::buf, sizeof c07::buf}; %s<const char> ca{c07::buf, sizeof c07::buf}; c07::use(a.size()); c07::use(a.data()); c07::use(ca.size());" % (X, X))
        L.append("  c07::use(%s::length()); c07::use(%s::presence()); c07::use(%s::character_encoding());" % (T, T, T))
        L.append('  static_assert(std::is_same< %s::value_type<char>, %s<char> >::value, "value_type"); ' % (T, X))
        L.append('  static_assert(std::is_same< ::sbepp::traits_tag_t< %s<char> >, %s>::value, "traits_tag"); }' % (X, G))

    def const_type(self, e, L):
        X, T = self.pub(e), self.tr(e)
        L.append("{ %s k{}; c07::use(k); c07::use(%s::presence()); c07::use(%s::length()); }" % (X, T, T))

    def enum_values(self, e, enum_expr, L):
        for v in self.R.children(e["id"], ("evalue",)):
            VT = self.tr(v)
            self.named(v, L)
            L.append("c07::use(%s::%s); static_assert(%s::value() == %s::%s, \"enum value\");" % (enum_expr, self.acc(v), VT, enum_expr, self.acc(v)))

    def enum_type(self, e, L):
        X, G, T = self.pub(e), self.tag(e), self.tr(e)
        L.append("{ typedef %s X; typedef %s G; X x = X(); c07::use(::sbepp::to_underlying(x)); ::sbepp::visit<c07::rv>(x);" % (X, G))
        L.append("  c07::use(sizeof(%s::encoding_type));" % T)
        L.append('  static_assert(std::is_same< %s::value_type, X>::value, "value_type"); static_assert(std::is_same< ::sbepp::traits_tag_t<X>, G>::value, "traits_tag");' % T)
        self.enum_values(e, X, L)
        L.append("}")

    def set_choices(self, e, s, L):
        for c in self.R.children(e["id"], ("choice",)):
            CT = self.tag(c)
            self.named(c, L)
            n = self.acc(c)
            L.append("c07::use(%s.%s()); %s.%s(true); c07::use(::sbepp::get_by_tag< %s >(%s)); ::sbepp::set_by_tag< %s >(%s, true); c07::use(%s::index());" % (
                s, n, s, n, CT, s, CT, s, self.tr(c)))

    def set_type(self, e, L):
        X, G, T = self.pub(e), self.tag(e), self.tr(e)
        L.append("{ typedef %s X; typedef %s G; X s{}; c07::use(*s); ::sbepp::visit<c07::rv>(s); ::sbepp::visit_set(s, c07::sink());" % (X, G))
        L.append("  c07::use(sizeof(%s::encoding_type));" % T)
        L.append('  static_assert(std::is_same< %s::value_type, X>::value, "value_type"); static_assert(std::is_same< ::sbepp::traits_tag_t<X>, G>::value, "traits_tag");' % T)
        self.set_choices(e, "s", L)
        L.append("}")

    # ---- members of a view
    def member(self, o, co, e, L, cursor=None):
        """o / co: C++ expressions of a mutable / read-only parent view; e: element or field"""
        n, MT, vk = self.acc(e), self.tag(e), self.vk(e)
        T = self.tr(e)
        self.named(e, L)
        by = "::sbepp::get_by_tag< %s >" % MT
        sby = "::sbepp::set_by_tag< %s >" % MT
        if e["kind"] == "field":
            L.append("c07::use(%s::id()); c07::use(%s::presence());" % (T, T))
        L.append("c07::use(%s.%s()); c07::use(%s(%s)); c07::use(%s.%s()); c07::use(%s(%s));" % (o, n, by, o, co, n, by, co))
        if vk in ("scalar", "enum", "set"):
            L.append("%s.%s(%s.%s()); %s(%s, %s.%s());" % (o, n, o, n, sby, o, o, n))
            if vk == "scalar":
                L.append("c07::use(%s.%s().value());" % (o, n))
            if vk == "enum":
                L.append("::sbepp::visit<c07::rv>(%s.%s());" % (o, n))
            vt = "%s::value_type" % T
        elif vk in ("array", "composite"):
            vt = "%s::value_type<char>" % T
            if vk == "array":
                L.append("c07::use(%s.%s().size());" % (o, n))
        else:
            vt = None
        if vt:
            L.append('static_assert(std::is_same< decltype(%s.%s()), %s >::value, "value_type of %s");' % (o, n, vt, n))
        if cursor and vk != "const":
            c, cc = cursor
            ops = ["::sbepp::cursor_ops::dont_move(%s)" % c, "::sbepp::cursor_ops::init(%s)" % c,
                   "::sbepp::cursor_ops::init_dont_move(%s)" % c, cc]
            L.append("c07::use(%s.%s(%s)); c07::use(%s(%s, %s)); " % (o, n, c, by, o, c) +
                     " ".join("c07::use(%s.%s(%s));" % (o, n, x) for x in ops) +
                     " %s.%s(::sbepp::cursor_ops::skip(%s));" % (o, n, c))
            if vk in ("scalar", "enum", "set"):
                L.append("%s.%s(%s.%s(), %s); %s(%s, %s.%s(), %s); %s.%s(%s.%s(), ::sbepp::cursor_ops::dont_move(%s));" % (
                    o, n, o, n, c, sby, o, o, n, c, o, n, o, n, c))
        if e["kind"] == "ienum":
            self.enum_values(e, "decltype(%s.%s())" % (o, n), L)
        if e["kind"] == "iset":
            s = self.var("s")
            L.append("{ auto %s = %s.%s();" % (s, o, n))
            self.set_choices(e, s, L)
            L.append("}")
        if e["kind"] == "icomp":
            o2, co2 = self.var("o"), self.var("co")
            L.append("{ auto %s = %s.%s(); auto %s = %s.%s(); c07::use(::sbepp::size_bytes(%s)); ::sbepp::visit_children<c07::rv>(%s);" % (o2, o, n, co2, co, n, o2, o2))
            for m in self.R.children(e["id"]):
                self.member(o2, co2, m, L)
            L.append("}")

    def comp_type(self, e, L):
        X, G, T = self.pub(e), self.tag(e), self.tr(e)
        L.append("{ %s<char> o{c07::buf, sizeof c07::buf}; %s<const char> co{c07::buf, sizeof c07::buf}; %s<const char> co1 = o; c07::use(co1);" % (X, X, X))
        L.append("  c07::use(::sbepp::size_bytes(o)); ::sbepp::visit<c07::rv>(o); ::sbepp::visit_children<c07::rv>(o); ::sbepp::visit_children<c07::rv>(co);")
        L.append("  c07::use(::sbepp::make_view< %s >(c07::buf, sizeof c07::buf)); c07::use(::sbepp::make_const_view< %s >(c07::buf, sizeof c07::buf)); c07::use(%s::size_bytes());" % (X, X, T))
        L.append('  static_assert(std::is_same< %s::value_type<char>, %s<char> >::value, "value_type"); static_assert(std::is_same< ::sbepp::traits_tag_t< %s<char> >, %s>::value, "traits_tag");' % (T, X, X, G))
        for m in self.R.children(e["id"]):
            self.member("o", "co", m, L)
        L.append("}")

    # ---- levels
    def counts(self, e):
        """(number of groups in the subtree, any data in the subtree) - arity of traits::size_bytes"""
        g, d = 0, False
        for m in self.R.children(e["id"]):
            if m["kind"] == "group":
                g2, d2 = self.counts(m)
                g += 1 + g2
                d = d or d2
            elif m["kind"] == "data":
                d = True
        return g, d

    def level(self, o, co, e, L, cursor):
        c, cc = cursor
        for m in self.R.children(e["id"]):
            k = m["kind"]
            n, MT = self.acc(m), self.tag(m)
            by = "::sbepp::get_by_tag< %s >" % MT
            if k == "field":
                self.member(o, co, m, L, cursor)
            elif k == "data":
                T = self.tr(m)
                self.named(m, L)
                d = self.var("d")
                L.append("{ auto %s = %s.%s(); c07::use(%s.size()); c07::use(::sbepp::size_bytes(%s)); c07::use(%s(%s)); c07::use(%s.%s()); c07::use(%s.%s(%s)); c07::use(%s(%s, %s)); c07::use(%s.%s(::sbepp::cursor_ops::dont_move(%s))); c07::use(%s.%s(%s));" % (
                    d, o, n, d, d, by, o, co, n, o, n, c, by, o, c, o, n, c, o, n, cc))
                L.append('  c07::use(%s::id()); c07::use(%s::size_bytes(0)); c07::use(sizeof(%s::length_type)); static_assert(std::is_same< %s::value_type<char>, decltype(%s) >::value, "value_type"); }' % (T, T, T, T, d))
            elif k == "group":
                T = self.tr(m)
                self.named(m, L)
                g, cg, en, cen = self.var("g"), self.var("cg"), self.var("e"), self.var("ce")
                ng, hd = self.counts(m)
                args = ", ".join(["0"] * (1 + ng + (1 if hd else 0)))
                L.append("{ auto %s = %s.%s(); auto %s = %s.%s(); c07::use(%s); c07::use(%s(%s)); c07::use(%s.%s(%s)); c07::use(%s(%s, %s)); c07::use(%s.%s(::sbepp::cursor_ops::dont_move(%s))); c07::use(%s.%s(%s));" % (
                    g, o, n, cg, co, n, cg, by, o, o, n, c, by, o, c, o, n, c, o, n, cc))
                L.append("  ::sbepp::fill_group_header(%s, 1); c07::use(::sbepp::get_header(%s)); c07::use(::sbepp::size_bytes(%s)); c07::use(::sbepp::size_bytes_checked(%s, 64)); ::sbepp::visit<c07::rv>(%s); ::sbepp::visit_children<c07::rv>(%s); ::sbepp::visit_children<c07::rv>(%s);" % (
                    g, g, g, g, g, g, cg))
                L.append("  c07::use(%s::id()); c07::use(%s::block_length()); c07::use(%s::semantic_type()); c07::use(%s::size_bytes(%s));" % (T, T, T, T, args))
                L.append('  static_assert(std::is_same< %s::value_type<char>, decltype(%s) >::value, "value_type"); static_assert(std::is_same< ::sbepp::traits_tag_t< decltype(%s) >, %s >::value, "traits_tag");' % (T, g, g, MT))
                L.append("  %s::entry_type<char> %s{}; %s::entry_type<const char> %s{}; c07::use(::sbepp::size_bytes(%s)); ::sbepp::visit<c07::rv>(%s); ::sbepp::visit_children<c07::rv>(%s);" % (T, en, T, cen, en, en, en))
                self.level(en, cen, m, L, cursor)
                L.append("}")

    def message(self, e, L):
        X, G, T = self.pub(e), self.tag(e), self.tr(e)
        ng, hd = self.counts(e)
        args = ", ".join(["0"] * (ng + (1 if hd else 0)))
        L.append("{ %s<char> m{c07::buf, sizeof c07::buf}; %s<const char> cm{c07::buf, sizeof c07::buf}; %s<const char> cm1 = m; c07::use(cm1);" % (X, X, X))
        L.append("  ::sbepp::fill_message_header(m); c07::use(::sbepp::get_header(m)); c07::use(::sbepp::size_bytes(m)); c07::use(::sbepp::size_bytes_checked(m, sizeof c07::buf));")
        L.append("  ::sbepp::visit<c07::rv>(m); ::sbepp::visit<c07::rv>(cm); ::sbepp::visit_children<c07::rv>(m); auto c = ::sbepp::init_cursor(m); auto cc = ::sbepp::init_const_cursor(m); c07::use(::sbepp::size_bytes(m, c));")
        L.append("  c07::use(::sbepp::make_view< %s >(c07::buf, sizeof c07::buf)); c07::use(::sbepp::make_const_view< %s >(c07::buf, sizeof c07::buf));" % (X, X))
        L.append("  c07::use(%s::id()); c07::use(%s::block_length()); c07::use(%s::semantic_type()); c07::use(%s::size_bytes(%s));" % (T, T, T, T, args))
        L.append('  static_assert(std::is_same< %s::value_type<char>, %s<char> >::value, "value_type"); static_assert(std::is_same< ::sbepp::traits_tag_t< %s<char> >, %s>::value, "traits_tag");' % (T, X, X, G))
        L.append('  static_assert(std::is_same< %s::schema_tag, ::%s::schema >::value, "schema_tag");' % (T, self.pkg))
        self.level("m", "cm", e, L, ("c", "cc"))
        L.append("}")

    def root(self, e):
        L = []
        self.named(e, L)
        k = e["kind"]
        if k == "ptype":
            {"scalar": self.scalar_type, "array": self.array_type, "const": self.const_type}[self.vk(e)](e, L)
        elif k == "penum":
            self.enum_type(e, L)
        elif k == "pset":
            self.set_type(e, L)
        elif k == "pcomp":
            self.comp_type(e, L)
        elif k == "message":
            self.message(e, L)
        return L

    def schema_part(self):
        S = "::sbepp::schema_traits< ::%s::schema >" % self.pkg
        return ["c07::use(%s::package()); c07::use(%s::id()); c07::use(%s::version()); c07::use(%s::byte_order()); c07::use(%s::description());" % (S, S, S, S, S),
                "c07::use(sizeof(%s::header_type<char>)); c07::use(sizeof(%s::header_type_tag)); c07::use(sizeof(%s::type_tags)); c07::use(sizeof(%s::message_tags));" % (S, S, S, S)]

    def tu(self, only=None):
        """whole TU, or the TU touching only root entity `only` (attribution of a failure)"""
        inc = "%s/%s.hpp" % (self.pkg, self.pkg)
        if only is not None:
            e = self.R.ents[only]
            inc = "%s/%s/%s.hpp" % (self.pkg, "messages" if e["kind"] == "message" else "types", e["name"])
        out = [PRELUDE % {"inc": inc}]
        if only is None:
            out.append("void touch_schema() {\n" + "\n".join(self.schema_part()) + "\n}")
        for e in self.R.roots():
            if only is not None and e["id"] != only:
                continue
            if e["kind"] in PUBLIC or e["kind"] == "message":
                out.append("void touch_%d() {  // %s %s\n%s\n}" % (e["id"], e["kind"], e["name"], "\n".join(self.root(e))))
        out.append("int main() { return 0; }")
        return "\n".join(out) + "\n"


def touch_tu(rec, pkg=PKG, only=None):
    return Touch(rec, pkg).tu(only)
