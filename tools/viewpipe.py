"""Shared pipeline for the view machine (C01, C02, C03, C05, C17, ...):

  catalogue schema --sbeppc--> generated headers --+
        |                                          +--> harness binary
        +--viewgen--> dispatch (names only) -------+
        +--viewgen--> TLA+ record --TLC(ViewEmit)--> vectors --> harness --> mismatches

The result of one pipeline run is cached (content-addressed on /repo's relevant
sources + /verif's spec/harness/tools + tier + seed) so that the checks that
share it do not recompute it.
"""
import itertools
import json
import os
import random

import catalogue
import schema as sch
import viewgen
import vlib
from vlib import mc, tlc, try_cxx, run_harness, write_ndjson

# clang below C++20 (builtin byteswap path), g++ C++20 (bit_cast path), g++ C++11
# third element "rel": built with SBEPP_DISABLE_ASSERTS (the flavour most applications ship; the
# repository's tests only build the checked one) - view and visit machines only, the cursor machine
# has illegal calls whose outcome is the assertion
CONFIGS_QUICK = [("clang++", "c++17"), ("g++", "c++20", "rel"), ("g++", "c++11")]
CONFIGS_THOROUGH = [(c, s) for c in ("g++", "clang++") for s in ("c++11", "c++14", "c++17", "c++20", "c++2b")] + \
                   [("g++", "c++17", "rel"), ("clang++", "c++14", "rel"), ("clang++", "c++2b", "rel")]

INVARIANTS = ["TypeOK", "ImageSizes", "DecodeRefines", "SizesAgree", "StepRefines", "EncodeRefines", "MarginsIntact"]


def count_levels(m):
    return 1 + sum(count_levels(g) for g in m.get("groups", []))


def shape_tla(vs, cnt, dl, ext):
    seq = lambda xs: "<<" + ",".join(str(x) for x in xs) + ">>"
    return '[vs |-> "%s", cnt |-> %s, dl |-> %s, ext |-> %s]' % (vs, seq(cnt), seq(dl), seq(ext))


def choose_shapes(nl, k, rnd):
    """Scope selection only: which abstract messages TLC explores."""
    canon = [("pat", [2] * nl, [1] * nl, [0] * nl), ("zero", [1] * nl, [2] * nl, [0] * nl),
             ("ones", [2] * nl, [2] * nl, [0] * nl), ("pat", [1] * nl, [0] * nl, [3] * nl),
             ("pat", [0] * nl, [2] * nl, [1] * nl), ("pat", [2] * nl, [2] * nl, [1, 3, 0, 1, 3, 0, 1, 3][:nl])]
    total = 3 * (3 ** nl) ** 3
    out = list(canon)
    if total <= k:
        out = [(vs, list(c), list(d), list(e)) for vs in ("pat", "zero", "ones")
               for c in itertools.product(range(3), repeat=nl) for d in itertools.product(range(3), repeat=nl)
               for e in itertools.product((0, 1, 3), repeat=nl)]
    else:
        while len(out) < k:
            out.append((rnd.choice(["pat", "pat", "pat", "zero", "ones"]), [rnd.randrange(3) for _ in range(nl)],
                        [rnd.randrange(3) for _ in range(nl)], [rnd.choice((0, 0, 1, 3)) for _ in range(nl)]))
    seen, uniq = set(), []
    for s in out:
        key = json.dumps(s)
        if key not in seen:
            seen.add(key)
            uniq.append(s)
    return uniq


def pipeline_key(tier, seed, tag):
    files = [vlib.SBEPP_HPP] + vlib.tree_files(os.path.join(vlib.SBEPPC_SRC, "sbepp", "sbeppc"))
    files.append(os.path.join(vlib.ROOT, "tools", "schemabuild.py"))
    mine = [os.path.join(vlib.SPEC, f) for f in os.listdir(vlib.SPEC) if f.endswith(".tla")]
    mine += [os.path.join(vlib.HARNESS, f) for f in os.listdir(vlib.HARNESS)]
    mine += [os.path.join(vlib.ROOT, "tools", f) for f in ("viewpipe.py", "viewgen.py", "catalogue.py", "schema.py", "vlib.py", "xmlimport.py")]
    if tag.startswith("repo"):
        import glob
        files += sorted(glob.glob(os.path.join(vlib.REPO, "test", "schemas", "*.xml"))) + sorted(glob.glob(os.path.join(vlib.REPO, "benchmark", "*.xml"))) \
            + sorted(glob.glob(os.path.join(vlib.REPO, "test", "naming_test", "*.xml")))
    return vlib.sha(tag, tier, str(seed), vlib.file_hash(files + mine))


MACHINES = {
    # name: (root module, INIT, NEXT, invariants, emission lines of the cfg)
    "view": ("ViewEmit", "Init", "Next", INVARIANTS, "CONSTRAINT EmitDecode\nACTION_CONSTRAINT EmitEncode\n"),
    "cursor": ("Cursor", "CInit", "CNext", ["CTypeOK", "TableLaws", "LevelWalk"], "ACTION_CONSTRAINT EmitCursorAndStop\n"),
    "visit": ("Visit", "VInit", "VNext", ["VisitOrderComplete", "VisitLandsAtEnd"], "ACTION_CONSTRAINT EmitVisitAndStop\n"),
}


def run_schema(S, tier, seed, configs, wd, extra_cfg="", machine="view", shapes_k=None):
    """Returns dict(schema, tlc=[...], vectors=n, runs=[{config, stat, mismatches}], errors=[...])."""
    rnd = random.Random("%s-%s" % (seed, S["package"]))
    name = S["package"]
    res = {"schema": name, "tlc": [], "runs": [], "spec_violations": [], "compile_failures": [], "vectors": 0, "samples": []}
    xml = sch.to_xml(S)
    try:
        inc = vlib.gen_headers(xml, name)
    except vlib.SbeppcRejected as ex:
        res["sbeppc_rejected"] = str(ex)
        return res
    sdir = vlib.ensure_dir(os.path.join(wd, name))
    disp = os.path.join(sdir, "dispatch_%s.inc" % name)
    vlib.write(disp, viewgen.dispatch_cpp(S))
    stla = viewgen.schema_tla(S)
    root, init, nxt, invs, emit_cfg = MACHINES[machine]
    k = shapes_k or {"view": (8, 48), "cursor": (2, 12), "visit": (4, 30)}[machine][0 if tier == "quick" else 1]

    def tlc_msg(mi):
        m = S["messages"][mi - 1]
        nl = count_levels(m)
        shapes = choose_shapes(nl, k, random.Random("%s-%s-%d" % (seed, name, mi)))
        if machine == "cursor" and tier == "quick" and nl >= 4 and len(shapes) >= 6:
            # every (instance, landmark, member, wrapper) is a transition: deep messages get three of the
            # canonical shapes in the quick tier (full counts with mixed extensions, one entry with long
            # extensions, full counts under the compiled geometry); the thorough tier keeps them all
            shapes = [shapes[5], shapes[3], shapes[0]]
        body = "SDef == %s\nShapesDef == {%s}\n" % (stla, ",\n ".join(shape_tla(*s) for s in shapes))
        cfg = "CONSTANT S <- SDef\nCONSTANT MI = %d\nCONSTANT Shapes <- ShapesDef\nCONSTANT Margin = 8\nINIT %s\nNEXT %s\n" % (mi, init, nxt)
        cfg += "".join("INVARIANT %s\n" % i for i in invs)
        cfg += emit_cfg + extra_cfg
        d = os.path.join(sdir, "mc-%s-%d" % (machine, mi))
        mc(d, "MC_View", root, body, cfg)
        r = tlc("MC_View", cwd=d, workers=1 if machine == "view" else 3, xmx="3g", timeout=2700)
        return mi, m["name"], len(shapes), r

    vectors = []
    for mi, mname, nsh, r in vlib.parallel(range(1, len(S["messages"]) + 1), tlc_msg, nproc=6):
        res["tlc"].append({"msg": mname, "shapes": nsh, "distinct": r.distinct, "generated": r.generated,
                           "exit": r.exit, "wall_s": round(r.wall, 1), "vectors": len(r.records)})
        if not r.ok:
            res["spec_violations"].append({"msg": mname, "violated": r.violated, "tail": r.raw[-1200:]})
            continue
        vectors += r.records
    if machine == "visit":
        # visiting enum values: one small TLC run per schema (EnumVisit.tla)
        d = os.path.join(sdir, "mc-enumvisit")
        mc(d, "MC_EnumVisit", "EnumVisit", "EnumsDef == %s\n" % viewgen.enums_tla(S),
           "CONSTANT Enums <- EnumsDef\nINIT Init\nNEXT Next\nINVARIANT TagIsFunctional\nINVARIANT ValuesDistinct\nACTION_CONSTRAINT EmitEnumAndStop\n")
        r = tlc("MC_EnumVisit", cwd=d, workers=1, xmx="2g", timeout=600)
        res["tlc"].append({"msg": "(enums)", "shapes": 0, "distinct": r.distinct, "generated": r.generated,
                           "exit": r.exit, "wall_s": round(r.wall, 1), "vectors": len(r.records)})
        if not r.ok:
            res["spec_violations"].append({"msg": "(enums)", "violated": r.violated, "tail": r.raw[-1200:]})
        else:
            vectors += r.records
    vec = os.path.join(sdir, "vectors-%s.ndjson" % machine)
    write_ndjson(vec, vectors)
    res["vectors"] = len(vectors)
    for kind in ("decode", "encode", "cursor", "visit"):
        for x in vectors:
            if x["kind"] == kind:
                s = dict(x)
                for big in ("buf", "pre", "post"):
                    if big in s:
                        s[big] = "%d bytes: %s..." % (len(s[big]), s[big][:24])
                if "insts" in s:
                    s["insts"] = s["insts"][:2]
                    s["groups"] = s["groups"][:1]
                res["samples"].append(s)
                break

    src = os.path.join(vlib.HARNESS, "view_main.cpp")

    def flavour(cfg):
        rel = len(cfg) > 2 and cfg[2] == "rel" and machine != "cursor"
        return (["-DVH_RELEASE"] if rel else []), ("-rel" if rel else "")

    def build_run(cfg):
        comp, std = cfg[0], cfg[1]
        fl, sfx = flavour(cfg)
        ok, out = try_cxx(src, flags=["-std=" + std, "-O1", "-w", '-DVH_DISPATCH="%s"' % disp] + fl, compiler=comp,
                          includes=[inc], deps=[disp], name="view-%s-%s-%s%s" % (name, comp, std, sfx))
        if not ok:
            return cfg, None, out
        mism, stat, p = run_harness(out, ["replay", name, vec], timeout=1200)
        return cfg, (mism, stat), None

    for cfg, r, err in vlib.parallel(configs, build_run, nproc=max(1, min(len(configs), 4))):
        if r is None:
            res["compile_failures"].append({"config": list(cfg), "out": err[-3000:]})
        else:
            res["runs"].append({"config": list(cfg), "stat": r[1], "mismatches": r[0]})

    # ---- constant evaluation: decode vectors as static_asserts (C++20)
    res["constexpr"] = []
    if machine == "view":
        cxsrc, ncx = viewgen.CxGen(S).source(vectors if tier == "thorough" else vectors[:400], 4000 if tier == "quick" else 40000)
        cxp = os.path.join(sdir, "cx_%s.cpp" % name)
        vlib.write(cxp, cxsrc)
        for comp in (("g++", "clang++") if tier == "thorough" else ("g++",)):
            ok, out = try_cxx(cxp, flags=["-std=c++20", "-w", "-fconstexpr-ops-limit=1000000000" if comp == "g++" else "-fconstexpr-steps=500000000"],
                              compiler=comp, includes=[inc], syntax_only=True, name="viewcx-%s" % name)
            fails = [l.strip() for l in out.splitlines() if "static assertion failed" in l or "static_assert failed" in l or "non-constant condition" in l or "not a constant expression" in l]
            res["constexpr"].append({"config": [comp, "c++20"], "asserts": ncx, "ok": ok, "fails": fails[:40],
                                     "other": "" if ok or fails else out[-2500:]})

    # ---- code -> spec: recorded random in-order encodings validated by ViewTrace.tla
    res["traces"] = []
    if machine == "view" and res["runs"]:
        cfg0 = res["runs"][0]["config"]
        comp, std = cfg0[0], cfg0[1]
        fl, sfx = flavour(cfg0)
        ok, binary = try_cxx(src, flags=["-std=" + std, "-O1", "-w", '-DVH_DISPATCH="%s"' % disp] + fl, compiler=comp,
                             includes=[inc], deps=[disp], name="view-%s-%s-%s%s" % (name, comp, std, sfx))
        episodes = 3 if tier == "quick" else 12

        def trace_msg(mi):
            mname = S["messages"][mi - 1]["name"]
            tp = os.path.join(sdir, "trace-%s.ndjson" % mname)
            p = vlib.run([binary, "record", name, mname, "%d" % (seed * 100 + mi), episodes, tp], timeout=300)
            if p.returncode != 0:
                return {"msg": mname, "accepted": False, "events": 0, "why": "recording failed: " + (p.stderr or "")[-600:], "trace": tp}
            nev = sum(1 for _ in open(tp))
            body = "SDef == %s\nShapesDef == {}\n" % stla
            acc, r = vlib.validate_trace(None, "ViewTrace", tp, os.path.join(sdir, "tv-%d" % mi),
                                        "CONSTANT S <- SDef\nCONSTANT MI = %d\nCONSTANT Shapes <- ShapesDef\nCONSTANT Margin = 8\n" % mi,
                                        body=body, timeout=900)
            return {"msg": mname, "accepted": acc, "events": nev, "episodes": episodes, "matched": r.depth,
                    "why": "" if acc else r.raw[-800:], "trace": tp}

        res["traces"] = vlib.parallel(range(1, len(S["messages"]) + 1), trace_msg, nproc=4)
    return res


def run_catalogue(tag, schemas, tier, seed, configs_for=None, machine="view", k_for=None):
    key = pipeline_key(tier, seed, tag)
    cpath = os.path.join(vlib.CACHE, "view", "%s-%s.json" % (tag, key))
    if os.path.exists(cpath) and os.environ.get("VERIF_NOCACHE") != "1":
        return json.load(open(cpath))
    # several checks share one pipeline (and its work directory): the first one
    # computes it, concurrent ones wait and then read the cached result
    with vlib.file_lock(os.path.join(vlib.CACHE, "view", ".lock-" + tag)):
        if os.path.exists(cpath) and os.environ.get("VERIF_NOCACHE") != "1":
            return json.load(open(cpath))
        return _run_catalogue(tag, cpath, schemas, tier, seed, configs_for, machine, k_for)


def _run_catalogue(tag, cpath, schemas, tier, seed, configs_for, machine, k_for):
    wd = vlib.ensure_dir(os.path.join(vlib.WORK, "view-" + tag))
    base = CONFIGS_THOROUGH if tier == "thorough" else CONFIGS_QUICK

    def job(iS):
        i, S = iS
        cfgs = configs_for(i, S, base) if configs_for else base
        return run_schema(S, tier, seed, cfgs, wd, machine=machine, shapes_k=k_for(S) if k_for else None)

    results = vlib.parallel(list(enumerate(schemas)), job, nproc=4)
    vlib.write(cpath + ".tmp%d" % os.getpid(), json.dumps(results))
    os.replace(cpath + ".tmp%d" % os.getpid(), cpath)
    return results


def view_results(tier, seed):
    return run_catalogue("view", catalogue.view_schemas(tier), tier, seed)


def cursor_results(tier, seed):
    # the extra (thorough-only) schemas nest three levels deep: every instance x
    # landmark x member x wrapper is a transition, so they get few shapes
    return run_catalogue("cursor", catalogue.view_schemas(tier), tier, seed, machine="cursor",
                         k_for=lambda S: 2 if S["package"].startswith("x") else None)


def visit_results(tier, seed):
    return run_catalogue("visit", catalogue.view_schemas(tier) + [catalogue.enum_schema()], tier, seed, machine="visit")


def gen_schemas(tier, seed):
    """schemas built by spec/SchemaBuild.tla (TLC simulation, seeded)"""
    import schemabuild
    return schemabuild.generated_schemas(10 if tier == "thorough" else 3, seed)


def gen_view_results(tier, seed):
    return run_catalogue("genview", gen_schemas(tier, seed), tier, seed,
                         configs_for=lambda i, S, base: base if tier == "thorough" else [base[i % len(base)]],
                         k_for=lambda S: 16 if tier == "thorough" else 5)


def gen_cursor_results(tier, seed):
    # (every instance x landmark x member x wrapper is a transition: the costliest machine gets fewer schemas)
    return run_catalogue("gencursor", gen_schemas(tier, seed)[:4 if tier == "thorough" else 1], tier, seed, machine="cursor",
                         configs_for=lambda i, S, base: base if tier == "thorough" else [base[(i + 1) % len(base)]],
                         k_for=lambda S: 3 if tier == "thorough" else 1)


def gen_visit_results(tier, seed):
    return run_catalogue("genvisit", gen_schemas(tier, seed), tier, seed, machine="visit",
                         configs_for=lambda i, S, base: base if tier == "thorough" else [base[(i + 2) % len(base)]],
                         k_for=lambda S: 8 if tier == "thorough" else 3)


def repo_schemas(tier, seed, nmsg=-1, naming=True):
    """the repository's OWN schemas (test/schemas/*.xml, benchmark schema) read by
    tools/xmlimport.py - schemas that were not written for this specification.
    quick: a seeded sample of messages per schema; thorough: every message."""
    import glob
    import xmlimport
    out = []
    if nmsg == -1:
        nmsg = 0 if tier == "thorough" else 6     # 0: every message
    paths = sorted(glob.glob(os.path.join(vlib.REPO, "test", "schemas", "*.xml"))) + \
        sorted(glob.glob(os.path.join(vlib.REPO, "benchmark", "*.xml")))
    # the name-clash schemas of the repository's naming test all use one package
    # name and are compiled with --schema-name <file name> there: same here
    if naming:
        paths += sorted(glob.glob(os.path.join(vlib.REPO, "test", "naming_test", "*.xml")))
    for p in paths:
        try:
            S = xmlimport.load(p, package=os.path.basename(p)[:-4] if "naming_test" in p else None)
        except Exception:
            continue   # not a schema this transliteration reads (never a verdict)
        if not S.get("package") or not S["messages"]:
            continue
        if nmsg and len(S["messages"]) > nmsg:
            rnd = random.Random("%s-repo-%s" % (seed, S["package"]))
            S = xmlimport.restrict(S, set(m["name"] for m in rnd.sample(S["messages"], nmsg)))
        out.append(S)
    return out


def _rot(k):
    return lambda i, S, base: [base[(i + k) % len(base)]]


def repo_view_results(tier, seed):
    return run_catalogue("repoview", repo_schemas(tier, seed), tier, seed,
                         configs_for=(lambda i, S, base: base) if tier == "thorough" else _rot(0),
                         k_for=lambda S: 12 if tier == "thorough" else 4)


def repo_visit_results(tier, seed):
    return run_catalogue("repovisit", repo_schemas(tier, seed), tier, seed, machine="visit",
                         configs_for=(lambda i, S, base: base) if tier == "thorough" else _rot(1),
                         k_for=lambda S: 8 if tier == "thorough" else 3)


def repo_cursor_results(tier, seed):
    # (every instance x landmark x member x wrapper is a transition: two messages per schema in the quick tier)
    return run_catalogue("repocursor", repo_schemas(tier, seed, 8 if tier == "thorough" else 1, naming=(tier == "thorough")), tier, seed, machine="cursor",
                         configs_for=(lambda i, S, base: base) if tier == "thorough" else _rot(2),
                         k_for=lambda S: 2 if tier == "thorough" else 1)


def header_results(tier, seed):
    def cf(i, S, base):
        # every layout gets one configuration (rotating), the first two get all
        return base if (tier == "thorough" or i < 2) else [base[i % len(base)]]
    return run_catalogue("hdr", catalogue.header_schemas(), tier, seed, cf)


def fold(v, results, want, prop_note):
    """Fold pipeline results into a Verdict. want(mismatch_case, sig) -> bool
    selects the mismatches that belong to the calling property."""
    states = trans = evals = 0
    nvec = 0
    for res in results:
        if "sbeppc_rejected" in res:
            v.violation("pipeline/sbeppc-rejects/" + res["schema"],
                        "sbeppc rejects a catalogue schema the spec considers valid: " + res["sbeppc_rejected"][-800:])
            continue
        for t in res["tlc"]:
            states += t["distinct"]
            trans += t["generated"]
        nvec += res["vectors"]
        for sv in res["spec_violations"]:
            v.violation("spec/%s/%s/%s" % (res["schema"], sv["msg"], sv["violated"]),
                        "the operational layer (View.tla) disagrees with the denotation (SbeImage.tla): %s\n%s" % (sv["violated"], sv["tail"]))
        for cf in res["compile_failures"]:
            v.violation("compile/%s/%s-%s" % (res["schema"], cf["config"][0], cf["config"][1]),
                        "harness/dispatch does not compile against the generated headers:\n" + cf["out"][-1500:])
        for cx in res.get("constexpr", []):
            if cx["ok"]:
                v.part("constexpr_%s_%s" % (res["schema"], cx["config"][0]), static_asserts=cx["asserts"])
                v.add(evaluations=cx["asserts"])
            elif want({"aspect": "value"}, "decode/constexpr/%s" % res["schema"]):
                if cx["fails"]:
                    import re as _re
                    seen = set()
                    for l in cx["fails"]:
                        mm = _re.search(r"cx (\S+?):(\S*?):(\S+) ", l) or _re.search(r"cx (\S+?):size", l)
                        key = mm.group(0).strip() if mm else "unparsed"
                        if key in seen:
                            continue
                        seen.add(key)
                        v.violation("decode/constexpr/%s:%s" % (res["schema"], key.replace("cx ", "")),
                                    "[%s c++20] constant evaluation disagrees with the encoder: %s" % (cx["config"][0], l[:400]), {"line": l})
                else:
                    v.violation("decode/constexpr-compile/%s/%s" % (res["schema"], cx["config"][0]),
                                "static_assert TU does not compile for another reason:\n" + cx["other"][-1500:])
        for t in res.get("traces", []):
            if t["accepted"]:
                v.add(traces_validated_against_impl=t.get("episodes", 0))
                v.part("trace_%s_%s" % (res["schema"], t["msg"]), events=t["events"], episodes=t.get("episodes"))
            elif want({"aspect": "trace"}, "encode/trace/%s:%s" % (res["schema"], t["msg"])):
                import shutil
                keep = os.path.join(vlib.ensure_dir(os.path.join(vlib.REPLAYS, v.pid)), "trace-%s-%s.ndjson" % (res["schema"], t["msg"]))
                if os.path.exists(t["trace"]):
                    shutil.copy(t["trace"], keep)
                v.violation("encode/trace/%s:%s" % (res["schema"], t["msg"]),
                            "recorded encoding of message %s is not a behaviour of View.tla (matched %s of %s log lines): %s" % (
                                t["msg"], t.get("matched"), t["events"], t["why"][-500:]), {"trace": keep})
        for r in res["runs"]:
            for m in r["mismatches"]:
                if want(m["case"], m["sig"]):
                    v.violation(m["sig"], "[%s] %s" % (" ".join(r["config"]), m["desc"]),
                                {"harness": "view_main", "schema": res["schema"], "config": r["config"], "case": m["case"]})
            evals += r["stat"]["evaluations"]
            v.part("replay_%s_%s" % (res["schema"], "_".join(r["config"])),
                   evaluations=r["stat"]["evaluations"], per_kind=r["stat"]["per_kind"], distinct=r["stat"]["distinct"])
        v.add(samples=res["samples"][:1])
    return states, trans, evals, nvec
