"""C01 - encoding writes exactly the SBE wire image.
Every transition of the in-order encoding script (View.tla EncodeStep) is
replayed: pre-buffer injected, the real filler/setter/assign called, the whole
region (margins included) compared with the post-buffer."""
import viewpipe
from checks._view import run_view_check, replay  # noqa: F401


def want(case, sig):
    return sig.startswith("encode/")


def run(v, tier, seed):
    return run_view_check(v, tier, seed, want, [viewpipe.view_results, viewpipe.header_results, viewpipe.gen_view_results, viewpipe.repo_view_results],
                          "one vector per encode transition (pre buffer, step, post buffer) of every explored script",
                          "StepRefines/EncodeRefines/MarginsIntact model-checked; every transition replayed against the generated accessors")
