"""C12 - group views obey iterator and container laws for every dimension type.

TLC model-checks GroupIter.tla for each of the 16 (blockLength type,
numInGroup type) pairs - three machines: Flat (small scope, all iterator
expression chains), Huge (header values at the type limits, digit arithmetic,
header-only operations and addresses) and Nested (forward ranges) - and emits
one vector per explored group / iterator expression.  harness/c12_groups.cpp
executes them on the sbeppc-generated group classes (checked builds with an
assertion handler for the in-bounds scope, unchecked builds additionally for
the huge headers).  Random iterator walks on the real classes are validated
by GroupIterTrace.tla.
"""
import json
import os
import re
import shutil

import schema as sch
import vlib
from vlib import tlc, mc, try_cxx, run_harness

W = {1: "uint8", 2: "uint16", 4: "uint32", 8: "uint64"}
PAIRS = [(bw, nw) for bw in (1, 2, 4, 8) for nw in (1, 2, 4, 8)]


def c12_schema(order):
    """16 dimension composites; per pair: f* flat group with two uint16 fields
    (compiled blockLength 4), z* flat group without fields (blockLength 0),
    n* nested group (field, sub-group of the same dimension type, data)."""
    types = [{"kind": "composite", "name": "messageHeader", "elements": [
        {"kind": "type", "name": n, "prim": "uint16"} for n in ("blockLength", "templateId", "schemaId", "version")]},
        {"kind": "composite", "name": "vdata", "elements": [
            {"kind": "type", "name": "length", "prim": "uint8"},
            {"kind": "type", "name": "varData", "prim": "uint8", "length": 0}]}]
    msgs = []
    mid = 1
    for bw, nw in PAIRS:
        d = "dB%dN%d" % (bw, nw)
        types.append({"kind": "composite", "name": d, "elements": [
            {"kind": "type", "name": "blockLength", "prim": W[bw]},
            {"kind": "type", "name": "numInGroup", "prim": W[nw]}]})
        sfx = "B%dN%d" % (bw, nw)
        msgs.append({"name": "f" + sfx, "id": mid, "fields": [], "data": [], "groups": [
            {"name": "g", "id": 1, "dimensionType": d, "fields": [
                {"name": "a", "id": 2, "type": "uint16"}, {"name": "b", "id": 3, "type": "uint16"}],
             "groups": [], "data": []}]})
        msgs.append({"name": "z" + sfx, "id": mid + 1, "fields": [], "data": [], "groups": [
            {"name": "g", "id": 1, "dimensionType": d, "fields": [], "groups": [], "data": []}]})
        msgs.append({"name": "n" + sfx, "id": mid + 2, "fields": [], "data": [], "groups": [
            {"name": "g", "id": 1, "dimensionType": d, "fields": [{"name": "a", "id": 2, "type": "uint16"}],
             "groups": [{"name": "s", "id": 3, "dimensionType": d,
                         "fields": [{"name": "x", "id": 4, "type": "uint8"}], "groups": [], "data": []}],
             "data": [{"name": "d", "id": 5, "type": "vdata"}]}]})
        mid += 3
    return {"package": "c12" + order, "id": 1, "version": 0,
            "byteOrder": {"le": "littleEndian", "be": "bigEndian"}[order], "types": types, "messages": msgs}


def jopts(xmx):
    """JVM options for this check's TLC runs.  GroupIter.tla relies on TLC's
    default (memoised lazy) evaluation of operator arguments: its digit
    arithmetic is RECURSIVE, and with -Dtlc2.value.impl.LazyValue.off=true the
    arguments are re-evaluated at every use (exponential).  Few GC/JIT threads:
    up to 16 JVMs run side by side."""
    return {"JAVA_TOOL_OPTIONS": "-Xmx%s -XX:+UseParallelGC -XX:ParallelGCThreads=2 -XX:CICompilerCount=2 -DTLA-Library=%s"
                                 % (xmx, vlib.SPEC)}


def tla_set(xs):
    return "{" + ",".join(str(x) for x in xs) + "}"


def consts(bw, nw, depth=2, ns=(0,), bls=(0,), nns=(0,), nbls=(2,), sns=(0,), sbls=(1,), dls=(0,)):
    return ("CONSTANT NW = %d\nCONSTANT BW = %d\nCONSTANT Ns = %s\nCONSTANT BLs = %s\nCONSTANT Depth = %d\n"
            "CONSTANT MaxOff = 3\nCONSTANT NNs = %s\nCONSTANT NBLs = %s\nCONSTANT SNs = %s\nCONSTANT SBLs = %s\n"
            "CONSTANT DLs = %s\n" % (nw, bw, tla_set(ns), tla_set(bls), depth, tla_set(nns), tla_set(nbls),
                                     tla_set(sns), tla_set(sbls), tla_set(dls)))


FLAT_PROPS = ("INIT InitFlat\nNEXT NextFlat\nVIEW view\nCONSTRAINT EmitFlat\n"
              "INVARIANT HeaderDenotes\nINVARIANT AddrLaw\nINVARIANT BeginPlusSizeIsEnd\nINVARIANT IndexIsDerefOfSum\n"
              "INVARIANT AddSubRoundTrip\nINVARIANT IncDecAreUnitMoves\nINVARIANT DistanceIsIndexDifference\n"
              "INVARIANT OrderingIsIndexOrdering\nINVARIANT EntryAddresses\nPROPERTY ResizeFrame\nPROPERTY OthersArePure\n")
HUGE_PROPS = ("INIT InitHuge\nNEXT NextHuge\nVIEW view\nCONSTRAINT EmitHuge\n"
              "INVARIANT HugeHeaderDenotes\nINVARIANT DigitsAgree\nINVARIANT HugeAddrAgrees\nPROPERTY ResizeFrame\n")
NESTED_PROPS = ("INIT InitNested\nNEXT NextNested\nVIEW view\nCONSTRAINT EmitNested\n"
                "INVARIANT NestedHeaderDenotes\nINVARIANT NestedAddrLaw\nINVARIANT NestedEndIsEnd\nPROPERTY ResizeFrame\n")

CONFIGS_QUICK = [("g++", "c++17"), ("clang++", "c++20"), ("g++", "c++11")]
CONFIGS_THOROUGH = [(c, s) for c in ("g++", "clang++") for s in ("c++11", "c++14", "c++17", "c++20", "c++2b")]
MODES = {"checked": "-DSBEPP_ENABLE_ASSERTS_WITH_HANDLER", "unchecked": "-DSBEPP_DISABLE_ASSERTS"}


def sign_cls(n):
    return "n<0" if n < 0 else "n=0" if n == 0 else "n>0"


def trace_signature(ev, reset, bw, nw):
    """Name the class of the event a trace was rejected at (transliteration of
    the logged event only)."""
    e = ev.get("e", "?")
    op = ev.get("op", ev.get("which", "index" if e == "Index" else "-"))
    n = ev.get("n", ev.get("j", ev.get("k", 0))) if e in ("Move", "Index") else 0
    blc = "-"
    if reset is not None and reset.get("e") == "Reset":
        blc = "bl=0" if reset["bl"] == 0 else "bl>0"
    return "trace/%s/%s/num=%s/bl=%s/%s/%s" % (e, op, W[nw], W[bw], sign_cls(n) if e in ("Move", "Index") else "-", blc)


def episodes_of(lines):
    """Split a recorded log into episodes (each starts with Reset / NReset)."""
    eps = []
    for ln in lines:
        if json.loads(ln)["e"] in ("Reset", "NReset") or not eps:
            eps.append([])
        eps[-1].append(ln)
    return eps


def validate(trace_path, workdir, name, bw, nw):
    """Validate a recorded log against GroupIterTrace (per-pair module name:
    parallel runs of one module would share TLC's metadir name).  Returns
    (done, rejected_lines, TLCResult): done = TLC consumed the log to its end;
    rejected_lines = 1-based numbers of the lines that are not a behaviour of
    the spec (each ends its episode; validation continues with the next)."""
    cfg = "SPECIFICATION TraceSpec\nCONSTRAINT TraceDone\nCHECK_DEADLOCK FALSE\n" + consts(bw, nw)
    mc(workdir, name, "GroupIterTrace", "", cfg)
    r = tlc(name, cwd=workdir, workers=1, env=dict(jopts("2g"), TRACE=trace_path), timeout=900, xmx="2g")
    if not r.ok:
        raise vlib.InfraError("trace validation failed to run:\n" + r.raw[-3000:])
    done = any("done" in x for x in r.records)
    rejected = sorted({x["rejected"] for x in r.records if "rejected" in x})
    return done, rejected, r


def run(v, tier, seed):
    import time
    t0 = time.time()
    phases = {}
    thorough = tier == "thorough"
    wd = vlib.fresh_dir(os.path.join(vlib.WORK, "c12", "run"))
    inc = {o: vlib.gen_headers(sch.to_xml(c12_schema(o)), "c12" + o) for o in ("le", "be")}
    src = os.path.join(vlib.HARNESS, "c12_groups.cpp")
    depth = 3 if thorough else 2

    # ---- jobs: TLC models (3 per pair) and harness builds, one pool -------
    jobs = []
    for bw, nw in PAIRS:
        jobs.append(("tlc", "flat", bw, nw, consts(bw, nw, depth=depth, ns=(0, 1, 2, 3), bls=(0, 1, 4, 6)) + FLAT_PROPS))
        jobs.append(("tlc", "huge", bw, nw, consts(bw, nw) + HUGE_PROPS))
        jobs.append(("tlc", "nested", bw, nw, consts(bw, nw, nns=(0, 1, 2, 3) if thorough else (0, 1, 2), nbls=(2, 5),
                                                    sns=(0, 2), sbls=(1, 3), dls=(0, 2)) + NESTED_PROPS))
    configs = CONFIGS_THOROUGH if thorough else CONFIGS_QUICK
    builds = [(c, s, "le", m) for (c, s) in configs for m in MODES]
    be_cfgs = [("g++", "c++17"), ("clang++", "c++20")] if thorough else [("g++", "c++17")]
    builds += [(c, s, "be", m) for (c, s) in be_cfgs for m in (MODES if thorough else ("checked",))]
    for b in builds:
        jobs.append(("cxx",) + b)
    # long jobs first
    jobs.sort(key=lambda j: 0 if (j[0] == "tlc" and j[1] == "flat" and thorough) else 1 if j[0] == "cxx" else 2)

    def do(job):
        if job[0] == "tlc":
            _, kind, bw, nw, cfg = job
            name = "MC_%s_B%dN%d" % (kind, bw, nw)
            d = os.path.join(wd, name)
            mc(d, name, "GroupIter", "", cfg)
            path = os.path.join(wd, "vec_%s_B%dN%d.ndjson" % (kind, bw, nw))
            n = [0]
            first = []
            with open(path, "w") as f:
                def on(rec):
                    n[0] += 1
                    # keep one telling sample per kind: non-empty group, longest chain
                    score = (rec.get("n_pos", False), len(rec.get("chain", [])), rec.get("n", 0), rec.get("bl", 0) not in (0, 1),
                             rec.get("pcls", "") == "n*bl>=2^32", sum(sum(e) for e in rec.get("ents", [])))
                    if not first or score > first[0][0]:
                        first[:] = [(score, rec)]
                    f.write(json.dumps(rec, separators=(",", ":")) + "\n")
                r = tlc(name, cwd=d, workers=1, xmx="3g", timeout=1400, on_record=on, env=jopts("3g"))
            return job, (r, path, n[0], first)
        _, comp, std, order, mode = job
        return job, try_cxx(src, flags=["-std=" + std, "-O1", "-w", MODES[mode], "-DC12_NS=c12" + order,
                                        "-DC12_BE=%d" % (order == "be")],
                            compiler=comp, includes=[inc[order]], name="c12-%s-%s-%s-%s" % (comp, std, order, mode))

    vec_files = {}     # (kind, bw, nw) -> path
    bins = []
    states = trans = nvec = 0
    samples = []
    per_kind = {}
    for job, res in vlib.parallel(jobs, do):
        if job[0] == "tlc":
            _, kind, bw, nw, _ = job
            r, path, n, first = res
            if not r.ok:
                v.violation("spec/%s/num=%s/bl=%s" % (kind, W[nw], W[bw]),
                            "GroupIter.tla (%s machine) violates %s in the model itself:\n%s" % (kind, r.violated, r.raw[-1500:]))
                continue
            vec_files[(kind, bw, nw)] = path
            states += r.distinct
            trans += r.generated
            nvec += n
            pk = per_kind.setdefault(kind, {"distinct_states": 0, "generated": 0, "vectors": 0, "max_wall_s": 0})
            pk["distinct_states"] += r.distinct
            pk["generated"] += r.generated
            pk["vectors"] += n
            pk["max_wall_s"] = max(pk["max_wall_s"], round(r.wall, 1))
            if (bw, nw) == (4, 2):
                for _, s in first:
                    samples.append({k: s[k] for k in s if k not in ("resize", "cmp", "mem", "at", "exprs")})
        else:
            ok, out = res
            if not ok:
                v.violation("compile/%s/%s/%s/%s" % job[1:],
                            "harness does not compile against the generated group classes:\n" + out[-1500:])
            else:
                bins.append((job[1:], out))
    for kind, pk in per_kind.items():
        v.part("tlc_" + kind, **pk)
    phases["tlc_and_build_s"] = round(time.time() - t0, 1)

    # ---- replay: every vector into every build ----------------------------
    rjobs = []
    for cfg, b in bins:
        mode = cfg[3]
        for bw, nw in PAIRS:
            fs = [vec_files[(k, bw, nw)] for k in (("flat", "nested", "huge") if mode == "unchecked" else ("flat", "nested"))
                  if (k, bw, nw) in vec_files]
            if fs:
                rjobs.append((cfg, b, fs))
    total_eval = 0
    nontrivial = 0
    replayed = 0
    per_cfg = {}
    seen_sig = set()
    def rjob(j):
        try:
            return run_harness(j[1], ["replay"] + j[2], timeout=1400)
        except vlib.InfraError as ex:
            # the harness died (signal it could not recover from / abort) while
            # running legal vectors on the real code: a finding, not an
            # infrastructure problem.  A timeout stays an infrastructure error.
            m = re.search(r"gave no STAT \(rc=(-?\d+)\)", str(ex))
            if not m or m.group(1) == "-999":
                raise
            import types
            return ([{"sig": "crash/harness/rc=%s" % m.group(1), "desc": str(ex)[:800], "case": {"files": j[2]}}],
                    {"evaluations": 0, "mismatches": 1, "vectors": 0, "nontrivial_vectors": 0}, types.SimpleNamespace(stdout=""))

    for (cfg, b, fs), (mism, stat, p) in zip(rjobs, vlib.parallel(rjobs, rjob)):
        total_eval += stat["evaluations"]
        replayed += stat["vectors"]
        pc = per_cfg.setdefault("%s_%s_%s_%s" % cfg, {"evaluations": 0, "mismatches": 0, "vectors": 0, "nontrivial_vectors": 0})
        for k in pc:
            pc[k] += stat[k]
        counts = {}
        for line in p.stdout.splitlines():
            if line.startswith("MISMATCH_COUNT "):
                c = json.loads(line[15:])
                counts[c["sig"]] = c["count"]
        for m in mism:
            key = (cfg, m["sig"])
            first = key not in seen_sig
            seen_sig.add(key)
            n = counts.get(m["sig"], 0)
            v.violation("replay/" + m["sig"],
                        "[%s %s %s %s] %s%s" % (cfg + (m["desc"], " (%d cases of this class in this file set)" % n if n and first else "")),
                        {"harness": "c12_groups", "config": list(cfg), "vector": m["case"]})
    for k, pc in sorted(per_cfg.items()):
        v.part("replay_" + k, **pc)
        nontrivial = max(nontrivial, pc["nontrivial_vectors"])

    phases["replay_s"] = round(time.time() - t0 - phases["tlc_and_build_s"], 1)
    # ---- recorded walks of the real classes, validated by the spec --------
    traces_ok = 0
    tr_events = 0
    tr_rejected = 0
    rec_bins = [b for cfg, b in bins if cfg[2] == "le" and cfg[3] == "checked"]
    if rec_bins:
        rb = rec_bins[0]
        episodes, length = (60, 40) if thorough else (16, 30)

        def tjob(pair):
            bw, nw = pair
            tp = os.path.join(wd, "trace_B%dN%d.ndjson" % (bw, nw))
            p = vlib.run([rb, "record", seed * 100 + bw * 10 + nw, episodes, length, tp, bw, nw])
            if p.returncode != 0:
                raise vlib.InfraError("record mode failed: " + p.stderr[-2000:])
            lines = [ln for ln in open(tp).read().splitlines() if ln]
            eps = episodes_of(lines)
            done, rejected, r = validate(tp, os.path.join(wd, "tv_B%dN%d" % (bw, nw)), "TV_GroupIter_B%dN%d" % (bw, nw), bw, nw)
            if not done:
                raise vlib.InfraError("trace validation did not reach the end of %s:\n%s" % (tp, r.raw[-2000:]))
            out = {"pair": pair, "events": len(lines), "episodes": len(eps), "accepted": len(eps) - len(rejected), "rejections": [],
                   "rejected_lines": rejected}
            starts = []
            k = 0
            for ep in eps:
                starts.append(k)
                k += len(ep)
            for ln in rejected:
                ei = max(i for i, st in enumerate(starts) if st <= ln - 1)
                ev = json.loads(lines[ln - 1])
                reset = json.loads(eps[ei][0])
                keep = os.path.join(vlib.REPLAYS, "C12", "trace_B%dN%d_line%d.ndjson" % (bw, nw, ln))
                out["rejections"].append((trace_signature(ev, reset, bw, nw), ev, reset, keep, ln - 1 - starts[ei], "\n".join(eps[ei]) + "\n"))
            return out

        outs = vlib.parallel(PAIRS, tjob)
        for out in outs:
            bw, nw = out["pair"]
            tr_events += out["events"]
            traces_ok += out["accepted"]
            for sig, ev, reset, keep, pos, text in out["rejections"]:
                tr_rejected += 1
                if v.violation(sig, "recorded walk on a real %s x %s group is not a behaviour of GroupIter.tla: event %d of the "
                                    "episode, %s, on group %s" % (W[bw], W[nw], pos, json.dumps(ev), json.dumps(reset)),
                               {"trace": keep, "event": ev, "reset": reset, "validate": "GroupIterTrace with NW=%d BW=%d" % (nw, bw)}):
                    vlib.write(keep, text)     # the episode, for ./verif replay
        # the validation must have teeth: corrupt one observed address in an
        # episode that was accepted => exactly that line is rejected in addition
        canary = None
        for out in outs:
            bw, nw = out["pair"]
            tp = os.path.join(wd, "trace_B%dN%d.ndjson" % (bw, nw))
            lines = open(tp).read().splitlines()
            eps = episodes_of(lines)
            k = 0
            for ep in eps:
                span = range(k + 1, k + len(ep) + 1)
                k += len(ep)
                if any(ln in span for ln in out["rejected_lines"]):
                    continue
                for ln in span:
                    ev = json.loads(lines[ln - 1])
                    if ev["e"] == "Move" and ev["a"] >= 0:
                        ev["a"] += 1
                        lines[ln - 1] = json.dumps(ev)
                        canary = (bw, nw, ln, lines, out["rejected_lines"])
                        break
                if canary:
                    break
            if canary:
                break
        if canary:
            bw, nw, ln, lines, before = canary
            bad = os.path.join(wd, "trace_corrupted.ndjson")
            vlib.write(bad, "\n".join(lines) + "\n")
            done, rej, r = validate(bad, os.path.join(wd, "tv_corrupted"), "TV_GroupIter_corrupted", bw, nw)
            if sorted(rej) != sorted(set(before) | {ln}):
                raise vlib.InfraError("trace validation has no teeth: observed address corrupted in line %d of %s, "
                                      "GroupIterTrace rejected %s (before the corruption: %s)" % (ln, bad, rej, before))
            v.part("trace_canary", pair="B%dN%d" % (bw, nw), corrupted_line=ln, rejected_lines=rej)
        v.part("traces", episodes_per_pair=episodes, events=tr_events, accepted_episodes=traces_ok, rejected_episodes=tr_rejected)

    phases["traces_s"] = round(time.time() - t0 - phases["tlc_and_build_s"] - phases["replay_s"], 1)
    v.part("phases", **phases)
    v.add(states=states, transitions=trans, evaluations=total_eval + tr_events, distinct_nontrivial=nontrivial,
          traces_validated_against_impl=replayed + traces_ok,
          vectors=nvec,
          rule="one vector per distinct TLC state: Flat = every (pair, N in 0..3, BL in {0,1,4,6}, chain of begin()/end() "
               "followed by <= %d moves from {it+n, n+it, it-n, +=, -=, ++it, it++, --it, it--}, n in -3..3, staying in [begin,end]) "
               "with expected (index, address) of register and expression value after every step and of *it, it[n], all "
               "comparisons/distances; Grp = every (pair, N, BL) with size/empty/[]/front/back/iteration/resize/clear; "
               "Huge = every (pair, N, BL in {0..3, 2^k-1, 2^k around 2^7..2^64}) header-only; Nested = every (pair, N, BL, "
               "per-entry sub-group size/blockLength/data length). non-trivial = iterator vectors with at least one move on a "
               "non-empty group plus huge/nested vectors of non-empty groups; counted by the harness" % depth,
          samples=samples[:4] or ["(no sample)"],
          exhaustive=True)
    v.assumptions += ["host is little-endian, flat 64-bit address space (huge-header vectors compare uintptr_t differences "
                      "of addresses that are never dereferenced)",
                      "sbepp has no cbegin()/cend() on group views; begin()/end() are const members and are what is exercised",
                      "entry addresses are observed with sbepp::addressof(entry) relative to sbepp::addressof(group); the "
                      "address of end() is never observed (dereferencing end() is not legal), only its position",
                      "distance of a uint64 numInGroup >= 2^63 is left unconstrained (no signed 64-bit value exists)"]
    return v.finish("model_checking")


def replay(rp):
    print(json.dumps(rp, indent=1)[:6000])
    case = rp.get("case") or {}
    if "vector" in case:
        wd = vlib.ensure_dir(os.path.join(vlib.WORK, "c12", "replay"))
        vp = os.path.join(wd, "vector.ndjson")
        vlib.write(vp, json.dumps(case["vector"]) + "\n")
        comp, std, order, mode = case["config"]
        inc = vlib.gen_headers(sch.to_xml(c12_schema(order)), "c12" + order)
        b = vlib.cxx(os.path.join(vlib.HARNESS, "c12_groups.cpp"),
                     flags=["-std=" + std, "-O1", "-w", MODES[mode], "-DC12_NS=c12" + order, "-DC12_BE=%d" % (order == "be")],
                     compiler=comp, includes=[inc], name="c12-%s-%s-%s-%s" % (comp, std, order, mode))
        mism, stat, p = run_harness(b, ["replay", vp])
        print(p.stdout[-4000:])
        return 1 if mism else 0
    if "trace" in case:
        m = re.search(r"NW=(\d+) BW=(\d+)", case.get("validate", ""))
        nw, bw = (int(m.group(1)), int(m.group(2))) if m else (2, 2)
        v = vlib.Verdict("C12", "quick", 0)
        done, rej, r = validate(case["trace"], vlib.ensure_dir(os.path.join(vlib.WORK, "c12", "replay_tv")), "TV_GroupIter_replay", bw, nw)
        print("trace %s: %s" % (case["trace"], "accepted" if done and not rej else "REJECTED at line(s) %s" % rej))
        return 0 if done and not rej else 1
    return 0
