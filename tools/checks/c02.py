"""C02 - decoding returns exactly what a conforming SBE encoder wrote.
The independent encoder is SbeImage.tla (denotation); TLC checks DecodeRefines
on the operational layer and emits every image with the value of every leaf,
group and data member; the harness runs every getter of the real generated
classes on it (read-only mapping, exact-size view, guard page behind)."""
import viewpipe
from checks._view import run_view_check, replay  # noqa: F401


def want(case, sig):
    return sig.startswith("decode/") and case.get("aspect") in ("value", "addr")


def run(v, tier, seed):
    return run_view_check(v, tier, seed, want, [viewpipe.view_results, viewpipe.header_results, viewpipe.gen_view_results, viewpipe.repo_view_results],
                          "one vector per (schema, message, shape): the SBE image + every leaf/group/data value; distinct = vectors",
                          "DecodeRefines model-checked on View.tla for every explored shape; each image replayed through every getter of the generated classes")
