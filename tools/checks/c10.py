"""C10 - checked builds never touch memory outside the view silently.

1. TLC evaluates spec/Checked.tla (EXTENDS View): for every image of the view
   catalogue (tools/catalogue.py: view_schemas) - pristine, and with one header
   value overwritten by a hostile one - and every view length n it computes the
   footprints Touched / Req / Pre of every operation operationally and classifies
   (image, n, operation) as must_assert / must_ok / either.  The sanity
   invariants of the relation (TouchedWithinReq, Disjoint, FullViewOk, WalkAgrees)
   are model-checked on the spec itself.
2. harness/c10_checked.cpp executes every vector on the real generated accessors
   (SBEPP_ENABLE_ASSERTS_WITH_HANDLER), twice (end-aligned against an
   inaccessible area, start-aligned), and reports silent out-of-view accesses and
   spurious assertions.

Python only moves JSON and runs tools: outcomes come from TLC.
"""
import json
import os
import random
import shutil
import time
from concurrent.futures import ThreadPoolExecutor

import catalogue
import checkedgen
import schema as sch
import viewgen
import viewpipe
import vlib
from vlib import mc, tlc, try_cxx

ASSERT_FLAG = "-DSBEPP_ENABLE_ASSERTS_WITH_HANDLER"
CONFIGS_QUICK = [("g++", "c++17"), ("clang++", "c++20")]
CONFIGS_THOROUGH = [("g++", "c++11"), ("g++", "c++17"), ("g++", "c++2b"),
                    ("clang++", "c++14"), ("clang++", "c++20"), ("clang++-16", "c++2b")]
INVARIANTS = ["KTypeOK", "TouchedWithinReq", "Disjoint", "FullViewOk", "WalkAgrees"]
NPROC = 8


def shapes_for(nl, tier, rnd):
    """Scope selection only: which abstract messages (shapes) TLC explores."""
    canon = [("pat", [2] * nl, [1] * nl, [0] * nl),
             ("pat", [1] * nl, [2] * nl, [1, 3, 0, 1, 3, 0, 1, 3][:nl]),
             ("zero", [2] * nl, [2] * nl, [0] * nl),
             ("ones", [1] * nl, [0] * nl, [3] * nl),
             ("pat", [0] * nl, [2] * nl, [1] * nl)]
    if tier == "quick":
        return canon[:2]
    out = list(canon)
    while len(out) < 8:
        out.append((rnd.choice(["pat", "pat", "zero", "ones"]), [rnd.randrange(3) for _ in range(nl)],
                    [rnd.randrange(3) for _ in range(nl)], [rnd.choice((0, 0, 1, 3)) for _ in range(nl)]))
    seen, uniq = set(), []
    for s in out:
        k = json.dumps(s)
        if k not in seen:
            seen.add(k)
            uniq.append(s)
    return uniq


def cfg_text(mi, alln, hvmod, hvrem, cursor=True, emit=True):
    cfg = ("CONSTANT S <- SDef\nCONSTANT MI = %d\nCONSTANT Shapes <- ShapesDef\nCONSTANT Margin = 8\n"
           "CONSTANT AllN = %s\nCONSTANT HvMod = %d\nCONSTANT HvRem = %d\nCONSTANT CursorOps = %s\n"
           "INIT KInit\nNEXT KNext\nVIEW kview\n") % (mi, "TRUE" if alln else "FALSE", hvmod, hvrem, "TRUE" if cursor else "FALSE")
    cfg += "".join("INVARIANT %s\n" % i for i in INVARIANTS)
    if emit:
        cfg += "CONSTRAINT EmitChecked\n"
    return cfg


class Job:
    """One TLC run: one message of one schema, a set of shapes, a slice of the hostile variants."""

    def __init__(self, S, stla, mi, shapes, alln, hvmod, hvrem, wd, tag):
        self.S, self.stla, self.mi, self.shapes = S, stla, mi, shapes
        self.alln, self.hvmod, self.hvrem, self.wd, self.tag = alln, hvmod, hvrem, wd, tag
        self.msg = S["messages"][mi - 1]["name"]
        self.path = os.path.join(wd, "vec-%s.ndjson" % tag)
        self.stats = {"images": 0, "states": 0, "vectors": 0, "ops": 0, "per_class": {}, "outcomes": [0, 0, 0, 0, 0, 0],
                      "hostile": {}, "samples": []}
        self.r = None

    def run(self):
        body = "SDef == %s\nShapesDef == {%s}\n" % (self.stla, ",\n ".join(viewpipe.shape_tla(*s) for s in self.shapes))
        d = os.path.join(self.wd, "mc-" + self.tag)
        mc(d, "MC_Checked", "Checked", body, cfg_text(self.mi, self.alln, self.hvmod, self.hvrem))
        st = self.stats
        images = {}     # id -> ops classes
        pending = {}
        with open(self.path, "w") as f:
            def on_record(rec):
                iid = json.dumps(rec["img"])
                if rec["kind"] == "c10img":
                    f.write(json.dumps(rec, separators=(",", ":")) + "\n")
                    images[iid] = [o["cls"] for o in rec["ops"]]
                    st["images"] += 1
                    st["ops"] += len(rec["ops"])
                    st["hostile"][rec["hv"]["what"]] = st["hostile"].get(rec["hv"]["what"], 0) + 1
                    for line in pending.pop(iid, []):
                        f.write(line)
                    return
                line = json.dumps(rec, separators=(",", ":")) + "\n"
                if iid in images:
                    f.write(line)
                else:
                    pending.setdefault(iid, []).append(line)
                st["states"] += 1
                st["vectors"] += len(rec["out"])
                for c in rec["out"]:
                    st["outcomes"][c] += 1
            self.r = tlc("MC_Checked", cwd=d, workers=1, xmx="3g", timeout=1500, on_record=on_record)
            if pending:
                raise vlib.InfraError("TLC emitted outcomes without their image (%s)" % self.tag)
        return self


def build(S, name, inc, disp, disp2, cfg):
    comp, std = cfg
    src = os.path.join(vlib.HARNESS, "c10_checked.cpp")
    return try_cxx(src, flags=["-std=" + std, "-O1", "-w", ASSERT_FLAG, '-DVH_DISPATCH="%s"' % disp, '-DC10_DISPATCH="%s"' % disp2],
                   compiler=comp, includes=[inc], deps=[disp, disp2], name="c10-%s-%s-%s" % (name, comp, std))


def run_replay(binary, name, vec):
    """The code under test runs in the harness process; a stray write can damage the
    harness itself.  A run whose output cannot be parsed is repeated once; if that
    repeats it is an infrastructure error, never a verdict."""
    err = None
    for attempt in (1, 2):
        try:
            return vlib.run_harness(binary, ["replay", name, vec], timeout=1500)
        except (ValueError, vlib.InfraError) as ex:
            err = ex
    raise vlib.InfraError("harness %s: %s" % (os.path.basename(binary), str(err)[-2000:]))


def sample_vector(path):
    """one logical (image, n, operation) vector, written out"""
    img, out = None, None
    with open(path) as f:
        for line in f:
            r = json.loads(line)
            if r["kind"] == "c10img" and img is None:
                img = r
            elif r["kind"] == "c10n" and img is not None and r["img"] == img["img"] and r["n"] > img["full"] // 2:
                out = r
                break
    if img is None or out is None:
        return []
    names = {0: "must_assert", 1: "must_ok", 2: "either", 3: "must_assert (a receiver view starts beyond the end)", 4: "must_ok", 5: "either (a receiver view starts beyond the end)"}
    res = []
    seen = set()
    for o, c in zip(img["ops"], out["out"]):
        if (o["cls"], c) in seen or len(res) >= 4:
            continue
        seen.add((o["cls"], c))
        res.append({"kind": "checked", "msg": img["msg"], "hv": img["hv"], "buf": "%d bytes: %s..." % (len(img["buf"]), img["buf"][:20]),
                    "v0": img["v0"], "n": out["n"], "op": {k: o[k] for k in ("kind", "level", "ip", "name", "a", "v", "pre")},
                    "outcome": names[c], "touched": o["tr"], "req": o["rq"]})
    return res


def run(v, tier, seed):
    thorough = tier == "thorough"
    wd = vlib.fresh_dir(os.path.join(vlib.WORK, "c10", "run-" + tier))
    shutil.rmtree(os.path.join(vlib.REPLAYS, "C10"), ignore_errors=True)
    import schemabuild     # + schemas built by spec/SchemaBuild.tla (the same ones the view machine gets)
    schemas = catalogue.view_schemas() + schemabuild.generated_schemas(10 if thorough else 3, seed)[:4 if thorough else 1]
    # + the repository's own schemas (tools/xmlimport.py): one message each (quick), a seeded six (thorough)
    schemas += viewpipe.repo_schemas("quick", seed, 6 if thorough else 1, naming=False)
    configs = CONFIGS_THOROUGH if thorough else CONFIGS_QUICK
    t0 = time.time()

    prep = []
    for S in schemas:
        name = S["package"]
        try:
            inc = vlib.gen_headers(sch.to_xml(S), name)
        except vlib.SbeppcRejected as ex:
            v.violation("pipeline/sbeppc-rejects/" + name, "sbeppc rejects a catalogue schema: " + str(ex)[-800:])
            continue
        sdir = vlib.ensure_dir(os.path.join(wd, name))
        disp = os.path.join(sdir, "dispatch_%s.inc" % name)
        disp2 = os.path.join(sdir, "dispatch_c10_%s.inc" % name)
        vlib.write(disp, viewgen.dispatch_cpp(S))
        vlib.write(disp2, checkedgen.dispatch_cpp(S))
        prep.append((S, name, inc, sdir, disp, disp2))

    # ---- TLC jobs: per (schema, message): pristine images, and slices of the hostile variants
    jobs = []
    for S, name, inc, sdir, disp, disp2 in prep:
        stla = viewgen.schema_tla(S)
        for mi, m in enumerate(S["messages"], 1):
            nl = viewpipe.count_levels(m)
            rnd = random.Random("%s-%s-%d" % (seed, name, mi))
            shapes = shapes_for(nl, tier, rnd)
            if thorough:
                # every n on the pristine images; every hostile variant on two shapes, sampled n
                # (few, large TLC runs: a JVM start costs as much as several images)
                jobs.append(Job(S, stla, mi, shapes, True, 0, 0, sdir, "%s-m%d-p" % (name, mi)))
                k = 3 if nl >= 4 else 1
                for r in range(k):
                    jobs.append(Job(S, stla, mi, shapes[:2], False, k, r, sdir, "%s-m%d-h%d" % (name, mi, r)))
            else:
                # sampled n; pristine images and every 8th hostile variant (rotating with the seed) of two shapes
                jobs.append(Job(S, stla, mi, shapes, False, 8, seed % 8, sdir, "%s-m%d" % (name, mi)))
    jobs.sort(key=lambda j: -(j.hvmod > 0) - 2 * viewpipe.count_levels(j.S["messages"][j.mi - 1]))   # long ones first

    with ThreadPoolExecutor(max_workers=2) as ex:
        fb = ex.submit(lambda: vlib.parallel([(p, c) for p in prep for c in configs],
                                             lambda pc: (pc, build(pc[0][0], pc[0][1], pc[0][2], pc[0][4], pc[0][5], pc[1])), nproc=3))
        fj = ex.submit(lambda: vlib.parallel(jobs, lambda j: j.run(), nproc=NPROC - 3))
        jobs = fj.result()
        t_tlc = time.time() - t0
        built = fb.result()
    t_build = time.time() - t0

    states = trans = nvec = nimg = 0
    per_schema = {}
    hostile = {}
    outcomes = [0, 0, 0, 0, 0, 0]
    model_ok = True
    for j in jobs:
        r = j.r
        v.part("tlc " + j.tag, msg=j.msg, shapes=len(j.shapes), every_n=j.alln, hostile_slice=[j.hvmod, j.hvrem], images=j.stats["images"],
               states=r.distinct, vectors=j.stats["vectors"], wall_s=round(r.wall, 1))
        if not r.ok:
            model_ok = False
            v.violation("spec/Checked/%s/%s/%s" % (j.S["package"], j.msg, r.violated),
                        "Checked.tla violates %s in the model itself (%s):\n%s" % (r.violated, j.tag, r.raw[-2500:]))
            continue
        states += r.distinct
        trans += r.generated
        nvec += j.stats["vectors"]
        nimg += j.stats["images"]
        for k, n in j.stats["hostile"].items():
            hostile[k] = hostile.get(k, 0) + n
        for i in range(6):
            outcomes[i] += j.stats["outcomes"][i]
        per_schema.setdefault(j.S["package"], []).append(j.path)
    if nvec == 0 and model_ok:
        raise vlib.InfraError("TLC emitted no vectors")

    # ---- replay
    vecfiles = {}
    for name, paths in per_schema.items():
        allp = os.path.join(wd, name, "vectors.ndjson")
        with open(allp, "w") as out:
            for p in paths:
                with open(p) as f:
                    shutil.copyfileobj(f, out)
        vecfiles[name] = allp
    runs = []
    for (p, cfg), (ok, out) in built:
        if not ok:
            v.violation("compile/%s/%s-%s" % (p[1], cfg[0], cfg[1]),
                        "harness/dispatch does not compile against the generated headers:\n" + out[-2500:])
        elif p[1] in vecfiles:
            runs.append((p[1], cfg, out))
    t1 = time.time()
    results = vlib.parallel(runs, lambda r: run_replay(r[2], r[0], vecfiles[r[0]]), nproc=NPROC)
    v.part("timing", tlc_phase_s=round(t_tlc, 1), tlc_and_compile_phase_s=round(t_build, 1), replay_phase_s=round(time.time() - t1, 1))
    evals = replayed = 0
    per_class = {}
    late_total = late_write = 0
    late_kinds = {}
    late_samples = []
    for (name, cfg, binp), (mism, stat, proc) in zip(runs, results):
        tag = "%s %s %s" % (name, cfg[0], cfg[1])
        evals += stat["evaluations"]
        replayed += stat["vectors"] - stat["skipped_far"]
        for k, n in stat["per_kind"].items():
            per_class[k] = per_class.get(k, 0) + n
        late_total += stat["reported_after_access"]
        late_write += stat["reported_after_write"]
        for k, n in stat["reported_after_access_kinds"].items():
            late_kinds[k] = late_kinds.get(k, 0) + n
        if not late_samples:
            late_samples = stat["reported_after_access_samples"][:4]
        v.part("replay " + tag, vectors=stat["vectors"], executions=stat["runs"], skipped_far=stat["skipped_far"],
               mismatches=stat["mismatches"], outcomes=stat["outcomes"], reported_after_access=stat["reported_after_access"])
        if stat["vectors"] != sum(j.stats["vectors"] for j in jobs if j.S["package"] == name and j.r.ok):
            raise vlib.InfraError("harness %s consumed %s vectors" % (tag, stat["vectors"]))
        infra = [m for m in mism if m["sig"].startswith("checked/spec-touched-mismatch")]
        if infra:
            raise vlib.InfraError("spec/harness disagreement (not a verdict): %s\n%s" % (
                infra[0]["desc"], json.dumps(infra[0]["case"])[:3000]))
        for m in mism:
            v.violation(m["sig"], "[%s] %s" % (tag, m["desc"]),
                        {"harness": "c10_checked", "schema": name, "config": list(cfg), "vector": m["case"]})

    samples = []
    for name in sorted(vecfiles):
        samples += sample_vector(vecfiles[name])[:2]
    v.part("footprints", outcomes={"must_assert": outcomes[0] + outcomes[3], "must_ok": outcomes[1] + outcomes[4],
                                   "either": outcomes[2] + outcomes[5], "of_which_receiver_beyond_end": outcomes[3] + outcomes[4] + outcomes[5]},
           hostile_images=hostile, images=nimg, per_op_class_executions=per_class)
    v.part("reported_after_access", executions=late_total, of_which_writes=late_write, kinds=late_kinds, samples=late_samples,
           note="handler invoked, but only after memory outside the view had been accessed (the fault was recorded and the "
                "instruction resumed); by the letter of C10 not a violation (the access is reported), listed for the maintainers")
    v.add(states=max(states, 1), transitions=max(trans, 1), evaluations=evals,
          distinct_nontrivial=outcomes[0] + outcomes[3] + outcomes[1] + outcomes[4],
          traces_validated_against_impl=replayed,
          rule="one vector per (image, view length n, operation): images = wire images of %d messages x %d schemas (both byte orders) "
               "x shapes, pristine and with one blockLength / numInGroup / length overwritten (value+1, +k, far beyond); n = %s; "
               "operations = every accessor kind applicable (leaf get/set, view obtainment, array ops, header access, group "
               "size/resize/begin/end/[]/front/back/iterator steps, nested forward iteration, data access and every mutator, "
               "size_bytes, sbepp::visit, five cursor wrappers from the documented positions) incl. navigation from the message view. Vectors are "
               "distinct by construction (%d in all); non-trivial = the outcome constrains the handler (must_assert or must_ok; `either` "
               "only forbids a silent access). Each vector is executed twice (end-aligned, start-aligned) per build configuration (%d)."
               % (len(schemas[0]["messages"]), len(schemas), "every n in 0..full for pristine images, footprint boundaries -1/0/+1 for hostile ones"
                  if thorough else "0, 1, full-1, full and every footprint end just outside / just inside", nvec, len(configs)),
          samples=samples or ["(no sample)"], exhaustive=False)
    v.assumptions += ["little-endian x86-64 Linux host; 4 KiB pages; a fault inside the inaccessible areas is resumed after opening the page",
                      "TLC and the installed compilers are trusted",
                      "scope: the view schema catalogue, the shapes chosen per message (seeded), single-header hostile overwrites",
                      "operations whose addresses are more than 10^6 bytes away from the view are classified but not executed"]
    return v.finish("model_checking",
                    "Checked.tla (Touched / Req / Pre and the outcome relation of DESIGN.md 2.4, computed operationally on top of "
                    "View.tla's tables) model-checked (TouchedWithinReq, Disjoint, FullViewOk, WalkAgrees) and every (image, n, op) "
                    "outcome replayed on the generated accessors of an assertion-handler build under guard pages")


def replay(rp):
    """Re-execute the single (image, n, operation) vector of a violation with the same build."""
    case = rp.get("case") or {}
    print(json.dumps({k: rp[k] for k in ("property", "signature", "desc")}, indent=1))
    vec = case.get("vector")
    if not vec:
        print(json.dumps(case, indent=1)[:4000])
        return 0
    print(json.dumps({k: vec[k] for k in vec if k != "buf"}, indent=1)[:5000])
    import schemabuild
    S = [x for x in catalogue.view_schemas() + schemabuild.generated_schemas(10, int(os.environ.get("VERIF_SEED", "1")))
         + schemabuild.generated_schemas(3, int(os.environ.get("VERIF_SEED", "1"))) if x["package"] == case["schema"]][0]
    name = S["package"]
    wd = vlib.fresh_dir(os.path.join(vlib.WORK, "c10", "replay"))
    inc = vlib.gen_headers(sch.to_xml(S), name)
    disp = os.path.join(wd, "dispatch_%s.inc" % name)
    disp2 = os.path.join(wd, "dispatch_c10_%s.inc" % name)
    vlib.write(disp, viewgen.dispatch_cpp(S))
    vlib.write(disp2, checkedgen.dispatch_cpp(S))
    ok, out = build(S, name, inc, disp, disp2, tuple(case["config"]))
    if not ok:
        print("harness does not compile:\n" + out[-2000:])
        return 2
    op = dict(vec["op"])
    op.update({"tr": vec["touched"], "rq": vec["req"], "far": False, "dead": False, "grow": False, "recv": 0})
    code = {"must_assert": 0, "must_ok": 1, "either": 2}[vec["outcome"]] + (3 if vec.get("receiver_beyond_end") else 0)
    vp = os.path.join(wd, "one.ndjson")
    vlib.write_ndjson(vp, [{"kind": "c10img", "msg": vec["msg"], "img": vec["img"], "v0": vec["v0"], "full": len(vec["buf"]),
                            "buf": vec["buf"], "hv": vec["hv"], "ops": [op]},
                           {"kind": "c10n", "msg": vec["msg"], "img": vec["img"], "n": vec["n"], "out": [code]}])
    mism, stat, proc = vlib.run_harness(out, ["replay", name, vp], timeout=120)
    for m in mism:
        print("MISMATCH %s: %s\n  observed: %s" % (m["sig"], m["desc"], json.dumps(m["case"].get("observed"))))
    print("%d mismatch(es) when re-executing the vector (%s %s)" % (len(mism), case["config"][0], case["config"][1]))
    return 1 if mism else 0
