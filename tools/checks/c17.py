"""C17 - header fillers write exactly the schema's identifying values, for
every header / dimension layout of the catalogue."""
import viewpipe
from checks._view import run_view_check, replay  # noqa: F401


def want(case, sig):
    return sig.startswith("encode/mhdr/") or sig.startswith("encode/ghdr/")


def run(v, tier, seed):
    return run_view_check(v, tier, seed, want, [viewpipe.header_results, viewpipe.view_results, viewpipe.gen_view_results, viewpipe.repo_view_results],
                          "fill_message_header / fill_group_header transitions over the header layout catalogue (order, gaps, extra members, refs, uint8..64, counters) x both byte orders",
                          "header fills are steps of the encode script: bytes (whole region incl. margins) and returned header view compared")
