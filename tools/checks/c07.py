"""C07 - accepted schemas yield compilable, name-preserving headers.

spec/Names.tla models the C++ scopes the generated code populates and the
mangling discipline; TLC checks the naming requirements (PublicPathIsSchemaName,
NoScopeClash, NoSelfNamedMember, TagPathsUnique) over every assignment of pool
names to the slots of eight small skeletons, for every processing order, and
emits each assignment the schema-level uniqueness rules allow as an entity list
+ PublicPaths.  spec/LiteralMatrix.tla enumerates the value-bearing attributes
(11 primitives x presence x explicit min/max/null x position, enums / sets over
every legal encoding, char constants, descriptive strings, blockLength against
the header field width) through the same machine.

Binding: every emitted schema goes through the real sbeppc (exit status
observed), every generated header is compiled on its own by the real compilers
(-fsyntax-only, one #include), and one generated "touch everything" TU names
every path of PublicPaths and instantiates every accessor form, trait and
visit entry point.  The compilers' exit status is the observation.

Level "exploration": which schemas are in play, which names must exist and that
the mangling rules are clash-free in the explored scope is decided by the spec;
"compiles" is decided by the compilers.
"""
import hashlib
import json
import os
import random
import re

import namesgen as ng
import schema as sch
import vlib
from vlib import mc, tlc

NPROC = 12
PKG = ng.PKG

INVS = ("INVARIANT TypeOK\nINVARIANT PublicPathIsSchemaName\nINVARIANT NoScopeClash\n"
        "INVARIANT NoSelfNamedMember\nINVARIANT TagPathsUnique\nINVARIANT ManglingShape\n")
CLASH_SKELETONS = ["T1", "T2", "T3", "T4", "M1", "M2", "M3", "M4", "X1", "U1", "U2"]
# (skeleton, part of the discipline left out) -> TLC has to find a violated requirement
FLAWS = [("M1", "entry"), ("T1", "member"), ("T2", "inline"), ("T1", "types")]

PRIMS = ["char", "int8", "uint8", "int16", "uint16", "int32", "uint32", "int64", "uint64", "float", "double"]
DESC_CLASSES = ["plain", "dquote", "bslash", "bslashend", "percent", "apos", "qmarks", "newline"]

CONFIGS_QUICK = [("g++", "c++11"), ("clang++", "c++20")]
CONFIGS_THOROUGH = [(c, s) for c in ("g++", "clang++", "clang++-16") for s in ("c++11", "c++14", "c++17", "c++20", "c++2b")]

JAVA = "-Xmx2g -Xss512m -XX:TieredStopAtLevel=1 -XX:ParallelGCThreads=2 -DTLA-Library=" + vlib.SPEC


HDR_MEMBERS = {"header": ("blockLength", "templateId", "schemaId", "version"), "dim": ("blockLength", "numInGroup"),
               "data": ("length",)}


def literal_jobs(tier="thorough"):
    """(label, TLA+ expression of the skeleton) - the enumeration itself lives in LiteralMatrix.tla"""
    J = []
    # level header element types: every primitive (required) in every member the
    # library computes with; optional / constant for one type (quick) or all (thorough)
    for role, members in HDR_MEMBERS.items():
        for m in members:
            for p in PRIMS:
                for pres in ("required", "optional", "constant"):
                    if pres != "required" and tier == "quick" and p != "uint16":
                        continue
                    J.append(("hp_%s_%s_%s_%s" % (role, m, p, pres[:3]), 'HdrPrimSk("%s", "%s", "%s", "%s")' % (role, m, p, pres)))
    for p in PRIMS:
        J.append(("lit_" + p, 'LitSk("%s", {"none", "sbe", "rep", "special"})' % p))
        J.append(("lz_" + p, 'LitSk("%s", {"lz"})' % p))
        if p in ("float", "double"):
            J.append(("wide_" + p, 'LitSk("%s", {"wide"})' % p))
    J += [("enums", "SkEnums"), ("enumdup", "SkEnumDup"), ("sets", "SkSets"), ("strings", "SkStrings"), ("case", "SkCase")]
    J += [("desc_" + c, 'DescSk("%s")' % c) for c in DESC_CLASSES]
    for lvl, tag in (("message", "m"), ("group", "g")):
        for hp, ns in (("uint8", (255, 256)), ("uint16", (65535, 65536))):
            for n in ns:
                J.append(("bl_%s%s_%d" % (tag, hp[4:], n), 'BlSk("%s", "%s", %d)' % (lvl, hp, n)))
    for n in (255, 256):
        J.append(("bla_8_%d" % n, 'BlAttrSk("uint8", %d)' % n))
    return J


# --------------------------------------------------------------------- TLC --

def run_tlc(wd, label, sk_expr, flaw="none", emit=True, extends="LiteralMatrix"):
    name = "MC_" + re.sub(r"\W", "_", label) + ("" if flaw == "none" else "_" + flaw)
    d = os.path.join(wd, "tlc", name)
    cfg = ("CONSTANT Sk <- SkDef\nCONSTANT SkName = \"%s\"\nCONSTANT Flaw = \"%s\"\nINIT Init\nNEXT Next\n%s%s"
           % (label, flaw, "CONSTRAINT Emit\nCONSTRAINT EmitFired\n" if emit else "", INVS))
    mc(d, name, extends, "SkDef == %s\n" % sk_expr, cfg)
    return tlc(name, cwd=d, workers=2 if label == "F" else 1, env={"JAVA_TOOL_OPTIONS": JAVA}, timeout=900)


# ----------------------------------------------------------------- vectors --

class Vec:
    """one emitted schema"""

    def __init__(self, rec, family):
        self.rec = rec
        self.family = family            # clash | fixed | literal
        self.sk = rec["sk"]
        self.fired = set()
        if family == "clash":
            self.sigclass = "clash/%s/%s" % (self.sk, rec["pat"] or "neutral")
        elif family in ("fixed", "keyword"):
            self.sigclass = "%s/%s" % (family, rec["names"][0])
        else:
            self.sigclass = self.sk
        self.must = all(e["must"] for e in rec["ents"])
        self.S = ng.build_schema(rec)
        self.xml = sch.to_xml(self.S)
        self.key = hashlib.sha256(self.xml.encode()).hexdigest()[:16]
        self.owner = ng.header_owner(rec)
        self.inc = None
        self.rejected = None
        self.headers = []
        self.nontrivial = bool(rec["pat"]) or family != "clash"

    def hdr_label(self, rel):
        """class of a generated header, for signatures"""
        parts = rel.split("/")
        if parts[-2:] == ["schema", "schema.hpp"]:
            return "schema"
        if len(parts) == 2:
            return "top"
        d, stem = parts[-2], parts[-1][:-4]
        return "%s:%s" % (d, self.owner.get((d, stem), "support"))

    def is_support(self, rel):
        return self.hdr_label(rel).endswith(":support")


def sbeppc_job(v):
    try:
        v.inc = vlib.gen_headers(v.xml, "c07")
    except vlib.SbeppcRejected as ex:
        v.rejected = ex.out.strip()[-600:]
        return v
    hs = []
    for dp, _, fs in os.walk(v.inc):
        for f in fs:
            hs.append(os.path.relpath(os.path.join(dp, f), v.inc))
    v.headers = sorted(hs)
    return v


class Job:
    def __init__(self, v, kind, what, cfg):
        self.v, self.kind, self.what, self.cfg = v, kind, what, cfg   # kind: hdr | touch | root
        self.ok = None
        self.out = ""
        self.src = None


def job_source(wd, j):
    d = os.path.join(wd, "tu", j.v.key)
    if j.kind == "hdr":
        p = os.path.join(d, "h_" + re.sub(r"\W", "_", j.what) + ".cpp")
        txt = '#include "%s"\n' % j.what
    elif j.kind == "touch":
        p = os.path.join(d, "touch.cpp")
        txt = ng.touch_tu(j.v.rec)
    else:
        p = os.path.join(d, "touch_root_%d.cpp" % j.what)
        txt = ng.touch_tu(j.v.rec, only=j.what)
    if not os.path.exists(p) or vlib.read(p) != txt:
        vlib.write(p, txt)
    return p


def compile_job(wd):
    def f(j):
        j.src = job_source(wd, j)
        comp, std = j.cfg
        j.ok, j.out = vlib.try_cxx(j.src, flags=["-std=" + std], compiler=comp, includes=[j.v.inc],
                                   syntax_only=True, name="c07", timeout=600)
        return j
    return f


def cmdline(j):
    return "%s -std=%s -fsyntax-only -I%s -I%s %s" % (j.cfg[0], j.cfg[1], j.v.inc, vlib.SBEPP_INC, j.src)


def first_errors(out, n=4):
    ls = [l.strip() for l in out.splitlines() if " error" in l or "error:" in l]
    return "\n    ".join(ls[:n]) if ls else out[-500:]


# --------------------------------------------------------------------- run --

def run(v, tier, seed):
    rnd = random.Random(seed)
    thorough = tier == "thorough"
    wd = vlib.ensure_dir(os.path.join(vlib.WORK, "c07"))
    vlib.fresh_dir(os.path.join(wd, "tlc"))
    configs = CONFIGS_THOROUGH if thorough else CONFIGS_QUICK
    primary = configs[0]

    # ---- 1. TLC: requirements on the naming design + emission of the schemas
    tjobs = [("clash", sk, "Sk" + sk, "none", True) for sk in CLASH_SKELETONS]
    tjobs.append(("fixed", "F", "SkF", "none", True))
    tjobs.append(("keyword", "K", "SkK", "none", True))
    tjobs += [("literal", lab, expr, "none", True) for lab, expr in literal_jobs(tier)]
    tjobs += [("flaw", sk, "Sk" + sk, fl, False) for sk, fl in FLAWS]

    def tjob(j):
        fam, lab, expr, flaw, emit = j
        return j, run_tlc(wd, lab, expr, flaw, emit)

    states = trans = 0
    recs = {"clash": [], "fixed": [], "keyword": [], "literal": []}
    fired = {}
    legal_total = 0
    for (fam, lab, expr, flaw, emit), r in vlib.parallel(tjobs, tjob, nproc=8):
        if fam == "flaw":
            # non-vacuity: the requirements must reject a discipline with this part left out
            if r.ok or not r.violated:
                raise vlib.InfraError("Names.tla requirements are vacuous: discipline without '%s' handling passes on %s" % (flaw, lab))
            v.part("nonvacuity_%s_%s" % (lab, flaw), violated=r.violated, states=r.distinct)
            continue
        states += r.distinct
        trans += r.generated
        if not r.ok:
            v.violation("spec/%s/%s" % (lab, r.violated),
                        "the naming requirements of Names.tla are violated by the mangling discipline itself "
                        "(skeleton %s):\n%s" % (lab, r.raw[-2500:]), {"tlc_tail": r.raw[-4000:]})
        seen = set()
        for rec in r.records:
            if "fired_names" in rec:
                fired.setdefault((lab, tuple(rec["fired_names"])), set()).update(rec["fired"])
                continue
            k = tuple(rec["names"])
            if k not in seen:
                seen.add(k)
                recs[fam].append(rec)
        legal_total += len(seen)
        v.part("tlc_" + lab, distinct_states=r.distinct, generated=r.generated, legal_assignments=len(seen), wall_s=round(r.wall, 1))

    # ---- 2. which schemas run under which configurations
    for fam in recs:                  # TLC's emission order depends on worker scheduling; the seed must not
        recs[fam].sort(key=lambda r: (r["sk"], r["names"]))
    clash = [Vec(r, "clash") for r in recs["clash"]]
    fixed = [Vec(r, "fixed") for r in recs["fixed"]]
    keyword = [Vec(r, "keyword") for r in recs["keyword"]]
    for x in clash:
        x.fired = fired.get((x.sk, tuple(x.rec["names"])), set())
    rules = sorted(set().union(*[x.fired for x in clash])) if clash else []
    literal = [Vec(r, "literal") for r in recs["literal"]]
    plan = []      # (Vec, [(cfg, mode)])  mode: full | slim | lite
    if thorough:
        # every assignment under one configuration (rotating through the matrix, support headers left to the
        # sample), a seeded sample of the clash schemas under the full matrix
        order = list(range(len(clash)))
        rnd.shuffle(order)
        full = set(order[:24])
        for n, i in enumerate(order):
            if i in full:
                plan.append((clash[i], [(c, "full") for c in configs]))
            else:
                plan.append((clash[i], [(configs[n % len(configs)], "slim")]))
        for n, x in enumerate(fixed):
            plan.append((x, [(primary, "full"), (configs[8], "full")] + [(configs[1 + (n % 6)], "full")]))
        for x in keyword:
            plan.append((x, [(primary, "full"), (configs[8], "full")]))
        for x in literal:
            plan.append((x, [(primary, "full"), (configs[8], "full")] + [(c, "lite") for c in configs if c not in (primary, configs[8])]))
    else:
        # seeded sample that still exercises every rule of the mangling discipline (as reported by the spec)
        # at least twice and every skeleton at least four times
        chosen = []
        pool = [x for x in clash if x.nontrivial]
        rnd.shuffle(pool)
        for rule in rules:
            have = [x for x in chosen if rule in x.fired]
            for x in pool:
                if len(have) >= 2:
                    break
                if rule in x.fired and x not in chosen:
                    chosen.append(x)
                    have.append(x)
        for sk in CLASH_SKELETONS:                 # ... and every rule once in every skeleton where it can fire
            for rule in rules:
                if not any(y.sk == sk and rule in y.fired for y in chosen):
                    for x in pool:
                        if x.sk == sk and rule in x.fired:
                            chosen.append(x)
                            break
        for sk in CLASH_SKELETONS:
            for x in pool:
                if len([y for y in chosen if y.sk == sk]) >= 4:
                    break
                if x.sk == sk and x not in chosen:
                    chosen.append(x)
        for x in chosen:
            plan.append((x, [(c, "full") for c in configs]))
        # (the schema's own name as an entity name is in every tier)
        own = [x for x in fixed if x.rec["names"][0] == PKG]
        for x in own + rnd.sample([x for x in fixed if x not in own], min(6, len(fixed) - len(own))):
            plan.append((x, [(c, "full") for c in configs]))
        for x in keyword:                       # sbeppc refuses these: no compiler run unless that changes
            plan.append((x, [(c, "full") for c in configs]))
        for x in literal:
            plan.append((x, [(primary, "full")] + [(c, "lite") for c in configs[1:]]))
    vecs = [x for x, _ in plan]

    # ---- 3. the real sbeppc
    vlib.build_sbeppc("plain")
    vlib.parallel(vecs, sbeppc_job, nproc=NPROC)
    accepted = rejected_ok = 0
    for x in vecs:
        if x.rejected is None:
            accepted += 1
        elif x.must:
            v.violation("accept/" + x.sigclass,
                        "sbeppc rejects a schema that Names.tla / LiteralMatrix.tla classify as legal SBE:\n%s" % x.rejected,
                        {"xml": x.xml, "sbeppc_output": x.rejected})
        else:
            rejected_ok += 1

    # ---- 4. the real compilers: every header on its own + the touch TU
    jobs = []
    for x, cfgs in plan:
        if x.rejected is not None:
            continue
        top = [h for h in x.headers if x.hdr_label(h) == "top"]
        for cfg, mode in cfgs:
            if mode == "lite":
                hs = top
            elif mode == "slim":      # the headers that carry the slots; top + schema.hpp are part of the touch TU
                hs = [h for h in x.headers if not x.is_support(h) and x.hdr_label(h) not in ("top", "schema")]
            else:
                hs = x.headers
            jobs += [Job(x, "hdr", h, cfg) for h in hs]
            jobs.append(Job(x, "touch", None, cfg))
    vlib.log("C07: %d schemas (%d accepted), %d compiler runs in the first pass" % (len(vecs), accepted, len(jobs)))
    done = vlib.parallel(jobs, compile_job(wd), nproc=NPROC)

    # follow-up: attribute failures of `lite` tops and of touch TUs
    res = {}
    for j in done:
        res[(j.v.key, j.kind, j.what, j.cfg)] = j
    follow = []
    for x, cfgs in plan:
        if x.rejected is not None:
            continue
        for cfg, mode in cfgs:
            have = {h for h in x.headers if (x.key, "hdr", h, cfg) in res}
            hbad = [h for h in have if not res[(x.key, "hdr", h, cfg)].ok]
            tbad = not res[(x.key, "touch", None, cfg)].ok
            if mode == "lite" and hbad:
                # the top header fails here; when headers of this schema already fail under a configuration
                # that compiles each of them alone, the failure is attributed there and reported as `top` here
                explained = any(not j.ok for (k, kind, what, c2), j in res.items()
                                if k == x.key and kind == "hdr" and c2 != cfg and x.hdr_label(what) != "top")
                if not explained:
                    follow += [Job(x, "hdr", h, cfg) for h in x.headers if h not in have]
                continue
            if mode == "slim" and (hbad or tbad):
                follow += [Job(x, "hdr", h, cfg) for h in x.headers if h not in have]
            if tbad:
                follow += [Job(x, "root", e["id"], cfg) for e in x.rec["ents"] if e["parent"] == 0]
    if follow:
        vlib.log("C07: %d follow-up compiler runs (attribution)" % len(follow))
        for j in vlib.parallel(follow, compile_job(wd), nproc=NPROC):
            res[(j.v.key, j.kind, j.what, j.cfg)] = j
    ncompiles = len(jobs) + len(follow)

    # ---- 5. verdicts
    allsigs = []

    def report(kind, x, label, j):
        sig = "%s/%s/%s/%s/std=%s" % (kind, x.sigclass, label, j.cfg[0], j.cfg[1])
        allsigs.append(sig + "\t" + first_errors(j.out, 1)[:200])
        v.violation(sig, "sbeppc accepted the schema (exit 0) but %s does not compile [%s -std=%s]:\n    %s\n  schema %s %s\n  reproduce: %s" % (
            "generated header " + j.what if kind == "header" else "the touch-everything TU (part %s)" % label,
            j.cfg[0], j.cfg[1], first_errors(j.out), x.sk, x.rec["pat"], cmdline(j)),
            {"xml": x.xml, "source": j.src, "source_text": vlib.read(j.src)[:200000], "cmd": cmdline(j), "config": list(j.cfg),
             "compiler_output": j.out[-6000:]})

    cfg_used = set()
    for x, cfgs in plan:
        if x.rejected is not None:
            continue
        byname = {e["id"]: e for e in x.rec["ents"]}
        for cfg, mode in cfgs:
            cfg_used.add(cfg)
            hres = {h: res[(x.key, "hdr", h, cfg)] for h in x.headers if (x.key, "hdr", h, cfg) in res}
            bad = {h for h, j in hres.items() if not j.ok}
            schema_bad = [h for h in bad if x.hdr_label(h) == "schema"]
            if schema_bad:
                report("header", x, "schema", hres[schema_bad[0]])
                continue                                  # every other failure of this configuration is implied
            others = [h for h in bad if x.hdr_label(h) != "top"]
            for h in sorted(others):
                report("header", x, x.hdr_label(h), hres[h])
            for h in bad:
                if x.hdr_label(h) == "top" and not others:
                    report("header", x, "top", hres[h])
            tj = res[(x.key, "touch", None, cfg)]
            if tj.ok:
                continue
            bad_labels = {x.hdr_label(h) for h in others}
            attributed = bool(bad)
            for e in x.rec["ents"]:
                rj = res.get((x.key, "root", e["id"], cfg))
                if rj is None or rj.ok:
                    continue
                lab = "%s:%s" % ("messages" if e["kind"] == "message" else "types", e["slot"] or e["name"])
                attributed = True
                if lab not in bad_labels:             # the header compiles, using it does not
                    report("touch", x, lab, rj)
            if not attributed:
                report("touch", x, "all", tj)

    vlib.write(os.path.join(wd, "signatures-%s.txt" % tier), "\n".join(allsigs) + "\n")
    ndistinct = len({x.key for x in vecs if x.nontrivial and x.rejected is None})
    samples = []
    for x in (vecs[:2] + vecs[-2:]):
        samples.append({"skeleton": x.sk, "pattern": x.rec["pat"], "names": x.rec["names"][:12], "must_accept": x.must,
                        "accepted": x.rejected is None, "headers": len(x.headers),
                        "public_paths": ["::".join(p["path"]) for p in x.rec["paths"]][:10]})
    v.part("discipline_rules", rules=rules,
           exercised_by_schemas_run={r: len([x for x in vecs if r in x.fired]) for r in rules})
    v.part("schemas", legal_assignments_emitted_by_tlc=legal_total, clash=len(recs["clash"]), fixed=len(recs["fixed"]), keyword=len(recs["keyword"]),
           literal=len(recs["literal"]), run_this_tier=len(vecs), accepted=accepted, rejected_allowed=rejected_ok,
           configurations=["%s/%s" % c for c in sorted(cfg_used)], compiler_runs=ncompiles)
    v.add(states=states, transitions=trans, evaluations=ncompiles + len(vecs), distinct_nontrivial=ndistinct,
          rule="case = one schema emitted by TLC (one assignment of pool names to the slots of a Names.tla skeleton, or one "
               "LiteralMatrix.tla skeleton); it is run through the real sbeppc, every generated header is compiled alone and "
               "a generated TU touches every PublicPaths entry, accessor form, trait and visit entry point; evaluations = "
               "sbeppc runs + compiler runs; distinct_nontrivial = distinct accepted schemas (by XML text) that carry at "
               "least one non-neutral name (clash pattern / library identifier) or belong to the literal matrix. " +
               ("thorough: every assignment under one configuration of the 15 (rotating), 36 seeded ones and the fixed / "
                "literal families under several; literal main schemas: every header alone under 2 configurations, top "
                "header + touch TU under the other 13." if thorough else
                "quick: seeded sample of clash assignments covering every rule of the mangling discipline twice, once in "
                "every skeleton where it can fire, and every skeleton four times + 6 library identifiers + all keywords + the whole literal "
                "matrix, g++ c++11 and clang++ c++20 (literal schemas: every header alone under g++ c++11, top header + "
                "touch TU under clang++ c++20)."),
          samples=samples, exhaustive=False)
    v.assumptions += ["a header 'compiles' iff the compiler driver exits 0 on a TU consisting of one #include of it (-fsyntax-only)",
                      "name pool and slot candidates are those of spec/Names.tla; processing order of types/messages is treated as arbitrary",
                      "Linux, case-sensitive file system; compilers g++ 12, clang++ 14, clang++-16"]
    return v.finish("exploration",
                    "spec decides which schemas are in play, which names must exist and that the mangling rules are clash-free "
                    "in the explored scope (TLC, all invariants + 4 non-vacuity runs); 'compiles' is decided by the compilers")


def replay(rp):
    """re-run one recorded case from scratch: stored XML -> real sbeppc -> stored TU -> recorded compiler/standard"""
    case = rp.get("case") or {}
    print(rp.get("signature"))
    print(rp.get("desc"))
    if "xml" not in case:
        return 0
    try:
        inc = vlib.gen_headers(case["xml"], "c07")
    except vlib.SbeppcRejected as ex:
        print("sbeppc rejects the schema now:\n" + ex.out[-2000:])
        return 1 if rp.get("signature", "").startswith("accept/") else 0
    if "source_text" not in case:
        print("sbeppc accepts the schema now")
        return 0
    src = os.path.join(vlib.WORK, "c07", "replay", os.path.basename(case.get("source", "tu.cpp")))
    vlib.write(src, case["source_text"])
    comp, std = case.get("config", ["g++", "c++11"])
    cmd = [comp, "-std=" + std, "-fsyntax-only", "-I" + inc, "-I" + vlib.SBEPP_INC, src]
    print("re-running: " + " ".join(cmd))
    p = vlib.run(cmd, timeout=600)
    print((p.stdout + p.stderr)[-4000:])
    print("compiler exit status: %s" % p.returncode)
    return 1 if p.returncode != 0 else 0
