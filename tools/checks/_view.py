"""Common driver for the checks that are decided by the view machine
(View.tla / SbeImage.tla + replay through harness/view_main.cpp)."""
import json

import viewpipe


def run_view_check(v, tier, seed, want, sources, rule, explanation, assumptions=()):
    states = trans = evals = nvec = 0
    for src in sources:
        results = src(tier, seed)
        s, t, e, n = viewpipe.fold(v, results, want, "")
        states += s
        trans += t
        evals += e
        nvec += n
    v.add(states=states, transitions=trans, evaluations=evals, distinct_nontrivial=nvec,
          traces_validated_against_impl=nvec, rule=rule, exhaustive=False)
    v.assumptions += ["little-endian host", "TLC and the installed compilers are trusted",
                      "scope: the schema catalogue of tools/catalogue.py, schemas built by SchemaBuild.tla, the repository's own schemas (test/schemas, benchmark; tools/xmlimport.py) and the shapes chosen per message (seeded)"] + list(assumptions)
    return v.finish("model_checking", explanation)


def replay(rp):
    print(json.dumps(rp, indent=1)[:6000])
    print("to re-execute: ./verif check %s   (vectors are regenerated deterministically from VERIF_SEED)" % rp["property"])
    return 0
