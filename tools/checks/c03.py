"""C03 - decoding honours the wire blockLength (schema extension).
Shapes with ext > 0 at any subset of levels: images whose root / entry blocks
are longer than compiled.  Everything (values, addresses, sizes) must be found
where the image puts it."""
import viewpipe
from checks._view import run_view_check, replay  # noqa: F401


def want(case, sig):
    # random access on inflated images, and cursor access / visiting on them
    return sig.startswith("decode-ext/") or (case.get("ext") and (sig.startswith("cursor") or sig.startswith("visit/")))


def run(v, tier, seed):
    return run_view_check(v, tier, seed, want, [viewpipe.view_results, viewpipe.header_results,
                                                viewpipe.cursor_results, viewpipe.visit_results,
                                                viewpipe.gen_view_results, viewpipe.gen_visit_results, viewpipe.gen_cursor_results,
                                                viewpipe.repo_view_results, viewpipe.repo_visit_results],
                          "decode, cursor-call and visit vectors whose shape extends the wire blockLength of at least one level (independently per level)",
                          "DecodeRefines/SizesAgree quantify over geometry (ext per level); replay on inflated images")
