"""C03 - decoding honours the wire blockLength (schema extension).
Shapes with ext > 0 at any subset of levels: images whose root / entry blocks
are longer than compiled.  Everything (values, addresses, sizes) must be found
where the image puts it."""
import viewpipe
from checks._view import run_view_check, replay  # noqa: F401


def want(case, sig):
    return sig.startswith("decode-ext/")


def run(v, tier, seed):
    return run_view_check(v, tier, seed, want, [viewpipe.view_results, viewpipe.header_results],
                          "decode vectors whose shape extends the wire blockLength of at least one level (independently per level)",
                          "DecodeRefines/SizesAgree quantify over geometry (ext per level); replay on inflated images")
