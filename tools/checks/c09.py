"""C09 - sbeppc is total: any input gives exit 0 or a diagnostic, never a crash.

Spec.  spec/Garble.tla is the generative scope: garbling ACTIONS (attribute
deletion, lexical garbling of numbers and names, element moves, reference
retargeting, level-header variants, constant variants, include graphs,
document-level damage, command-line variants) at every applicable position of
a base document, alone and in (sampled) pairs.  TLC enumerates them, checks the
sanity invariants of the scope and emits every case as JSON.  The spec's
verdict on every case is `graceful`; what that means is spec/Sbeppc.tla: the
process ends by a normal exit, status 0 or status # 0 with a diagnostic, and a
run that rejects its input has made no output call.  There is no state for
"killed by a signal", "sanitizer report" or "still running".

Binding.  tools/garblegen.py applies the emitted edits to the base document
(transliteration); the real sbeppc - the ASan+UBSan+libstdc++-assertions build
AND the plain build - is run on every case under harness/ioshim.c with the
phase-marker hook (tools/sbeppcrun.py conventions); the recorded run (phase
markers, system calls on input and output directory, sanitizer report as a
`ub` event, diagnostic, wait status, files left) must be a behaviour of
spec/SbeppcTraceC09.tla (= SbeppcTrace for runs that exit 0, validated against
the plan formed by their own output calls; plus the rules for a run without a
plan: output calls only after `named`, status # 0 after output calls and files
left behind only if one of those calls failed).  The repository's own schemas (test/sbeppc_errors/**,
test/schemas, test/naming_test) go through the same machinery.

Python computes no expectation: it runs, records, names the class of a run TLC
rejected from what was observed, and matches known findings.
"""
import json
import os
import random
import re
import resource
import shutil
import subprocess
import time

import garblegen as gg
import sbeppcrun as sr
import schema as sch
import vlib

RUN_TIMEOUT = 20          # hang detector: CPU seconds per run (a normal run takes 10-30 ms)
WALL_GUARD = 150          # ... and wall seconds (a run that blocks without using the CPU)
PAR = 10
AS_LIMIT = 3 << 30        # address-space limit of the plain build (bytes)
ASAN_OPTS = ("detect_leaks=0:allocator_may_return_null=1:max_allocation_size_mb=1024:soft_rss_limit_mb=2048:"
             "hard_rss_limit_mb=3072:handle_abort=1:symbolize=1")
UBSAN_OPTS = "print_stacktrace=1"
ALL_GROUPS = ["drop", "number", "name", "move", "retarget", "header", "constant", "include", "doc", "argv"]
INVARIANTS = ["DepthOK", "CaseWellFormed", "PairOK", "ScopeNotEmpty"]


# ------------------------------------------------------------ TLC: cases ---

def knobs(tier, name):
    """scope selection only: which groups, how many positions per position class, lexemes per position, pairs"""
    if tier == "thorough":
        if name == "compact":
            return dict(groups=ALL_GROUPS, per=0, lex=12, names=0, pairs=3000, trunc=1)
        if name == "rules":
            return dict(groups=["drop", "number", "name", "move", "retarget", "header", "constant"], per=1, lex=3, names=3, pairs=1500, trunc=50)
        return dict(groups=["drop", "number", "name", "move", "retarget", "header", "constant", "include", "doc"],
                    per=1, lex=3, names=3, pairs=1000, trunc=25)
    return dict(groups=ALL_GROUPS, per=1, lex=4, names=4, pairs=1300, trunc=16)


def tlc_base(job):
    name, S, tier, seed, wd, workers = job
    xml = sch.to_xml(S)
    doc = gg.parse(xml)
    rows = gg.doc_table(doc)
    text = gg.serialize(doc)
    ntok = len(gg.tokens(text))
    k = knobs(tier, name)
    if os.environ.get("VERIF_C09_GROUPS"):       # development aid: restrict the action groups (off by default)
        k = dict(k, groups=[g for g in k["groups"] if g in os.environ["VERIF_C09_GROUPS"].split(",")])
    body = "DocDef == %s\nGroupsDef == {%s}\n" % (gg.doc_tla(rows), ", ".join(sch.tla_str(g) for g in k["groups"]))
    cfg = ("CONSTANTS\n Doc <- DocDef\n BaseName = %s\n NTok = %d\n Groups <- GroupsDef\n PerClass = %d\n LexPer = %d\n NamePer = %d\n"
           " Seed = %d\n PairBudget = %d\n TruncStep = %d\n MaxDepth = 2\nINIT Init\nNEXT Next\nVIEW View\nCONSTRAINT Emit\n" % (
               sch.tla_str(name), ntok, k["per"], k["lex"], k["names"], seed % 1000, k["pairs"], k["trunc"]))
    cfg += "".join("INVARIANT %s\n" % i for i in INVARIANTS)
    d = os.path.join(wd, "mc_" + name)
    vlib.mc(d, "MC_Garble", "Garble", body, cfg)
    r = vlib.tlc("MC_Garble", cwd=d, workers=workers, xmx="6g", timeout=1500)
    return name, xml, r


def label(case):
    """(group, [(action, position class, lexeme class)]) - fields of the TLC record."""
    return [(a["action"], a["pos"], a["lex"]) for a in case["actions"]]


def case_head(case):
    acts = case["actions"]
    grp = {"garble": "garble", "include": "include", "doc": "doc", "argv": "argv"}
    parts = ["%s/%s/%s/%s" % (grp[a["group"]], a["action"], a["pos"], a["lex"]) for a in acts]
    if len(parts) == 1:
        return parts[0]
    return "pair/" + "&".join(parts)


# ---------------------------------------------------------------- runner ---

# harness/ioshim.c cannot name (and therefore does not log) a call whose absolute path is longer than PATH_MAX - e.g.
# the output file of a type with a 5000-character name.  This second, tiny interposer (loaded before the shim) logs exactly
# those calls, in the shim's format, with k = 0; run_files() gives them their number.  It injects nothing.
LONGPATH_SRC = r'''
#define _GNU_SOURCE
#include <dlfcn.h>
#include <errno.h>
#include <fcntl.h>
#include <limits.h>
#include <stdarg.h>
#include <stdio.h>
#include <stdlib.h>
#include <string.h>
#include <sys/stat.h>
#include <unistd.h>
static const char *cls_of(const char *path, char **norm)
{
    /* same lexical normalisation as ioshim.c, without its length limit */
    char cwd[PATH_MAX];
    if (!path) return 0;
    if (path[0] == '/' || !getcwd(cwd, sizeof cwd)) return 0;    /* (ioshim.c cuts an absolute path short but logs it) */
    size_t n = strlen(path) + strlen(cwd) + 3;
    if (n - 1 <= PATH_MAX) return 0;                   /* ioshim.c sees this one */
    char *full = malloc(n), *out = malloc(n);
    if (!full || !out) return 0;
    if (path[0] == '/') strcpy(full, path); else { strcpy(full, cwd); strcat(full, "/"); strcat(full, path); }
    size_t o = 0;
    for (const char *s = full; *s;) {
        while (*s == '/') s++;
        if (!*s) break;
        const char *e = s;
        while (*e && *e != '/') e++;
        size_t len = (size_t)(e - s);
        if (len == 1 && s[0] == '.') { }
        else if (len == 2 && s[0] == '.' && s[1] == '.') { while (o > 0 && out[o - 1] != '/') o--; if (o > 0) o--; }
        else { out[o++] = '/'; memcpy(out + o, s, len); o += len; }
        s = e;
    }
    out[o] = 0;
    free(full);
    const char *names[2] = {"VERIF_IO_ROOT", "VERIF_IO_INROOT"};
    const char *cls[2] = {"out", "in"};
    for (int i = 0; i < 2; i++) {
        const char *r = getenv(names[i]);
        if (r && r[0] == '/') {
            size_t rn = strlen(r);
            if (strncmp(out, r, rn) == 0 && (out[rn] == '/' || out[rn] == 0)) { *norm = strdup(out[rn] ? out + rn + 1 : "."); free(out); return cls[i]; }
        }
    }
    free(out);
    return 0;
}
static void note(const char *cls, const char *call, const char *rel, long res, int err)
{
    const char *lp = getenv("VERIF_IO_LOG");
    if (!lp) return;
    int (*ropen)(const char *, int, ...) = dlsym(RTLD_NEXT, "open");
    int fd = ropen(lp, O_WRONLY | O_APPEND | O_CREAT | O_CLOEXEC, 0644);
    if (fd < 0) return;
    size_t n = strlen(rel) * 6 + 256;
    char *line = malloc(n), *q = malloc(n);
    size_t o = 0;
    for (const unsigned char *s = (const unsigned char *)rel; *s; s++) {
        if (*s == '"' || *s == '\\') { q[o++] = '\\'; q[o++] = (char)*s; }
        else if (*s < 0x20) o += (size_t)sprintf(q + o, "\\u%04x", *s);
        else q[o++] = (char)*s;
    }
    q[o] = 0;
    int len = snprintf(line, n, "{\"ev\":\"sys\",\"cls\":\"%s\",\"call\":\"%s\",\"path\":\"%s\",\"k\":0,\"res\":%ld,\"errno\":%d,\"len\":0,\"fd\":-1,\"inj\":\"\"}\n",
                       cls, call, q, res, err);
    ssize_t (*rwrite)(int, const void *, size_t) = dlsym(RTLD_NEXT, "write");
    if (len > 0) { ssize_t w = rwrite(fd, line, (size_t)len); (void)w; }
    int (*rclose)(int) = dlsym(RTLD_NEXT, "close");
    rclose(fd);
    free(line); free(q);
}
#define MODE mode_t mode = 0; if (flags & (O_CREAT | O_TMPFILE)) { va_list ap; va_start(ap, flags); mode = (mode_t)va_arg(ap, int); va_end(ap); }
#define OPENLIKE(NAME) int NAME(const char *path, int flags, ...) { MODE; int (*real)(const char *, int, ...) = dlsym(RTLD_NEXT, #NAME); \
    char *rel = 0; const char *c = cls_of(path, &rel); int r = real(path, flags, mode); int e = errno; \
    if (c) { note(c, "open", rel, r, r < 0 ? e : 0); free(rel); } errno = e; return r; }
OPENLIKE(open)
OPENLIKE(open64)
#define FOPENLIKE(NAME) FILE *NAME(const char *path, const char *m) { FILE *(*real)(const char *, const char *) = dlsym(RTLD_NEXT, #NAME); \
    char *rel = 0; const char *c = cls_of(path, &rel); FILE *f = real(path, m); int e = errno; \
    if (c) { note(c, "open", rel, f ? fileno(f) : -1, f ? 0 : e); free(rel); } errno = e; return f; }
FOPENLIKE(fopen)
FOPENLIKE(fopen64)
int mkdir(const char *path, mode_t mode) { int (*real)(const char *, mode_t) = dlsym(RTLD_NEXT, "mkdir");
    char *rel = 0; const char *c = cls_of(path, &rel); int r = real(path, mode); int e = errno;
    if (c) { note(c, "mkdir", rel, r, r < 0 ? e : 0); free(rel); } errno = e; return r; }
'''


def build_longpath():
    cmd = ["gcc", "-O1", "-shared", "-fPIC"]
    out = os.path.join(vlib.ensure_dir(os.path.join(vlib.CACHE, "c09")), "longpath-%s.so" % vlib.sha(" ".join(cmd), LONGPATH_SRC))
    if os.path.exists(out):
        return out
    src = out[:-3] + ".c"
    vlib.write(src, LONGPATH_SRC)
    tmp = out + ".tmp%d" % os.getpid()
    p = subprocess.run(cmd + [src, "-o", tmp, "-ldl"], stdout=subprocess.PIPE, stderr=subprocess.STDOUT, text=True)
    if p.returncode != 0:
        raise vlib.InfraError("the long-path interposer does not compile:\n" + p.stdout[-3000:])
    os.replace(tmp, out)
    return out


_asan_lib = {}


def san_env(binary, shim):
    """ASan insists on being first in the library list: preload it before the shim."""
    if binary not in _asan_lib:
        lib = ""
        p = subprocess.run(["ldd", binary], stdout=subprocess.PIPE, stderr=subprocess.DEVNULL, text=True)
        m = re.search(r"libasan\.so\S*\s*=>\s*(\S+)", p.stdout)
        if m and os.path.exists(m.group(1)):
            lib = m.group(1)
        _asan_lib[binary] = lib
    lib = _asan_lib[binary]
    env = {"ASAN_OPTIONS": ASAN_OPTS + ("" if lib else ":verify_asan_link_order=0"), "UBSAN_OPTIONS": UBSAN_OPTS}
    env["LD_PRELOAD"] = (lib + ":" + shim) if lib else shim
    return env


def renumber(logged):
    """calls logged by the long-path interposer (k = 0) take their place in the numbering of their class"""
    if not any(e.get("ev") == "sys" and e["k"] == 0 for e in logged):
        return logged
    shift = {"in": 0, "out": 0}
    for e in logged:
        if e.get("ev") == "sys":
            if e["k"] == 0:
                shift[e["cls"]] += 1
                prev = [x["k"] for x in logged[:logged.index(e)] if x.get("ev") == "sys" and x["cls"] == e["cls"]]
                e["k"] = (prev[-1] if prev else 0) + 1
            else:
                e["k"] += shift[e["cls"]]
    return logged


# (with allocator_may_return_null ASan only WARNS about an allocation it refuses - the program then sees a null /
# std::bad_alloc like under any memory limit; that is not a report)
_SAN_REPORT = re.compile(r"(ERROR: AddressSanitizer|ERROR: LeakSanitizer|runtime error:|AddressSanitizer:DEADLYSIGNAL|"
                         r"AddressSanitizer: (?:CHECK failed|hard rss limit)|ERROR: UndefinedBehaviorSanitizer)")


def ub_event(stderr):
    """{"ev":"ub","kind","what","where"} from a sanitizer report on stderr, else None.  With handle_abort=1 ASan also reports
    abort() (libstdc++ assertion, assert(), std::terminate) with a stack: kind "abort" - the process then ends by ASan's exit."""
    m = _SAN_REPORT.search(stderr)
    if not m:
        return None
    kind = "ubsan" if ("runtime error:" in m.group(0) or "Undefined" in m.group(0)) else "asan"
    what = ""
    if kind == "asan":
        w = re.search(r"AddressSanitizer: ([^\n]{0,120})", stderr)
        line = w.group(1) if w else ""
        if re.search(r"out of memory|allocation size|rss limit|failed to allocate", line):
            what = "out-of-memory"
        elif line.startswith("ABRT"):
            kind, what = "abort", abort_reason(stderr) or "abort"
        else:
            what = re.sub(r"\s+(on|in)\b.*$", "", line).strip()
            what = re.sub(r"0x[0-9a-f]+|\d+", "N", what)[:60]
    else:
        w = re.search(r"runtime error: ([^\n]{0,80})", stderr)
        what = re.sub(r"0x[0-9a-f]+|\d+", "N", w.group(1)) if w else ""
    fn = re.search(r"#\d+ 0x[0-9a-f]+ in ((?:sbepp::sbeppc::|main\b|\(anonymous namespace\)::)[\w:~]*)", stderr)
    where = fn.group(1) if (fn and "stack-overflow" not in what) else ""
    return {"ev": "ub", "kind": kind, "what": what, "where": where}


def abort_reason(stderr):
    """what the C++ runtime said before SIGABRT (observed text, for the class name)"""
    m = re.search(r"terminate called after throwing an instance of '([^']+)'", stderr)
    if m:
        return "uncaught:" + m.group(1)
    m = re.search(r"Assertion '([^']{0,80})' failed", stderr)
    if m:
        fn = re.search(r"(std::\w+)", stderr)
        return "glibcxx-assert:" + re.sub(r"[^\w()!.>-]", "", m.group(1))[:40]
    m = re.search(r"Assertion `([^']{0,80})' failed", stderr)
    if m:
        return "assert:" + re.sub(r"\s+", "_", m.group(1))[:60]
    if "terminate called" in stderr:
        return "terminate"
    return ""


_pub_lib = []


def public_libs(binary):
    """The sbeppc builds link libraries below /root (mode 700): an unprivileged run needs readable copies."""
    if not _pub_lib:
        d = vlib.ensure_dir(os.path.join(vlib.CACHE, "c09", "lib"))
        p = subprocess.run(["ldd", binary], stdout=subprocess.PIPE, stderr=subprocess.DEVNULL, text=True)
        for m in re.finditer(r"(\S+)\s*=>\s*(/root/\S+)", p.stdout):
            dst = os.path.join(d, m.group(1))
            if not os.path.exists(dst):
                shutil.copy(m.group(2), dst + ".tmp%d" % os.getpid())
                os.replace(dst + ".tmp%d" % os.getpid(), dst)
        _pub_lib.append(d)
    return _pub_lib[0]


class Fixture:
    """the run directory of one case: in/ (cwd, input files), out/ (not created), side/ (other fixtures)"""

    def __init__(self, rd):
        self.rd = rd
        self.ind, self.outd, self.side = os.path.join(rd, "in"), os.path.join(rd, "out"), os.path.join(rd, "side")

    def subst(self, tok, second_xml):
        def fx(name):
            p = os.path.join(self.side, name)
            if name == "dir":
                os.makedirs(p, exist_ok=True)
            elif name == "unreadable":
                vlib.write(p, "<x/>")
                os.chmod(p, 0)
            elif name == "outfile":
                vlib.write(p, "a regular file\n")
            elif name == "outro":
                os.makedirs(p, exist_ok=True)
                os.chmod(p, 0o555)
            return p
        if tok == "@main":
            return "main.xml"
        if tok == "@second":
            vlib.write(os.path.join(self.ind, "second.xml"), second_xml)
            return "second.xml"
        if tok == "@missing":
            return os.path.join(self.side, "nosuch", "missing.xml")
        if tok == "@long":
            return "x" * 5000 + ".xml"
        out = tok
        if "@out" in out and not re.search(r"@out(file|ro)", out):
            out = out.replace("@out", self.outd)
        for name in ("outfile", "outro", "dir", "unreadable"):
            if "@" + name in out:
                os.makedirs(self.side, exist_ok=True)
                out = out.replace("@" + name, fx(name))
        return out


def run_files(binary, kind, files, argv_tokens, workdir, run_id, schema, asuser=False, second_xml="", out_root=None, timeout=RUN_TIMEOUT):
    """Run one case the way sbeppcrun.run_sbeppc does (same directory layout,
    shim, hook, event list), with what C09 needs on top: files given as bytes,
    a free command line, an address-space limit, an unprivileged user for the
    permission fixtures, sanitizer reports as `ub` events.  cwd = in/."""
    shim = build_longpath() + ":" + sr.build_shim()
    rd = vlib.fresh_dir(os.path.join(workdir, run_id))
    fx = Fixture(rd)
    os.makedirs(fx.ind)
    for fn, b in files.items():
        vlib.write(os.path.join(fx.ind, fn), b, "wb")
    logp = os.path.join(rd, "log.nd")
    if argv_tokens is None:
        args = ["--output-dir", "../out", "main.xml"]
    else:
        args = [gg.to_bytes(fx.subst(t, second_xml)) for t in argv_tokens]
    # the directory the run was told to write to (the shim watches it): the last @out.. fixture on the
    # command line, else the value after the last --output-dir, else the current directory
    outd = fx.outd
    if argv_tokens is not None:
        outs = [i for i, t in enumerate(argv_tokens) if "@out" in t]
        opts = [i for i, a in enumerate(args[:-1]) if a in ("--output-dir", b"--output-dir")]
        cand = args[outs[-1]] if outs else args[opts[-1] + 1] if opts else b""
        cand = cand.decode("utf-8", "surrogateescape") if isinstance(cand, bytes) else cand
        cand = re.sub(r"^--output-dir=", "", cand)
        outd = os.path.normpath(os.path.join(fx.ind, cand.replace("\0", "")))
    r = sr.Run()
    r.id, r.schema, r.init, r.cwd = run_id, schema, "fresh", fx.ind
    r.root_existed = os.path.isdir(outd)
    r.argv = [binary] + args
    r.env = {"LD_PRELOAD": shim, "VERIF_IO_ROOT": outd, "VERIF_IO_INROOT": fx.ind, "VERIF_IO_LOG": logp, "SBEPPC_VERIF_TRACE": logp}
    if outd == fx.ind:
        r.env.pop("VERIF_IO_INROOT")              # one tree cannot be both classes; output wins
    if kind == "san":
        r.env.update(san_env(binary, shim))
    env = dict(os.environ)
    for k_ in ("VERIF_IO_FAIL", "VERIF_IO_FAIL_IN"):
        env.pop(k_, None)
    env.update(r.env)
    kw = {}
    if asuser and os.geteuid() == 0:
        for dp, dn, fs in os.walk(rd):
            os.chmod(dp, os.stat(dp).st_mode | 0o007 if not dp.endswith("outro") else 0o555)
        open(logp, "a").close()
        os.chmod(logp, 0o666)
        os.chmod(rd, 0o777)
        kw = {"user": 65534, "group": 65534, "extra_groups": []}
        env["LD_LIBRARY_PATH"] = public_libs(binary)
        r.env["LD_LIBRARY_PATH"] = env["LD_LIBRARY_PATH"]
    r.asuser = bool(kw)
    argv_b = [a if isinstance(a, bytes) else os.fsencode(a) for a in r.argv]
    if any(b"\0" in a for a in argv_b):
        argv_b = [a.replace(b"\0", b"") for a in argv_b]
    t0 = time.time()
    try:
        p = subprocess.Popen(argv_b, cwd=fx.ind, env=env, stdout=subprocess.PIPE, stderr=subprocess.PIPE, stdin=subprocess.DEVNULL, **kw)
    except OSError as ex:
        # the command line itself cannot be passed to a process (E2BIG ...): nothing ran
        r.status, r.signal, r.stdout, r.stderr = -2, 0, "", "exec failed: %s" % ex
        r.events = []
        r.tree = {}
        r.wall = 0.0
        r.not_run = True
        shutil.rmtree(rd, ignore_errors=True)
        return r
    r.not_run = False
    try:
        # the hang detector counts CPU time, so that a loaded machine does not turn slow runs into hangs
        resource.prlimit(p.pid, resource.RLIMIT_CPU, (timeout, timeout + 2))
        if kind != "san":
            resource.prlimit(p.pid, resource.RLIMIT_AS, (AS_LIMIT, AS_LIMIT))
    except (OSError, ValueError):
        pass
    try:
        out, err = p.communicate(timeout=WALL_GUARD)
        rc = p.returncode
        if rc in (-24, -9):     # SIGXCPU at the soft CPU limit (SIGKILL at the hard one): out of time
            rc = None
    except subprocess.TimeoutExpired:
        p.kill()
        out, err = p.communicate()
        rc = None
    r.wall = time.time() - t0
    r.stdout, r.stderr = out.decode(errors="replace"), err.decode(errors="replace")
    if rc is None:
        r.status, r.signal = -1, -1
    elif rc < 0:
        r.status, r.signal = -1, -rc
    else:
        r.status, r.signal = rc, 0
    logged = []
    if os.path.exists(logp):
        # (paths are logged as the raw bytes the program used: not necessarily UTF-8)
        for line in vlib.read(logp, "rb").decode("utf-8", "replace").split("\n"):
            if line.strip():
                try:
                    logged.append(json.loads(line))
                except ValueError:
                    raise vlib.InfraError("unparsable shim/hook line in %s: %r" % (logp, line))
    logged = renumber(logged)
    # what is left where the run was told to write (its own input files are not output)
    if outd == fx.ind:
        # output directory = input directory: calls on the case's input files belong to class "in"
        cnt = {"in": 0, "out": 0}
        for e in logged:
            if e.get("ev") == "sys":
                if e["path"] in files or e["path"] == "second.xml":
                    e["cls"] = "in"
                cnt[e["cls"]] += 1
                e["k"] = cnt[e["cls"]]
        tree = {k: v for k, v in sr.tree_state(outd).items() if k not in files and k != "second.xml"}
    else:
        tree = sr.tree_state(outd) if os.path.isdir(outd) else {}
    r.tree = tree
    r.logged = logged
    r.ub = ub_event(r.stderr) if kind == "san" else None
    r.kind = kind
    r.outd = outd
    if asuser and os.geteuid() == 0:
        for dp, dn, fs in os.walk(rd):
            try:
                os.chmod(dp, 0o755)
            except OSError:
                pass
    shutil.rmtree(rd, ignore_errors=True)
    return r


def finish_events(r, plan_name, expect="any"):
    """the episode of one run: Reset, hook and shim lines, [ub], diag, exit, disk"""
    ev = [{"ev": "Reset", "run": r.id, "schema": plan_name, "init": "fresh", "fault": dict(sr.NOFAULT), "expect": expect}]
    r.schema = plan_name
    ev += r.logged
    if r.ub:
        ev.append(r.ub)
    ev.append(sr.diag_event(r.stdout, r.stderr))
    ev.append({"ev": "exit", "status": r.status, "signal": r.signal})
    r.events = ev
    return r


class Plan:
    """What sbeppcrun.Reference is for C20: the plan a run is validated against."""

    def __init__(self, name, ops, nin, files):
        self.name, self.ops, self.nin, self.files = name, ops, nin, files

    def plan_event(self):
        return {"ev": "Plan", "schema": self.name, "ops": self.ops, "nin": self.nin}


EMPTY = Plan("no-plan", [], 0, {})


def without_root(ops):
    """the same plan for an output directory that is already there: no mkdir of the root"""
    out = []
    for op in ops:
        if op["call"] == "mkdir" and op["path"] == ".":
            continue
        out.append(dict(op, dir="" if op["dir"] == "." else op["dir"]))
    return out


def attach_plan(r, plans):
    """Transliteration rule (no expectation is computed here):
       exit 0        -> the plan is the sequence of output calls the run made itself (SbeppcTrace then demands that it is
                        a well-formed emission - directories first, every file opened once, written, closed - carried out
                        completely after the `named` marker, all input read before `parsed`, every file complete);
       anything else -> no plan (the empty one): SbeppcTraceC09 then allows output calls only after `named`, and status # 0
                        after output calls / files left behind only if one of those calls failed."""
    if r.status == 0 and r.signal == 0:
        ops, nin = sr.plan_from_events(r.logged)
        if not any(op["call"] == "mkdir" and op["path"] == "." for op in ops):
            ops = without_root(ops)
        key = "self-" + vlib.sha(json.dumps(ops), str(nin))
        if key not in plans:
            plans[key] = Plan(key, ops, nin, None)
        pl = plans[key]
        files = dict(r.tree)
    else:
        pl = EMPTY
        plans.setdefault(pl.name, pl)
        files = {}
    finish_events(r, pl.name)
    r.events.append(sr.disk_event(r.tree, files))
    return r


# -------------------------------------------------------------- validate ---

def trace_key(r):
    """two runs with the same plan and the same events are the same trace"""
    return vlib.sha(r.schema, json.dumps(r.events[1:], sort_keys=True))


def distinct_traces(runs):
    """-> (representatives, {representative id: [runs with that trace]})"""
    groups, reps = {}, []
    for r in runs:
        k = trace_key(r)
        if k not in groups:
            groups[k] = []
            reps.append(r)
        groups[k].append(r)
    return reps, {g[0].id: g for g in groups.values()}


TV_JAVA = "-Xmx3g -Xss32m -XX:ParallelGCThreads=2 -DTLA-Library=" + vlib.SPEC


def validate(batch):
    """One TLC run of SbeppcTraceC09 (= SbeppcTrace + the rules for runs without a plan) over a batch of runs;
    same protocol as sbeppcrun.validate_runs.  Returns (rejections, TLCResult)."""
    tag, runs, plans, wd = batch
    refs = {n: plans[n] for n in {r.schema for r in runs}}
    d = vlib.ensure_dir(os.path.join(wd, "tv-" + tag))
    tp = os.path.join(d, "trace.ndjson")
    vlib.write_ndjson(tp, sr.trace_lines(runs, refs))
    name = "TV_SbeppcTraceC09"
    vlib.mc(d, name, "SbeppcTraceC09", sr.TRACE_BODY,
            "SPECIFICATION SpecC09\nPOSTCONDITION TraceAccepted\nCHECK_DEADLOCK FALSE\n" + sr.TRACE_CONSTS)
    r = vlib.tlc(name, cwd=d, workers=1, env={"TRACE": tp, "JAVA_TOOL_OPTIONS": TV_JAVA}, timeout=1200, xmx="3g")
    acc = r.exit == 0 and "TraceAccepted" not in r.raw.split("Starting...")[-1]
    rej = [x for x in r.records if "rejected" in x]
    if acc and rej:
        raise vlib.InfraError("SbeppcTraceC09 accepted the trace but printed rejections: %s" % rej[:2])
    if not acc and not rej:
        raise vlib.InfraError("SbeppcTraceC09 did not consume %s and named no run (exit %s):\n%s" % (tp, r.exit, r.raw[-2500:]))
    # A Plan line TLC does not take (the run's own output calls are not a well-formed emission: SbeppcTrace!PlanOK) is
    # printed under the id of whatever run came before, and so is the Reset line of each run that refers to that plan:
    # attribute them by line number (the layout of the trace is ours: plans first, then the episodes in order).
    lines = sr.trace_lines(runs, refs)
    starts = {}
    for i, e in enumerate(lines):
        if e.get("ev") == "Reset":
            starts[i + 1] = e["run"]
    bad_plans, out = set(), []
    for x in rej:
        ev = x["event"]
        if ev.get("ev") == "Plan":
            bad_plans.add(ev["schema"])
            continue
        if ev.get("ev") == "Reset":
            if ev["schema"] not in bad_plans:
                raise vlib.InfraError("a run could not even start (malformed trace?): %s" % json.dumps(x)[:500])
            out.append(dict(x, rejected=starts[x["line"]], event={"ev": "Plan", "schema": ev["schema"], "why": "not PlanOK"}))
            continue
        out.append(x)
    ids = {x.id for x in runs}
    for x in out:
        if x["rejected"] not in ids:
            raise vlib.InfraError("rejection of unknown run %r (malformed trace?): %s" % (x["rejected"], json.dumps(x)[:500]))
    return out, r


def make_batches(runs, plans, wd, prefix):
    """Runs sharing a plan go together (the trace spec carries every plan of its
    batch in its state): short episodes by the hundred, long ones by plan."""
    short = [r for r in runs if len(r.events) <= 40]
    long_ = sorted((r for r in runs if len(r.events) > 40), key=lambda r: (r.schema, r.id))
    batches = [("%ss%03d" % (prefix, i), chunk, plans, wd) for i, chunk in enumerate(vlib.chunks(short, 400))]
    cur, lines, names = [], 0, set()
    n = 0
    for r in long_:
        if cur and (lines + len(r.events) > 12000 or len(names | {r.schema}) > 12):
            batches.append(("%sl%03d" % (prefix, n), cur, plans, wd))
            n += 1
            cur, lines, names = [], 0, set()
        cur.append(r)
        lines += len(r.events)
        names.add(r.schema)
    if cur:
        batches.append(("%sl%03d" % (prefix, n), cur, plans, wd))
    return batches


def classify(r, rec):
    """Name the class of a run TLC rejected, from what was observed (the
    rejection itself is TLC's).  -> (what, description)"""
    ev = rec["event"]
    left = sorted(r.tree)[:6]
    # how the process ended, if not by a normal exit without a sanitizer report (observed facts name the class,
    # wherever in the episode TLC stopped: a sanitizer's symbolizer, for one, opens files after the fact)
    if r.signal == -1:
        what = "timeout"
    elif r.signal > 0:
        why = abort_reason(r.stderr)
        what = "%s(sig=%d)%s" % ("abort" if r.signal == 6 else "crash", r.signal, (":" + why) if why else "")
    elif r.ub and r.ub["kind"] == "abort":
        what = "abort(sig=6):%s%s" % (r.ub["what"], (" in " + r.ub["where"]) if r.ub["where"] else "")
    elif r.ub:
        what = "%s(%s%s)" % (r.ub["kind"], r.ub["what"], (" in " + r.ub["where"]) if r.ub["where"] else "")
    elif ev["ev"] == "Plan":
        what = "output-calls-not-a-well-formed-emission"
    elif ev["ev"] == "exit" and ev["status"] != 0 and not rec["diag"]:
        what = "no-diag"
    elif ev["ev"] == "exit" and ev["status"] == 0:
        what = "exit0-" + ("after-failed-call" if rec["failed"] else "plan-not-finished")
    elif ev["ev"] == "exit" and rec["nio"] > 0 and not rec["failed"]:
        what = "exit%d-after-output-without-failed-call" % ev["status"]
    elif ev["ev"] == "exit":
        what = "exit%d-not-allowed" % ev["status"]
    elif ev["ev"] == "sys" and ev.get("cls") == "out":
        # an output call the machine does not allow here
        if r.status != 0:
            what = "leftover" if r.tree else "output-call-on-rejection"
        else:
            what = "output-before-" + ("named" if rec["phase"] not in ("Named", "Emitting") else "plan")
    elif ev["ev"] == "sys":
        what = "input-call-after-parsing" if rec["phase"] not in ("Start", "Args") else "input-call"
    elif ev["ev"] == "disk":
        what = "leftover" if r.status != 0 else "files-differ-from-plan"
    elif ev["ev"] == "phase":
        what = "phase-order/" + ev["name"]
    else:
        what = "rejected-at-" + ev["ev"]
    if (r.signal != 0 or r.ub) and r.tree:
        what += "+leftover"
    desc = ("run %s (%s build) is not a behaviour of Sbeppc: stuck at trace line %d, event %s; spec state phase=%s nio=%s failed=%s diag=%s; "
            "wait status: exit %s signal %s%s; files left: %s\n  command: cd <in> && %s\n  stdout: %s\n  stderr: %s" % (
                r.id, r.kind, rec["line"], json.dumps(ev)[:200], rec["phase"], rec["nio"], rec["failed"], rec["diag"],
                r.status, sr.signal_name(r.signal) if r.signal > 0 else r.signal, " (as uid 65534)" if getattr(r, "asuser", False) else "",
                left, " ".join(a if isinstance(a, str) else repr(a) for a in r.argv[1:])[:300],
                r.stdout[-300:].replace("\n", " | "), r.stderr[-700:].replace("\n", " | ")))
    return what, desc


# ------------------------------------------------------------------ jobs ---

class Job:
    """one input of sbeppc: a TLC case on a base, or a repository schema"""
    __slots__ = ("jid", "head", "labels", "base", "case", "files", "argv", "env", "vac", "key", "corpus")

    def __init__(self, jid, head, labels, base=None, case=None, corpus=None):
        self.jid, self.head, self.labels, self.base, self.case, self.corpus = jid, head, labels, base, case, corpus
        self.files = self.argv = None
        self.env, self.vac, self.key = "", [], ""


def materialize(job, base_docs):
    if job.corpus:
        path, opts = job.corpus
        with open(path, "rb") as f:
            job.files = {"main.xml": f.read()}
        job.argv = ["--output-dir", "@out"] + opts + ["@main"]
    else:
        job.files, job.argv, job.env, job.vac = gg.build_case(base_docs[job.base], job.case["actions"])
    job.key = vlib.sha(json.dumps(sorted((k, vlib.sha(v)) for k, v in job.files.items())), json.dumps(job.argv), job.env)
    return job


def execute(job, kind, binary, rdir, second_xml, tag=""):
    r = run_files(binary, kind, job.files, job.argv, rdir, "%s%s-%s" % (tag, job.jid, kind), "", asuser="nobody" in job.env,
                  second_xml=second_xml)
    r.job = job
    r.second = None
    return r


def abnormal(r):
    """worth an immediate second execution (scheduling only - TLC decides what is rejected)"""
    return r.signal != 0 or r.ub is not None or (r.status != 0 and not sr.diag_event(r.stdout, r.stderr)["present"])


_CTX = {}


def _prep(job):
    """worker process: materialize one job"""
    if job.files is None:
        materialize(job, _CTX["base_docs"])
    return job


def _task(t):
    """worker process: one job through one build"""
    job, kind = t
    c = _CTX
    r = execute(job, kind, c["bins"][kind], c["rdir"], c["second_xml"])
    if not r.not_run and abnormal(r) and r.signal != -1:
        r.second = execute(job, kind, c["bins"][kind], c["rdir"], c["second_xml"], tag="again-")
    r.job = None        # (the caller has it)
    if r.second is not None:
        r.second.job = None
    return r


def _again(t):
    job, kind = t
    c = _CTX
    return execute(job, kind, c["bins"][kind], c["rdir"], c["second_xml"], tag="again-")


def pool_map(fn, items, chunk=4):
    from concurrent.futures import ProcessPoolExecutor
    import multiprocessing
    with ProcessPoolExecutor(max_workers=PAR, mp_context=multiprocessing.get_context("fork")) as ex:
        return list(ex.map(fn, items, chunksize=chunk))


def corpus_jobs():
    repo = vlib.REPO
    jobs = []
    for sub in ("cli_errors", "schema_parser_errors", "sbe_checker_errors", "cpp_validator_errors"):
        d = os.path.join(repo, "test", "sbeppc_errors", sub)
        for f in sorted(os.listdir(d)) if os.path.isdir(d) else []:
            if f.endswith(".xml"):
                jobs.append(Job("corpus-%s-%s" % (sub, f[:-4]), "corpus/sbeppc_errors/%s/%s" % (sub, f[:-4]),
                                [("Corpus", "sbeppc_errors/" + sub, f[:-4])], corpus=(os.path.join(d, f), [])))
    for sub in ("schemas", "naming_test"):
        d = os.path.join(repo, "test", sub)
        for f in sorted(os.listdir(d)):
            if f.endswith(".xml"):
                # as the repository's build compiles them: --schema-name <file stem>
                jobs.append(Job("corpus-%s-%s" % (sub, f[:-4]), "corpus/%s/%s" % (sub, f[:-4]),
                                [("Corpus", sub, f[:-4])], corpus=(os.path.join(d, f), ["--schema-name", f[:-4]])))
    return jobs


def case_record(r):
    j = r.job
    c = {"head": j.head, "build": r.kind, "replay": "./verif replay <this file> (re-runs the case on both builds and validates the runs alone)", "argv": [a if isinstance(a, str) else a.decode("utf-8", "backslashreplace") for a in r.argv[1:]],
         "env": j.env, "exit": r.status, "signal": r.signal, "stdout": r.stdout[-800:], "stderr": r.stderr[-2500:], "left": sorted(r.tree)[:20]}
    if j.corpus:
        c["corpus"] = j.corpus[0]
        c["opts"] = j.corpus[1]
    else:
        c["base"] = j.base
        c["actions"] = j.case["actions"]
        c["files"] = {k: v.decode("utf-8", "backslashreplace")[:20000] for k, v in j.files.items()}
    return c


# ------------------------------------------------------------------- run ---

def run(v, tier, seed):
    thorough = tier == "thorough"
    wd = vlib.fresh_dir(os.path.join(vlib.WORK, "c09", "check"))
    rdir = os.path.join(wd, "runs")
    bins = {"san": vlib.build_sbeppc("san"), "plain": vlib.build_sbeppc("plain")}
    sr.build_shim()
    build_longpath()
    t_all = time.time()

    # ---- 1. TLC: the cases -------------------------------------------------------
    bs = gg.bases(tier)
    workers = max(2, PAR // max(1, len(bs)))
    t0 = time.time()
    results = vlib.parallel([(n, S, tier, seed, wd, workers) for n, S in bs], tlc_base, nproc=len(bs))
    states = trans = 0
    jobs, base_docs, base_xml = [], {}, {}
    for name, xml, r in results:
        states += r.distinct
        trans += r.generated
        v.part("tlc_" + name, distinct_states=r.distinct, generated=r.generated, cases=len(r.records), wall_s=round(r.wall, 1),
               invariants=INVARIANTS)
        if not r.ok:
            v.violation("spec/%s/%s" % (name, r.violated), "Garble.tla violates %s on base %s:\n%s" % (r.violated, name, r.raw[-2500:]))
        base_docs[name] = gg.parse(xml)
        base_xml[name] = xml
        for i, rec in enumerate(r.records):
            if rec.get("verdict") != "graceful":
                raise vlib.InfraError("case without the verdict `graceful`: %s" % json.dumps(rec)[:300])
            jobs.append(Job("%s-%05d" % (name, i), case_head(rec), label(rec), base=name, case=rec))
    v.part("tlc", wall_s=round(time.time() - t0, 1), bases=[n for n, _ in bs])
    vlib.log("C09: TLC generated %d cases in %.0f s" % (len(jobs), time.time() - t0))
    if os.environ.get("VERIF_C09_NOCORPUS") != "1":   # development aid
        jobs += corpus_jobs()
    second_xml = sch.to_xml(gg.bases("quick")[0][1]).replace('package="c09"', 'package="c09second"')

    # ---- 2. the unedited bases are compiled by both builds, hook and shim are in place (else nothing below means anything) ----
    plans = {}
    for name in base_docs:
        for kind in ("plain", "san"):
            bj = materialize(Job("base-" + name, "base/" + name, [("Base", name, "-")], base=name, case={"actions": []}), base_docs)
            r = execute(bj, kind, bins[kind], rdir, second_xml)
            if r.status != 0 or r.signal != 0 or r.ub:
                raise vlib.InfraError("the unedited base %s is not compiled by the %s build: exit %s signal %s\n%s%s" % (
                    name, kind, r.status, r.signal, r.stdout[-500:], r.stderr[-1500:]))
            if not any(e.get("ev") == "phase" for e in r.logged):
                raise vlib.InfraError("no phase markers from sbeppc: the SBEPP_VERIF hook is not in %s" % vlib.REPO)

    # ---- 3. every case through both builds (worker processes) ---------------------------
    t1 = time.time()
    _CTX.update(base_docs=base_docs, bins=bins, rdir=rdir, second_xml=second_xml)
    public_libs(bins["plain"])
    jobs = pool_map(_prep, jobs, chunk=32)
    # (the slow cases - hangs - are spread by the seed, not clustered at the end)
    order = [(j, kind) for j in jobs for kind in ("san", "plain")]
    random.Random(seed).shuffle(order)
    runs = pool_map(_task, order)
    for (j, kind), r in zip(order, runs):
        r.job = j
        if r.second is not None:
            r.second.job = j
    distinct_inputs = len({j.key for j in jobs})
    vacuous = sum(1 for j in jobs if j.vac)
    not_run = [r for r in runs if r.not_run]
    runs = [r for r in runs if not r.not_run]
    t_exec = time.time() - t1
    vlib.log("C09: %d cases, %d runs in %.0f s" % (len(jobs), len(runs), t_exec))

    def plan_of(r):
        return attach_plan(r, plans)
    for r in runs:
        plan_of(r)

    # ---- 4. TLC judges the runs (SbeppcTrace), in batches ----------------------------
    t2 = time.time()
    reps, same = distinct_traces(runs)
    batches = make_batches(reps, plans, wd, "b")
    results = vlib.parallel(batches, validate, nproc=PAR)
    tv_states = sum(res.distinct for _, res in results)
    rejected = []
    for rej, _ in results:
        for rec in rej:             # the verdict on a trace is the verdict on every run that produced it
            for r in same[rec["rejected"]]:
                rejected.append(dict(rec, rejected=r.id))
    byid = {r.id: r for r in runs}
    t_tv = time.time() - t2
    vlib.log("C09: %d batches validated in %.0f s, %d runs rejected" % (len(batches), t_tv, len(rejected)))

    # ---- 5. every rejected run once more (a timeout, a crash, a report must repeat) ----
    first = []
    for rec in rejected:
        r = byid[rec["rejected"]]
        what, desc = classify(r, rec)
        first.append((r, what, desc))
    todo = [(r.job, r.kind) for r, _, _ in first if r.second is None]
    fresh = iter(pool_map(_again, todo, chunk=1) if todo else [])
    again = []
    for r, _, _ in first:
        r2 = r.second if r.second is not None else next(fresh)
        r2.job = r.job
        again.append(r2)
    for r2 in again:
        plan_of(r2)
    rej2 = {}
    if again:
        reps2, same2 = distinct_traces(again)
        b2 = make_batches(reps2, plans, wd, "again")
        for rej, res in vlib.parallel(b2, validate, nproc=PAR):
            tv_states += res.distinct
            for rec in rej:
                for r in same2[rec["rejected"]]:
                    rej2[r.id] = dict(rec, rejected=r.id)
    classes, unrepeated, dump = {}, [], []
    for (r, what, desc), r2 in zip(first, again):
        rec2 = rej2.get(r2.id)
        what2 = classify(r2, rec2)[0] if rec2 else "accepted"
        if what2 != what:
            unrepeated.append({"case": r.job.head, "build": r.kind, "first": what, "second": what2})
            continue
        sig = "%s/%s/%s" % (r.job.head, r.kind, what)
        classes[sig] = classes.get(sig, 0) + 1
        dump.append({"signature": sig, "desc": desc, "argv": case_record(r)["argv"]})
        v.violation(sig, desc, case_record(r))
    vlib.write(os.path.join(wd, "alarms.json"), json.dumps(dump, indent=1))

    vlib.write(os.path.join(wd, "runs.ndjson"), "".join(json.dumps(
        {"case": r.job.head, "build": r.kind, "exit": r.status, "signal": r.signal, "ub": r.ub, "plan": r.schema, "left": len(r.tree),
         "says": sr._ANSI.sub("", (r.stdout + r.stderr).strip().split("\n")[0])[:160]}) + "\n" for r in runs))

    # ---- 6. evidence -----------------------------------------------------------------
    per_action, triples, outcome = {}, set(), {}
    for j in jobs:
        for (a, pos, lex) in j.labels:
            triples.add((a, pos, lex))
        k = "+".join(a for a, _, _ in j.labels)
        per_action[k] = per_action.get(k, 0) + 1
    for r in runs:
        o = "timeout" if r.signal == -1 else "signal" if r.signal else "ub-report" if r.ub else "exit0" if r.status == 0 else "rejected-with-diagnostic" \
            if sr.diag_event(r.stdout, r.stderr)["present"] else "exit%d-without-diagnostic" % r.status
        outcome.setdefault(r.kind, {}).setdefault(o, 0)
        outcome[r.kind][o] += 1
    what_count = {}
    for sig, n in classes.items():
        w = sig.rsplit("/", 2)[-2] + "/" + sig.rsplit("/", 1)[-1]
        what_count[w] = what_count.get(w, 0) + n
    v.part("cases", total=len(jobs), by_action=per_action, distinct_inputs=distinct_inputs, with_a_vacuous_edit=vacuous,
           command_lines_the_kernel_refused=len(not_run) // 2)
    v.part("runs", executed=len(runs) + len(again) + 2 * len(base_docs), outcome=outcome, exec_wall_s=round(t_exec, 1),
           slowest_s=round(max(r.wall for r in runs), 2) if runs else 0, as_unprivileged_user=sum(1 for r in runs if getattr(r, "asuser", False)),
           running_as_root=os.geteuid() == 0)
    v.part("trace_validation", batches=len(batches), lines=sum(len(r.events) for r in reps), distinct_traces=len(reps), runs=len(runs), plans=len(plans), tlc_states=tv_states,
           rejected_runs=len(rejected), repeated=sum(classes.values()), not_repeated=unrepeated[:20], wall_s=round(t_tv, 1),
           alarm_kinds=what_count)
    smp = []
    for j in jobs[3:len(jobs):max(1, len(jobs) // 6)][:6]:
        if j.corpus:
            smp.append({"corpus": j.corpus[0]})
        else:
            smp.append({"base": j.base, "actions": [{k: a[k] for k in ("action", "pos", "lex", "edits", "files", "argv", "env")} for a in j.case["actions"]]})
    smp = json.loads(json.dumps(smp)[:60000]) if len(json.dumps(smp)) < 60000 else smp[:2]
    for s in smp:      # a 5000-character lexeme is not worth printing in full
        for a in s.get("actions", []):
            for e in a["edits"]:
                if len(e["val"]) > 200:
                    e["val"] = e["val"][:40] + "...(%d chars)" % len(e["val"])
            a["argv"] = [x if len(x) < 200 else x[:40] + "...(%d chars)" % len(x) for x in a["argv"]]
    v.add(states=states + tv_states, transitions=trans, evaluations=len(runs) + len(again) + 2 * len(base_docs),
          distinct_nontrivial=len(triples), traces_validated_against_impl=len(runs) + len(again),
          rule="one case = one state of Garble.tla: 1 or 2 garbling actions (action, position class, lexeme class - labels computed by TLC) "
               "applied to a base document, or one schema of the repository's test corpus; one evaluation = one execution of the real sbeppc "
               "(sanitized and plain build, each case in both) under the I/O shim, its recorded run validated by TLC against SbeppcTrace; "
               "distinct non-trivial = distinct (action, position class, lexeme class) triples among the executed cases (every one changes "
               "the input or the command line; %d distinct input sets + command lines)" % distinct_inputs,
          samples=smp, exhaustive=False)
    v.assumptions += [
        "scope: base documents = %s; depth <= 2; pairs are a seeded sample (PairStride), positions %s" % (
            [n for n, _ in bs], "all of the compact base, one per position class of the others" if thorough else "one per position class"),
        "hang detector: %d s CPU time per run (RLIMIT_CPU; a normal run takes 10-30 ms) and 150 s wall; plain build under a %d MiB address-space limit, sanitized build "
        "under max_allocation_size_mb=1024 / soft_rss_limit_mb=2048 with allocator_may_return_null (allocation failure = std::bad_alloc, "
        "as under any memory limit)" % (RUN_TIMEOUT, AS_LIMIT >> 20),
        "LeakSanitizer is off (a leak is neither a crash nor undefined behaviour); ASan/UBSan reports are read from stderr",
        "permission fixtures (mode 000 file, mode 555 directory) are run as uid 65534 because root ignores file modes" if os.geteuid() == 0
        else "not running as root: permission fixtures are run as the current user",
        "a rejected run is reported only if a second execution of the same case is rejected in the same class",
        "plan of a run = its own output calls if it exited 0; otherwise no plan: output calls only after the `named` marker, and "
        "status # 0 after output calls / files left behind only if an output call failed (SbeppcTraceC09)",
        "the shim sees mkdir/open/write/close/rename/unlink below the output directory; TLC, tools/garblegen.py (edit application, "
        "serialization) and tools/sbeppcrun.py are trusted"]
    return v.finish("exploration",
                    "Garble.tla: scope invariants model-checked, every state emitted as a case; every case run through the sanitized and the "
                    "plain sbeppc; every run validated by TLC against SbeppcTrace (normal exit, status 0 or diagnostic, no output call "
                    "unless the run succeeds, phases in order); plus the repository's test schemas as trace source")


def replay(rp):
    """Re-execute the case of a recorded violation on both builds and validate the two runs alone."""
    case = rp.get("case") or {}
    print(json.dumps({k: rp.get(k) for k in ("property", "signature")}, indent=1))
    if "corpus" in case:
        job = Job("replay", case["head"], [], corpus=(case["corpus"], case.get("opts", [])))
        materialize(job, {})
    elif "actions" in case:
        S = dict(gg.bases("thorough")).get(case["base"])
        if S is None:
            print("unknown base %r" % case["base"])
            return 2
        job = Job("replay", case["head"], [], base=case["base"], case={"actions": case["actions"]})
        materialize(job, {case["base"]: gg.parse(sch.to_xml(S))})
        for a in case["actions"]:
            print("action: %s at %s, %s; %d edit(s)" % (a["action"], a["pos"], a["lex"], len(a["edits"])))
    else:
        print("model-level failure (Garble.tla): re-run ./verif check C09")
        return 1
    wd = vlib.fresh_dir(os.path.join(vlib.WORK, "c09", "replay"))
    keep = os.path.join(wd, "input")
    for fn, b in job.files.items():
        vlib.write(os.path.join(keep, fn), b, "wb")
    print("input files kept in %s; command line: sbeppc %s" % (keep, " ".join(job.argv or ["--output-dir", "../out", "main.xml"])))
    second_xml = sch.to_xml(gg.compact_schema()).replace('package="c09"', 'package="c09second"')
    plans, runs = {}, []
    for kind in ("san", "plain"):
        r = execute(job, kind, vlib.build_sbeppc(kind), os.path.join(wd, "runs"), second_xml)
        if r.not_run:
            print("%s: the command line cannot be passed to a process: %s" % (kind, r.stderr))
            continue
        attach_plan(r, plans)
        runs.append(r)
        print("%s build: exit %s signal %s%s\n  stdout: %s\n  stderr: %s" % (
            kind, r.status, r.signal, " sanitizer: %s" % json.dumps(r.ub) if r.ub else "", r.stdout[-600:], r.stderr[-1500:]))
    rej, _ = validate(("replay", runs, plans, wd))
    for x in rej:
        r = [y for y in runs if y.id == x["rejected"]][0]
        print("REJECTED by SbeppcTraceC09: %s build: %s" % (r.kind, classify(r, x)[0]))
    print("accepted" if not rej else "rejected")
    return 1 if rej else 0
