"""C16 - optional/required scalars: null, range, ordering and SBE defaults.

TLC model-checks Optional.tla (sanity theorems of the documented comparison
rules over a symbolic boundary-token domain per primitive type) and emits one
vector per (primitive, flavour, ordered pair of objects) with the expected
result of every observer, plus one `type` vector per (primitive, flavour) with
the schema attributes and the exact min/max/null the type must expose.

Python turns the `type` vectors into an SBE schema (sbeppc generates the
types), compiles harness/c16_optional.cpp per primitive and configuration and
replays the vectors; a sample (thorough: all) of the vectors is also
transliterated into static_asserts (constant evaluation).

A build that fails because of a library / generated-code construct is narrowed
down to the failing (flavour, part) units, which are reported as `compile/...`
violations; everything else is still built and replayed.
"""
import json
import os
import random
import re

import schema as sch
import vlib
from vlib import tlc, mc, try_cxx, run_harness, write_ndjson

PRIMS = ["char", "int8", "uint8", "int16", "uint16", "int32", "uint32", "int64", "uint64", "float", "double"]
# order = bit index in C16_FLAVOUR_MASK (harness/c16_types.hpp)
FLAVOURS = ["builtin_req", "builtin_opt", "def_req", "def_opt", "expA_req", "expA_opt", "expB_req", "expB_opt",
            "expC_opt", "expD_req"]
PARTS = [("core", 1), ("ord", 2), ("tw", 4)]
ALLF = (1 << len(FLAVOURS)) - 1
ALLP = 7

CTYPE = {"char": "char", "int8": "std::int8_t", "uint8": "std::uint8_t", "int16": "std::int16_t",
         "uint16": "std::uint16_t", "int32": "std::int32_t", "uint32": "std::uint32_t", "int64": "std::int64_t",
         "uint64": "std::uint64_t", "float": "float", "double": "double"}

# admissible readings of the default minValue of float/double (Optional.tla, SbeDefault)
FP_MIN_READINGS = '{"lowest", "minpos"}'

INVS = ["TypeOK", "ConstructedNull", "Trichotomy", "NaNUnordered", "LeSplit", "NullIsLeast", "NullEqualsNull",
        "NullEqualsOnlyNull", "ValuesCompareUnderlying", "Duality", "TotalAwayFromNaN", "Transitive", "ValueOrLaw",
        "DefaultsSane"]

CONFIGS_QUICK = [("g++", "c++11"), ("g++", "c++20"), ("clang++", "c++17")]
CONFIGS_THOROUGH = [(c, s) for c in ("g++", "clang++") for s in ("c++11", "c++14", "c++17", "c++20", "c++2b")]


def c16_schema(type_vectors):
    """type vectors (origin = schema) -> JSON schema; attribute lexemes are
    the spec's (xml_min/xml_max/xml_null), absent ones stay absent."""
    types = [{"kind": "composite", "name": "messageHeader", "elements": [
        {"kind": "type", "name": n, "prim": "uint16"} for n in ("blockLength", "templateId", "schemaId", "version")]}]
    seen = set()
    for t in type_vectors:
        if t["origin"] != "schema":
            continue
        name = "%s_%s" % (t["prim"], t["flavour"])
        if name in seen:       # one per variant; the schema text is the same
            continue
        seen.add(name)
        types.append({"kind": "type", "name": name, "prim": t["prim"],
                      "presence": "optional" if t["opt"] else None,
                      "min": t["xml_min"] or None, "max": t["xml_max"] or None, "null": t["xml_null"] or None})
    return {"package": "c16", "id": 1, "version": 0, "byteOrder": "littleEndian", "types": types,
            "messages": [{"name": "m", "id": 1, "fields": [], "groups": [], "data": []}]}


# ------------------------------------------------------------ compile units --

def first_errors(out, n=6):
    ls = [l for l in out.splitlines() if ": error:" in l or "required from" in l or "in instantiation" in l]
    return "\n".join(ls[:n]) if ls else out[-1200:]


def narrow(build, what):
    """build(fmask, pmask) -> (ok, out).  Returns (units, failures):
    units = [(fmask, pmask, out)] that built, failures = [(flavour, part, out)]
    leaves that do not.  The full build is tried first; a failing build is
    split per flavour, a failing flavour per part."""
    ok, out = build(ALLF, ALLP)
    if ok:
        return [(ALLF, ALLP, out)], []
    full_out = out
    units, failures = [], []
    per_f = vlib.parallel(range(len(FLAVOURS)), lambda i: build(1 << i, ALLP))
    todo = []
    for i, (ok, out) in enumerate(per_f):
        if ok:
            units.append((1 << i, ALLP, out))
        else:
            todo += [(i, pn, pm) for pn, pm in PARTS]
    per_p = vlib.parallel(todo, lambda t: build(1 << t[0], t[2]))
    bad_by_f = {}
    for (i, pn, pm), (ok, out) in zip(todo, per_p):
        if ok:
            units.append((1 << i, pm, out))
        else:
            failures.append((FLAVOURS[i], pn, out))
            bad_by_f[i] = bad_by_f.get(i, 0) + 1
    if not failures:
        raise vlib.InfraError("%s: the complete build fails but every (flavour, part) unit builds:\n%s" % (what, full_out[-3000:]))
    if len(failures) == len(FLAVOURS) * len(PARTS):
        raise vlib.InfraError("%s: no unit builds at all (harness or toolchain problem):\n%s" % (what, full_out[-3000:]))
    return units, failures


# ------------------------------------------------- constant evaluation TUs --

def cxx_literal(prim, text):
    """value text -> C++ constant expression of the primitive's type
    (notation only)."""
    T = CTYPE[prim]
    if prim in ("float", "double"):
        if text == "nan":
            return "std::numeric_limits<%s>::quiet_NaN()" % T
        if text == "inf":
            return "std::numeric_limits<%s>::infinity()" % T
        if text == "-inf":
            return "(-std::numeric_limits<%s>::infinity())" % T
        d = float.fromhex(text)            # exact; repr(d) round-trips exactly
        return "static_cast<%s>(%s)" % (T, repr(d))
    n = int(text)
    if n == -2 ** 63:
        return "static_cast<%s>(-9223372036854775807LL - 1)" % T
    if n < 0:
        return "static_cast<%s>(-%dLL)" % (T, -n)
    return "static_cast<%s>(%dULL)" % (T, n)


def cx_obj(S, prim, how, text):
    if how == "DEFAULT":
        return "%s{}" % S
    if how == "NULLOPT":
        return "%s{sbepp::nullopt}" % S
    return "%s{%s}" % (S, cxx_literal(prim, text))


CX_PRELUDE = r'''#include "c16_types.hpp"
#include <limits>
#include <cstdint>
// identity usable in constant expressions: both NaN, or equal (the sign of a
// zero is checked by the run-time replay only)
template<class T> constexpr bool cx_same(T x, T y)
{ return (x != x || y != y) ? ((x != x) && (y != y)) : (x == y); }
#if SBEPP_HAS_THREE_WAY_COMPARISON
template<class O> constexpr int cx_tw(O o) { return o == 0 ? 0 : o < 0 ? -1 : o > 0 ? 1 : 2; }
#endif
'''
TW_CODE = {"equal": 0, "less": -1, "greater": 1, "unordered": 2}


def cx_source(prim, vectors):
    """Transliterate pair vectors into static_asserts; expected values are the
    vector fields. Returns (text, number of asserts)."""
    L = [CX_PRELUDE]
    n = 0
    by_f = {}
    for v in vectors:
        by_f.setdefault(v["flavour"], []).append(v)
    for fi, f in enumerate(FLAVOURS):
        vs = by_f.get(f, [])
        if not vs:
            continue
        S = "T_" + f
        L.append("#if C16_HAS(%d)" % fi)
        core, ordp, tw, core14 = [], [], [], []
        for v in vs:
            A = cx_obj(S, prim, v["a"], v["aval"])
            B = cx_obj(S, prim, v["b"], v["bval"])
            ab = "%s-%s" % (v["acls"], v["bcls"])
            tail = "prim=%s flavour=%s a=%s b=%s" % (prim, f, v["a"], v["b"])

            def sa(dst, expr, exp, pred, args):
                dst.append('static_assert((%s) == %s, "cx %s.%s %s");' % (expr, exp, pred, args, tail))
            tf = lambda b: "true" if b else "false"
            sa(core, "cx_same(%s.value(), %s)" % (A, cxx_literal(prim, v["aval"])), "true", "value", v["acls"])
            if v["opt"]:
                sa(core, "%s.has_value()" % A, tf(v["hv"]), "hv", v["acls"])
                sa(core, "static_cast<bool>(%s)" % A, tf(v["hv"]), "bool", v["acls"])
                sa(core14, "cx_same(%s.value_or(%s), %s)" % (A, cxx_literal(prim, v["bval"]), cxx_literal(prim, v["vor"])),
                   "true", "vor", v["acls"])
            sa(core, "%s.in_range()" % A, tf(v["inr"]), "inr", v["acls"])
            sa(core, "%s == %s" % (A, B), tf(v["eq"]), "eq", ab)
            sa(core, "%s != %s" % (A, B), tf(v["ne"]), "ne", ab)
            sa(ordp, "%s < %s" % (A, B), tf(v["lt"]), "lt", ab)
            sa(ordp, "%s <= %s" % (A, B), tf(v["le"]), "le", ab)
            sa(ordp, "%s > %s" % (A, B), tf(v["gt"]), "gt", ab)
            sa(ordp, "%s >= %s" % (A, B), tf(v["ge"]), "ge", ab)
            sa(tw, "cx_tw(%s <=> %s)" % (A, B), str(TW_CODE[v["tw"]]), "tw", ab)
        L += ["#if C16_CORE"] + core + ["#if __cplusplus >= 201402L"] + core14 + ["#endif", "#endif"]
        L += ["#if C16_ORD"] + ordp + ["#endif"]
        L += ["#if C16_TW"] + tw + ["#endif"]
        L.append("#endif")
        n += len(core) + len(core14) + len(ordp) + len(tw)
    L.append("int main(){}")
    return "\n".join(L) + "\n", n


SA_RE = re.compile(r"cx (\w+)\.([\w-]+) prim=(\w+) flavour=(\w+) a=(\w+) b=(\w+)")


def split_cx_output(out):
    """-> (static-assert failure lines, other error lines)"""
    sa, other = [], []
    for l in out.splitlines():
        if ": error:" not in l and ": fatal error:" not in l:
            continue
        if ("static assertion failed" in l or "static_assert failed" in l) and SA_RE.search(l):
            sa.append(l)
        else:
            other.append(l)
    return sa, other


# ------------------------------------------------------------- building ----

def spec_run(wd, p):
    """Model-check Optional.tla for primitive p (all sanity theorems) and
    collect its vectors."""
    name = "MC_Optional_%s" % p
    d = os.path.join(wd, "mc_" + p)
    mc(d, name, "Optional", 'PrimsDef == {"%s"}\nFpMinDef == %s\n' % (p, FP_MIN_READINGS),
       "CONSTANT Prims <- PrimsDef\nCONSTANT FpMinReadings <- FpMinDef\nINIT Init\nNEXT Next\nVIEW view\n"
       + "".join("INVARIANT %s\n" % i for i in INVS) + "INVARIANT Emit\nPROPERTY FrameProp\n")
    return tlc(name, cwd=d, workers=1, xmx="2g", timeout=600)


def split_records(records):
    types, pairs, seen = [], [], set()
    for rec in records:
        k = (rec["kind"], rec["prim"], rec["flavour"], rec["variant"], rec.get("a"), rec.get("b"))
        if k in seen:
            continue
        seen.add(k)
        (types if rec["kind"] == "type" else pairs).append(rec)
    return types, pairs


DRV_SRC = os.path.join(vlib.HARNESS, "c16_optional.cpp")
OPS_SRC = os.path.join(vlib.HARNESS, "c16_ops.cpp")


def build_driver(cfg):
    """The generic driver (JSON, comparison): one object per configuration."""
    comp, std = cfg
    return vlib.cxx(DRV_SRC, flags=["-std=" + std, "-O0", "-c"], compiler=comp, name="c16drv-%s-%s" % (comp, std))


def ops_builder(cfg, p, inc, driver_obj):
    """-> build(flavour_mask, part_mask): the light per-primitive operations
    TU linked with the driver.  No -w: g++ demotes the narrowing error of an
    ill-formed generated literal to a suppressible warning."""
    comp, std = cfg

    def build(fm, pm):
        return try_cxx(OPS_SRC, flags=["-std=" + std, "-O0", "-DC16_PRIM=" + p,
                                       "-DC16_FLAVOUR_MASK=%d" % fm, "-DC16_PART_MASK=%d" % pm],
                       compiler=comp, includes=[inc], link=[driver_obj], name="c16-%s-%s-%s" % (p, comp, std))
    return build


# ------------------------------------------------------------------- run ----

def run(v, tier, seed):
    rnd = random.Random(seed)
    thorough = tier == "thorough"
    wd = vlib.fresh_dir(os.path.join(vlib.WORK, "c16"))
    configs = CONFIGS_THOROUGH if thorough else CONFIGS_QUICK
    import time
    t0 = time.time()

    def lap(what):
        vlib.log("c16: %-28s %6.1fs" % (what, time.time() - t0))

    # ---- 1. TLC: sanity theorems + vectors, one run per primitive ---------
    def tlc_job(p):
        return p, spec_run(wd, p)

    pairs, types = [], []
    states = trans = 0
    spec_ok = True
    for p, r in vlib.parallel(PRIMS, tlc_job, nproc=min(vlib.NCPU, 11)):
        if not r.ok:
            spec_ok = False
            v.violation("spec/prim=%s" % p, "Optional.tla violates %s in the model itself:\n%s" % (r.violated, r.raw[-1500:]))
            continue
        t_, p_ = split_records(r.records)
        types += t_
        pairs += p_
        np_, nt = len(p_), len(t_)
        if np_ != r.distinct:
            raise vlib.InfraError("C16 %s: %d pair vectors for %d distinct states" % (p, np_, r.distinct))
        states += r.distinct
        trans += r.generated
        v.part("tlc_" + p, distinct_states=r.distinct, generated=r.generated, pair_vectors=np_, type_vectors=nt,
               invariants=len(INVS), wall_s=round(r.wall, 1))
    if not spec_ok:
        return v.finish("model_checking")
    lap("tlc done")
    vec_path = {}
    for p in PRIMS:   # the harness of a primitive reads only its own vectors
        vec_path[p] = os.path.join(wd, "vectors_%s.ndjson" % p)
        write_ndjson(vec_path[p], [x for x in types + pairs if x["prim"] == p])
    flav_seen = sorted({t["flavour"] for t in types})
    if flav_seen != sorted(FLAVOURS):
        raise vlib.InfraError("flavours of Optional.tla %s != flavours known to the harness %s" % (flav_seen, FLAVOURS))

    # ---- 2. the schema the spec describes, compiled by the real sbeppc ----
    xml = sch.to_xml(c16_schema(types))
    vlib.write(os.path.join(wd, "c16.xml"), xml)
    try:
        inc = vlib.gen_headers(xml, "c16")
    except vlib.SbeppcRejected as ex:
        v.violation("sbeppc/rejects-schema", "sbeppc rejects the schema with explicit/absent minValue/maxValue/nullValue "
                    "for every primitive type:\n%s" % ex.out[-1500:], {"xml": ex.xml})
        return v.finish("model_checking")

    # ---- 3. build (narrowing failures) and replay -------------------------
    drivers = dict(vlib.parallel(configs, lambda cfg: (cfg, build_driver(cfg))))

    jobs = [(cfg, p) for cfg in configs for p in PRIMS]

    def build_job(job):
        cfg, p = job
        return job, narrow(ops_builder(cfg, p, inc, drivers[cfg]), "c16_optional %s %s %s" % (p, cfg[0], cfg[1]))

    runs = []
    n_compile_fail = 0
    for (cfg, p), (units, failures) in vlib.parallel(jobs, build_job, nproc=vlib.NCPU):
        for f, part, out in failures:
            n_compile_fail += 1
            v.violation("compile/%s/prim=%s/flavour=%s/std=%s" % (part, p, f, cfg[1]),
                        "[%s %s] using the %s operations of %s %s does not compile:\n%s" % (
                            cfg[0], cfg[1], part, p, f, first_errors(out)),
                        {"harness": "c16_optional", "config": cfg, "prim": p, "flavour": f, "part": part,
                         "compiler_output_tail": out[-3000:]})
        for fm, pm, binary in units:
            runs.append((cfg, p, fm, pm, binary))

    lap("harness builds done")
    total_eval = 0
    replayed = 0
    per_cfg = {}
    for (cfg, p, fm, pm, binary), (mism, stat, proc) in zip(
            runs, vlib.parallel(runs, lambda r: run_harness(r[4], ["replay", vec_path[r[1]]]))):
        total_eval += stat["evaluations"]
        if pm & 1:
            replayed += stat["pairs_replayed"]
        pc = per_cfg.setdefault("%s_%s" % cfg, {"evaluations": 0, "pairs_replayed": 0, "mismatches": 0, "binaries": 0,
                                                "three_way": False, "fp_min_reading": {}, "per_kind": {}})
        for kind, n in stat["per_kind"].items():
            pc["per_kind"][kind] = pc["per_kind"].get(kind, 0) + n
        pc["evaluations"] += stat["evaluations"]
        pc["pairs_replayed"] += stat["pairs_replayed"] if pm & 1 else 0
        pc["mismatches"] += stat["mismatches"]
        pc["binaries"] += 1
        pc["three_way"] = pc["three_way"] or stat["three_way"]
        for f, var in stat["variants"].items():
            if var != "std":
                pc["fp_min_reading"]["%s/%s" % (p, f)] = var
        for m in mism:
            v.violation("replay/%s/std=%s" % (m["sig"], cfg[1]), "[%s %s] %s" % (cfg[0], cfg[1], m["desc"]),
                        {"harness": "c16_optional", "config": cfg, "prim": p, "flavour_mask": fm, "part_mask": pm,
                         "vector": m["case"]})   # ./verif replay re-derives the type vectors from the spec
    # vacuity: every observer must actually have been exercised in every
    # configuration (three-way only where the language has it)
    need = {"value", "hv", "bool", "vor", "inr", "eq", "ne", "lt", "le", "gt", "ge",
            "defaults.min", "defaults.max", "defaults.null", "defaults.same_as_builtin"}
    for cfg in configs:
        pc = per_cfg.get("%s_%s" % cfg)
        if pc is None:
            raise vlib.InfraError("C16: nothing was replayed for %s %s" % cfg)
        want = need | ({"tw"} if cfg[1] in ("c++20", "c++2b") else set())
        missing = sorted(k for k in want if not pc["per_kind"].get(k))
        if missing:
            raise vlib.InfraError("C16: observers never evaluated as specified under %s %s: %s" % (cfg[0], cfg[1], missing))
    for k, pc in per_cfg.items():
        v.part("replay_" + k, **pc)
    readings = sorted({x for pc in per_cfg.values() for x in pc["fp_min_reading"].values()})
    if "minpos" in readings:
        vlib.log("NOTE C16: float/double types without minValue expose min_value() = smallest positive normal "
                 "(numeric_limits::min()), so in_range() is false for 0 and every negative number; accepted because no "
                 "normative number for the FP default minValue could be established (Optional.tla, FpMinReadings).")

    lap("replay done")
    # ---- 4. constant evaluation: vectors as static_asserts ----------------
    by_prim = {}
    for x in pairs:
        by_prim.setdefault(x["prim"], []).append(x)
    cx_total = 0
    cx_jobs = []
    for p in PRIMS:
        # where the specification admits several readings of a default, use
        # the one every replay binary identified (from min_value() alone)
        vs = []
        for x in by_prim[p]:
            if x["variant"] == "std":
                vs.append(x)
            else:
                obs = {pc["fp_min_reading"].get("%s/%s" % (p, x["flavour"])) for pc in per_cfg.values()}
                if obs == {x["variant"]}:
                    vs.append(x)
        if not thorough:
            vs = rnd.sample(vs, min(len(vs), 160))
        txt, n = cx_source(p, vs)
        path = os.path.join(wd, "cx", "c16_cx_%s.cpp" % p)
        vlib.write(path, txt)
        for cfg in configs:
            cx_jobs.append((cfg, p, path, n))

    def cx_job(job):
        cfg, p, path, n = job
        comp, std = cfg
        limit = "-fconstexpr-ops-limit=1000000000" if comp == "g++" else "-fconstexpr-steps=100000000"
        sa_lines = []

        def build(fm, pm):
            ok, out = try_cxx(path, flags=["-std=" + std, limit, "-ferror-limit=0" if comp != "g++" else "-fmax-errors=0",
                                           "-DC16_PRIM=" + p, "-DC16_FLAVOUR_MASK=%d" % fm, "-DC16_PART_MASK=%d" % pm],
                              compiler=comp, includes=[inc], syntax_only=True, name="c16cx-%s" % p)
            if ok:
                return True, out
            sa, other = split_cx_output(out)
            if sa and not other:
                # only failed assertions: the unit compiles, the failures are findings
                for l in sa:
                    if l not in sa_lines:
                        sa_lines.append(l)
                return True, out
            return False, out
        units, failures = narrow(build, "c16 constexpr TU %s %s %s" % (p, comp, std))
        return job, sa_lines, failures

    for (cfg, p, path, n), sa_lines, failures in vlib.parallel(cx_jobs, cx_job, nproc=vlib.NCPU):
        cx_total += n
        for f, part, out in failures:
            v.violation("compile/cx-%s/prim=%s/flavour=%s/std=%s" % (part, p, f, cfg[1]),
                        "[%s %s] constant evaluation of the %s operations of %s %s does not compile:\n%s" % (
                            cfg[0], cfg[1], part, p, f, first_errors(out)),
                        {"source": path, "config": cfg, "prim": p, "flavour": f, "part": part,
                         "compiler_output_tail": out[-3000:]})
        sigs = {}
        for l in sa_lines:
            m = SA_RE.search(l)
            sigs.setdefault("constexpr/%s.%s/prim=%s/flavour=%s/std=%s" % (m.group(1), m.group(2), m.group(3), m.group(4), cfg[1]), l)
        for sg, l in sorted(sigs.items()):
            v.violation(sg, "[%s %s] %s" % (cfg[0], cfg[1], l.strip()[-400:]),
                        {"source": path, "config": cfg, "line": l.strip()})
    lap("constexpr done")
    v.part("constexpr", static_asserts=cx_total, translation_units=len(cx_jobs))

    v.add(states=states, transitions=trans, evaluations=total_eval + cx_total, distinct_nontrivial=len(pairs),
          traces_validated_against_impl=replayed,
          rule="one vector per distinct state of Optional.tla = (primitive, flavour, admissible default reading, ordered pair "
               "of objects); objects are the boundary tokens of the primitive plus default- and nullopt-constructed; every "
               "vector carries value, has_value/bool, value_or, in_range, ==, !=, <, <=, >, >=, <=>; each is executed for two "
               "construction ways per compiler/standard configuration; distinct = distinct vectors; flavours = built-in "
               "required/optional and 8 sbeppc-generated types per primitive (no attributes; all explicit mid-range; explicit "
               "type extremes; nullValue only; minValue only); 11 primitives",
          samples=[{k: x[k] for k in ("prim", "flavour", "a", "b", "aval", "bval", "hv", "vor", "inr", "eq", "lt", "le", "tw")}
                   for x in (pairs[:1] + [y for y in pairs if y["prim"] == "double" and y["flavour"] == "builtin_opt"
                                          and y["a"] == "DEFAULT" and y["b"] == "m1"][:1])]
          + [{k: t[k] for k in ("prim", "flavour", "xml_min", "xml_max", "xml_null", "min", "max", "null")}
             for t in types if t["prim"] == "int64" and t["flavour"] == "expB_opt"][:1],
          exhaustive=False, configurations=["%s/%s" % c for c in configs], compile_failures=n_compile_fail)
    v.assumptions += ["char is a signed 8-bit type on the host (x86-64 Linux); tokens tmin/tmax of char are -128/127",
                      "IEEE 754 binary32/binary64 float/double; any NaN stands for 'the' NaN (payload and sign ignored)",
                      "the numeric default minValue of float/double is not fixed by the specification side: -max and the "
                      "smallest positive normal are both accepted, built-in and generated types must agree with each other",
                      "value text <-> value conversion by strtoll/strtoull/strtof/strtod and glibc %a is exact"]
    return v.finish("model_checking")


def replay(rp):
    """Re-execute one recorded violation: the single vector (run-time
    mismatch) or the single (flavour, part) build (compile failure)."""
    case = rp.get("case") or {}
    print("signature: %s\n%s" % (rp.get("signature"), rp.get("desc")))
    if "prim" not in case or "config" not in case:
        print(json.dumps(case, indent=1))
        return 0
    p, cfg = case["prim"], tuple(case["config"])
    wd = vlib.fresh_dir(os.path.join(vlib.WORK, "c16", "replay"))
    r = spec_run(wd, p)
    if not r.ok:
        print("Optional.tla itself fails: %s" % r.violated)
        return 1
    types, pairs = split_records(r.records)
    inc = vlib.gen_headers(sch.to_xml(c16_schema(types)), "c16r_" + p)
    if "vector" in case:
        vec = case["vector"]
        fm, pm = 1 << FLAVOURS.index(vec["flavour"]), ALLP
        if case.get("part_mask", ALLP) != ALLP:
            pm = case["part_mask"]
        ok, out = ops_builder(cfg, p, inc, build_driver(cfg))(fm, pm)
        if not ok:
            print("the unit does not build:\n" + out[-3000:])
            return 1
        keep = [t for t in types if t["flavour"] == vec["flavour"]]
        keep += [x for x in pairs if all(x[k] == vec[k] for k in ("flavour", "variant", "a", "b"))]
        path = os.path.join(wd, "one.ndjson")
        write_ndjson(path, keep)
        mism, stat, proc = run_harness(out, ["replay", path])
        hit = [m for m in mism if m["case"].get("pred") == vec.get("pred")]
        for m in hit:
            print("MISMATCH [%s %s] %s" % (cfg[0], cfg[1], m["desc"]))
        print("reproduced" if hit else "not reproduced (%d evaluations, all as specified)" % stat["evaluations"])
        return 1 if hit else 0
    if "flavour" in case and "part" in case and "source" not in case:
        fm, pm = 1 << FLAVOURS.index(case["flavour"]), dict(PARTS)[case["part"]]
        ok, out = ops_builder(cfg, p, inc, build_driver(cfg))(fm, pm)
        print("builds now" if ok else out[-3000:])
        return 0 if ok else 1
    print(json.dumps(case, indent=1)[:4000])
    return 0
