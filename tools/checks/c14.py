"""C14 - fixed-length arrays: assignment, padding and string length are exact.

TLC model-checks StaticArray.tla (array of N cells over {NUL,'a','b'} with a
guard cell on each side; one action per overload of static_array_ref) for every
N in scope, every content and every legal argument, and prints every generated
transition [pre, act, post, ret] (ACTION_CONSTRAINT Emit).  The harness
c14_arrays.cpp replays each transition into the real static_array_ref - both
instantiated directly and obtained through sbeppc-generated message/composite
accessors - through every overload spelling and compares the whole memory and
the returned iterator.  A sample of the same vectors is transliterated into
static_asserts (constant evaluation, C++20 and later).  Random call sequences on
a live array are validated by StaticArrayTrace.tla.
"""
import json
import os
import random
import re
import shutil
import time

import schema as sch
import vlib
from vlib import tlc, mc, try_cxx, run_harness, write_ndjson

HARNESS_SRC = os.path.join(vlib.HARNESS, "c14_arrays.cpp")
GUARD = 71       # 'G': not in the alphabet, so any write to a guard cell is visible
GUARD_CONFIGS = [(GUARD, GUARD), (0, 0), (0, GUARD), (GUARD, 0)]   # NUL guards expose over-reads of strlen / strlen_r

CONFIGS_QUICK = [("g++", "c++11"), ("g++", "c++20"), ("clang++", "c++17")]
CONFIGS_THOROUGH = [(c, s) for c in ("g++", "clang++") for s in ("c++11", "c++14", "c++17", "c++20", "c++2b")]
VARIANTS = {"release": ["-DNDEBUG"], "checked": ["-DSBEPP_ENABLE_ASSERTS_WITH_HANDLER"]}
# thorough tier: the release variant for the whole matrix, the assert-handler variant for these
CHECKED_THOROUGH = [("g++", "c++11"), ("clang++", "c++14"), ("clang++", "c++17"), ("g++", "c++20"), ("clang++", "c++20"),
                    ("g++", "c++2b")]

CFG = """CONSTANT N = %d
CONSTANT GL = %d
CONSTANT GR = %d
INIT Init
NEXT Next
VIEW View
ACTION_CONSTRAINT Emit
INVARIANT TypeOK
INVARIANT GuardsIntact
INVARIANT StrlenCrossCheck
PROPERTY Frame
PROPERTY ContentExact
PROPERTY TailExact
PROPERTY CountExact
PROPERTY ReadsArePure
PROPERTY RoundTrip
"""

OPS = ["assign_string_ptr", "assign_string_range", "assign_range", "assign_count", "assign_iters", "assign_ilist",
       "fill", "strlen", "strlen_r"]


def c14_schema():
    """Arrays of every in-scope length (length 1 is not an array in sbepp) and
    element type as message fields and composite members, interleaved so that
    every array has foreign bytes on both sides."""
    types = [{"kind": "composite", "name": "messageHeader", "elements": [
        {"kind": "type", "name": n, "prim": "uint16"} for n in ("blockLength", "templateId", "schemaId", "version")]}]
    for p, prim in (("c", "char"), ("u", "uint8"), ("i", "int8")):
        for n in (0, 2, 3, 4):
            types.append({"kind": "type", "name": "%s%d" % (p, n), "prim": prim, "length": n})
    types.append({"kind": "composite", "name": "comp", "elements": [
        {"kind": "type", "name": "cc3", "prim": "char", "length": 3},
        {"kind": "type", "name": "cu2", "prim": "uint8", "length": 2},
        {"kind": "type", "name": "cc0", "prim": "char", "length": 0},
        {"kind": "type", "name": "ci4", "prim": "int8", "length": 4},
        {"kind": "ref", "name": "rc2", "type": "c2"}]})
    order = ["c4", "u2", "c0", "i3", "c2", "u4", "i2", "c3", "u3", "i4", "u0", "i0"]
    fields = [{"name": "f" + t, "id": k + 1, "type": t} for k, t in enumerate(order)]
    fields.append({"name": "fcomp", "id": 50, "type": "comp"})
    return {"package": "c14", "id": 1, "version": 0, "byteOrder": "littleEndian", "types": types,
            "messages": [{"name": "m", "id": 1, "fields": fields, "groups": [], "data": []}]}


def vec_sig(x):
    a = x["act"]
    return a["op"] + ("/eos=" + a["eos"] if a["eos"] else "") + "/N=%d" % x["n"]


# ------------------------------------------------------ constant evaluation --

CX_PRELUDE = r'''#include <sbepp/sbepp.hpp>
#include <c14/c14.hpp>
#include <array>
#include <cstddef>
#include <string_view>
#include <utility>
#if SBEPP_HAS_CONSTEXPR_ACCESSORS
using sbepp::eos_null;
template<std::size_t N> using M = std::array<char, N + 2>;   // guard, N cells, guard
template<std::size_t K> using S = std::array<char, K>;
template<std::size_t N> struct out { M<N> mem; long ret; bool clean; constexpr bool operator==(const out&) const = default; };
// static_array_ref instantiated directly; one NUL byte follows the right guard
template<std::size_t N> struct dir {
    template<class F> static constexpr out<N> run(M<N> pre, F f) {
        std::array<char, N + 3> buf{};
        for(std::size_t i = 0; i < N + 2; i++) buf[i] = pre[i];
        sbepp::detail::static_array_ref<char, char, N, void> a{buf.data() + 1, N};
        const long r = f(a);
        out<N> o{};
        for(std::size_t i = 0; i < N + 2; i++) o.mem[i] = buf[i];
        o.ret = r; o.clean = buf[N + 2] == 0;
        return o;
    }
};
// array view from a generated accessor; located through sbepp::addressof
template<class Acc, std::size_t N> struct gen {
    template<class F> static constexpr out<N> run(M<N> pre, F f) {
        std::array<char, 96> buf{}, bg{};
        for(std::size_t i = 0; i < buf.size(); i++) buf[i] = static_cast<char>(0xA5u ^ i);
        c14::messages::m<char> m{buf.data(), buf.size()};
        auto a = Acc::get(m);
        static_assert(decltype(a)::size() == N);
        const std::size_t at = static_cast<std::size_t>(sbepp::addressof(a) - buf.data()) - 1;
        for(std::size_t i = 0; i < N + 2; i++) buf[at + i] = pre[i];
        bg = buf;
        const long r = f(a);
        out<N> o{};
        for(std::size_t i = 0; i < N + 2; i++) { o.mem[i] = buf[at + i]; bg[at + i] = buf[at + i]; }
        o.ret = r; o.clean = bg == buf;
        return o;
    }
};
struct fc0 { static constexpr auto get(auto m) { return m.fc0(); } };
struct fc2 { static constexpr auto get(auto m) { return m.fc2(); } };
struct fc3 { static constexpr auto get(auto m) { return m.fc3(); } };
struct fc4 { static constexpr auto get(auto m) { return m.fc4(); } };
struct cc3 { static constexpr auto get(auto m) { return m.fcomp().cc3(); } };
template<class R, std::size_t K> constexpr auto cx_assign_string_ptr(auto pre, S<K + 1> s, eos_null e) {
    return R::run(pre, [&](auto a) -> long { return a.assign_string(s.data(), e) - a.begin(); }); }
template<class R, std::size_t K> constexpr auto cx_assign_string_range(auto pre, S<K> s, eos_null e) {
    return R::run(pre, [&](auto a) -> long { return a.assign_string(s, e) - a.begin(); }); }
template<class R, std::size_t K> constexpr auto cx_assign_string_sv(auto pre, S<K> s, eos_null e) {
    return R::run(pre, [&](auto a) -> long { return a.assign_string(std::string_view{s.data(), K}, e) - a.begin(); }); }
template<class R, std::size_t K> constexpr auto cx_assign_range(auto pre, S<K> s) {
    return R::run(pre, [&](auto a) -> long { return a.assign_range(s) - a.begin(); }); }
template<class R> constexpr auto cx_assign_count(auto pre, std::size_t c, char v) {
    return R::run(pre, [&](auto a) -> long { return a.assign(c, v) - a.begin(); }); }
template<class R, std::size_t K> constexpr auto cx_assign_iters(auto pre, S<K> s) {
    return R::run(pre, [&](auto a) -> long { return a.assign(s.data(), s.data() + K) - a.begin(); }); }
template<class R, std::size_t K, std::size_t... I> constexpr auto cx_ilist(auto pre, S<K> s, std::index_sequence<I...>) {
    return R::run(pre, [&](auto a) -> long { return a.assign({s[I]...}) - a.begin(); }); }
template<class R, std::size_t K> constexpr auto cx_assign_ilist(auto pre, S<K> s) {
    return cx_ilist<R, K>(pre, s, std::make_index_sequence<K>{}); }
template<class R> constexpr auto cx_fill(auto pre, char v) {
    return R::run(pre, [&](auto a) -> long { a.fill(v); return -1; }); }
template<class R> constexpr auto cx_strlen(auto pre) {
    return R::run(pre, [&](auto a) -> long { return static_cast<long>(a.strlen()); }); }
template<class R> constexpr auto cx_strlen_r(auto pre) {
    return R::run(pre, [&](auto a) -> long { return static_cast<long>(a.strlen_r()); }); }
'''

GEN_ACC = {0: ["fc0"], 2: ["fc2"], 3: ["fc3", "cc3"], 4: ["fc4"]}


def _arr(xs):
    return "{" + ",".join(str(x) for x in xs) + "}"


def cx_exprs(x):
    """C++ constant expressions performing the vector's call (one per runner /
    spelling).  Pure change of notation."""
    n, a = x["n"], x["act"]
    op, s, k = a["op"], a["s"], len(a["s"])
    pre = "M<%d>%s" % (n, _arr(x["pre"]))
    runners = ["dir<%d>" % n] + ["gen<%s,%d>" % (acc, n) for acc in GEN_ACC.get(n, [])]
    eos = "eos_null::" + a["eos"] if a["eos"] else ""
    calls = []
    for r in runners:
        if op == "assign_string_ptr":
            calls.append("cx_assign_string_ptr<%s,%d>(%s, S<%d>%s, %s)" % (r, k, pre, k + 1, _arr(s + [0]), eos))
        elif op == "assign_string_range":
            calls.append("cx_assign_string_range<%s,%d>(%s, S<%d>%s, %s)" % (r, k, pre, k, _arr(s), eos))
            calls.append("cx_assign_string_sv<%s,%d>(%s, S<%d>%s, %s)" % (r, k, pre, k, _arr(s), eos))
        elif op in ("assign_range", "assign_iters", "assign_ilist"):
            calls.append("cx_%s<%s,%d>(%s, S<%d>%s)" % (op, r, k, pre, k, _arr(s)))
        elif op == "assign_count":
            calls.append("cx_assign_count<%s>(%s, %d, %d)" % (r, pre, a["count"], a["value"]))
        elif op == "fill":
            calls.append("cx_fill<%s>(%s, %d)" % (r, pre, a["value"]))
        else:
            calls.append("cx_%s<%s>(%s)" % (op, r, pre))
    return calls


def cx_sig(x):
    sig = "constexpr/" + vec_sig(x)
    if x["act"]["op"] in ("strlen", "strlen_r"):
        # argument class (a property of the input, not of the outcome)
        sig += "/content=" + ("has-nul" if 0 in x["pre"][1:-1] else "no-nul")
    return sig


def cx_source(vectors):
    """static_assert(<call> == out{post, ret, untouched-elsewhere}) - post and
    ret are TLC's; returns (text, {line number: (signature, vector, call)})."""
    lines = CX_PRELUDE.split("\n")
    if lines[-1] == "":
        lines.pop()
    index = {}
    for x in vectors:
        exp = "out<%d>{M<%d>%s, %d, true}" % (x["n"], x["n"], _arr(x["post"]), x["ret"])
        for call in cx_exprs(x):
            lines.append('static_assert(%s == %s, "cx %s");' % (call, exp, cx_sig(x)))
            index[len(lines)] = (cx_sig(x), x, call)
    lines.append("#endif")
    lines.append("int main(){}")
    return "\n".join(lines) + "\n", index


CX_FLAGS = {"g++": ["-fconstexpr-ops-limit=1000000000", "-fmax-errors=0"],
            "clang++": ["-fconstexpr-steps=100000000", "-ferror-limit=0"]}


def cx_failures(path, out, index):
    """Map compiler errors of the static_assert TU to the vectors on those
    lines.  Errors elsewhere are infrastructure failures."""
    fails = {}
    other = []
    for l in out.splitlines():
        m = re.match(r"^%s:(\d+):\d+: error: (.*)$" % re.escape(path), l)
        if m:
            ln = int(m.group(1))
            if ln in index:
                fails.setdefault(ln, m.group(2).strip())
            else:
                other.append(l)
        elif re.search(r": (fatal )?error: ", l) and not l.startswith(path):
            # errors inside sbepp.hpp etc. are notes of a failing assert only if one of ours failed too
            other.append(l)
    return fails, other


def cx_sample(vectors, rnd, per_stratum):
    strata = {}
    for x in vectors:
        strata.setdefault((x["n"], x["act"]["op"], x["act"]["eos"]), []).append(x)
    out = []
    for key in sorted(strata):
        xs = strata[key]
        if key[1] in ("strlen", "strlen_r") or len(xs) <= per_stratum:
            out += xs
        else:
            out += rnd.sample(xs, per_stratum)
    return out


# ------------------------------------------------------------------ the run --

def build_one(job, inc):
    (comp, std), variant, n = job
    return job, try_cxx(HARNESS_SRC, flags=["-std=" + std, "-O1", "-w", "-DC14_N=%d" % n] + VARIANTS[variant],
                        compiler=comp, includes=[inc], name="c14-%s-%s-%s-n%d" % (comp, std, variant, n))


def run(v, tier, seed):
    rnd = random.Random(seed)
    thorough = tier == "thorough"
    wd = vlib.fresh_dir(os.path.join(vlib.WORK, "c14", "run"))
    shutil.rmtree(os.path.join(vlib.REPLAYS, "C14"), ignore_errors=True)     # replay files of earlier runs
    inc = vlib.gen_headers(sch.to_xml(c14_schema()), "c14")
    ns = [0, 1, 2, 3, 4] if thorough else [0, 1, 2, 3]
    configs = CONFIGS_THOROUGH if thorough else CONFIGS_QUICK

    # compile in the background while TLC runs
    from concurrent.futures import ThreadPoolExecutor
    build_jobs = [(cfg, var, n) for cfg in configs for var in sorted(VARIANTS) for n in ns
                  if var == "release" or not thorough or cfg in CHECKED_THOROUGH]
    pool = ThreadPoolExecutor(max_workers=max(2, vlib.NCPU - 2))
    build_futs = [pool.submit(build_one, j, inc) for j in build_jobs]

    # ---- 1. TLC: model-check the array machine, emit every transition ------
    tjobs = []
    for n in ns:
        for gl, gr in (GUARD_CONFIGS if (n < 4) else GUARD_CONFIGS[:2]):
            tjobs.append((n, gl, gr))

    def tlc_job(job):
        n, gl, gr = job
        name = "MC_StaticArray_%d_%d_%d" % job
        d = os.path.join(wd, "mc_%d_%d_%d" % job)
        mc(d, name, "StaticArray", "", CFG % job)
        return job, tlc(name, cwd=d, workers=1, xmx="2g", timeout=600)

    t_phase = [time.time()]

    def phase(what):
        vlib.log("c14: %s done after %.0fs" % (what, time.time() - t_phase[0]))

    vectors = {n: [] for n in ns}
    states = trans = 0
    taken = {}
    for job, r in vlib.parallel(tjobs, tlc_job, nproc=6):
        n, gl, gr = job
        if not r.ok:
            v.violation("spec/N=%d" % n, "StaticArray.tla violates %s in the model itself (guards %d/%d):\n%s" % (
                r.violated, gl, gr, r.raw[-1500:]))
            continue
        if r.generated - r.distinct != len(r.records):
            raise vlib.InfraError("TLC generated %d transitions but printed %d vectors (N=%d)" % (
                r.generated - r.distinct, len(r.records), n))
        vectors[n] += r.records
        states += r.distinct
        trans += r.generated - r.distinct      # 'generated' counts the initial states too
        for rec in r.records:
            taken[rec["act"]["op"]] = taken.get(rec["act"]["op"], 0) + 1
        v.part("tlc_N%d_guards_%d_%d" % job, distinct_states=r.distinct, transitions=len(r.records), wall_s=round(r.wall, 1))
    for op in OPS:
        if not taken.get(op):
            raise vlib.InfraError("vacuity: action %s was never taken by TLC" % op)
    v.part("actions", **taken)
    nvec = sum(len(x) for x in vectors.values())
    vec_paths = {}
    for n in ns:
        vec_paths[n] = os.path.join(wd, "vectors-N%d.ndjson" % n)
        write_ndjson(vec_paths[n], vectors[n])

    phase("tlc (%d vectors)" % nvec)
    # ---- 2. replay every transition into the real code ---------------------
    bins = []
    for f in build_futs:
        job, (ok, out) = f.result()
        (comp, std), variant, n = job
        if not ok:
            v.violation("compile/%s/%s/%s/N=%d" % (comp, std, variant, n),
                        "harness does not compile against static_array_ref / generated arrays:\n" + out[-2500:])
        else:
            bins.append((job, out))
    pool.shutdown()
    phase("builds (%d)" % len(build_jobs))
    total_eval = 0
    distinct = {n: 0 for n in ns}
    replayed = 0
    def harness_once(binary, args):
        """Run the harness; (mismatches, stat) or ("crash", signal, tail) when it was
        killed before it could report (the harness reports crashes of replayed calls
        itself, as <sig>/crash mismatches with "crashed" in STAT)."""
        p = vlib.run([binary] + args, timeout=900)
        if p.returncode < 0 and p.returncode != -999:
            return ("crash", p.returncode, p.stdout[-600:] + p.stderr[-600:])
        mism, stat = [], None
        for line in p.stdout.splitlines():
            if line.startswith("MISMATCH "):
                mism.append(json.loads(line[9:]))
            elif line.startswith("STAT "):
                stat = json.loads(line[5:])
        if stat is None:
            raise vlib.InfraError("harness %s %s gave no STAT (rc=%s)\nstdout: %s\nstderr: %s" % (
                binary, args, p.returncode, p.stdout[-2000:], p.stderr[-3000:]))
        return (mism, stat, p)

    def replay_job(jb):
        """A harness killed while replaying legal calls is an observable of undefined
        behaviour in the code under test: reported (not an infrastructure error), but
        only if a second run repeats it."""
        args = ["replay", vec_paths[jb[0][2]]]
        res = harness_once(jb[1], args)
        if res[0] == "crash" or res[1].get("crashed"):
            res2 = harness_once(jb[1], args)
            if not (res2[0] == "crash" or res2[1].get("crashed")):
                return res2
        return res

    results = vlib.parallel(bins, replay_job)
    per_cfg = {}
    for (job, b), res in zip(bins, results):
        (comp, std), variant, n = job
        if res[0] == "crash":
            v.violation("replay/crash/N=%d" % n,
                        "[%s %s %s] the harness was killed by signal %d (twice) while replaying legal calls on arrays of "
                        "length %d: %s" % (comp, std, variant, -res[1], n, res[2]),
                        {"kind": "crash", "config": [comp, std, variant], "n": n, "vectors": vec_paths[n]})
            continue
        mism, stat, p = res
        total_eval += stat["evaluations"]
        distinct[n] = max(distinct[n], stat["distinct"])
        replayed += len(vectors[n])
        key = "replay_%s_%s_%s" % (comp, std, variant)
        pc = per_cfg.setdefault(key, {"evaluations": 0, "mismatches": 0, "has_ranges": stat.get("has_ranges")})
        pc["evaluations"] += stat["evaluations"]
        pc["mismatches"] += stat["mismatches"]
        # toolchain class: this binary takes sbepp's constant-evaluation branches at run time
        trait = "/toolchain=consteval-at-runtime" if stat.get("consteval_at_runtime") else ""
        if trait:
            pc["consteval_at_runtime"] = True
        for m in mism:
            v.violation("replay/" + m["sig"] + trait, "[%s %s %s] %s" % (comp, std, variant, m["desc"]),
                        {"kind": "replay", "config": [comp, std, variant], "n": n, "vector": m["case"]})
    for k, pc in sorted(per_cfg.items()):
        v.part(k, **pc)

    phase("replay")
    # ---- 3. constant evaluation: vectors as static_asserts (C++20 and later)
    allv = [x for n in ns for x in vectors[n]]
    sample = cx_sample(allv, rnd, 250 if thorough else 40)
    txt, index = cx_source(sample)
    cxp = os.path.join(wd, "c14_cx.cpp")
    vlib.write(cxp, txt)
    cx_cfgs = [c for c in configs if c[1] in ("c++20", "c++2b")]
    cx_done = 0

    def cx_build(cfg):
        return try_cxx(cxp, flags=["-std=" + cfg[1], "-w"] + CX_FLAGS[cfg[0]], compiler=cfg[0], includes=[inc],
                       syntax_only=True, name="c14cx", timeout=1500)

    for cfg, (ok, out) in zip(cx_cfgs, vlib.parallel(cx_cfgs, cx_build)):
        fails, other = cx_failures(cxp, out, index)
        if not ok and not fails:
            raise vlib.InfraError("c14 constexpr TU failed for another reason [%s %s]:\n%s" % (cfg[0], cfg[1], out[-3000:]))
        cx_done += len(index)
        for ln, msg in sorted(fails.items()):
            sig, x, call = index[ln]
            v.violation(sig, "[%s %s] constant evaluation of %s differs from the spec's post=%s ret=%d: %s" % (
                cfg[0], cfg[1], call, x["post"], x["ret"], msg),
                {"kind": "constexpr", "config": list(cfg), "vector": x, "call": call, "compiler_says": msg})
    v.part("constexpr", static_asserts_per_config=len(index), vectors=len(sample), configs=["%s %s" % c for c in cx_cfgs])

    phase("constexpr (%d static_asserts x %d configs)" % (len(index), len(cx_cfgs)))
    # ---- 4. recorded call sequences of a live array, validated by the spec --
    traces = 0
    tr_events = 0
    rec_bins = {}
    for job, b in bins:       # record with the assert-handler build of g++ c++20 (ranges code path)
        if job[1] == "checked" and (job[0] == ("g++", "c++20") or job[2] not in rec_bins):
            rec_bins[job[2]] = b
    episodes, length = (60, 40) if thorough else (20, 30)
    tr_jobs = []
    for n in ns:
        if n not in rec_bins:
            continue
        tp = os.path.join(wd, "trace-N%d.ndjson" % n)
        for attempt in (1, 2):
            p = vlib.run([rec_bins[n], "record", seed * 8 + n, episodes, length, tp, n])
            if p.returncode >= 0 or p.returncode == -999:
                break
        if p.returncode < 0 and p.returncode != -999:
            v.violation("trace/crash/N=%d" % n, "the harness was killed by signal %d (twice) while driving "
                        "static_array_ref<char,char,%d> with legal random calls (seed %d)" % (-p.returncode, n, seed * 8 + n),
                        {"kind": "crash", "n": n, "cmd": [rec_bins[n], "record", seed * 8 + n, episodes, length, tp, n]})
            continue
        if p.returncode != 0:
            raise vlib.InfraError("record mode failed: " + p.stderr[-2000:])
        tr_jobs.append((n, tp, False))
    if tr_jobs:
        # self-test of the binding: the same log with one observed byte changed must be rejected
        n0, tp0, _ = tr_jobs[-1]
        lines = open(tp0).read().splitlines()
        k = len(lines) // 2
        while json.loads(lines[k])["e"] == "Reset":      # a Reset may set any content
            k += 1
        ev = json.loads(lines[k])
        ev["mem"][1 if n0 else 0] ^= 3
        lines[k] = json.dumps(ev)
        bad = os.path.join(wd, "trace-corrupted.ndjson")
        vlib.write(bad, "\n".join(lines) + "\n")
        tr_jobs.append((n0, bad, True))

    def tv(job):
        n, tp, corrupted = job
        # all these runs share the module name TV_StaticArrayTrace; stagger them so that TLC
        # metadirs derived from module name + start time can never collide
        time.sleep(0.2 * tr_jobs.index(job))
        return vlib.validate_trace(v, "StaticArrayTrace", tp, os.path.join(wd, "tv%d%s" % (n, "x" if corrupted else "")),
                                   "CONSTANT N = %d\nCONSTANT GL = %d\nCONSTANT GR = %d\n" % (n, GUARD, GUARD))
    for (n, tp, corrupted), (acc, r) in zip(tr_jobs, vlib.parallel(tr_jobs, tv, nproc=6)):
        nlines = sum(1 for _ in open(tp))
        if corrupted:
            if acc:
                raise vlib.InfraError("trace validation is vacuous: a corrupted log was accepted")
            v.part("trace_selftest", corrupted_log_rejected=True, matched_prefix=max(0, r.depth - 1))
            continue
        tr_events += nlines
        if acc:
            traces += episodes
        else:
            keep = os.path.join(vlib.ensure_dir(os.path.join(vlib.REPLAYS, "C14")), "trace-N%d.ndjson" % n)
            shutil.copy(tp, keep)
            v.violation("trace/N=%d" % n,
                        "recorded call log of static_array_ref<char,char,%d> is not a behaviour of StaticArray.tla "
                        "(matched %d of %d lines)" % (n, max(0, r.depth), nlines),
                        {"kind": "trace", "trace": keep, "n": n, "tlc_tail": r.raw[-800:]})
    v.part("traces", episodes_per_N=episodes, events=tr_events)

    phase("traces")
    samples = []
    big = vectors[ns[-1]]
    for want in (lambda x: x["act"]["op"] == "assign_string_ptr" and x["act"]["eos"] == "single" and len(x["act"]["s"]) == x["n"] - 1,
                 lambda x: x["act"]["op"] == "assign_string_range" and x["act"]["eos"] == "all" and 0 in x["act"]["s"],
                 lambda x: x["act"]["op"] == "assign_count" and x["act"]["count"] == 2,
                 lambda x: x["act"]["op"] == "strlen_r" and x["ret"] not in (0, x["n"])):
        hits = [x for x in big if want(x) and x["pre"] != x["post"] or (want(x) and x["act"]["op"] == "strlen_r")]
        if hits:
            samples.append(hits[len(hits) // 2])
    if not samples:
        samples = big[:2]
    v.add(states=states, transitions=trans, evaluations=total_eval + cx_done + tr_events,
          distinct_nontrivial=sum(distinct.values()),
          traces_validated_against_impl=replayed + traces,
          rule="one vector per transition generated by TLC: N in %s x all 3^N contents over {NUL,a,b} x guard values "
               "{71,0} x every action with every legal argument (C strings without NUL / ranges with NUL of length 0..N, "
               "3 eos modes, count 0..N x 3 values, fill x 3 values, strlen, strlen_r); each is replayed on 5 direct "
               "instantiations and 4-6 generated accessors through every overload spelling, per compiler/standard/"
               "assert variant; distinct = distinct (pre, action, arguments); non-trivial = reads or writes a cell or "
               "returns a value (everything but fill on N = 0)" % ns,
          samples=samples, exhaustive=True)
    v.assumptions += ["element values {0,97,98} stand for all byte values (the code does not branch on a value other than NUL)",
                      "guard cells: one byte each side (71 or 0); in generated messages all other bytes of the buffer are compared too",
                      "TLC, the installed compilers / libstdc++ and nlohmann::json are trusted",
                      "constant evaluation covers Byte = Value = char only (other element types need a reinterpret_cast)"]
    return v.finish("model_checking")


# ------------------------------------------------------------------ replay --

def replay(rp):
    """Re-execute the single failing case of a replay file."""
    print(json.dumps({k: rp[k] for k in ("property", "signature", "desc")}, indent=1))
    case = rp.get("case") or {}
    inc = vlib.gen_headers(sch.to_xml(c14_schema()), "c14")
    wd = vlib.ensure_dir(os.path.join(vlib.WORK, "c14", "replay"))
    kind = case.get("kind")
    if kind == "replay":
        if not isinstance(case.get("vector"), dict):
            print("the failing call could not be recorded; run ./verif check C14")
            return 0
        vec = {k: case["vector"][k] for k in ("n", "pre", "act", "post", "ret")}
        comp, std, variant = case["config"]
        vp = os.path.join(wd, "vector.ndjson")
        write_ndjson(vp, [vec])
        _, (ok, out) = build_one(((comp, std), variant, vec["n"]), inc)
        if not ok:
            print("harness does not compile:\n" + out[-3000:])
            return 1
        mism, stat, p = run_harness(out, ["replay", vp])
        print("vector: " + json.dumps(vec))
        for m in mism:
            print("MISMATCH " + m["sig"] + ": " + m["desc"])
        print("%d evaluation(s), %d mismatch(es)" % (stat["evaluations"], stat["mismatches"]))
        return 1 if mism else 0
    if kind == "constexpr":
        txt, index = cx_source([case["vector"]])
        cxp = os.path.join(wd, "c14_cx_one.cpp")
        vlib.write(cxp, txt)
        comp, std = case["config"]
        ok, out = try_cxx(cxp, flags=["-std=" + std, "-w"] + CX_FLAGS[comp], compiler=comp, includes=[inc],
                          syntax_only=True, name="c14cx1")
        fails, other = cx_failures(cxp, out, index)
        for ln, msg in sorted(fails.items()):
            print("%s: %s\n   %s" % (index[ln][0], index[ln][2], msg))
        print("%d static_assert(s), %d failing" % (len(index), len(fails)))
        if not ok and not fails:
            print(out[-3000:])
            return 2
        return 1 if fails else 0
    if kind == "trace":
        class _V:
            pass
        acc, r = vlib.validate_trace(_V(), "StaticArrayTrace", case["trace"], os.path.join(wd, "tv"),
                                     "CONSTANT N = %d\nCONSTANT GL = %d\nCONSTANT GR = %d\n" % (case["n"], GUARD, GUARD))
        print("trace %s: %s (matched %d lines)" % (case["trace"], "accepted" if acc else "rejected", r.depth))
        return 0 if acc else 1
    print("nothing to re-execute for this file; run ./verif check C14")
    return 0
