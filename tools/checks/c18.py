"""C18 - traits and tags mirror the schema (translation validation).

Per schema:
  TLC evaluates spec/Traits.tla (ExpectedTraits(S): one record per entity, every
  documented trait as text; PathsUnique / ChildrenOK / OffsetsConsistent /
  OffsetColumnOK are checked on the spec itself) and prints the table;
  the real sbeppc generates the headers; a generated TU (tools/traitsgen.py:
  names and kinds only) prints the trait table of those headers twice - by
  explicit named tag paths and by walking the children tag lists from the schema
  tag; this module diffs per (entity, trait).  Python never computes an expected
  value: it only joins the two tables on (path, trait name).
"""
import json
import os
import re

import catalogue
import schema as sch
import traitsgen
import vlib
from vlib import mc, tlc, try_cxx

ASSUMES = ["PathsUnique", "TraitNamesUnique", "ChildrenOK", "OffsetsConsistent", "OffsetColumnOK"]
LISTS = ("type_tags", "message_tags", "field_tags", "group_tags", "data_tags", "element_tags", "value_tags", "choice_tags")

CONFIGS_QUICK = [("g++", "c++17"), ("clang++", "c++11")]
CONFIGS_THOROUGH = [(c, s) for c in ("g++", "clang++") for s in ("c++11", "c++14", "c++17", "c++20", "c++2b")]


def generated(tier, seed):
    """schemas built by spec/SchemaBuild.tla (TLC simulation): trait tables of shapes nobody wrote by hand"""
    import schemabuild
    return schemabuild.generated_schemas(10 if tier == "thorough" else 3, seed)


def schemas(tier, seed=1):
    hs = catalogue.header_schemas()
    if tier == "quick":
        want = ("h_reorder", "h_types64_be", "h_gaps", "h_counters_be", "h_extra", "h_refs")
        hs = [S for S in hs if S["package"] in want]
    return catalogue.view_schemas() + hs + [traitsgen.c18_schema(), traitsgen.c18_fp_schema("float"), traitsgen.c18_fp_schema("double"), traitsgen.c18_text_schema(), traitsgen.c18_quote_schema(), traitsgen.c18_ctrl_schema()] + generated(tier, seed) + repo_schemas()


def repo_schemas():
    """the repository's own schemas (tools/xmlimport.py): trait tables of schemas that were not written for Traits.tla"""
    import viewpipe
    return viewpipe.repo_schemas("thorough", 0, 0)


# ------------------------------------------------------------ expected -----

def expected_table(S, wd):
    """TLC -> {path: {"kind","tk","traits":{name: text}}} (+ TLCResult)."""
    name = S["package"]
    body = "SDef == %s\n" % traitsgen.schema_tla(S)
    body += "".join("ASSUME A_%s == %s\n" % (a, a) for a in ASSUMES)
    body += "ASSUME A_Emit == EmitTable\n"
    d = os.path.join(wd, name, "mc")
    mc(d, "MC_Traits", "Traits", body, "CONSTANT S <- SDef\n")
    r = tlc("MC_Traits", cwd=d, workers=1, xmx="2g", timeout=600)
    table = {}
    order = []
    for rec in r.records:
        table[rec["path"]] = {"kind": rec["kind"], "tk": rec["tk"], "traits": {k: v for k, v in rec["traits"]}}
        order.append(rec["path"])
    return table, order, r


# -------------------------------------------------------------- actual -----

def parse_output(text):
    ent, walk, visit, done = {}, [], {}, None
    for line in text.splitlines():
        tag, _, rest = line.partition(" ")
        if tag not in ("ENT", "EXTRA", "WALK", "VISIT", "DONE"):
            continue
        try:
            rec = json.loads(rest)
        except ValueError:
            raise vlib.InfraError("c18 TU printed a line that is not JSON: %r" % line[:300])
        if tag in ("ENT", "EXTRA"):
            ent.setdefault(rec["path"], {}).update(rec["traits"])
        elif tag == "WALK":
            walk.append((rec["path"], rec["traits"]["list"], rec["traits"]["tags"]))
        elif tag == "VISIT":
            visit.setdefault(rec["path"], []).append(rec["traits"])
        else:
            done = rec
    return ent, walk, visit, done


def same(trait, exp, act, unordered):
    if trait in unordered:
        return sorted(exp.split(",")) == sorted(act.split(","))
    return exp == act


def sig_for(schema, path, kind, trait, walk=False):
    if trait in LISTS:
        return "%s/%s/%s:%s" % ("walk-children" if walk else "children", kind, schema, path)
    if trait == "tag_kinds":
        return "%s/%s/%s:%s" % ("walk-predicate" if walk else "predicate", kind, schema, path)
    return "%s/%s/%s/%s:%s" % ("walk" if walk else "trait", kind, trait, schema, path)


def diff(schema, table, order, text):
    """-> (number of comparisons, [(signature, description, case)])"""
    ent, walk, visit, done = parse_output(text)
    if done is None:
        raise vlib.InfraError("c18 TU for %s did not finish:\n%s" % (schema, text[-1500:]))
    unordered = set(table["schema"]["traits"].get("unordered_lists", "").split(","))
    n, out = 0, []

    def bad(sig, desc, case):
        out.append((sig, desc, case))

    # pass 1: every (entity, trait) of the expected table
    for path in order:
        e = table[path]
        act = ent.get(path)
        for trait, exp in e["traits"].items():
            if trait == "unordered_lists":
                continue
            n += 1
            if act is None or trait not in act:
                bad(sig_for(schema, path, e["kind"], trait),
                    "%s %s `%s`: trait `%s` expected %r but the generated headers do not provide it" % (schema, e["kind"], path, trait, exp),
                    {"schema": schema, "path": path, "trait": trait, "expected": exp, "actual": None})
            elif not same(trait, exp, act[trait], unordered):
                bad(sig_for(schema, path, e["kind"], trait),
                    "%s %s `%s`: trait `%s` is %r, the schema says %r" % (schema, e["kind"], path, trait, act[trait], exp),
                    {"schema": schema, "path": path, "trait": trait, "expected": exp, "actual": act[trait]})
    # pass 2: the generic walk from the schema tag
    for parent, lst, tags in walk:
        n += 1
        e = table.get(parent)
        if e is None:
            bad("walk-unknown-tag/%s:%s" % (schema, parent), "%s: the tag-list walk reached a tag that is no schema entity (list %s of `%s`: %s)" % (schema, lst, parent, tags),
                {"schema": schema, "path": parent, "list": lst, "actual": tags})
            continue
        exp = e["traits"].get(lst)
        if exp is None or not same(lst, exp, tags, unordered):
            bad(sig_for(schema, parent, e["kind"], lst, walk=True),
                "%s %s `%s`: %s found by walking is [%s], the schema says [%s]" % (schema, e["kind"], parent, lst, tags, exp),
                {"schema": schema, "path": parent, "trait": lst, "expected": exp, "actual": tags})
    for path in order:
        n += 1
        if path not in visit:
            bad("walk-unreached/%s/%s:%s" % (table[path]["kind"], schema, path),
                "%s %s `%s` is not reachable from %s::schema through the children tag lists" % (schema, table[path]["kind"], path, schema),
                {"schema": schema, "path": path})
    for path, recs in visit.items():
        e = table.get(path)
        if e is None:
            n += 1
            bad("walk-unknown-tag/%s:%s" % (schema, path), "%s: the tag-list walk visited a tag that is no schema entity: %s" % (schema, recs[0]),
                {"schema": schema, "path": path, "actual": recs[0]})
            continue
        for rec in recs:
            for trait in ("name", "has_offset", "offset", "tag_kinds"):
                exp = e["traits"].get(trait)
                if exp is None:
                    continue
                n += 1
                if rec.get(trait) != exp:
                    bad(sig_for(schema, path, e["kind"], trait, walk=True),
                        "%s %s `%s` as met by the tag-list walk: `%s` is %r, the schema says %r" % (schema, e["kind"], path, trait, rec.get(trait), exp),
                        {"schema": schema, "path": path, "trait": trait, "expected": exp, "actual": rec.get(trait)})
    return n, out


# ----------------------------------------------------------------- run -----

def run_schema(S, configs, wd):
    name = S["package"]
    res = {"schema": name, "spec_violation": None, "rejected": None, "compile": [], "runs": [], "entities": 0, "tlc_wall": 0.0}
    table, order, r = expected_table(S, wd)
    res["tlc_wall"] = round(r.wall, 1)
    if not r.ok:
        m = re.search(r"Assumption line (\d+)", r.raw)
        which = "?"
        if m:
            lines = vlib.read(os.path.join(wd, name, "mc", "MC_Traits.tla")).splitlines()
            ln = int(m.group(1))
            if 0 < ln <= len(lines):
                which = lines[ln - 1][:60]
        res["spec_violation"] = "the trait table of Traits.tla is inconsistent with the layout rules of Sbe.tla for schema %s: `%s` is false\n%s" % (
            name, which, r.raw[-1200:])
        return res
    if len(order) < 3:
        raise vlib.InfraError("TLC printed no trait table for %s:\n%s" % (name, r.raw[-1500:]))
    res["entities"] = len(order)
    res["table"] = table
    xml = sch.to_xml(S)
    try:
        inc = vlib.gen_headers(xml, name)
    except vlib.SbeppcRejected as ex:
        res["rejected"] = str(ex)
        return res
    sdir = vlib.ensure_dir(os.path.join(wd, name))
    src = os.path.join(sdir, "c18_tu_%s.cpp" % name)
    vlib.write(src, traitsgen.traits_cpp(S))
    probe = os.path.join(sdir, "c18_hdr_%s.cpp" % name)
    vlib.write(probe, "#include <%s/%s.hpp>\nint main() { return 0; }\n" % (name, name))

    def one(cfg):
        comp, std = cfg
        flags = ["-std=" + std, "-O0", "-w"]
        ok, out = try_cxx(src, flags=flags, compiler=comp, includes=[inc], name="c18-%s-%s-%s" % (name, comp, std))
        if not ok:
            hok, hout = try_cxx(probe, flags=flags, compiler=comp, includes=[inc], name="c18h-%s-%s-%s" % (name, comp, std), syntax_only=True)
            return cfg, None, ("header" if not hok else "tu", hout if not hok else out)
        p = vlib.run([out], timeout=120)
        if p.returncode != 0:
            raise vlib.InfraError("c18 TU for %s (%s %s) exited %s: %s" % (name, comp, std, p.returncode, p.stderr[-800:]))
        n, bad = diff(name, table, order, p.stdout)
        return cfg, (n, bad), None

    for cfg, r2, err in vlib.parallel(configs, one, nproc=max(1, min(len(configs), 5))):
        if r2 is None:
            res["compile"].append({"config": list(cfg), "what": err[0], "out": err[1][-2500:]})
        else:
            res["runs"].append({"config": list(cfg), "comparisons": r2[0], "bad": r2[1]})
    return res


def first_error(out):
    for l in out.splitlines():
        if "error" in l:
            return l.strip()[:400]
    return out.strip().splitlines()[-1][:400] if out.strip() else ""


def run(v, tier, seed):
    thorough = tier == "thorough"
    wd = vlib.fresh_dir(os.path.join(vlib.WORK, "c18", tier))
    configs = CONFIGS_THOROUGH if thorough else CONFIGS_QUICK
    vlib.build_sbeppc("plain")
    Ss = sorted(schemas(tier, seed), key=lambda S: -len(S["types"]))   # long jobs first
    results = vlib.parallel(Ss, lambda S: run_schema(S, configs, wd), nproc=8)

    programs = comparisons = entities = 0
    samples = []
    for S, res in zip(Ss, results):
        name = res["schema"]
        if res["spec_violation"]:
            v.violation("spec/%s" % name, res["spec_violation"])
            continue
        if res["rejected"]:
            v.violation("pipeline/sbeppc-rejects/%s" % name, "sbeppc rejects a schema the spec has a trait table for: " + res["rejected"][-800:])
            continue
        entities += res["entities"]
        for cf in res["compile"]:
            comp, std = cf["config"]
            if cf["what"] == "header":
                v.violation("compile/header/%s/%s-%s" % (name, comp, std),
                            "the generated header of schema `%s` does not compile by itself [%s %s]: %s" % (name, comp, std, first_error(cf["out"])),
                            {"schema": name, "config": cf["config"], "xml": sch.to_xml(S), "compiler_output": cf["out"]})
            else:
                v.violation("compile/tu/%s/%s-%s" % (name, comp, std),
                            "the trait TU of schema `%s` does not compile against the generated headers [%s %s]: %s" % (name, comp, std, first_error(cf["out"])),
                            {"schema": name, "config": cf["config"], "compiler_output": cf["out"]})
        for r in res["runs"]:
            programs += 1
            comparisons += r["comparisons"]
            seen = set()
            for sig, desc, case in r["bad"]:
                case = dict(case, config=r["config"], xml=sch.to_xml(S) if len(seen) == 0 else "(see first case of this schema)")
                seen.add(sig)
                v.violation(sig, "[%s %s] %s" % (r["config"][0], r["config"][1], desc), case)
        v.part(name, entities=res["entities"], tlc_wall_s=res["tlc_wall"],
               configs=["%s/%s" % tuple(r["config"]) for r in res["runs"]],
               comparisons=sum(r["comparisons"] for r in res["runs"]),
               disagreements=sum(len(r["bad"]) for r in res["runs"]))
        if res.get("table") and len(samples) < 6:
            t = res["table"]
            pick = [p for p in t if t[p]["kind"] in ("field", "ref", "composite")][:40]
            if pick:
                p = pick[(len(samples) * 7) % len(pick)]
                samples.append({"schema": name, "entity": p, "kind": t[p]["kind"], "expected_traits_from_TLC": t[p]["traits"]})
    v.add(programs=programs, disagreements_checked=comparisons, evaluations=comparisons, distinct_nontrivial=entities,
          rule="one program = one (schema, compiler, standard) TU compiled against the real sbeppc output and run; one comparison = "
               "one (entity, trait) pair of the table TLC derives from the schema (plus the tag lists / names / offsets / predicates "
               "found by walking the children tag lists from the schema tag); distinct_nontrivial = schema entities with a trait table",
          samples=samples, schemas=len(Ss), entities=entities, exhaustive=False)
    v.assumptions += ["x86-64 Linux type identities: std::size_t and std::uint64_t are the same type",
                      "explicit integer min/max/null values in the schemas are canonical decimal; float/double lexemes are those listed in Traits.tla FpLex (exact hexfloat text per lexeme, binary32 and binary64)",
                      "where the documentation does not determine a trait (offset of constants and of public types with an explicit offset, "
                      "description/deprecated of a <ref> that does not state them, presence of an optional-declared composite field, "
                      "value_type_tag of non-numeric constant fields, default minValue of float/double, explicit min/max/null of char "
                      "types, absent characterEncoding) the table leaves it out"]
    return v.finish("translation_validation")


def replay(rp):
    print(json.dumps({k: v for k, v in rp.items() if k != "case"}, indent=1))
    case = rp.get("case") or {}
    for k in ("schema", "path", "trait", "expected", "actual", "config"):
        if k in case:
            print("%-9s %s" % (k + ":", case[k]))
    if case.get("xml") and case["xml"].startswith("<"):
        d = vlib.ensure_dir(os.path.join(vlib.WORK, "c18", "replay"))
        x = os.path.join(d, "%s.xml" % case.get("schema", "schema"))
        vlib.write(x, case["xml"])
        print("schema written to %s; re-generate with: %s --output-dir %s/out %s" % (x, vlib.build_sbeppc("plain"), d, x))
    if case.get("compiler_output"):
        print(case["compiler_output"][-3000:])
    print("re-run: ./verif check C18 (every schema is part of every run)")
    return 0
