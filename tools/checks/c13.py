"""C13 - <data> views behave like a vector bounded by their buffer.

1. TLC model-checks spec/DynArray.tla (ideal vector `seq` against the byte-level
   effect on length prefix and payload cells; invariants TypeOK, PrefixIsSize,
   MatchesVector, GuardIntact; action properties Frame, DontCareZone, IterPos)
   over the complete closure for capacity 4 (thorough) / 3 (quick), and emits
   every (pre-state, call) once as a JSON vector through ACTION_CONSTRAINT Emit.
2. harness/c13_dynarray.cpp replays every vector on the real
   sbepp::detail::dynamic_array_ref for 4 length types x 2 byte orders x
   {char,uint8,int8} x {direct instantiation, <data> member of a generated
   message} x every C++ spelling of the call (asserts-with-handler build: a legal
   call that reaches the assertion handler is a mismatch; plus one
   SBEPP_DISABLE_ASSERTS build for the functional behaviour of such calls).
3. The harness records long seeded random call sequences (capacity 32-64, and
   one large-capacity log per length type so that multi-byte prefixes occur);
   spec/DynArrayTrace.tla must accept them.

Python never computes an expected value: it runs the tools and moves JSON.
"""
import json
import os
import random
import shutil

import schema as sch
import vlib
from vlib import tlc, mc, try_cxx

LENS = (8, 16, 32, 64)
ELEMS = ("char", "uint8", "int8")


def c13_schema(order):
    """One message per (length type, element type), each with a single <data>
    member; package c13le / c13be."""
    pkg = "c13le" if order == "littleEndian" else "c13be"
    types = [{"kind": "composite", "name": "messageHeader", "elements": [
        {"kind": "type", "name": n, "prim": "uint16"} for n in ("blockLength", "templateId", "schemaId", "version")]}]
    msgs = []
    k = 1
    for L in LENS:
        for et in ELEMS:
            n = "vd_uint%d_%s" % (L, et)
            types.append({"kind": "composite", "name": n, "elements": [
                {"kind": "type", "name": "length", "prim": "uint%d" % L},
                {"kind": "type", "name": "varData", "prim": et, "length": 0}]})
            msgs.append({"name": "m_uint%d_%s" % (L, et), "id": k, "fields": [], "groups": [],
                         "data": [{"name": "d", "id": 1, "type": n}]})
            k += 1
    return {"package": pkg, "id": 1, "version": 0, "byteOrder": order, "types": types, "messages": msgs}


MC_CFG = """CONSTANT Cap = %d
CONSTANT G = 2
CONSTANT Zero = 0
CONSTANT Bg = 3
CONSTANT Elem <- ElemDef
CONSTANT CellVals <- CellValsDef
INIT Init
NEXT Next
VIEW view
ACTION_CONSTRAINT Emit
INVARIANT TypeOK
INVARIANT PrefixIsSize
INVARIANT MatchesVector
INVARIANT GuardIntact
PROPERTY Frame
PROPERTY DontCareZone
PROPERTY IterPos
"""
MC_BODY = "ElemDef == {1, 2}\nCellValsDef == {0, 1, 2, 3}\n"

CONFIGS_QUICK = [("g++", "c++17"), ("clang++", "c++20"), ("g++", "c++11")]
CONFIGS_THOROUGH = [(c, s) for c in ("g++", "clang++") for s in ("c++11", "c++14", "c++17", "c++20", "c++2b")]
ASSERT_FLAG = "-DSBEPP_ENABLE_ASSERTS_WITH_HANDLER"
NOASSERT_FLAG = "-DSBEPP_DISABLE_ASSERTS"


def emit_vectors(wd, cap, workers):
    """Run TLC on the exhaustive model; stream the emitted vectors to a file."""
    d = os.path.join(wd, "mc")
    mc(d, "MC_DynArray", "DynArray", MC_BODY, MC_CFG % cap)
    path = os.path.join(wd, "vectors.ndjson")
    st = {"n": 0, "dups": 0, "seen": set(), "ops": {}, "samples": [], "sampled": set()}
    with open(path, "w") as f:
        def on_record(rec):
            line = json.dumps(rec, separators=(",", ":"))
            h = hash(line)
            if h in st["seen"]:
                st["dups"] += 1
                return
            st["seen"].add(h)
            st["n"] += 1
            op = rec["act"]["op"]
            st["ops"][op] = st["ops"].get(op, 0) + 1
            if op not in st["sampled"] and len(st["samples"]) < 8 and rec["pre"]["size"] >= 2 and \
                    rec["post"]["size"] != rec["pre"]["size"] and op in (
                    "erase_range", "insert_range", "resize_di", "assign_string", "insert_n", "resize", "erase", "insert_ilist"):
                st["sampled"].add(op)
                st["samples"].append({"pre": {"seq": rec["pre"]["seq"], "mem": rec["pre"]["mem"]}, "act": rec["act"],
                                      "post": {"seq": rec["post"]["seq"], "mem": rec["post"]["mem"],
                                               "prefix_u16": rec["post"]["pfx"]["w2"]}, "ret": rec["ret"]})
            f.write(line + "\n")
        r = tlc("MC_DynArray", cwd=d, workers=workers, xmx="6g", timeout=1200, on_record=on_record)
    st["seen"] = None
    st["sampled"] = None
    return r, path, st


def build_all(configs, incs, noassert_cfgs):
    """One binary per (compiler, standard, length type[, noassert])."""
    src = os.path.join(vlib.HARNESS, "c13_dynarray.cpp")
    jobs = [(c, s, L, False) for (c, s) in configs for L in LENS] + \
           [(c, s, L, True) for (c, s) in noassert_cfgs for L in LENS]

    def build(job):
        comp, std, L, noassert = job
        flags = ["-std=" + std, "-O1", "-w", "-DC13_LEN=%d" % L, NOASSERT_FLAG if noassert else ASSERT_FLAG]
        return job, try_cxx(src, flags=flags, compiler=comp, includes=incs,
                            name="c13-%s-%s-%d%s" % (comp, std, L, "-na" if noassert else ""))
    return vlib.parallel(jobs, build)


# ---- constant evaluation: a sample of the vectors as static_asserts (C++20) ----
# The same entry points are constexpr from C++20 on, where std::copy & co. take
# other code paths (no memmove).  Python only changes notation: bytes, sizes and
# iterator offsets are the vector's; letters map to the harness's bytes.
LETTER = {0: 0x00, 1: 0x41, 2: 0xC2, 3: 0x7E}
CX_FRONT, CX_REAR = [0x61, 0x62, 0x63, 0x64], [0x6a, 0x6b, 0x6c, 0x6d]


def cx_call(a):
    C = lambda x: "C(0x%02x)" % LETTER[x]
    xs = ", ".join(C(x) for x in a["vs"])
    k = len(a["vs"])
    arr = "const char xs[%d] = {%s}; " % (k + 1, xs)
    op = a["op"]
    pos, pos2, n = a["pos"], a["pos2"], a["n"]
    return {
        "push_back": lambda: "d.push_back(%s);" % C(a["v"]),
        "pop_back": lambda: "d.pop_back();",
        "insert": lambda: "r.ret = d.insert(d.begin() + %d, %s) - d.begin();" % (pos, C(a["v"])),
        "insert_n": lambda: "r.ret = d.insert(d.begin() + %d, S(%d), %s) - d.begin();" % (pos, n, C(a["v"])),
        "insert_range": lambda: arr + "r.ret = d.insert(d.begin() + %d, xs, xs + %d) - d.begin();" % (pos, k),
        "insert_ilist": lambda: "r.ret = d.insert(d.begin() + %d, std::initializer_list<char>{%s}) - d.begin();" % (pos, xs),
        "erase": lambda: "r.ret = d.erase(d.begin() + %d) - d.begin();" % pos,
        "erase_range": lambda: "r.ret = d.erase(d.begin() + %d, d.begin() + %d) - d.begin();" % (pos, pos2),
        "resize": lambda: "d.resize(S(%d));" % n,
        "resize_v": lambda: "d.resize(S(%d), %s);" % (n, C(a["v"])),
        "resize_di": lambda: "d.resize(S(%d), sbepp::default_init);" % n,
        "assign_n": lambda: "d.assign(S(%d), %s);" % (n, C(a["v"])),
        "assign_range_it": lambda: arr + "d.assign(xs, xs + %d);" % k,
        "assign_ilist": lambda: "d.assign(std::initializer_list<char>{%s});" % xs,
        "assign_string": lambda: 'd.assign_string(%s);' % ("".join('"\\x%02x"' % LETTER[x] for x in a["vs"]) or '""'),
        "assign_range": lambda: "std::array<char, %d> ar{{%s}}; d.assign_range(ar);" % (k, xs),
        "clear": lambda: "d.clear();",
    }[op]()


def cx_class(vec):
    a, old, new = vec["act"], vec["pre"]["size"], vec["post"]["size"]
    if a["op"] == "erase_range":
        return "last=end" if a["pos2"] == old else "last<end"
    if a["op"].startswith("insert"):
        return "pos=end" if a["pos"] == old else "pos<end"
    if a["op"].startswith(("resize", "assign")):
        return "grow" if new > old else "shrink" if new < old else "same"
    return "any"


def cx_source(sample):
    L = ['#include <sbepp/sbepp.hpp>', '#include <array>', '#include <initializer_list>',
         'using S = std::uint16_t;', 'constexpr char C(int b) { return static_cast<char>(static_cast<unsigned char>(b)); }',
         'template<std::size_t N> struct R { std::array<char, N> buf; long ret; unsigned long long size; };',
         'template<std::size_t N> constexpr bool same(const R<N>& r, const std::array<int, N>& e, long ret, unsigned long long size) {',
         '  for(std::size_t i = 0; i < N; i++) if(e[i] >= 0 && static_cast<unsigned char>(r.buf[i]) != e[i]) return false;',
         '  return r.ret == ret && r.size == size; }']
    n = 0
    for idx, vec in sample:
        ncell = len(vec["pre"]["mem"])
        N = 4 + 2 + ncell + 4
        for order, E in (("le", "little"), ("be", "big")):
            pre = CX_FRONT + vec["pre"]["pfx"]["w2"][order] + [LETTER[x] for x in vec["pre"]["mem"]] + CX_REAR
            post = CX_FRONT + vec["post"]["pfx"]["w2"][order] + [LETTER[x] if x >= 0 else -1 for x in vec["post"]["mem"]] + CX_REAR
            fn = "cx_%d_%s" % (idx, order)
            L.append("constexpr R<%d> %s() { R<%d> r{{%s}, -1, 0}; "
                     "sbepp::detail::dynamic_array_ref<char, char, sbepp::uint16_t, sbepp::endian::%s> d{r.buf.data() + 4, r.buf.data() + %d}; "
                     "%s r.size = d.size(); return r; }" % (N, fn, N, ", ".join("C(%d)" % b for b in pre), E, 4 + 2 + vec["cap"], cx_call(vec["act"])))
            L.append('static_assert(same<%d>(%s(), {{%s}}, %d, %d), "cx %s/%s vector=%d order=%s");' % (
                N, fn, ", ".join(str(b) for b in post), vec["ret"], vec["post"]["size"], vec["act"]["op"], cx_class(vec), idx, order))
            n += 1
    L.append("int main() {}")
    return "\n".join(L) + "\n", n


def run_replay(binary, vec_path):
    """Run the harness in replay mode.  Unlike vlib.run_harness this tolerates a
    harness killed by the code under test: the harness then prints a CRASH line
    naming the vector; a crash that repeats is an observation, not an
    infrastructure error.  Returns (mismatches, stat or None, crash or None)."""
    crash = None
    for attempt in (1, 2):
        p = vlib.run([binary, "replay", vec_path], timeout=1500)
        mism, stat, cr = [], None, None
        for line in p.stdout.splitlines():
            try:
                if line.startswith("MISMATCH "):
                    mism.append(json.loads(line[9:]))
                elif line.startswith("STAT "):
                    stat = json.loads(line[5:])
                elif line.startswith("CRASH "):
                    cr = json.loads(line[6:])
            except ValueError:
                pass   # a line cut short by the crash
        if stat is not None and p.returncode == 0:
            return mism, stat, None
        if cr is None or p.returncode == -999:
            raise vlib.InfraError("harness %s replay failed without a CRASH report (rc=%s)\nstdout: %s\nstderr: %s" % (
                binary, p.returncode, p.stdout[-1500:], p.stderr[-2000:]))
        if crash is not None and (cr["line"], cr["inst"], cr["op"], cr["sp"]) == (crash["line"], crash["inst"], crash["op"], crash["sp"]):
            return mism, None, cr
        crash = cr
    raise vlib.InfraError("harness %s crashed irreproducibly: %s" % (binary, cr))


def nth_line(path, n):
    with open(path) as f:
        for i, line in enumerate(f, 1):
            if i == n:
                return json.loads(line)
    return None


def jobname(job):
    comp, std, L, noassert = job
    return "%s %s uint%d%s" % (comp, std, L, " noasserts" if noassert else "")


def run(v, tier, seed):
    rnd = random.Random(seed)
    thorough = tier == "thorough"
    wd = vlib.fresh_dir(os.path.join(vlib.WORK, "c13", "run"))
    shutil.rmtree(os.path.join(vlib.REPLAYS, "C13"), ignore_errors=True)   # stale replays of earlier runs
    incs = [vlib.gen_headers(sch.to_xml(c13_schema("littleEndian")), "c13le"),
            vlib.gen_headers(sch.to_xml(c13_schema("bigEndian")), "c13be")]

    # ---- 1. TLC: model-check DynArray and emit every transition ----------
    cap = 4 if thorough else 3
    configs = CONFIGS_THOROUGH if thorough else CONFIGS_QUICK
    noassert_cfgs = [("g++", "c++17"), ("clang++", "c++20")] if thorough else [("g++", "c++17")]
    from concurrent.futures import ThreadPoolExecutor
    with ThreadPoolExecutor(max_workers=2) as ex:   # compile while TLC runs
        fb = ex.submit(build_all, configs, incs, noassert_cfgs)
        ft = ex.submit(emit_vectors, wd, cap, max(2, vlib.NCPU // 4))
        mr, vec_path, st = ft.result()
        built = fb.result()
    v.part("tlc", cap=cap, distinct_states=mr.distinct, generated=mr.generated, depth=mr.depth, vectors=st["n"],
           duplicate_vectors_dropped=st["dups"], per_op=st["ops"], wall_s=round(mr.wall, 1))
    if not mr.ok:
        v.violation("spec/DynArray", "DynArray.tla violates %s in the model itself:\n%s" % (mr.violated, mr.raw[-2500:]))
        v.add(states=max(1, mr.distinct), transitions=max(1, mr.generated), evaluations=0, distinct_nontrivial=0,
              rule="model-level failure", samples=["(model-level failure)"])
        return v.finish("model_checking")
    if st["n"] == 0:
        raise vlib.InfraError("TLC emitted no vectors")

    # ---- 2. replay every vector on the real code --------------------------
    bins = []
    for job, (ok, out) in built:
        if not ok:
            v.violation("compile/%s/%s/uint%d%s" % (job[0], job[1], job[2], "/noasserts" if job[3] else ""),
                        "the harness (every documented dynamic_array_ref call, both iterator categories, both paths) "
                        "does not compile:\n" + out[-2500:])
        else:
            bins.append((job, out))
    total_eval = 0
    nontrivial = 0
    skip = set()
    results = vlib.parallel(bins, lambda jb: run_replay(jb[1], vec_path))
    for (job, b), (mism, stat, crash) in zip(bins, results):
        if crash is not None:
            vec = nth_line(vec_path, crash["line"])
            v.violation("replay/%s%s/crash" % (crash["op"], "." + crash["sp"] if crash["sp"] else ""),
                        "[%s] [%s] the harness was killed by signal %s while executing a call the spec allows "
                        "(vector %d: pre.seq=%s act=%s)" % (jobname(job), crash["inst"], crash["signal"], crash["line"],
                                                             vec and vec["pre"]["seq"], vec and json.dumps(vec["act"])),
                        {"harness": "c13_dynarray", "build": list(job), "case": {"vector": vec, "crash": crash}})
            v.part("replay " + jobname(job), crashed=crash)
        else:
            total_eval += stat["evaluations"]
            nontrivial = max(nontrivial, stat.get("nontrivial_vectors", 0))
            v.part("replay " + jobname(job), evaluations=stat["evaluations"], mismatches=stat["mismatches"],
                   vectors=stat.get("vectors"), per_op=stat["per_kind"])
            if stat.get("vectors") != st["n"]:
                raise vlib.InfraError("harness %s consumed %s of %d vectors" % (jobname(job), stat.get("vectors"), st["n"]))
        for m in mism:
            sig = "replay/" + m["sig"]
            if m["sig"].endswith("/asserted"):
                op, cls = m["sig"].split("/")[0].split(".")[0], m["sig"].split("/")[1]
                skip.add(op + ":" + cls)
            v.violation(sig, "[%s] %s" % (jobname(job), m["desc"]),
                        {"harness": "c13_dynarray", "build": list(job), "case": m["case"]})

    # ---- 2b. constant evaluation of a sample of the vectors (C++20 and later) ----
    want = 6000 if thorough else 1200
    pools = ([], [], [])
    with open(vec_path) as f:
        for i, line in enumerate(f, 1):
            # calls that move existing elements are where the order of evaluation inside the call matters
            k = 0 if ('"op":"insert"' in line or '"op":"erase"' in line) else \
                1 if ('"op":"insert' in line or '"op":"erase' in line) else 2
            pools[k].append(i)
    pick = set()
    for pool in pools:
        pick.update(rnd.sample(pool, min(len(pool), want // 3)))
    sample = []
    with open(vec_path) as f:
        for i, line in enumerate(f, 1):
            if i in pick:
                sample.append((i, json.loads(line)))
    txt, ncx = cx_source(sample)
    cxp = os.path.join(wd, "c13_cx.cpp")
    vlib.write(cxp, txt)
    cx_cfgs = [c for c in configs if c[1] in ("c++20", "c++2b")] or [("g++", "c++20")]
    if not thorough and ("g++", "c++20") not in cx_cfgs:
        cx_cfgs.append(("g++", "c++20"))
    cx_done = 0
    cx_res = vlib.parallel(cx_cfgs, lambda cfg: try_cxx(
        cxp, flags=["-std=" + cfg[1], "-w", NOASSERT_FLAG,
                    "-fconstexpr-ops-limit=1000000000" if cfg[0] == "g++" else "-fconstexpr-steps=100000000"],
        compiler=cfg[0], syntax_only=True, name="c13cx"))
    for cfg, (ok, out) in zip(cx_cfgs, cx_res):
        if ok:
            cx_done += ncx
            continue
        import re
        fails = [l for l in out.splitlines() if "static assertion failed" in l or "static_assert failed" in l]
        if not fails:
            raise vlib.InfraError("c13 constexpr TU failed for another reason (%s %s):\n%s" % (cfg[0], cfg[1], out[-3000:]))
        seen = {}
        for l in fails:
            m = re.search(r"cx ([a-z_]+)/([a-z<=]+) vector=(\d+) order=(le|be)", l)
            if m:
                seen.setdefault("constexpr/%s/%s" % (m.group(1), m.group(2)), []).append((int(m.group(3)), m.group(4), l.strip()))
        for sig, items in sorted(seen.items()):
            vi, order, l = items[0]
            v.violation(sig, "[%s %s, constant evaluation, %d failing static_assert(s) of this class] %s" % (cfg[0], cfg[1], len(items), l[:600]),
                        {"source": "static_assert", "build": list(cfg), "vector_line": vi, "order": order,
                         "case": {"vector": nth_line(vec_path, vi)}, "constexpr": True})
    v.part("constexpr", static_asserts_per_config=ncx, configs=["%s %s" % c for c in cx_cfgs], vectors_sampled=len(sample))

    # ---- 3. recorded call logs of the real code, validated by the spec ----
    traces = 0
    tr_events = 0
    abins = [(job, b) for job, b in bins if not job[3]]
    if abins:
        tjobs = []
        episodes, length = (12, 400) if thorough else (2, 400)
        for L in LENS:
            cands = [jb for jb in abins if jb[0][2] == L]
            if not cands:
                continue
            job, b = cands[rnd.randrange(len(cands))] if thorough else cands[0]
            tcap = 32 + rnd.randrange(33)
            tjobs.append((job, b, "std", seed * 8 + L, episodes, length, tcap))
            # large capacity: sizes beyond one prefix byte (uint8: up to its maximum)
            bigcap = 255 if L == 8 else 300 + rnd.randrange(300)
            tjobs.append((job, b, "big", seed * 8 + L + 1, 2 if thorough else 1, 60, bigcap))
            if thorough:
                # a second compiler/standard for the standard log
                job2, b2 = cands[rnd.randrange(len(cands))]
                tjobs.append((job2, b2, "std2", seed * 8 + L + 2, episodes, length, 32 + rnd.randrange(33)))

        # one process per validation: vlib.tlc derives its scratch directory from
        # (module name, pid, millisecond), which is not unique across threads of one
        # process validating with the same trace module
        from concurrent.futures import ProcessPoolExecutor
        with ProcessPoolExecutor(max_workers=max(2, vlib.NCPU // 2)) as ex:
            tres = list(ex.map(_tv_job, [(tj, wd, sorted(skip)) for tj in tjobs]))

        for tj, (tp, acc, r, crash) in zip(tjobs, tres):
            job, b, kind, s, ne, ln, tcap = tj
            nlines = sum(1 for _ in open(tp))
            tr_events += nlines
            if crash is not None:
                v.violation("trace/%s/crash" % crash["op"],
                            "[%s, capacity %d, seed %d] the harness was killed by signal %s in record mode during a legal "
                            "%s after %d logged events" % (jobname(job), tcap, s, crash["signal"], crash["op"], nlines),
                            {"harness": "c13_dynarray", "build": list(job), "record_args": [s, ne, ln, tcap], "crash": crash})
            v.part("trace uint%d %s" % (job[2], kind), build=jobname(job), seed=s, capacity=tcap, episodes=ne,
                   events=nlines, accepted=acc, tlc_wall_s=round(r.wall, 1))
            if acc:
                traces += ne
                continue
            keep = os.path.join(vlib.ensure_dir(os.path.join(vlib.REPLAYS, "C13")), os.path.basename(tp))
            shutil.copy(tp, keep)
            # the first line TLC could not match (diameter = matched lines)
            lines = open(tp).read().splitlines()
            bad = json.loads(lines[r.depth]) if 0 < r.depth < len(lines) else {}
            sig = "trace/%s%s" % (bad.get("e", "?"), "/asserted" if bad.get("asserted") else "")
            bad.pop("mem", None)
            v.violation(sig, "[%s, capacity %d] recorded call log is not a behaviour of DynArray.tla: matched %d of %d "
                             "lines; first unmatched event: %s" % (jobname(job), tcap, r.depth, nlines, json.dumps(bad)),
                        {"trace": keep, "capacity": tcap, "first_unmatched_line": r.depth + 1, "event": bad,
                         "tlc_tail": r.raw[-600:]})
    v.part("traces", skipped_classes=sorted(skip), events=tr_events,
           note="argument classes for which replay already reported an assertion on a legal call are not drawn in "
                "record mode (nothing sensible can follow an aborted call); they are reported by the replay step")

    v.add(states=mr.distinct, transitions=mr.generated, evaluations=total_eval + tr_events + cx_done,
          distinct_nontrivial=nontrivial, traces_validated_against_impl=st["n"] * len(bins) + traces,
          rule="TLC explores the complete closure of DynArray.tla for capacity %d (2-letter argument alphabet, cells over "
               "{zero, a, b, background}): every overload with every legal argument from every reachable (vector, "
               "slack cells) state; one vector per distinct (pre-state, call); each is executed for 24 (length type, "
               "byte order, element type) combinations x {direct, generated} x all C++ spellings x %d builds. "
               "A seeded sample of the vectors is also evaluated at compile time (static_assert, C++20/2b, char/uint16, both orders). "
               "distinct_nontrivial = vectors whose call changes the state or returns an iterator (counted by the "
               "harness). Beyond the bound: %d recorded random episodes validated by DynArrayTrace.tla."
               % (cap, len(bins), traces),
          samples=st["samples"] or ["(no sample)"], exhaustive=True)
    v.assumptions += ["host is little-endian x86-64; wire images of the prefix come from the spec for both orders",
                      "spec letters are mapped to bytes 0x00/0x41/0xC2 and a position-dependent background pattern",
                      "record mode draws only legal calls (the property is about calls valid for a vector)"]
    return v.finish("model_checking")


def _tv_job(arg):
    """record one log with the real code, validate it with DynArrayTrace (runs in a worker process)"""
    (job, b, kind, s, ne, ln, tcap), wd, skip = arg
    tp = os.path.join(wd, "trace-%d-%s.ndjson" % (job[2], kind))
    p = vlib.run([b, "record", s, ne, ln, tcap, tp, ",".join(skip)], timeout=600)
    crash = None
    if p.returncode != 0:
        for line in p.stdout.splitlines():
            if line.startswith("CRASH "):
                crash = json.loads(line[6:])
        if crash is None:
            raise vlib.InfraError("record mode failed (%s): rc=%s %s" % (jobname(job), p.returncode, p.stderr[-2000:]))
    acc, r = validate(None, tp, os.path.join(wd, "tv-%d-%s" % (job[2], kind)), tcap)
    return tp, acc, r, crash


def validate(v, trace_path, workdir, cap):
    consts = ("CONSTANT Cap = %d\nCONSTANT G = 4\nCONSTANT Zero = 0\nCONSTANT Bg = 0\n"
              "CONSTANT Elem <- ElemDef\nCONSTANT CellVals <- CellValsDef\n" % cap)
    return vlib.validate_trace(v, "DynArrayTrace", trace_path, workdir, consts,
                               body="ElemDef == 1 .. 255\nCellValsDef == 0 .. 255\n", timeout=900)


def replay(rp):
    case = rp.get("case") or {}
    print(json.dumps({k: rp[k] for k in ("property", "signature", "desc")}, indent=1))
    if "trace" in case:
        wd = vlib.fresh_dir(os.path.join(vlib.WORK, "c13", "replay"))
        acc, r = validate(None, case["trace"], wd, case["capacity"])
        print("trace %s: %s (matched %d lines)" % (case["trace"], "ACCEPTED" if acc else "REJECTED", r.depth))
        return 0 if acc else 1
    if case.get("constexpr"):
        txt, n = cx_source([(case["vector_line"], case["case"]["vector"])])
        wd = vlib.fresh_dir(os.path.join(vlib.WORK, "c13", "replay"))
        cxp = os.path.join(wd, "one_cx.cpp")
        vlib.write(cxp, txt)
        comp, std = case["build"]
        ok, out = try_cxx(cxp, flags=["-std=" + std, "-w", NOASSERT_FLAG], compiler=comp, syntax_only=True, name="c13cx1")
        print(cxp + (": static_asserts hold" if ok else ": FAILS\n" + out[-1500:]))
        return 0 if ok else 1
    if "case" in case:
        # re-execute the single transition with the same build
        comp, std, L, noassert = case["build"]
        incs = [vlib.gen_headers(sch.to_xml(c13_schema("littleEndian")), "c13le"),
                vlib.gen_headers(sch.to_xml(c13_schema("bigEndian")), "c13be")]
        flags = ["-std=" + std, "-O1", "-w", "-DC13_LEN=%d" % L, NOASSERT_FLAG if noassert else ASSERT_FLAG]
        b = vlib.cxx(os.path.join(vlib.HARNESS, "c13_dynarray.cpp"), flags=flags, compiler=comp, includes=incs,
                     name="c13-%s-%s-%d%s" % (comp, std, L, "-na" if noassert else ""))
        wd = vlib.fresh_dir(os.path.join(vlib.WORK, "c13", "replay"))
        vp = os.path.join(wd, "one.ndjson")
        vlib.write_ndjson(vp, [case["case"]["vector"]])
        mism, stat, crash = run_replay(b, vp)
        if crash:
            print("CRASH %s" % json.dumps(crash))
            return 1
        for m in mism:
            print("MISMATCH %s: %s" % (m["sig"], m["desc"]))
        print("%d mismatch(es) when re-executing the transition" % len(mism))
        return 1 if mism else 0
    print(json.dumps(case, indent=1)[:4000])
    return 0
