"""C05 - all size computations agree with the encoded size (current-schema
geometry; the extended geometry is C03's)."""
import viewpipe
from checks._view import run_view_check, replay  # noqa: F401


def want(case, sig):
    return sig.startswith("decode/") and case.get("aspect") == "size"


def run(v, tier, seed):
    return run_view_check(v, tier, seed, want, [viewpipe.view_results, viewpipe.header_results],
                          "size_bytes of message / every group / entry / data member vs the length of the SBE image part",
                          "SizesAgree + ImageSizes model-checked; run-time size_bytes of every view compared with the image")
