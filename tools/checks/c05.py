"""C05 - all size computations agree with the encoded size (current-schema
geometry; the extended geometry is C03's)."""
import viewpipe
from checks._view import run_view_check, replay  # noqa: F401


def want(case, sig):
    return (sig.startswith("decode/") and case.get("aspect") == "size") or sig.startswith("visit/cursor-size") \
        or sig.startswith("visit/end")


def fold_sub(v, pid, tier, seed, keep, why):
    """run property `pid`'s check as a sub-step and fold the violations whose
    signature satisfies keep() into this verdict"""
    import importlib
    import vlib
    sub = vlib.SubVerdict(pid, tier, seed)
    import os
    with vlib.file_lock(os.path.join(vlib.CACHE, "locks", pid)):
        importlib.import_module("checks." + pid.lower()).run(sub, tier, seed)
    n = 0
    for sig, desc, path in sub.violations:
        if keep(sig):
            n += 1
            v.violation("via-%s/%s" % (pid, sig), "[%s] %s" % (why, desc), {"see": path})
    v.part("via_" + pid, evaluations=sub.cov.get("evaluations"), folded_violations=n,
           states=sub.cov.get("states"), transitions=sub.cov.get("transitions"))
    v.add(evaluations=sub.cov.get("evaluations") or 0)


def run(v, tier, seed):
    # header values near the type limits (products beyond 31/32 bits): decided by
    # GroupIter.tla's boundary vectors (size_bytes feeds end()/back()), and the
    # trait-level size_bytes(counts..., total_data) formula by Traits.tla
    fold_sub(v, "C12", tier, seed, lambda s: "/from=end/" in s or "size" in s,
             "flat group size_bytes with boundary header values (GroupIter.tla huge-header vectors)")
    fold_sub(v, "C18", tier, seed, lambda s: "size_bytes" in s,
             "trait-level size_bytes (Traits.tla)")
    return run_view_check(v, tier, seed, want, [viewpipe.view_results, viewpipe.header_results, viewpipe.visit_results, viewpipe.gen_view_results, viewpipe.gen_visit_results,
                                                viewpipe.repo_view_results, viewpipe.repo_visit_results],
                          "size_bytes of message / every group / entry / data member vs the length of the SBE image part",
                          "SizesAgree + ImageSizes model-checked; run-time size_bytes of every view compared with the image")
