"""C15 - set choices are independent bits for every encoding width.

TLC model-checks BitSet.tla (invariants + action properties) and emits, for
every explored pre-state, the outcome of every operation; the harness runs the
generated set classes (sbeppc output for a schema declaring every index of
every width) on each vector.  Random call logs of the real classes are
validated by BitSetTrace.tla.  Constant evaluation: the same vectors as
static_asserts.
"""
import json
import os
import random

import schema as sch
import vlib
from vlib import tlc, mc, cxx, try_cxx, run_harness, write_ndjson

PRIM = {8: "uint8", 16: "uint16", 32: "uint32", 64: "uint64"}


_LEX = {}


def index_lexemes():
    """w -> the spelling of every choice index in the test schema, as BitSet.tla IndexLexeme gives it
    (one tiny TLC evaluation per width, remembered for the run)"""
    if _LEX:
        return _LEX
    wd = vlib.ensure_dir(os.path.join(vlib.WORK, "c15-lex"))

    def one(w):
        d = os.path.join(wd, "w%d" % w)
        mc(d, "MC_BitSetLex", "BitSet", "StartsDef == {{}}\nASSUME EmitLexemes\n",
           "CONSTANT W = %d\nCONSTANT Starts <- StartsDef\nINIT Init\nNEXT Next\nCONSTRAINT LexStop\n" % w)
        vlib.write(os.path.join(d, "MC_BitSetLex.tla"),
                   vlib.read(os.path.join(d, "MC_BitSetLex.tla")).replace("====", "LexStop == TLCGet(\"level\") < 2\n===="))
        r = tlc("MC_BitSetLex", cwd=d, workers=1, xmx="1g", timeout=600)
        recs = [x for x in r.records if x.get("kind") == "lex" and x["w"] == w]
        if not recs or len(recs[0]["lex"]) != w:
            raise vlib.InfraError("BitSet.tla gave no index lexemes for width %d:\n%s" % (w, r.raw[-800:]))
        return w, recs[0]["lex"]
    for w, lex in vlib.parallel([8, 16, 32, 64], one):
        _LEX[w] = lex
    return _LEX


def c15_schema():
    types = [{"kind": "composite", "name": "messageHeader", "elements": [
        {"kind": "type", "name": n, "prim": "uint16"} for n in ("blockLength", "templateId", "schemaId", "version")]}]
    lex = index_lexemes()
    for w in (8, 16, 32, 64):
        types.append({"kind": "set", "name": "s%d" % w, "enc": PRIM[w],
                      "choices": [{"name": "c%d" % i, "index": lex[w][i]} for i in range(w)]})
    msg = {"name": "m", "id": 1, "fields": [{"name": "f%d" % w, "id": w, "type": "s%d" % w} for w in (8, 16, 32, 64)],
           "groups": [], "data": []}
    return {"package": "c15", "id": 1, "version": 0, "byteOrder": "littleEndian", "types": types, "messages": [msg]}


def patterns(w, rnd, nrand):
    full = set(range(w))
    ps = [set(), full, set(range(0, w, 2)), set(range(1, w, 2))]
    for i in range(w):
        ps.append({i})
        ps.append(full - {i})
    for _ in range(nrand):
        ps.append({i for i in range(w) if rnd.random() < 0.5})
    uniq = []
    for p in ps:
        if p not in uniq:
            uniq.append(p)
    return uniq


def tla_set(s):
    return "{" + ",".join(str(i) for i in sorted(s)) + "}"


INVS = "INVARIANT TypeOK\nINVARIANT RawRoundTrip\nINVARIANT GetIsBit\nPROPERTY SetTouchesOneBit\nPROPERTY GetIsPure\n"

CONFIGS_QUICK = [("g++", "c++11"), ("g++", "c++20"), ("clang++", "c++17")]
CONFIGS_THOROUGH = [(c, s) for c in ("g++", "clang++") for s in ("c++11", "c++14", "c++17", "c++20", "c++2b")]


def hexlit(bs, w):
    return "0x" + "".join("%02x" % b for b in reversed(bs)) + {8: "u", 16: "u", 32: "u", 64: "ull"}[w]


def cx_source(vectors, limit):
    """Transliterate (a sample of) the TLC vectors into static_asserts: the
    expected values are TLC's, Python only changes notation."""
    L = ['#include <c15/c15.hpp>', '#if __cplusplus >= 201402L',
         'template<class S, class Tag, class T> constexpr T cx_set(T raw, bool b){ S s{raw}; sbepp::set_by_tag<Tag>(s, b); return *s; }',
         'template<class S, class Tag, class T> constexpr bool cx_get(T raw){ return sbepp::get_by_tag<Tag>(S{raw}); }']
    n = 0
    for v in vectors:
        w = v["w"]
        S = "c15::types::s%d" % w
        for i in range(w):
            if n >= limit:
                break
            tag = "c15::schema::types::s%d::c%d" % (w, i)
            raw = hexlit(v["val"], w)
            T = "std::uint%d_t" % w
            L.append('static_assert(cx_get<%s,%s,%s>(%s) == %s, "cx get w=%d i=%d val=%s");' % (
                S, tag, T, raw, "true" if v["get"][i] else "false", w, i, raw))
            L.append('static_assert(cx_set<%s,%s,%s>(%s,false) == %s, "cx set0 w=%d i=%d val=%s");' % (
                S, tag, T, raw, hexlit(v["set0"][i], w), w, i, raw))
            L.append('static_assert(cx_set<%s,%s,%s>(%s,true) == %s, "cx set1 w=%d i=%d val=%s");' % (
                S, tag, T, raw, hexlit(v["set1"][i], w), w, i, raw))
            L.append('static_assert(%s{%s}.c%d() == %s, "cx named get w=%d i=%d val=%s");' % (
                S, raw, i, "true" if v["get"][i] else "false", w, i, raw))
            n += 4
    L.append('#endif')
    L.append('int main(){}')
    return "\n".join(L) + "\n", n


def run(v, tier, seed):
    rnd = random.Random(seed)
    thorough = tier == "thorough"
    wd = vlib.fresh_dir(os.path.join(vlib.WORK, "c15"))
    inc = vlib.gen_headers(sch.to_xml(c15_schema()), "c15")

    # ---- 1. TLC: model-check the set machine and emit vectors ------------
    vectors = []
    states = trans = 0
    jobs = []
    # W=8: the complete machine (all 256 values, closed under every action)
    jobs.append((8, "SUBSET (0..7)", ""))
    # W=16: one step from a seeded sample of values (the complete 16-bit machine with emission
    # of every transition needs more than 40 minutes of TLC: thorough takes 8192 values instead)
    sample = [set(i for i in range(16) if (x >> i) & 1) for x in rnd.sample(range(65536), 8192 if thorough else 1024)]
    jobs.append((16, "{" + ",".join(tla_set(s) for s in patterns(16, rnd, 0) + sample) + "}", "BOUNDED"))
    for w in (32, 64):
        ps = patterns(w, rnd, 256 if thorough else 64)
        jobs.append((w, "{" + ",".join(tla_set(s) for s in ps) + "}", "BOUNDED"))

    def tlc_job(job):
        w, starts, cons = job
        name = "MC_BitSet%d" % w
        d = os.path.join(wd, "mc%d" % w)
        mc(d, name, "BitSet", "StartsDef == %s\nOneStepEmit == IF TLCGet(\"level\") < 2 THEN EmitState ELSE FALSE\n" % starts,
           "CONSTANT W = %d\nCONSTANT Starts <- StartsDef\nINIT Init\nNEXT Next\nCONSTRAINT %s\n%s" % (w, "OneStepEmit" if cons else "EmitState", INVS))
        return w, tlc(name, cwd=d, workers=1, xmx="4g", timeout=2400)

    for w, r in vlib.parallel(jobs, tlc_job):
        if not r.ok:
            v.violation("spec/w=%d" % w, "BitSet.tla violates %s in the model itself:\n%s" % (r.violated, r.raw[-1500:]))
            continue
        # EmitState is a CONSTRAINT: evaluated once per generated state; keep distinct pre-states
        seen = set()
        for rec in r.records:
            if rec.get("kind") == "lex":      # the constant-level EmitLexemes is evaluated at start-up of every run
                continue
            k = (rec["w"], tuple(rec["val"]))
            if k not in seen:
                seen.add(k)
                vectors.append(rec)
        states += r.distinct
        trans += r.generated
        v.part("tlc_w%d" % w, distinct_states=r.distinct, generated=r.generated, vectors=len(seen), wall_s=round(r.wall, 1))
    vec_path = os.path.join(wd, "vectors.ndjson")
    write_ndjson(vec_path, vectors)

    # ---- 2. replay every vector into the generated classes ----------------
    configs = CONFIGS_THOROUGH if thorough else CONFIGS_QUICK
    src = os.path.join(vlib.HARNESS, "c15_sets.cpp")

    def build(cfg):
        comp, std = cfg
        return cfg, try_cxx(src, flags=["-std=" + std, "-O1", "-w"], compiler=comp, includes=[inc], name="c15-%s-%s" % (comp, std))

    bins = []
    for cfg, (ok, out) in vlib.parallel(configs, build):
        if not ok:
            v.violation("compile/%s/%s" % cfg, "harness does not compile against generated set classes:\n" + out[-1500:])
        else:
            bins.append((cfg, out))
    total_eval = 0
    distinct = 0
    for (cfg, b), (mism, stat, p) in zip(bins, vlib.parallel(bins, lambda cb: run_harness(cb[1], ["replay", vec_path]))):
        total_eval += stat["evaluations"]
        distinct = max(distinct, stat["distinct"])
        v.part("replay_%s_%s" % cfg, **stat)
        for m in mism:
            v.violation("replay/" + m["sig"], "[%s %s] %s" % (cfg[0], cfg[1], m["desc"]),
                        {"harness": "c15_sets", "config": cfg, "vector": m["case"]})

    # ---- 3. constant evaluation: vectors as static_asserts ----------------
    sample = vectors if thorough else rnd.sample(vectors, min(len(vectors), 120))
    sample = sorted(sample, key=lambda x: -x["w"])
    txt, ncx = cx_source(sample, 40000 if thorough else 6000)
    cxp = os.path.join(wd, "c15_cx.cpp")
    vlib.write(cxp, txt)
    cx_cfgs = [c for c in configs if c[1] not in ("c++11",)]
    cx_done = 0
    for cfg, (ok, out) in zip(cx_cfgs, vlib.parallel(cx_cfgs, lambda cfg: try_cxx(
            cxp, flags=["-std=" + cfg[1], "-w", "-fconstexpr-ops-limit=1000000000" if cfg[0] == "g++" else "-fconstexpr-steps=100000000"],
            compiler=cfg[0], includes=[inc], syntax_only=True, name="c15cx"))):
        if ok:
            cx_done += ncx
            continue
        fails = [l for l in out.splitlines() if "static assertion failed" in l or "static_assert failed" in l]
        if not fails:
            # no assertion failed, yet the TU is ill-formed: an error located in sbepp.hpp / a generated header
            # means that the constant evaluation of a call the spec gives a value for is not a constant
            # expression at all (e.g. undefined behaviour inside a choice accessor)
            import re as _re
            errs = [l for l in out.splitlines() if "error:" in l and (
                vlib.SBEPP_INC in l or inc in l
                or _re.search(r"not an integral constant expression|non-constant condition|is not a constant expression", l))]
            if not errs:
                raise vlib.InfraError("c15 constexpr TU failed for another reason:\n" + out[-3000:])
            ctx = [l for l in out.splitlines() if "expansion of" in l or "in call to" in l][:3]
            v.violation("constexpr/ill-formed/%s" % cfg[0], "[%s %s] constant evaluation of a choice accessor is ill-formed:\n%s\n%s" % (
                cfg[0], cfg[1], "\n".join(errs[:3]), "\n".join(ctx)), {"source": "static_assert", "errors": errs[:5]})
            continue
        sigs = set()
        for l in fails:
            # message text: cx <op> w=<w> i=<i> val=...
            import re
            m = re.search(r"cx (named get|get|set0|set1) w=(\d+) i=(\d+)", l)
            if m:
                i = int(m.group(3))
                band = "0-7" if i < 8 else "8-15" if i < 16 else "16-30" if i < 31 else "31" if i < 32 else "32-63"
                sigs.add(("constexpr/%s/w=%s/idx=%s" % (m.group(1).replace(" ", "_")[:3], m.group(2), band), l))
        for sig, l in sorted(sigs)[:40]:
            v.violation(sig, "[%s %s] %s" % (cfg[0], cfg[1], l.strip()), {"source": "static_assert", "line": l.strip()})
    v.part("constexpr", static_asserts_per_config=ncx, configs=len(cx_cfgs))

    # ---- 4. recorded traces of the real classes, validated by the spec ----
    traces = 0
    tr_events = 0
    if bins:
        b0 = bins[-1][1]
        episodes, length = (40, 60) if thorough else (12, 40)
        tjobs = []
        for w in (8, 16, 32, 64):
            tp = os.path.join(wd, "trace%d.ndjson" % w)
            p = vlib.run([b0, "record", seed * 4 + w, episodes, length, tp, w])
            if p.returncode != 0:
                raise vlib.InfraError("record mode failed: " + p.stderr[-2000:])
            tjobs.append((w, tp))

        def tv(job):
            w, tp = job
            return job, vlib.validate_trace(v, "BitSetTrace", tp, os.path.join(wd, "tv%d" % w),
                                           "CONSTANT W = %d\nCONSTANT Starts <- StartsDef\n" % w,
                                           body="StartsDef == {{}}")  # Starts: declared constant, unused by the trace spec
        for (w, tp), (acc, r) in vlib.parallel(tjobs, tv_wrap(tv)):
            nlines = sum(1 for _ in open(tp))
            tr_events += nlines
            if acc:
                traces += episodes
            else:
                keep = os.path.join(vlib.ensure_dir(os.path.join(vlib.REPLAYS, "C15")), "trace%d.ndjson" % w)
                import shutil
                shutil.copy(tp, keep)
                v.violation("trace/w=%d" % w,
                            "recorded call log of generated set s%d is not a behaviour of BitSet.tla "
                            "(matched %d of %d lines)" % (w, max(0, r.depth), nlines),
                            {"trace": keep, "tlc_tail": r.raw[-800:]})
        v.part("traces", episodes_per_width=episodes, events=tr_events)

    v.add(states=states, transitions=trans, evaluations=total_eval + cx_done + tr_events, distinct_nontrivial=distinct,
          traces_validated_against_impl=len(vectors) * len(bins) + traces,
          rule="one vector per distinct (width, value) pre-state explored by TLC, each carrying get/set0/set1 of every index, "
               "visit order and equality; distinct = distinct pre-states; W=8 complete, W=16 %s, W=32/64 walking-one/zero, "
               "complements, alternating and seeded random values" % ("seeded sample of 8192 + patterns" if thorough else "seeded sample of 1024 + patterns"),
          samples=[{"w": x["w"], "val": x["val"], "get_0_7": x["get"][:8], "set1_of_idx3": x["set1"][3], "set0_of_idx3": x["set0"][3]} for x in (vectors[:1] + vectors[-1:])],
          exhaustive=False)
    v.assumptions += ["host is little-endian (underlying value bytes compared as little-endian digits)",
                      "the schema used declares every index 0..W-1 as a choice, ascending"]
    return v.finish("model_checking")


def tv_wrap(f):
    return f


def replay(rp):
    print(json.dumps(rp, indent=1))
    case = rp.get("case") or {}
    if "vector" in case:
        print("re-run: ./verif check C15 (the failing vector is part of every run; see 'vector' above)")
    return 0
